// units/lib0_v2/rt_uo.rs — C09 for the UIntOptRle column, sequences of ARBITRARY length (theorem_uintopt_round_trip).

/// n successive `read_u64` calls from state st
pub open spec fn uo_dec_n(st: UoSt, n: nat) -> Option<(Seq<u64>, UoSt)>
    decreases n,
{
    if n == 0 {
        Some((Seq::empty(), st))
    } else {
        match uintopt_step(st) {
            None => None,
            Some((v, st1)) => match uo_dec_n(st1, (n - 1) as nat) {
                None => None,
                Some((vs, st2)) => Some((seq![v] + vs, st2)),
            },
        }
    }
}

pub open spec fn uo_then(r: Option<(Seq<u64>, UoSt)>, b: nat) -> Option<(Seq<u64>, UoSt)> {
    match r {
        None => None,
        Some((v1, st1)) => match uo_dec_n(st1, b) {
            None => None,
            Some((v2, st2)) => Some((v1 + v2, st2)),
        },
    }
}

pub proof fn lemma_uo_dec_n_len(st: UoSt, n: nat)
    ensures
        uo_dec_n(st, n) is Some ==> uo_dec_n(st, n)->Some_0.0.len() == n,
    decreases n,
{
    if n > 0 {
        match uintopt_step(st) {
            None => {},
            Some((v, st1)) => { lemma_uo_dec_n_len(st1, (n - 1) as nat); },
        }
    }
}

pub proof fn lemma_uo_dec_n_add(st: UoSt, a: nat, b: nat)
    ensures
        uo_dec_n(st, a + b) == uo_then(uo_dec_n(st, a), b),
    decreases a,
{
    if a == 0 {
        match uo_dec_n(st, b) {
            None => {},
            Some((v2, st2)) => { assert(Seq::<u64>::empty() + v2 =~= v2); },
        }
    } else {
        match uintopt_step(st) {
            None => {},
            Some((v, st1)) => {
                lemma_uo_dec_n_add(st1, (a - 1) as nat, b);
                match uo_dec_n(st1, (a - 1) as nat) {
                    None => {},
                    Some((vs1, sta)) => {
                        match uo_dec_n(sta, b) {
                            None => {},
                            Some((v2, st2)) => { assert((seq![v] + vs1) + v2 =~= seq![v] + (vs1 + v2)); },
                        }
                    },
                }
            },
        }
    }
}

// ---- runs: (value, count)
pub type UoRun = (u64, u32);

/// a run the decoder reads back exactly: at least one element, value below 2^63 (it travels as a non-negative i64)
pub open spec fn uo_run_ok(r: UoRun) -> bool {
    r.1 >= 1 && r.0 < 0x8000_0000_0000_0000u64
}

pub open spec fn uo_runs_ok(rs: Seq<UoRun>) -> bool {
    forall|i: int| 0 <= i < rs.len() ==> uo_run_ok(#[trigger] rs[i])
}

pub open spec fn enc_runs_uo(rs: Seq<UoRun>) -> Seq<u8>
    decreases rs.len(),
{
    if rs.len() == 0 {
        Seq::empty()
    } else {
        enc_runs_uo(rs.drop_last()) + enc_run_uo(rs.last().0, rs.last().1)
    }
}

pub open spec fn rep64(v: u64, c: nat) -> Seq<u64> {
    Seq::new(c, |i: int| v)
}

pub open spec fn uo_expand(rs: Seq<UoRun>) -> Seq<u64>
    decreases rs.len(),
{
    if rs.len() == 0 {
        Seq::empty()
    } else {
        uo_expand(rs.drop_last()) + rep64(rs.last().0, rs.last().1 as nat)
    }
}

pub open spec fn uo_total(rs: Seq<UoRun>) -> nat
    decreases rs.len(),
{
    if rs.len() == 0 { 0 } else { uo_total(rs.drop_last()) + rs.last().1 as nat }
}

pub open spec fn uo_last_val(rs: Seq<UoRun>, l0: u64) -> u64 {
    if rs.len() == 0 { l0 } else { rs.last().0 }
}

/// j reads that need no refill
pub proof fn lemma_uo_counted(rest: Seq<u8>, v: u64, m: u32, j: nat)
    requires
        j <= m,
    ensures
        uo_dec_n(UoSt { rest, last: v, count: m }, j) == Some((rep64(v, j), UoSt { rest, last: v, count: (m - j) as u32 })),
    decreases j,
{
    let st = UoSt { rest, last: v, count: m };
    if j == 0 {
        assert(rep64(v, 0) =~= Seq::<u64>::empty());
    } else {
        lemma_uo_counted(rest, v, m, (j - 1) as nat);
        lemma_uo_dec_n_add(st, (j - 1) as nat, 1);
        let st1 = UoSt { rest, last: v, count: (m - (j - 1)) as u32 };
        let st2 = UoSt { rest, last: v, count: (m - j) as u32 };
        assert(uintopt_step(st1) == Some((v, st2)));
        assert(uo_dec_n(st2, 0) == Some((Seq::<u64>::empty(), st2)));
        assert(uo_dec_n(st1, 1) == Some((seq![v] + Seq::<u64>::empty(), st2)));
        assert(rep64(v, (j - 1) as nat) + (seq![v] + Seq::<u64>::empty()) =~= rep64(v, j));
    }
}

/// the header of a run as the encoder writes it, for values below 2^63
pub proof fn lemma_uo_header(v: u64, c: u32)
    requires
        uo_run_ok((v, c)),
    ensures
        enc_run_uo(v, c) == enc_sint(v as nat, c != 1) + (if c == 1 { Seq::<u8>::empty() } else { enc_uint((c - 2) as nat) }),
        sint_val(v, c != 1) == (if c == 1 { v as i64 } else { (-(v as int)) as i64 }),
        abs_i64(sint_val(v, true)) == v,
        (sint_val(v, false) as u64) == v,
{
    assert(v as i64 == v);
    if c == 1 {
        assert(enc_i64(v as i64) + Seq::<u8>::empty() =~= enc_i64(v as i64));
    }
}

/// the reads of one complete run, starting with the refill
pub proof fn lemma_uo_run(v: u64, c: u32, tail: Seq<u8>, l0: u64)
    requires
        uo_run_ok((v, c)),
    ensures
        uo_dec_n(UoSt { rest: enc_run_uo(v, c) + tail, last: l0, count: 0 }, c as nat)
            == Some((rep64(v, c as nat), UoSt { rest: tail, last: v, count: 0 })),
{
    let rest0 = enc_run_uo(v, c) + tail;
    let st0 = UoSt { rest: rest0, last: l0, count: 0 };
    lemma_uo_header(v, c);
    let e = enc_sint(v as nat, c != 1);
    if c == 1 {
        assert(rest0 =~= e + tail);
        lemma_dec_enc_sint(v, false, tail);
        assert(rest0.skip(e.len() as int) =~= tail);
    } else {
        let e2 = enc_uint((c - 2) as nat);
        assert(rest0 =~= e + (e2 + tail));
        lemma_dec_enc_sint(v, true, e2 + tail);
        assert(rest0.skip(e.len() as int) =~= e2 + tail);
        lemma_dec_enc_u32((c - 2) as u32, tail);
        assert(rest0.skip((e.len() + e2.len()) as int) =~= tail);
    }
    let st1 = UoSt { rest: tail, last: v, count: (c - 1) as u32 };
    assert(uintopt_step(st0) == Some((v, st1)));
    lemma_uo_counted(tail, v, (c - 1) as u32, (c - 1) as nat);
    assert(seq![v] + rep64(v, (c - 1) as nat) =~= rep64(v, c as nat));
}

/// the reads of a sequence of complete runs
pub proof fn lemma_uo_runs(rs: Seq<UoRun>, tail: Seq<u8>, l0: u64)
    requires
        uo_runs_ok(rs),
    ensures
        uo_dec_n(UoSt { rest: enc_runs_uo(rs) + tail, last: l0, count: 0 }, uo_total(rs))
            == Some((uo_expand(rs), UoSt { rest: tail, last: uo_last_val(rs, l0), count: 0 })),
    decreases rs.len(),
{
    let st0 = UoSt { rest: enc_runs_uo(rs) + tail, last: l0, count: 0 };
    if rs.len() == 0 {
        assert(enc_runs_uo(rs) + tail =~= tail);
    } else {
        let r = rs.last();
        let pre = rs.drop_last();
        let tail1 = enc_run_uo(r.0, r.1) + tail;
        assert(enc_runs_uo(rs) + tail =~= enc_runs_uo(pre) + tail1);
        assert(uo_runs_ok(pre)) by {
            assert forall|i: int| 0 <= i < pre.len() implies uo_run_ok(#[trigger] pre[i]) by { assert(pre[i] == rs[i]); }
        }
        assert(uo_run_ok(rs[rs.len() - 1]));
        lemma_uo_runs(pre, tail1, l0);
        lemma_uo_run(r.0, r.1, tail, uo_last_val(pre, l0));
        lemma_uo_dec_n_add(st0, uo_total(pre), r.1 as nat);
    }
}

// ---- the encoder at the level of runs
pub struct UrSt {
    pub runs: Seq<UoRun>,
    pub last: u64,
    pub count: u32,
}

pub open spec fn ur_all(st: UrSt) -> Seq<UoRun> {
    if st.count > 0 { st.runs.push((st.last, st.count)) } else { st.runs }
}

pub open spec fn ur_write(st: UrSt, v: u64) -> UrSt {
    if st.last == v {
        UrSt { runs: st.runs, last: st.last, count: (st.count + 1) as u32 }
    } else {
        UrSt { runs: ur_all(st), last: v, count: 1 }
    }
}

pub open spec fn ur_state(vals: Seq<u64>) -> UrSt
    decreases vals.len(),
{
    if vals.len() == 0 {
        UrSt { runs: Seq::empty(), last: 0, count: 0 }
    } else {
        ur_write(ur_state(vals.drop_last()), vals.last())
    }
}

pub proof fn lemma_ue_ur(vals: Seq<u64>)
    ensures
        ue_state(vals) == (UeSt { out: enc_runs_uo(ur_state(vals).runs), last: ur_state(vals).last, count: ur_state(vals).count }),
        enc_col_uo(vals) == enc_runs_uo(ur_all(ur_state(vals))),
    decreases vals.len(),
{
    if vals.len() == 0 {
        assert(enc_runs_uo(Seq::<UoRun>::empty()) =~= Seq::<u8>::empty());
    } else {
        lemma_ue_ur(vals.drop_last());
        let p = ur_state(vals.drop_last());
        if p.count > 0 {
            assert(p.runs.push((p.last, p.count)).drop_last() =~= p.runs);
        }
    }
    let r = ur_state(vals);
    if r.count > 0 {
        assert(r.runs.push((r.last, r.count)).drop_last() =~= r.runs);
    }
}

/// DOMAIN of the UIntOptRle column (C09): fewer than 2^32 values, each below 2^63.
/// Smallest violating sequences: [0x8000_0000_0000_0000] (written as i64::MIN = "negative", the decoder then expects a
/// repeat count) and [2^63, 2^63] (flush negates i64::MIN: panic with overflow checks).
pub open spec fn uo_dom(vals: Seq<u64>) -> bool {
    &&& vals.len() <= u32::MAX
    &&& forall|i: int| 0 <= i < vals.len() ==> (#[trigger] vals[i]) < 0x8000_0000_0000_0000u64
}

pub proof fn lemma_uo_expand_push(rs: Seq<UoRun>, v: u64, c: u32)
    ensures
        uo_expand(rs.push((v, c))) == uo_expand(rs) + rep64(v, c as nat),
        uo_total(rs.push((v, c))) == uo_total(rs) + c,
        uo_runs_ok(rs) && uo_run_ok((v, c)) ==> uo_runs_ok(rs.push((v, c))),
{
    let q = rs.push((v, c));
    assert(q.drop_last() =~= rs);
    assert(q.last() == (v, c));
    if uo_runs_ok(rs) && uo_run_ok((v, c)) {
        assert forall|i: int| 0 <= i < q.len() implies uo_run_ok(#[trigger] q[i]) by {
            if i < rs.len() { assert(q[i] == rs[i]); }
        }
    }
}

pub open spec fn ur_good(p: UrSt, vals: Seq<u64>) -> bool {
    &&& uo_expand(ur_all(p)) == vals
    &&& uo_runs_ok(ur_all(p))
    &&& uo_total(ur_all(p)) == vals.len()
    &&& p.count <= vals.len()
    &&& (p.count == 0 ==> p.runs.len() == 0 && p.last == 0)
    &&& (p.count > 0 ==> uo_runs_ok(p.runs) && p.last < 0x8000_0000_0000_0000u64)
}

pub proof fn lemma_ur_step(p: UrSt, vals: Seq<u64>, v: u64)
    requires
        ur_good(p, vals),
        v < 0x8000_0000_0000_0000u64,
        vals.len() < u32::MAX,
    ensures
        ur_good(ur_write(p, v), vals.push(v)),
        // the write is inside the encoder's no-panic domain
        ue_write_ok(UeSt { out: enc_runs_uo(p.runs), last: p.last, count: p.count }, v),
{
    let q = ur_write(p, v);
    if p.last == v && p.count > 0 {
        let c = p.count;
        lemma_uo_expand_push(p.runs, v, c);
        lemma_uo_expand_push(p.runs, v, (c + 1) as u32);
        assert(ur_all(q) == p.runs.push((v, (c + 1) as u32)));
        assert(ur_all(p) == p.runs.push((v, c)));
        assert(rep64(v, (c + 1) as nat) =~= rep64(v, c as nat).push(v));
        assert(uo_expand(p.runs) + rep64(v, c as nat).push(v) =~= (uo_expand(p.runs) + rep64(v, c as nat)).push(v));
    } else {
        let pa = ur_all(p);
        lemma_uo_expand_push(pa, v, 1);
        assert(ur_all(q) =~= pa.push((v, 1u32)));
        assert(rep64(v, 1) =~= seq![v]);
        assert(uo_expand(pa) + seq![v] =~= uo_expand(pa).push(v));
    }
}

pub proof fn lemma_uo_vals(vals: Seq<u64>)
    requires
        uo_dom(vals),
    ensures
        ur_good(ur_state(vals), vals),
        vals.len() > 0 ==> ue_write_ok(ue_state(vals.drop_last()), vals.last()),
        ue_flush_ok(ue_state(vals)),
    decreases vals.len(),
{
    lemma_ue_ur(vals);
    if vals.len() == 0 {
        assert(ur_all(ur_state(vals)) =~= Seq::<UoRun>::empty());
        assert(vals =~= Seq::<u64>::empty());
    } else {
        let pv = vals.drop_last();
        assert(uo_dom(pv)) by {
            assert forall|i: int| 0 <= i < pv.len() implies (#[trigger] pv[i]) < 0x8000_0000_0000_0000u64 by { assert(pv[i] == vals[i]); }
        }
        assert(vals[vals.len() - 1] == vals.last());
        lemma_uo_vals(pv);
        lemma_ue_ur(pv);
        lemma_ur_step(ur_state(pv), pv, vals.last());
        assert(pv.push(vals.last()) =~= vals);
    }
}

/// C09 for the UIntOptRle column: for EVERY sequence in the domain, every tail and every n <= |vals|, a decoder created
/// on enc_col_uo(vals) ++ tail returns vals[0..n] on n successive reads and, after all of them, stands exactly in front
/// of the tail with an empty run register.
pub proof fn theorem_uintopt_round_trip(vals: Seq<u64>, tail: Seq<u8>, n: nat)
    requires
        uo_dom(vals),
        n <= vals.len(),
    ensures
        uo_dec_n(UoSt { rest: enc_col_uo(vals) + tail, last: 0, count: 0 }, n) is Some,
        uo_dec_n(UoSt { rest: enc_col_uo(vals) + tail, last: 0, count: 0 }, n)->Some_0.0 == vals.take(n as int),
        n == vals.len() ==> uo_dec_n(UoSt { rest: enc_col_uo(vals) + tail, last: 0, count: 0 }, n)->Some_0.1.rest == tail
            && uo_dec_n(UoSt { rest: enc_col_uo(vals) + tail, last: 0, count: 0 }, n)->Some_0.1.count == 0,
{
    let st0 = UoSt { rest: enc_col_uo(vals) + tail, last: 0, count: 0 };
    let rs = ur_all(ur_state(vals));
    lemma_ue_ur(vals);
    lemma_uo_vals(vals);
    assert(ur_good(ur_state(vals), vals));
    lemma_uo_runs(rs, tail, 0);
    let m = (vals.len() - n) as nat;
    lemma_uo_dec_n_add(st0, n, m);
    lemma_uo_dec_n_len(st0, n);
    let full = uo_dec_n(st0, vals.len());
    assert(full == Some((vals, UoSt { rest: tail, last: uo_last_val(rs, 0), count: 0 })));
    let r1 = uo_dec_n(st0, n);
    assert(r1 is Some);
    let v1 = r1->Some_0.0;
    let st1 = r1->Some_0.1;
    let r2 = uo_dec_n(st1, m);
    assert(r2 is Some);
    assert(v1 + r2->Some_0.0 == vals);
    assert(v1 =~= vals.take(n as int));
    if n == vals.len() {
        assert(uo_dec_n(st1, 0) == Some((Seq::<u64>::empty(), st1)));
    }
}
