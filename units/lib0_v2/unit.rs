// unit `lib0_v2` — the run-length column codecs of the v2 update format (yrs/src/updates/{encoder,decoder}.rs) on top
// of the lib0 primitive layer (units/lib0_common/*).  Serves C09 (decode(encode(x)) == x) and C10 (decoders are total).
// UNBOUNDED: sequences of arbitrary length, arbitrary input bytes.
//
// Slicing / rewrites (all logged in the evidence):
//   * ReadExt / WriteExt split, `Some(&b)` desugaring, match-guard desugaring: see units/lib0_common/base.rs
//   * `DecoderV2` / `EncoderV2` are sliced to the fields the verified functions touch (cursor + ds_curr_val / buf + ds_curr_val);
//     read_ds_clock / read_ds_len / write_ds_clock / write_ds_len are pulled from the `impl Decoder for DecoderV2` /
//     `impl Encoder for EncoderV2` blocks into inherent impls of the sliced structs
#![allow(unused_imports, unused_variables, unused_mut, dead_code, unused_parens, unused_braces, unused_assignments)]
use vstd::prelude::*;
use vstd::slice::*;
use std::convert::TryInto;

verus! {

/*@rules R9 R10 @*/

/*@include units/lib0_common/base.rs @*/

/*@include units/lib0_common/spec.rs @*/

/*@include units/lib0_common/varint.rs @*/

/*@include units/lib0_v2/dec.rs @*/

/*@include units/lib0_v2/enc.rs @*/

/*@include units/lib0_v2/rt_id.rs @*/

/*@include units/lib0_v2/rt_uo.rs @*/

/*@include units/lib0_v2/rt_rl.rs @*/

/*@include units/lib0_v2/examples.rs @*/

} // verus!
fn main() {}
