// unit `lib0_v2` — the run-length column codecs of the v2 update format (yrs/src/updates/{encoder,decoder}.rs) on top
// of the lib0 primitive layer (units/lib0_common/*).  Serves C09 (decode(encode(x)) == x) and C10 (decoders are total).
// UNBOUNDED: sequences of arbitrary length, arbitrary input bytes.
//
// Files: dec.rs (decoders: spec step functions + the real read_X proved total and equal to them; DecoderV2 read_usize/read_buf/ds),
//        v2new.rs (DecoderV2::new + StringDecoder::new: the nine-section column layout, total + framing; layout round trip),
//        enc.rs (encoders: abstract state, invariant, the real write_X/flush/to_vec proved equal to the spec steps; EncoderV2 ds),
//        rt_id.rs / rt_uo.rs / rt_rl.rs (the inductive round-trip theorems), examples.rs (concrete columns).
//
// Slicing / rewrites (all logged in the evidence):
//   * ReadExt / WriteExt split, `Some(&b)` desugaring, pub fields of Signed, AsRef -> VxBytes: see units/lib0/unit.rs
//   * MS  `to_vec(mut self)`: Verus rejects a `mut self` receiver; desugared to `self` + `let mut vx_self = self;` [3 per-extract SUBs x2]
//   * `DecoderV2` and `StringDecoder` are the REAL structs (all fields, extracted); `EncoderV2` is sliced to the fields the verified
//     functions touch (buf + ds_curr_val + string_encoder);
//     read_ds_clock / read_ds_len / write_ds_clock / write_ds_len are pulled from the `impl Decoder for DecoderV2` /
//     `impl Encoder for EncoderV2` blocks into inherent impls
//   * UTF8 `std::str::from_utf8(str_bin)` in StringDecoder::new -> `vx_from_utf8(str_bin)` [per-extract SUB]: TRUSTED std stand-in
//     (v2new.rs; the same specification as A9 of units tags / sticky / dec_comp: Ok(s), s@ == from_utf8(b), IFF valid_utf8(b); both
//     uninterpreted, no axioms; opaque Utf8ErrorStandIn); the discarding closure `|_|` is annotated as `|_e: Utf8ErrorStandIn| ->
//     (vx_e: Error)` with `ensures vx_e is UnexpectedValue` (@closure; the closure body is verified against it)
//   * `StringDecoder::read_str` stays a trusted stand-in without a functional contract (str slicing / `chars()` not ingestible);
//     `StringEncoder` stays opaque (enc.rs)
//   * `use std::sync::Arc;` for the `keys: Vec<Arc<str>>` field of DecoderV2 (vstd's Arc; the field is only constructed, `Vec::new()`)
//   * R9  `debug_assert!(len != 0)` in write_ds_len becomes a proof obligation (discharged by the stated precondition)
// Encoder DOMAIN restrictions (stated as `requires` of the encoders / as the *_dom predicates of the theorems): see enc.rs, rt_*.rs
#![allow(unused_imports, unused_variables, unused_mut, dead_code, unused_parens, unused_braces, unused_assignments)]
use vstd::prelude::*;
use vstd::slice::*;
use std::convert::TryInto;
use std::sync::Arc;

verus! {

/*@rules R9 R10 @*/

/*@include units/lib0_common/base.rs @*/

/*@include units/lib0_common/spec.rs @*/

/*@include units/lib0_common/varint.rs @*/

/*@include units/lib0_v2/dec.rs @*/

/*@include units/lib0_v2/v2new.rs @*/

/*@include units/lib0_v2/enc.rs @*/

/*@include units/lib0_v2/rt_id.rs @*/

/*@include units/lib0_v2/rt_uo.rs @*/

/*@include units/lib0_v2/rt_rl.rs @*/

/*@include units/lib0_v2/examples.rs @*/

} // verus!
fn main() {}
