// unit `lib0_v2` — the run-length column codecs of the v2 update format (yrs/src/updates/{encoder,decoder}.rs) on top
// of the lib0 primitive layer (units/lib0_common/*).  Serves C09 (decode(encode(x)) == x) and C10 (decoders are total).
// UNBOUNDED: sequences of arbitrary length, arbitrary input bytes.
//
// Files: dec.rs (decoders: spec step functions + the real read_X proved total and equal to them; DecoderV2 read_usize/read_buf/ds),
//        enc.rs (encoders: abstract state, invariant, the real write_X/flush/to_vec proved equal to the spec steps; EncoderV2 ds),
//        rt_id.rs / rt_uo.rs / rt_rl.rs (the inductive round-trip theorems), examples.rs (concrete columns).
//
// Slicing / rewrites (all logged in the evidence):
//   * ReadExt / WriteExt split, `Some(&b)` desugaring, pub fields of Signed, AsRef -> VxBytes: see units/lib0/unit.rs
//   * MS  `to_vec(mut self)`: Verus rejects a `mut self` receiver; desugared to `self` + `let mut vx_self = self;` [3 per-extract SUBs x2]
//   * `DecoderV2` / `EncoderV2` are sliced to the fields the verified functions touch (cursor + ds_curr_val / buf + ds_curr_val);
//     read_ds_clock / read_ds_len / write_ds_clock / write_ds_len are pulled from the `impl Decoder for DecoderV2` /
//     `impl Encoder for EncoderV2` blocks into inherent impls of the sliced structs
//   * R9  `debug_assert!(len != 0)` in write_ds_len becomes a proof obligation (discharged by the stated precondition)
// Encoder DOMAIN restrictions (stated as `requires` of the encoders / as the *_dom predicates of the theorems): see enc.rs, rt_*.rs
#![allow(unused_imports, unused_variables, unused_mut, dead_code, unused_parens, unused_braces, unused_assignments)]
use vstd::prelude::*;
use vstd::slice::*;
use std::convert::TryInto;
use std::sync::Arc;

verus! {

/*@rules R9 R10 @*/

/*@include units/lib0_common/base.rs @*/

/*@include units/lib0_common/spec.rs @*/

/*@include units/lib0_common/varint.rs @*/

/*@include units/lib0_v2/dec.rs @*/

/*@include units/lib0_v2/v2new.rs @*/

/*@include units/lib0_v2/enc.rs @*/

/*@include units/lib0_v2/rt_id.rs @*/

/*@include units/lib0_v2/rt_uo.rs @*/

/*@include units/lib0_v2/rt_rl.rs @*/

/*@include units/lib0_v2/examples.rs @*/

} // verus!
fn main() {}
