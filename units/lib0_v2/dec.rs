// units/lib0_v2/dec.rs — the v2 column DECODERS: spec transition functions (what one `read_X` call computes from ANY
// decoder state on ANY remaining bytes) and the real functions proved equal to them (which includes: no overflow,
// no out-of-bounds access, termination).

/// std `i32::wrapping_add` as arithmetic
pub open spec fn wadd_i32(a: i32, b: i32) -> i32 {
    if a + b > i32::MAX {
        (a + b - 0x1_0000_0000) as i32
    } else if a + b < i32::MIN {
        (a + b + 0x1_0000_0000) as i32
    } else {
        (a + b) as i32
    }
}

// ---------------------------------------------------------------------------------------------
// IntDiffOptRleDecoder
// ---------------------------------------------------------------------------------------------
/*@extract yrs/src/updates/decoder.rs | - | struct IntDiffOptRleDecoder @*/

/// abstract decoder state: unread bytes + the registers
pub struct IdSt {
    pub rest: Seq<u8>,
    pub last: u32,
    pub count: u32,
    pub diff: i32,
}

/// the value-producing tail of `read_u32`, common to the refill and the no-refill path
pub open spec fn intdiff_emit(rest: Seq<u8>, last: u32, count: u32, diff: i32) -> (u32, IdSt) {
    let nl = wadd_i32(last as i32, diff) as u32;
    (nl, IdSt { rest, last: nl, count: (count - 1) as u32, diff })
}

/// one `IntDiffOptRleDecoder::read_u32` call: None = Err, Some((v, st')) = Ok(v) and the decoder is in state st'
pub open spec fn intdiff_step(st: IdSt) -> Option<(u32, IdSt)> {
    if st.count == 0 {
        match <i32 as VarInt>::dec(st.rest) {
            None => None,
            Some((d, k)) => {
                let diff = d >> 1;
                if d & 1 != 0 {
                    match dec_u32(st.rest.skip(k as int)) {
                        None => None,
                        Some((c, k2)) => if c + 2 > u32::MAX {
                            None
                        } else {
                            Some(intdiff_emit(st.rest.skip((k + k2) as int), st.last, (c + 2) as u32, diff))
                        },
                    }
                } else {
                    Some(intdiff_emit(st.rest.skip(k as int), st.last, 1, diff))
                }
            },
        }
    } else {
        Some(intdiff_emit(st.rest, st.last, st.count, st.diff))
    }
}

impl<'a> IntDiffOptRleDecoder<'a> {
    spec fn st(&self) -> IdSt {
        IdSt { rest: self.cursor.rest(), last: self.last, count: self.count, diff: self.diff }
    }

    /*@extract yrs/src/updates/decoder.rs | impl<'a> IntDiffOptRleDecoder<'a> | fn new | label=intdiff_new
    @ret r
    @sig
        requires
            cursor.wf(),
        ensures
            r.cursor.wf(),
            r.st() == (IdSt { rest: cursor.rest(), last: 0, count: 0, diff: 0 }),
    @*/

    // TOTAL from ANY state on ANY bytes + equality with the spec step
    /*@extract yrs/src/updates/decoder.rs | impl<'a> IntDiffOptRleDecoder<'a> | fn read_u32 | label=intdiff_read_u32
    @ret res
    @sig
        requires
            old(self).cursor.wf(),
        ensures
            final(self).cursor.wf(),
            match intdiff_step(old(self).st()) {
                Some((v, st)) => res is Ok && res->Ok_0 == v && final(self).st() == st,
                None => res is Err,
            },
            suffix_of(old(self).cursor.rest(), final(self).cursor.rest()),
    @start
        let ghost s0 = self.cursor.rest();
        proof { lemma_suffix_skip(s0, 0); }
    @before 1 `stmt:assign count`
        proof {
            let k = <i32 as VarInt>::dec(s0)->Some_0.1;
            lemma_suffix_skip(s0, k);
            lemma_suffix_trans(s0, self.cursor.rest());
            assert forall|k2: nat| k2 <= s0.skip(k as int).len() implies #[trigger] s0.skip(k as int).skip(k2 as int) == s0.skip((k + k2) as int) by {
                assert(s0.skip(k as int).skip(k2 as int) =~= s0.skip((k + k2) as int));
            }
        }
    @*/
}

// ---------------------------------------------------------------------------------------------
// UIntOptRleDecoder
// ---------------------------------------------------------------------------------------------
/*@extract yrs/src/updates/decoder.rs | - | struct UIntOptRleDecoder @*/

pub struct UoSt {
    pub rest: Seq<u8>,
    pub last: u64,
    pub count: u32,
}

/// one `UIntOptRleDecoder::read_u64` call
pub open spec fn uintopt_step(st: UoSt) -> Option<(u64, UoSt)> {
    if st.count == 0 {
        match dec_sint(st.rest) {
            None => None,
            Some(((v, neg), k)) => {
                if neg {
                    match dec_u32(st.rest.skip(k as int)) {
                        None => None,
                        Some((c, k2)) => if c + 2 > u32::MAX {
                            None
                        } else {
                            Some((abs_i64(v), UoSt { rest: st.rest.skip((k + k2) as int), last: abs_i64(v), count: (c + 1) as u32 }))
                        },
                    }
                } else {
                    Some((v as u64, UoSt { rest: st.rest.skip(k as int), last: v as u64, count: 0 }))
                }
            },
        }
    } else {
        Some((st.last, UoSt { rest: st.rest, last: st.last, count: (st.count - 1) as u32 }))
    }
}

impl<'a> UIntOptRleDecoder<'a> {
    spec fn st(&self) -> UoSt {
        UoSt { rest: self.cursor.rest(), last: self.last, count: self.count }
    }

    /*@extract yrs/src/updates/decoder.rs | impl<'a> UIntOptRleDecoder<'a> | fn new | label=uintopt_new
    @ret r
    @sig
        requires
            cursor.wf(),
        ensures
            r.cursor.wf(),
            r.st() == (UoSt { rest: cursor.rest(), last: 0, count: 0 }),
    @*/

    /*@extract yrs/src/updates/decoder.rs | impl<'a> UIntOptRleDecoder<'a> | fn read_u64 | label=uintopt_read_u64
    @ret res
    @sig
        requires
            old(self).cursor.wf(),
        ensures
            final(self).cursor.wf(),
            match uintopt_step(old(self).st()) {
                Some((v, st)) => res is Ok && res->Ok_0 == v && final(self).st() == st,
                None => res is Err,
            },
            suffix_of(old(self).cursor.rest(), final(self).cursor.rest()),
    @start
        let ghost s0 = self.cursor.rest();
        proof { lemma_suffix_skip(s0, 0); }
    @after 1 `stmt:let s`
        proof {
            let k = dec_sint(s0)->Some_0.1;
            lemma_suffix_skip(s0, k);
            lemma_suffix_trans(s0, self.cursor.rest());
            assert forall|k2: nat| k2 <= s0.skip(k as int).len() implies #[trigger] s0.skip(k as int).skip(k2 as int) == s0.skip((k + k2) as int) by {
                assert(s0.skip(k as int).skip(k2 as int) =~= s0.skip((k + k2) as int));
            }
        }
    @*/
}

// ---------------------------------------------------------------------------------------------
// RleDecoder
// ---------------------------------------------------------------------------------------------
/*@extract yrs/src/updates/decoder.rs | - | struct RleDecoder @*/

pub struct RlSt {
    pub rest: Seq<u8>,
    pub last: u8,
    pub count: i32,
}

/// the value-producing tail of `read_u8`: a positive count is decremented, a non-positive one ("repeat forever") is kept
pub open spec fn rle_emit(rest: Seq<u8>, last: u8, count: i32) -> (u8, RlSt) {
    (last, RlSt { rest, last, count: if count > 0 { (count - 1) as i32 } else { count } })
}

/// one `RleDecoder::read_u8` call.  A value that is the last byte of the column repeats forever (count = -1).
pub open spec fn rle_step(st: RlSt) -> Option<(u8, RlSt)> {
    if st.count == 0 {
        if st.rest.len() == 0 {
            None
        } else {
            let v = st.rest[0];
            if st.rest.len() > 1 {
                match dec_u32(st.rest.skip(1)) {
                    None => None,
                    Some((c, k)) => if c >= i32::MAX {
                        None
                    } else {
                        Some(rle_emit(st.rest.skip((1 + k) as int), v, (c + 1) as i32))
                    },
                }
            } else {
                Some(rle_emit(st.rest.skip(1), v, -1i32))
            }
        }
    } else {
        Some(rle_emit(st.rest, st.last, st.count))
    }
}

impl<'a> RleDecoder<'a> {
    spec fn st(&self) -> RlSt {
        RlSt { rest: self.cursor.rest(), last: self.last, count: self.count }
    }

    /*@extract yrs/src/updates/decoder.rs | impl<'a> RleDecoder<'a> | fn new | label=rle_new
    @ret r
    @sig
        requires
            cursor.wf(),
        ensures
            r.cursor.wf(),
            r.st() == (RlSt { rest: cursor.rest(), last: 0, count: 0 }),
    @*/

    // TOTAL from ANY state (any i32 count) on ANY bytes + equality with the spec step
    /*@extract yrs/src/updates/decoder.rs | impl<'a> RleDecoder<'a> | fn read_u8 | label=rle_read_u8
    @ret res
    @sig
        requires
            old(self).cursor.wf(),
        ensures
            final(self).cursor.wf(),
            match rle_step(old(self).st()) {
                Some((v, st)) => res is Ok && res->Ok_0 == v && final(self).st() == st,
                None => res is Err,
            },
            suffix_of(old(self).cursor.rest(), final(self).cursor.rest()),
    @start
        let ghost s0 = self.cursor.rest();
        proof { lemma_suffix_skip(s0, 0); }
    @after 1 `stmt:assign last`
        proof {
            lemma_suffix_skip(s0, 1);
            lemma_suffix_trans(s0, self.cursor.rest());
            assert forall|k2: nat| k2 <= s0.skip(1).len() implies #[trigger] s0.skip(1).skip(k2 as int) == s0.skip((1 + k2) as int) by {
                assert(s0.skip(1).skip(k2 as int) =~= s0.skip((1 + k2) as int));
            }
        }
    @*/
}

// ---------------------------------------------------------------------------------------------
// DecoderV2: the usize var-int / length-prefixed buffer readers over (&[u8], &mut usize), and the delete-set clock codec
// (`DecoderV2::new` / `StringDecoder::new`: v2new.rs)
// ---------------------------------------------------------------------------------------------
// the REAL struct (all twelve fields, unchanged)
/*@extract yrs/src/updates/decoder.rs | - | struct DecoderV2 @*/

// the REAL struct.  `StringDecoder::new` is the real body (v2new.rs, over the trusted std stand-in `vx_from_utf8`); `read_str`
// (str slicing / `chars()` are not ingestible) stays a trusted stand-in WITHOUT a functional contract — all that is used is that
// it cannot touch the decoder's cursor
/*@extract yrs/src/updates/decoder.rs | - | struct StringDecoder @*/

impl<'a> StringDecoder<'a> {
    #[verifier::external_body] pub fn read_str(&mut self) -> (res: Result<&'a str, Error>)
    {
        unimplemented!()
    }
}

/// the bytes from position `i` on (nothing if `i` is beyond the end)
pub open spec fn tail_from(s: Seq<u8>, i: int) -> Seq<u8> {
    if 0 <= i <= s.len() { s.skip(i) } else { Seq::empty() }
}

/// the accumulation loop of `DecoderV2::read_usize`
pub open spec fn dec_usize_from(s: Seq<u8>, num: usize, len: usize) -> Option<(usize, nat)>
    decreases s.len(),
{
    if s.len() == 0 {
        None
    } else {
        let b = s[0];
        let num2 = num | (((b as usize) & 127) << len);
        if b < 128 {
            Some((num2, 1nat))
        } else if len + 7 >= usize::BITS {
            None
        } else {
            dec_bump(dec_usize_from(s.skip(1), num2, (len + 7) as usize), 1)
        }
    }
}

pub open spec fn dec_usize(s: Seq<u8>) -> Option<(usize, nat)> {
    dec_usize_from(s, 0, 0)
}

pub proof fn lemma_dec_usize_from_bounded(s: Seq<u8>, num: usize, len: usize)
    requires
        len < usize::BITS,
    ensures
        match dec_usize_from(s, num, len) {
            Some((v, k)) => 1 <= k <= s.len() && len + 7 * k <= usize::BITS + 6,
            None => true,
        },
    decreases s.len(),
{
    if s.len() > 0 && s[0] >= 128 && len + 7 < usize::BITS {
        let num2 = num | (((s[0] as usize) & 127) << len);
        lemma_dec_usize_from_bounded(s.skip(1), num2, (len + 7) as usize);
    }
}

/// C10: `read_usize` consumes between 1 and 10 bytes (5 on 32-bit targets)
pub proof fn lemma_dec_usize_bounded(s: Seq<u8>)
    ensures dec_bounded(s, dec_usize(s)),
{
    lemma_dec_usize_from_bounded(s, 0, 0);
}

pub proof fn lemma_dec_enc_usize_from(w: usize, tail: Seq<u8>, num: usize, len: usize)
    requires
        len < usize::BITS,
        // no bit of w is shifted out
        (w << len) >> len == w,
    ensures
        dec_usize_from(enc_uint(w as nat) + tail, num, len) == Some((num | (w << len), enc_uint(w as nat).len())),
    decreases w,
{
    let s = enc_uint(w as nat) + tail;
    if w < 128 {
        assert(s[0] == w as u8);
        assert((((w as u8) as usize) & 127) == w && (w as u8) < 128) by(bit_vector) requires w < 128;
    } else {
        let b = (w % 128 + 128) as u8;
        assert(s[0] == b);
        assert(s.skip(1) =~= enc_uint((w / 128) as nat) + tail);
        assert(b >= 128 && ((b as usize) & 127) == w & 127 && w / 128 == w >> 7) by(bit_vector)
            requires w >= 128, b == (w % 128 + 128) as u8;
        assert(len + 7 < usize::BITS && ((w >> 7) << ((len + 7) as usize)) >> ((len + 7) as usize) == (w >> 7)) by(bit_vector)
            requires w >= 128, len < usize::BITS, (w << len) >> len == w;
        let num2 = num | ((w & 127) << len);
        lemma_dec_enc_usize_from(w >> 7, tail, num2, (len + 7) as usize);
        assert(num2 | ((w >> 7) << ((len + 7) as usize)) == num | (w << len)) by(bit_vector)
            requires len + 7 < usize::BITS, num2 == num | ((w & 127) << len);
    }
}

/// C09: `read_usize` inverts the unsigned var-int encoding of every usize
pub proof fn lemma_dec_enc_usize(v: usize, tail: Seq<u8>)
    ensures dec_usize(enc_uint(v as nat) + tail) == Some((v, enc_uint(v as nat).len())),
{
    assert((v << 0usize) >> 0usize == v) by(bit_vector);
    lemma_dec_enc_usize_from(v, tail, 0, 0);
    assert(0usize | (v << 0usize) == v) by(bit_vector);
}

/// what `DecoderV2::read_buf` computes: (payload, bytes consumed)
/// (opaque = not unfolded automatically, `reveal(dec_buf_v2)` where the definition is needed: `DecoderV2::new` calls read_buf nine
/// times and reasons about the results as values only)
#[verifier::opaque]
pub open spec fn dec_buf_v2(s: Seq<u8>) -> Option<(Seq<u8>, nat)> {
    match dec_usize(s) {
        Some((n, k)) => if k + n <= s.len() { Some((s.subrange(k as int, k + n as int), k + n as nat)) } else { None },
        None => None,
    }
}

/// WHY `read_buf` fails on `s` (meaningful when dec_buf_v2(s) is None): the length var-int is truncated / too long, or the
/// announced payload length `n` does not fit into what is left
pub enum SecErr {
    VarInt,
    Short(usize),
}

#[verifier::opaque]
pub open spec fn buf_v2_err(s: Seq<u8>) -> SecErr {
    match dec_usize(s) {
        None => SecErr::VarInt,
        Some((n, k)) => SecErr::Short(n),
    }
}

/// the real `Error` value reported for a `SecErr`
pub open spec fn err_of_sec(e: Error, k: SecErr) -> bool {
    match k {
        SecErr::VarInt => e is InvalidVarInt,
        SecErr::Short(n) => e is EndOfBuffer && e->EndOfBuffer_0 == n,
    }
}

/// C09: `read_buf` inverts `write_buf` (length as unsigned var-int, then the bytes) for every buffer
pub proof fn lemma_dec_enc_buf_v2(b: Seq<u8>, tail: Seq<u8>)
    requires
        b.len() <= usize::MAX,
    ensures
        dec_buf_v2(enc_buf(b) + tail) == Some((b, enc_buf(b).len())),
{
    reveal(dec_buf_v2);
    let e = enc_uint(b.len());
    assert(enc_buf(b) + tail =~= e + (b + tail));
    lemma_dec_enc_usize(b.len() as usize, b + tail);
    let s = enc_buf(b) + tail;
    assert(s.subrange(e.len() as int, (e.len() + b.len()) as int) =~= b);
}

/// one `read_ds_clock` call from (rest, ds_curr_val): Some((clock, rest', ds_curr_val'))
pub open spec fn ds_clock_step(rest: Seq<u8>, cur: u32) -> Option<(u32, Seq<u8>, u32)> {
    match dec_u32(rest) {
        Some((d, k)) => if cur + d > u32::MAX { None } else { Some(((cur + d) as u32, rest.skip(k as int), (cur + d) as u32)) },
        None => None,
    }
}

/// one `read_ds_len` call
pub open spec fn ds_len_step(rest: Seq<u8>, cur: u32) -> Option<(u32, Seq<u8>, u32)> {
    match dec_u32(rest) {
        Some((d, k)) => if cur + d + 1 > u32::MAX { None } else { Some(((d + 1) as u32, rest.skip(k as int), (cur + d + 1) as u32)) },
        None => None,
    }
}

impl<'a> DecoderV2<'a> {
    // TOTAL for every `buf` and every `*idx` (also beyond the end of `buf`)
    /*@extract yrs/src/updates/decoder.rs | impl<'a> DecoderV2<'a> | fn read_usize | label=v2_read_usize
    @ret res
    @sig
        ensures
            match dec_usize(tail_from(buf@, *old(idx) as int)) {
                Some((v, k)) => res is Ok && res->Ok_0 == v && *final(idx) == *old(idx) + k && *final(idx) <= buf@.len(),
                None => res is Err && *old(idx) <= *final(idx) && (*final(idx) <= buf@.len() || *final(idx) == *old(idx))
                    && res->Err_0 is InvalidVarInt,
            },
    @start
        let ghost i0 = *idx as int;
        let ghost mut k: nat = 0;
    @loop 1
        invariant
            i0 == *old(idx),
            *idx == i0 + k,
            k > 0 ==> *idx <= buf@.len(),
            len == 7 * k,
            len < usize::BITS,
            dec_usize(tail_from(buf@, i0)) == dec_bump(dec_usize_from(tail_from(buf@, *idx as int), num, len), k),
        decreases usize::BITS - len,
    @after 1 `stmt:let r`
        proof {
            assert(tail_from(buf@, *idx as int)[0] == r);
            assert(tail_from(buf@, *idx as int).skip(1) =~= tail_from(buf@, *idx as int + 1));
            k = k + 1;
        }
    @*/

    /*@extract yrs/src/updates/decoder.rs | impl<'a> DecoderV2<'a> | fn read_buf | label=v2_read_buf
    @ret res
    @sig
        ensures
            match dec_buf_v2(tail_from(buf@, *old(idx) as int)) {
                Some((b, k)) => res is Ok && res->Ok_0@ == b && *final(idx) == *old(idx) + k && *final(idx) <= buf@.len(),
                None => res is Err && *old(idx) <= *final(idx) && (*final(idx) <= buf@.len() || *final(idx) == *old(idx))
                    && err_of_sec(res->Err_0, buf_v2_err(tail_from(buf@, *old(idx) as int))),
            },
    @start
        let ghost i0 = *idx as int;
        proof {
            reveal(dec_buf_v2);
            reveal(buf_v2_err);
        }
    @before 1 `stmt:call Ok`
        proof {
            let t = tail_from(buf@, i0);
            let k = dec_usize(t)->Some_0.1;
            assert(t.subrange(k as int, k + len) =~= buf@.subrange(start as int, end as int));
        }
    @*/

    /*@extract yrs/src/updates/decoder.rs | impl<'a> Decoder for DecoderV2<'a> | fn read_ds_clock | label=v2_read_ds_clock
    @ret res
    @sig
        requires
            old(self).cursor.wf(),
        ensures
            final(self).cursor.wf(),
            match ds_clock_step(old(self).cursor.rest(), old(self).ds_curr_val) {
                Some((v, rest, cur)) => res is Ok && res->Ok_0 == v && final(self).cursor.rest() == rest && final(self).ds_curr_val == cur,
                None => res is Err,
            },
            suffix_of(old(self).cursor.rest(), final(self).cursor.rest()),
    @start
        proof {
            lemma_suffix_skip(self.cursor.rest(), 0);
            lemma_dec_u32_bounded(self.cursor.rest());
            if dec_u32(self.cursor.rest()) is Some { lemma_suffix_skip(self.cursor.rest(), dec_u32(self.cursor.rest())->Some_0.1); }
        }
    @*/

    /*@extract yrs/src/updates/decoder.rs | impl<'a> Decoder for DecoderV2<'a> | fn read_ds_len | label=v2_read_ds_len
    @ret res
    @sig
        requires
            old(self).cursor.wf(),
        ensures
            final(self).cursor.wf(),
            match ds_len_step(old(self).cursor.rest(), old(self).ds_curr_val) {
                Some((v, rest, cur)) => res is Ok && res->Ok_0 == v && final(self).cursor.rest() == rest && final(self).ds_curr_val == cur,
                None => res is Err,
            },
            suffix_of(old(self).cursor.rest(), final(self).cursor.rest()),
    @start
        proof {
            lemma_suffix_skip(self.cursor.rest(), 0);
            lemma_dec_u32_bounded(self.cursor.rest());
            if dec_u32(self.cursor.rest()) is Some { lemma_suffix_skip(self.cursor.rest(), dec_u32(self.cursor.rest())->Some_0.1); }
        }
    @*/
}

// ---------------------------------------------------------------------------------------------
// the decoder back ends as implementations of `Read`: rest() := the cursor's unread bytes.  The impl bodies are checked
// against the TRAIT contracts of lib0_common (an impl that reads differently from what `Read` promises is rejected).
// ---------------------------------------------------------------------------------------------
// field visibility only (the spec functions of the trait impl mention the field)
/*@extract yrs/src/updates/decoder.rs | - | struct DecoderV1 | rules=SUB(from=cursor: Cursor<'a>;;to=pub cursor: Cursor<'a>) @*/

impl<'a> Read for DecoderV1<'a> {
    open spec fn rest(&self) -> Seq<u8> {
        self.cursor.rest()
    }

    open spec fn wf(&self) -> bool {
        self.cursor.wf()
    }

    /*@extract yrs/src/updates/decoder.rs | impl<'a> Read for DecoderV1<'a> | fn read_u8 | label=v1_dec_read_u8 @*/

    /*@extract yrs/src/updates/decoder.rs | impl<'a> Read for DecoderV1<'a> | fn read_exact | label=v1_dec_read_exact @*/
}

impl<'a> Read for DecoderV2<'a> {
    // (closed: the real struct has private fields, which makes it opaque to an `open` spec function; all of this unit is one
    // module, so the bodies are visible to every proof in it all the same)
    closed spec fn rest(&self) -> Seq<u8> {
        self.cursor.rest()
    }

    closed spec fn wf(&self) -> bool {
        self.cursor.wf()
    }

    /*@extract yrs/src/updates/decoder.rs | impl<'a> Read for DecoderV2<'a> | fn read_exact | label=v2_dec_read_exact @*/

    /*@extract yrs/src/updates/decoder.rs | impl<'a> Read for DecoderV2<'a> | fn read_u8 | label=v2_dec_read_u8 @*/
}

impl<'a> DecoderV2<'a> {
    // `read_string` is overridden by DecoderV2 to read from the STRING COLUMN, not from rest(): it does not satisfy the contract
    // of the default `Read::read_string` (read_buf on rest()), i.e. the trait has to be read as allowing an override that reads
    // elsewhere.  Its own honest contract: the rest section and the delete-set register are untouched.  (Pulled from the
    // `impl Read for DecoderV2` block into an inherent impl: the sliced `Read` of lib0_common has no `read_string`.)
    /*@extract yrs/src/updates/decoder.rs | impl<'a> Read for DecoderV2<'a> | fn read_string | label=v2_dec_read_string
    @ret res
    @sig
        ensures
            final(self).cursor == old(self).cursor,
            final(self).ds_curr_val == old(self).ds_curr_val,
    @*/
}
