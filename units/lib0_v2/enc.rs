// units/lib0_v2/enc.rs — the v2 column ENCODERS.  For each codec:
//   XSt                 abstract encoder state (bytes already emitted + the pending run registers) = view of the real fields
//   x_write / x_flush   what one `write_X` / the final flush does to it (spec)
//   x_state(vals)       the state after writing the sequence `vals` into a fresh encoder (fold of x_write)
//   enc_col_x(vals)     the column bytes: what `to_vec` returns after writing `vals`
//   inv(vals)           the encoder invariant: the real fields are exactly x_state(vals)
// The real functions are proved equal to the spec steps; `write_X` preserves inv with vals.push(v); `to_vec` returns
// enc_col_x(vals).  Preconditions of the ENCODERS are domain restrictions of the real code (reported as such).

// ---------------------------------------------------------------------------------------------
// IntDiffOptRleEncoder
// ---------------------------------------------------------------------------------------------
/*@extract yrs/src/updates/encoder.rs | - | struct IntDiffOptRleEncoder @*/

pub struct IeSt {
    pub out: Seq<u8>,
    pub last: u32,
    pub count: u32,
    pub diff: i32,
}

/// the header integer of a run: the diff shifted left by one, bit 0 = "a repeat count follows"
pub open spec fn id_header(diff: i32, count: u32) -> i32 {
    (diff << 1u32) | (if count == 1 { 0i32 } else { 1i32 })
}

/// the bytes of one run of `count >= 1` equal diffs
pub open spec fn enc_run_id(diff: i32, count: u32) -> Seq<u8> {
    enc_i64(id_header(diff, count) as i64) + (if count > 1 { enc_uint((count - 2) as nat) } else { Seq::empty() })
}

pub open spec fn ie_flush(st: IeSt) -> Seq<u8> {
    if st.count > 0 { st.out + enc_run_id(st.diff, st.count) } else { st.out }
}

pub open spec fn ie_write(st: IeSt, v: u32) -> IeSt {
    let d = ((v as i32) - (st.last as i32)) as i32;
    if st.diff == d {
        IeSt { out: st.out, last: v, count: (st.count + 1) as u32, diff: st.diff }
    } else {
        IeSt { out: ie_flush(st), last: v, count: 1, diff: d }
    }
}

pub open spec fn ie_state(vals: Seq<u32>) -> IeSt
    decreases vals.len(),
{
    if vals.len() == 0 {
        IeSt { out: Seq::empty(), last: 0, count: 0, diff: 0 }
    } else {
        ie_write(ie_state(vals.drop_last()), vals.last())
    }
}

/// the column as `to_vec` returns it after `vals` have been written
pub open spec fn enc_col_id(vals: Seq<u32>) -> Seq<u8> {
    ie_flush(ie_state(vals))
}

/// DOMAIN of `write_u32` (weakest precondition for "no panic"): `value as i32 - self.last as i32` does not overflow and the
/// run length fits in u32.  Smallest violating sequence: write_u32(1); write_u32(0x8000_0000)  (i32::MIN - 1).
pub open spec fn ie_regs_ok(last: u32, count: u32, diff: i32, v: u32) -> bool {
    &&& i32::MIN <= (v as i32) - (last as i32) <= i32::MAX
    &&& (diff == ((v as i32) - (last as i32)) as i32 ==> count < u32::MAX)
}

pub open spec fn ie_write_ok(st: IeSt, v: u32) -> bool {
    ie_regs_ok(st.last, st.count, st.diff, v)
}

impl IntDiffOptRleEncoder {
    spec fn st(&self) -> IeSt {
        IeSt { out: self.buf@, last: self.last, count: self.count, diff: self.diff }
    }

    /// the encoder invariant: the real fields are what writing `vals` into a fresh encoder produces
    spec fn inv(&self, vals: Seq<u32>) -> bool {
        self.st() == ie_state(vals)
    }

    /*@extract yrs/src/updates/encoder.rs | impl IntDiffOptRleEncoder | fn new | label=intdiff_enc_new
    @ret r
    @sig
        ensures
            r.inv(Seq::empty()),
    @*/

    /*@extract yrs/src/updates/encoder.rs | impl IntDiffOptRleEncoder | fn flush | label=intdiff_enc_flush
    @sig
        ensures
            final(self).buf@ == ie_flush(old(self).st()),
            final(self).last == old(self).last,
            final(self).count == old(self).count,
            final(self).diff == old(self).diff,
    @end
        proof {
            if self.count == 1 {
                assert(old(self).buf@ + enc_i64(id_header(self.diff, self.count) as i64)
                    =~= old(self).buf@ + enc_run_id(self.diff, self.count));
            }
            if self.count > 1 {
                assert((old(self).buf@ + enc_i64(id_header(self.diff, self.count) as i64)) + enc_uint((self.count - 2) as nat)
                    =~= old(self).buf@ + enc_run_id(self.diff, self.count));
            }
        }
    @*/

    /*@extract yrs/src/updates/encoder.rs | impl IntDiffOptRleEncoder | fn write_u32 | label=intdiff_enc_write_u32
    @sig
        requires
            ie_write_ok(old(self).st(), value),
        ensures
            final(self).st() == ie_write(old(self).st(), value),
            forall|vals: Seq<u32>| old(self).inv(vals) ==> #[trigger] final(self).inv(vals.push(value)),
    @end
        proof {
            assert forall|vals: Seq<u32>| old(self).inv(vals) implies #[trigger] self.inv(vals.push(value)) by {
                assert(vals.push(value).drop_last() =~= vals);
            }
        }
    @*/

    // MS: Verus rejects a `mut self` receiver; it is desugared to `self` + `let mut vx_self = self;` (three logged SUBs)
    /*@extract yrs/src/updates/encoder.rs | impl IntDiffOptRleEncoder | fn to_vec | label=intdiff_enc_to_vec | rules=SUB(from=fn to_vec(mut self) -> Vec<u8> {;;to=fn to_vec(self) -> Vec<u8> { let mut vx_self = self;) SUB(from=self.flush();;to=vx_self.flush()) SUB(from=self.buf;;to=vx_self.buf)
    @ret r
    @sig
        ensures
            r@ == ie_flush(self.st()),
            forall|vals: Seq<u32>| self.inv(vals) ==> r@ == #[trigger] enc_col_id(vals),
    @*/
}

// ---------------------------------------------------------------------------------------------
// UIntOptRleEncoder
// ---------------------------------------------------------------------------------------------
/*@extract yrs/src/updates/encoder.rs | - | struct UIntOptRleEncoder @*/

pub struct UeSt {
    pub out: Seq<u8>,
    pub last: u64,
    pub count: u32,
}

/// the bytes of one run of `count >= 1` copies of `v`: a single value is written as a non-negative signed var-int,
/// a repeated one with the sign flag set (even for 0: "-0") followed by count - 2
pub open spec fn enc_run_uo(v: u64, count: u32) -> Seq<u8> {
    if count == 1 {
        enc_i64(v as i64)
    } else {
        enc_sint(abs_i64((-((v as i64) as int)) as i64) as nat, true) + enc_uint((count - 2) as nat)
    }
}

pub open spec fn ue_flush(st: UeSt) -> Seq<u8> {
    if st.count > 0 { st.out + enc_run_uo(st.last, st.count) } else { st.out }
}

pub open spec fn ue_write(st: UeSt, v: u64) -> UeSt {
    if st.last == v {
        UeSt { out: st.out, last: st.last, count: (st.count + 1) as u32 }
    } else {
        UeSt { out: ue_flush(st), last: v, count: 1 }
    }
}

pub open spec fn ue_state(vals: Seq<u64>) -> UeSt
    decreases vals.len(),
{
    if vals.len() == 0 {
        UeSt { out: Seq::empty(), last: 0, count: 0 }
    } else {
        ue_write(ue_state(vals.drop_last()), vals.last())
    }
}

pub open spec fn enc_col_uo(vals: Seq<u64>) -> Seq<u8> {
    ue_flush(ue_state(vals))
}

/// DOMAIN of `flush` (weakest precondition for "no panic"): a repeated value must not be 2^63, because
/// `-(self.last as i64)` negates i64::MIN.  Smallest violating input: write_u64(0x8000_0000_0000_0000) twice, then flush.
pub open spec fn ue_flush_ok(st: UeSt) -> bool {
    st.count > 1 ==> st.last != 0x8000_0000_0000_0000u64
}

pub open spec fn ue_write_ok(st: UeSt, v: u64) -> bool {
    if st.last == v { st.count < u32::MAX } else { ue_flush_ok(st) }
}

impl UIntOptRleEncoder {
    spec fn st(&self) -> UeSt {
        UeSt { out: self.buf@, last: self.last, count: self.count }
    }

    spec fn inv(&self, vals: Seq<u64>) -> bool {
        self.st() == ue_state(vals)
    }

    /*@extract yrs/src/updates/encoder.rs | impl UIntOptRleEncoder | fn new | label=uintopt_enc_new
    @ret r
    @sig
        ensures
            r.inv(Seq::empty()),
    @*/

    /*@extract yrs/src/updates/encoder.rs | impl UIntOptRleEncoder | fn flush | label=uintopt_enc_flush
    @sig
        requires
            ue_flush_ok(old(self).st()),
        ensures
            final(self).buf@ == ue_flush(old(self).st()),
            final(self).last == old(self).last,
            final(self).count == old(self).count,
    @before 1 `stmt:let value`
        proof {
            let l = self.last;
            assert((l as i64) == -0x8000_0000_0000_0000i64 ==> l == 0x8000_0000_0000_0000u64) by(bit_vector);
        }
    @end
        proof {
            if self.count > 1 {
                let neg = (-((self.last as i64) as int)) as i64;
                assert((old(self).buf@ + enc_sint(abs_i64(neg) as nat, true)) + enc_uint((self.count - 2) as nat)
                    =~= old(self).buf@ + enc_run_uo(self.last, self.count));
            }
        }
    @*/

    /*@extract yrs/src/updates/encoder.rs | impl UIntOptRleEncoder | fn write_u64 | label=uintopt_enc_write_u64
    @sig
        requires
            ue_write_ok(old(self).st(), value),
        ensures
            final(self).st() == ue_write(old(self).st(), value),
            forall|vals: Seq<u64>| old(self).inv(vals) ==> #[trigger] final(self).inv(vals.push(value)),
    @end
        proof {
            assert forall|vals: Seq<u64>| old(self).inv(vals) implies #[trigger] self.inv(vals.push(value)) by {
                assert(vals.push(value).drop_last() =~= vals);
            }
        }
    @*/

    /*@extract yrs/src/updates/encoder.rs | impl UIntOptRleEncoder | fn to_vec | label=uintopt_enc_to_vec | rules=SUB(from=fn to_vec(mut self) -> Vec<u8> {;;to=fn to_vec(self) -> Vec<u8> { let mut vx_self = self;) SUB(from=self.flush();;to=vx_self.flush()) SUB(from=self.buf;;to=vx_self.buf)
    @ret r
    @sig
        requires
            ue_flush_ok(self.st()),
        ensures
            r@ == ue_flush(self.st()),
            forall|vals: Seq<u64>| self.inv(vals) ==> r@ == #[trigger] enc_col_uo(vals),
    @*/
}

// ---------------------------------------------------------------------------------------------
// RleEncoder
// ---------------------------------------------------------------------------------------------
/*@extract yrs/src/updates/encoder.rs | - | struct RleEncoder @*/

pub struct ReSt {
    pub out: Seq<u8>,
    pub last: Option<u8>,
    pub count: u32,
}

/// a new value closes the previous run by writing its length - 1 and opens the next one with the value byte; the length
/// of the LAST run is never written (the decoder repeats the last value forever)
pub open spec fn re_write(st: ReSt, v: u8) -> ReSt {
    if st.last == Some(v) {
        ReSt { out: st.out, last: st.last, count: (st.count + 1) as u32 }
    } else {
        let closed = if st.count > 0 { st.out + enc_uint((st.count - 1) as nat) } else { st.out };
        ReSt { out: closed.push(v), last: Some(v), count: 1 }
    }
}

pub open spec fn re_state(vals: Seq<u8>) -> ReSt
    decreases vals.len(),
{
    if vals.len() == 0 {
        ReSt { out: Seq::empty(), last: None, count: 0 }
    } else {
        re_write(re_state(vals.drop_last()), vals.last())
    }
}

pub open spec fn enc_col_rle(vals: Seq<u8>) -> Seq<u8> {
    re_state(vals).out
}

/// DOMAIN of `write_u8`: the run length fits in u32
pub open spec fn re_write_ok(st: ReSt, v: u8) -> bool {
    st.last == Some(v) ==> st.count < u32::MAX
}

impl RleEncoder {
    spec fn st(&self) -> ReSt {
        ReSt { out: self.buf@, last: self.last, count: self.count }
    }

    spec fn inv(&self, vals: Seq<u8>) -> bool {
        self.st() == re_state(vals)
    }

    /*@extract yrs/src/updates/encoder.rs | impl RleEncoder | fn new | label=rle_enc_new
    @ret r
    @sig
        ensures
            r.inv(Seq::empty()),
    @*/

    /*@extract yrs/src/updates/encoder.rs | impl RleEncoder | fn write_u8 | label=rle_enc_write_u8
    @sig
        requires
            re_write_ok(old(self).st(), value),
        ensures
            final(self).st() == re_write(old(self).st(), value),
            forall|vals: Seq<u8>| old(self).inv(vals) ==> #[trigger] final(self).inv(vals.push(value)),
    @end
        proof {
            assert forall|vals: Seq<u8>| old(self).inv(vals) implies #[trigger] self.inv(vals.push(value)) by {
                assert(vals.push(value).drop_last() =~= vals);
            }
        }
    @*/

    /*@extract yrs/src/updates/encoder.rs | impl RleEncoder | fn to_vec | label=rle_enc_to_vec
    @ret r
    @sig
        ensures
            r@ == self.st().out,
            forall|vals: Seq<u8>| self.inv(vals) ==> r@ == #[trigger] enc_col_rle(vals),
    @*/
}

// ---------------------------------------------------------------------------------------------
// EncoderV2: the delete-set clock codec
// ---------------------------------------------------------------------------------------------
/// SLICED stand-in for `EncoderV2` (yrs/src/updates/encoder.rs): only the fields write_ds_clock / write_ds_len touch
pub struct EncoderV2 {
    pub buf: Vec<u8>,
    pub ds_curr_val: u32,
    pub string_encoder: StringEncoder,
}

/// OPAQUE stand-in for `StringEncoder` (`encode_utf16`, `String::push_str` are not ingestible): the strings written so far
/// are an uninterpreted view; `write` is a trusted stand-in that appends to it
#[verifier::external_body] pub struct StringEncoder { opaque: () }

pub uninterp spec fn string_column(e: StringEncoder) -> Seq<Seq<char>>;

impl StringEncoder {
    #[verifier::external_body] pub fn write(&mut self, str: &str)
        ensures
            string_column(*final(self)) == string_column(*old(self)).push(str@),
    {
        unimplemented!()
    }
}

impl EncoderV2 {
    // DOMAIN: clocks are written in ascending order (`clock - self.ds_curr_val` underflows otherwise)
    /*@extract yrs/src/updates/encoder.rs | impl Encoder for EncoderV2 | fn write_ds_clock | label=v2_write_ds_clock
    @sig
        requires
            clock >= old(self).ds_curr_val,
        ensures
            final(self).buf@ == old(self).buf@ + enc_uint((clock - old(self).ds_curr_val) as nat),
            final(self).ds_curr_val == clock,
    @*/

    // DOMAIN: len != 0 (the real code's debug_assert) and the range end fits in u32 (`self.ds_curr_val += len`)
    /*@extract yrs/src/updates/encoder.rs | impl Encoder for EncoderV2 | fn write_ds_len | label=v2_write_ds_len
    @sig
        requires
            len != 0,
            old(self).ds_curr_val + len <= u32::MAX,
        ensures
            final(self).buf@ == old(self).buf@ + enc_uint((len - 1) as nat),
            final(self).ds_curr_val == old(self).ds_curr_val + len,
    @*/
}

// ---------------------------------------------------------------------------------------------
// the encoder back ends as implementations of `Write`: out() := the `buf` field (for EncoderV2: the REST section of the v2
// layout).  The impl bodies are checked against the TRAIT contracts of lib0_common: `write_all` appends EXACTLY `buf`.
// (An impl that length-prefixes in `write_all` — the defect repaired in /repo "EncoderV2 wrote the length of every buffer
// twice" — fails `write_all`'s postcondition; canary `v2_write_all_length_prefixed`.)
// ---------------------------------------------------------------------------------------------
// field visibility only (the spec function of the trait impl mentions the field)
/*@extract yrs/src/updates/encoder.rs | - | struct EncoderV1 | rules=SUB(from=buf: Vec<u8>;;to=pub buf: Vec<u8>) @*/

impl Write for EncoderV1 {
    open spec fn out(&self) -> Seq<u8> {
        self.buf@
    }

    /*@extract yrs/src/updates/encoder.rs | impl Write for EncoderV1 | fn write_all | label=v1_enc_write_all @*/

    /*@extract yrs/src/updates/encoder.rs | impl Write for EncoderV1 | fn write_u8 | label=v1_enc_write_u8 @*/
}

impl Write for EncoderV2 {
    open spec fn out(&self) -> Seq<u8> {
        self.buf@
    }

    /*@extract yrs/src/updates/encoder.rs | impl Write for EncoderV2 | fn write_all | label=v2_enc_write_all @*/

    /*@extract yrs/src/updates/encoder.rs | impl Write for EncoderV2 | fn write_u8 | label=v2_enc_write_u8 @*/
}

impl EncoderV2 {
    // `write_string` is overridden by EncoderV2 to write into the STRING COLUMN, not to out(): it does not satisfy the contract
    // of the default `Write::write_string` (out() += enc_buf(utf8(str)), see unit `tags`), i.e. the trait has to be read as
    // allowing an override that writes elsewhere.  Its own honest contract: out() and the delete-set register are unchanged,
    // the string joins the string column.  (Pulled from the `impl Write for EncoderV2` block into an inherent impl: the
    // sliced `Write` of lib0_common has no `write_string`.)
    /*@extract yrs/src/updates/encoder.rs | impl Write for EncoderV2 | fn write_string | label=v2_enc_write_string
    @sig
        ensures
            final(self).buf@ == old(self).buf@,
            final(self).ds_curr_val == old(self).ds_curr_val,
            string_column(final(self).string_encoder) == string_column(old(self).string_encoder).push(str@),
    @*/
}

/// consequence for the DEFAULT methods on these impls: `EncoderV2::write_buf` (WriteExt, contract out() += enc_buf(b)) puts
/// ONE length prefix into the rest section, and `DecoderV2::read_buf` (ReadExt, contract dec_buf(rest())) positioned where
/// the buffer starts reads exactly b back and stops behind it
pub proof fn lemma_v2_rest_buf_round_trip(e0: EncoderV2, e1: EncoderV2, b: Seq<u8>, tail: Seq<u8>)
    requires
        // what `e.write_buf(x)` with x.bytes() == b ensures for e0 = old(e), e1 = final(e)
        e1.out() == e0.out() + enc_buf(b),
        b.len() <= u32::MAX,
    ensures
        tail_from(e1.out() + tail, e0.out().len() as int) == enc_buf(b) + tail,
        dec_buf(tail_from(e1.out() + tail, e0.out().len() as int)) == Some((b, enc_buf(b).len())),
        enc_buf(b) == enc_uint(b.len()) + b,
{
    assert((e0.out() + enc_buf(b) + tail).skip(e0.out().len() as int) =~= enc_buf(b) + tail);
    lemma_dec_enc_buf(b, tail);
}

/// C09 for the delete-set clock codec: the decoder, started with the same running value, reads back what was written
pub proof fn lemma_ds_round_trip(cur: u32, clock: u32, len: u32, tail: Seq<u8>)
    requires
        clock >= cur,
        len != 0,
        clock + len <= u32::MAX,
    ensures
        ds_clock_step(enc_uint((clock - cur) as nat) + tail, cur) == Some((clock, tail, clock)),
        ds_len_step(enc_uint((len - 1) as nat) + tail, clock) == Some((len, tail, (clock + len) as u32)),
{
    lemma_dec_enc_u32((clock - cur) as u32, tail);
    lemma_dec_enc_u32((len - 1) as u32, tail);
    let a = enc_uint((clock - cur) as nat);
    assert((a + tail).skip(a.len() as int) =~= tail);
    let b = enc_uint((len - 1) as nat);
    assert((b + tail).skip(b.len() as int) =~= tail);
}
