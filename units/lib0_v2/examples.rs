// units/lib0_v2/examples.rs — concrete columns (guards against a vacuous or mistyped spec)
pub proof fn example_rle_column()
    ensures
        enc_col_rle(seq![1u8, 1u8, 1u8, 7u8]) == seq![1u8, 2u8, 7u8],
        rl_dom(seq![1u8, 1u8, 1u8, 7u8]),
{
    let v = seq![1u8, 1u8, 1u8, 7u8];
    let v3 = seq![1u8, 1u8, 1u8];
    let v2 = seq![1u8, 1u8];
    let v1 = seq![1u8];
    assert(v.drop_last() =~= v3 && v3.drop_last() =~= v2 && v2.drop_last() =~= v1 && v1.drop_last() =~= Seq::<u8>::empty());
    reveal_with_fuel(re_state, 6);
    reveal_with_fuel(enc_uint, 2);
    assert(re_state(v1) == (ReSt { out: seq![1u8], last: Some(1u8), count: 1 })) by {
        assert(Seq::<u8>::empty().push(1u8) =~= seq![1u8]);
    }
    assert(re_state(v2) == (ReSt { out: seq![1u8], last: Some(1u8), count: 2 }));
    assert(re_state(v3) == (ReSt { out: seq![1u8], last: Some(1u8), count: 3 }));
    assert(re_state(v).out =~= seq![1u8, 2u8, 7u8]);
}

pub proof fn example_uintopt_column()
    ensures
        enc_col_uo(seq![1u64, 2u64, 3u64, 3u64, 3u64]) == seq![0x01u8, 0x02u8, 0x43u8, 0x01u8],
        uo_dom(seq![1u64, 2u64, 3u64, 3u64, 3u64]),
{
    let v = seq![1u64, 2u64, 3u64, 3u64, 3u64];
    let v4 = seq![1u64, 2u64, 3u64, 3u64];
    let v3 = seq![1u64, 2u64, 3u64];
    let v2 = seq![1u64, 2u64];
    let v1 = seq![1u64];
    assert(v.drop_last() =~= v4 && v4.drop_last() =~= v3 && v3.drop_last() =~= v2 && v2.drop_last() =~= v1 && v1.drop_last() =~= Seq::<u64>::empty());
    reveal_with_fuel(ue_state, 7);
    reveal_with_fuel(enc_uint, 2);
    assert(ue_state(v1) == (UeSt { out: Seq::<u8>::empty(), last: 1, count: 1 }));
    assert(enc_i64(1u64 as i64) =~= seq![0x01u8]);
    assert(enc_i64(2u64 as i64) =~= seq![0x02u8]);
    assert(ue_state(v2) == (UeSt { out: seq![0x01u8], last: 2, count: 1 })) by {
        assert(Seq::<u8>::empty() + seq![0x01u8] =~= seq![0x01u8]);
    }
    assert(ue_state(v3) == (UeSt { out: seq![0x01u8, 0x02u8], last: 3, count: 1 })) by {
        assert(seq![0x01u8] + seq![0x02u8] =~= seq![0x01u8, 0x02u8]);
    }
    assert(ue_state(v4) == (UeSt { out: seq![0x01u8, 0x02u8], last: 3, count: 2 }));
    assert(ue_state(v) == (UeSt { out: seq![0x01u8, 0x02u8], last: 3, count: 3 }));
    assert(enc_run_uo(3, 3) =~= seq![0x43u8, 0x01u8]);
    assert(seq![0x01u8, 0x02u8] + seq![0x43u8, 0x01u8] =~= seq![0x01u8, 0x02u8, 0x43u8, 0x01u8]);
}

pub proof fn example_intdiff_column()
    ensures
        enc_col_id(seq![1u32, 2u32, 3u32, 2u32]) == seq![0x03u8, 0x01u8, 0x42u8],
        id_dom(seq![1u32, 2u32, 3u32, 2u32]),
        // the smallest sequence outside the round-trip domain
        !id_dom(seq![0x4000_0000u32]),
{
    let v = seq![1u32, 2u32, 3u32, 2u32];
    let v3 = seq![1u32, 2u32, 3u32];
    let v2 = seq![1u32, 2u32];
    let v1 = seq![1u32];
    assert(v.drop_last() =~= v3 && v3.drop_last() =~= v2 && v2.drop_last() =~= v1 && v1.drop_last() =~= Seq::<u32>::empty());
    reveal_with_fuel(ie_state, 6);
    reveal_with_fuel(enc_uint, 2);
    assert((1u32 as i32) == 1 && (2u32 as i32) == 2 && (3u32 as i32) == 3 && (0u32 as i32) == 0);
    assert(ie_state(v1) == (IeSt { out: Seq::<u8>::empty(), last: 1, count: 1, diff: 1 }));
    assert(ie_state(v2) == (IeSt { out: Seq::<u8>::empty(), last: 2, count: 2, diff: 1 }));
    assert(ie_state(v3) == (IeSt { out: Seq::<u8>::empty(), last: 3, count: 3, diff: 1 }));
    assert(id_header(1, 3) == 3) by(compute_only);
    assert(id_header(-1i32, 1) == -2) by {
        assert(((-1i32 << 1u32) | 0i32) == -2i32) by(bit_vector);
    }
    assert(enc_i64(3i32 as i64) =~= seq![0x03u8]);
    assert(enc_i64(-2i32 as i64) =~= seq![0x42u8]);
    assert(enc_run_id(1, 3) =~= seq![0x03u8, 0x01u8]);
    assert(enc_run_id(-1i32, 1) =~= seq![0x42u8]);
    assert(ie_state(v) == (IeSt { out: seq![0x03u8, 0x01u8], last: 2, count: 1, diff: -1i32 })) by {
        assert(Seq::<u8>::empty() + seq![0x03u8, 0x01u8] =~= seq![0x03u8, 0x01u8]);
    }
    assert(seq![0x03u8, 0x01u8] + seq![0x42u8] =~= seq![0x03u8, 0x01u8, 0x42u8]);
    let w = seq![0x4000_0000u32];
    assert(!id_step_ok(id_prev(w, 0), w[0]));
}
