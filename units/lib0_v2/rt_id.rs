// units/lib0_v2/rt_id.rs — C09 for the IntDiffOptRle column, sequences of ARBITRARY length:
// a decoder created on enc_col_id(vals) ++ tail returns vals[0..n] on n <= |vals| successive reads (theorem_intdiff_round_trip).
// Pure proofs over the spec step functions; the real read_u32 / write_u32 / to_vec are proved equal to those in dec.rs / enc.rs.

/// the decoder's "next value": two's complement addition of the diff
pub open spec fn nx(s: u32, d: i32) -> u32 {
    wadd_i32(s as i32, d) as u32
}

/// n successive `read_u32` calls from state st: None if one of them fails, else (the values, the final state)
pub open spec fn id_dec_n(st: IdSt, n: nat) -> Option<(Seq<u32>, IdSt)>
    decreases n,
{
    if n == 0 {
        Some((Seq::empty(), st))
    } else {
        match intdiff_step(st) {
            None => None,
            Some((v, st1)) => match id_dec_n(st1, (n - 1) as nat) {
                None => None,
                Some((vs, st2)) => Some((seq![v] + vs, st2)),
            },
        }
    }
}

pub open spec fn id_then(r: Option<(Seq<u32>, IdSt)>, b: nat) -> Option<(Seq<u32>, IdSt)> {
    match r {
        None => None,
        Some((v1, st1)) => match id_dec_n(st1, b) {
            None => None,
            Some((v2, st2)) => Some((v1 + v2, st2)),
        },
    }
}

pub proof fn lemma_id_dec_n_len(st: IdSt, n: nat)
    ensures
        id_dec_n(st, n) is Some ==> id_dec_n(st, n)->Some_0.0.len() == n,
    decreases n,
{
    if n > 0 {
        match intdiff_step(st) {
            None => {},
            Some((v, st1)) => { lemma_id_dec_n_len(st1, (n - 1) as nat); },
        }
    }
}

/// a + b reads are a reads followed by b reads
pub proof fn lemma_id_dec_n_add(st: IdSt, a: nat, b: nat)
    ensures
        id_dec_n(st, a + b) == id_then(id_dec_n(st, a), b),
    decreases a,
{
    if a == 0 {
        match id_dec_n(st, b) {
            None => {},
            Some((v2, st2)) => { assert(Seq::<u32>::empty() + v2 =~= v2); },
        }
    } else {
        match intdiff_step(st) {
            None => {},
            Some((v, st1)) => {
                lemma_id_dec_n_add(st1, (a - 1) as nat, b);
                match id_dec_n(st1, (a - 1) as nat) {
                    None => {},
                    Some((vs1, sta)) => {
                        match id_dec_n(sta, b) {
                            None => {},
                            Some((v2, st2)) => { assert((seq![v] + vs1) + v2 =~= seq![v] + (vs1 + v2)); },
                        }
                    },
                }
            },
        }
    }
}

// ---- runs: (diff, count)
pub type IdRun = (i32, u32);

/// a run the decoder reads back exactly: at least one element, and the diff survives `<< 1` / `>> 1` in an i32
pub open spec fn id_run_ok(r: IdRun) -> bool {
    r.1 >= 1 && -0x4000_0000 <= r.0 < 0x4000_0000
}

pub open spec fn id_runs_ok(rs: Seq<IdRun>) -> bool {
    forall|i: int| 0 <= i < rs.len() ==> id_run_ok(#[trigger] rs[i])
}

pub open spec fn enc_runs_id(rs: Seq<IdRun>) -> Seq<u8>
    decreases rs.len(),
{
    if rs.len() == 0 {
        Seq::empty()
    } else {
        enc_runs_id(rs.drop_last()) + enc_run_id(rs.last().0, rs.last().1)
    }
}

/// the c values of a run that starts after the value s
pub open spec fn ramp(s: u32, d: i32, c: nat) -> Seq<u32>
    decreases c,
{
    if c == 0 {
        Seq::empty()
    } else {
        ramp(s, d, (c - 1) as nat).push(nx(ramp_end(s, d, (c - 1) as nat), d))
    }
}

pub open spec fn ramp_end(s: u32, d: i32, c: nat) -> u32
    decreases c,
{
    if c == 0 { s } else { nx(ramp_end(s, d, (c - 1) as nat), d) }
}

pub open spec fn expand(rs: Seq<IdRun>, s: u32) -> Seq<u32>
    decreases rs.len(),
{
    if rs.len() == 0 {
        Seq::empty()
    } else {
        expand(rs.drop_last(), s) + ramp(expand_end(rs.drop_last(), s), rs.last().0, rs.last().1 as nat)
    }
}

pub open spec fn expand_end(rs: Seq<IdRun>, s: u32) -> u32
    decreases rs.len(),
{
    if rs.len() == 0 { s } else { ramp_end(expand_end(rs.drop_last(), s), rs.last().0, rs.last().1 as nat) }
}

pub open spec fn id_total(rs: Seq<IdRun>) -> nat
    decreases rs.len(),
{
    if rs.len() == 0 { 0 } else { id_total(rs.drop_last()) + rs.last().1 as nat }
}

pub open spec fn id_last_diff(rs: Seq<IdRun>, d0: i32) -> i32 {
    if rs.len() == 0 { d0 } else { rs.last().0 }
}

pub proof fn lemma_ramp_front(s: u32, d: i32, c: nat)
    requires
        c >= 1,
    ensures
        ramp(s, d, c) == seq![nx(s, d)] + ramp(nx(s, d), d, (c - 1) as nat),
        ramp_end(s, d, c) == ramp_end(nx(s, d), d, (c - 1) as nat),
    decreases c,
{
    if c == 1 {
        assert(ramp(s, d, 0) =~= Seq::<u32>::empty());
        assert(ramp(s, d, 1) =~= seq![nx(s, d)]);
        assert(ramp(nx(s, d), d, 0) =~= Seq::<u32>::empty());
        assert(seq![nx(s, d)] + Seq::<u32>::empty() =~= seq![nx(s, d)]);
        assert(ramp_end(s, d, 1) == nx(ramp_end(s, d, 0), d));
    } else {
        lemma_ramp_front(s, d, (c - 1) as nat);
        let a = nx(s, d);
        assert(ramp(a, d, (c - 1) as nat) == ramp(a, d, (c - 2) as nat).push(nx(ramp_end(a, d, (c - 2) as nat), d)));
        assert((seq![a] + ramp(a, d, (c - 2) as nat)).push(nx(ramp_end(a, d, (c - 2) as nat), d))
            =~= seq![a] + ramp(a, d, (c - 2) as nat).push(nx(ramp_end(a, d, (c - 2) as nat), d)));
    }
}

/// j reads that need no refill
pub proof fn lemma_id_counted(rest: Seq<u8>, s: u32, m: u32, d: i32, j: nat)
    requires
        j <= m,
    ensures
        id_dec_n(IdSt { rest, last: s, count: m, diff: d }, j)
            == Some((ramp(s, d, j), IdSt { rest, last: ramp_end(s, d, j), count: (m - j) as u32, diff: d })),
    decreases j,
{
    let st = IdSt { rest, last: s, count: m, diff: d };
    if j == 0 {
    } else {
        lemma_id_counted(rest, s, m, d, (j - 1) as nat);
        lemma_id_dec_n_add(st, (j - 1) as nat, 1);
        let st1 = IdSt { rest, last: ramp_end(s, d, (j - 1) as nat), count: (m - (j - 1)) as u32, diff: d };
        let v = nx(st1.last, d);
        let st2 = IdSt { rest, last: v, count: (m - j) as u32, diff: d };
        assert(intdiff_step(st1) == Some((v, st2)));
        assert(id_dec_n(st2, 0) == Some((Seq::<u32>::empty(), st2)));
        assert(id_dec_n(st1, 1) == Some((seq![v] + Seq::<u32>::empty(), st2)));
        assert(ramp(s, d, (j - 1) as nat) + (seq![v] + Seq::<u32>::empty()) =~= ramp(s, d, j));
    }
}

pub proof fn lemma_id_header_bits(d: i32, c: u32)
    requires
        -0x4000_0000 <= d < 0x4000_0000,
    ensures
        id_header(d, c) >> 1u32 == d,
        (id_header(d, c) & 1 != 0) == (c != 1),
{
    let f = if c == 1 { 0i32 } else { 1i32 };
    assert((((d << 1u32) | f) >> 1u32) == d && ((((d << 1u32) | f) & 1) != 0) == (f != 0)) by(bit_vector)
        requires -0x4000_0000i32 <= d < 0x4000_0000i32, f == 0i32 || f == 1i32;
}

/// the reads of one complete run, starting with the refill
pub proof fn lemma_id_run(d: i32, c: u32, tail: Seq<u8>, s: u32, d0: i32)
    requires
        id_run_ok((d, c)),
    ensures
        id_dec_n(IdSt { rest: enc_run_id(d, c) + tail, last: s, count: 0, diff: d0 }, c as nat)
            == Some((ramp(s, d, c as nat), IdSt { rest: tail, last: ramp_end(s, d, c as nat), count: 0, diff: d })),
{
    let h = id_header(d, c);
    let rest0 = enc_run_id(d, c) + tail;
    let st0 = IdSt { rest: rest0, last: s, count: 0, diff: d0 };
    let e = enc_i64(h as i64);
    lemma_id_header_bits(d, c);
    if c == 1 {
        assert(rest0 =~= e + tail);
        <i32 as VarInt>::law_dec_enc(h, tail);
        assert(rest0.skip(e.len() as int) =~= tail);
    } else {
        let e2 = enc_uint((c - 2) as nat);
        assert(rest0 =~= e + (e2 + tail));
        <i32 as VarInt>::law_dec_enc(h, e2 + tail);
        assert(rest0.skip(e.len() as int) =~= e2 + tail);
        lemma_dec_enc_u32((c - 2) as u32, tail);
        assert(rest0.skip((e.len() + e2.len()) as int) =~= tail);
    }
    let v = nx(s, d);
    let st1 = IdSt { rest: tail, last: v, count: (c - 1) as u32, diff: d };
    assert(intdiff_step(st0) == Some((v, st1)));
    lemma_id_counted(tail, v, (c - 1) as u32, d, (c - 1) as nat);
    lemma_ramp_front(s, d, c as nat);
}

/// the reads of a sequence of complete runs
pub proof fn lemma_id_runs(rs: Seq<IdRun>, tail: Seq<u8>, s: u32, d0: i32)
    requires
        id_runs_ok(rs),
    ensures
        id_dec_n(IdSt { rest: enc_runs_id(rs) + tail, last: s, count: 0, diff: d0 }, id_total(rs))
            == Some((expand(rs, s), IdSt { rest: tail, last: expand_end(rs, s), count: 0, diff: id_last_diff(rs, d0) })),
    decreases rs.len(),
{
    let st0 = IdSt { rest: enc_runs_id(rs) + tail, last: s, count: 0, diff: d0 };
    if rs.len() == 0 {
        assert(enc_runs_id(rs) + tail =~= tail);
    } else {
        let r = rs.last();
        let pre = rs.drop_last();
        let tail1 = enc_run_id(r.0, r.1) + tail;
        assert(enc_runs_id(rs) + tail =~= enc_runs_id(pre) + tail1);
        assert(id_runs_ok(pre)) by {
            assert forall|i: int| 0 <= i < pre.len() implies id_run_ok(#[trigger] pre[i]) by { assert(pre[i] == rs[i]); }
        }
        assert(id_run_ok(rs[rs.len() - 1]));
        lemma_id_runs(pre, tail1, s, d0);
        lemma_id_run(r.0, r.1, tail, expand_end(pre, s), id_last_diff(pre, d0));
        lemma_id_dec_n_add(st0, id_total(pre), r.1 as nat);
    }
}

// ---- the encoder at the level of runs
pub struct IrSt {
    pub runs: Seq<IdRun>,
    pub last: u32,
    pub count: u32,
    pub diff: i32,
}

pub open spec fn ir_all(st: IrSt) -> Seq<IdRun> {
    if st.count > 0 { st.runs.push((st.diff, st.count)) } else { st.runs }
}

pub open spec fn ir_write(st: IrSt, v: u32) -> IrSt {
    let d = ((v as i32) - (st.last as i32)) as i32;
    if st.diff == d {
        IrSt { runs: st.runs, last: v, count: (st.count + 1) as u32, diff: st.diff }
    } else {
        IrSt { runs: ir_all(st), last: v, count: 1, diff: d }
    }
}

pub open spec fn ir_state(vals: Seq<u32>) -> IrSt
    decreases vals.len(),
{
    if vals.len() == 0 {
        IrSt { runs: Seq::empty(), last: 0, count: 0, diff: 0 }
    } else {
        ir_write(ir_state(vals.drop_last()), vals.last())
    }
}

/// the bytes the encoder has emitted are the encodings of its completed runs
pub proof fn lemma_ie_ir(vals: Seq<u32>)
    ensures
        ie_state(vals) == (IeSt { out: enc_runs_id(ir_state(vals).runs), last: ir_state(vals).last, count: ir_state(vals).count, diff: ir_state(vals).diff }),
        enc_col_id(vals) == enc_runs_id(ir_all(ir_state(vals))),
    decreases vals.len(),
{
    if vals.len() == 0 {
        assert(enc_runs_id(Seq::<IdRun>::empty()) =~= Seq::<u8>::empty());
    } else {
        lemma_ie_ir(vals.drop_last());
        let p = ir_state(vals.drop_last());
        if p.count > 0 {
            assert(p.runs.push((p.diff, p.count)).drop_last() =~= p.runs);
        }
    }
    let r = ir_state(vals);
    if r.count > 0 {
        assert(r.runs.push((r.diff, r.count)).drop_last() =~= r.runs);
    }
}

/// the signed reading of a u32, as `value as i32` computes it
pub open spec fn u2i(v: u32) -> int {
    if v < 0x8000_0000 { v as int } else { v - 0x1_0000_0000 }
}

/// the difference between the signed readings of two consecutive values survives the encoder's `<< 1`
pub open spec fn id_step_ok(p: u32, v: u32) -> bool {
    -0x4000_0000 <= u2i(v) - u2i(p) < 0x4000_0000
}

pub open spec fn id_prev(vals: Seq<u32>, i: int) -> u32 {
    if i == 0 { 0u32 } else { vals[i - 1] }
}

/// DOMAIN of the IntDiffOptRle column (C09): fewer than 2^32 values, and every difference between consecutive values
/// (the first one relative to 0), taken between their SIGNED readings, lies in [-2^30, 2^30).
/// The code comment says "31 bit": it is 30.  Smallest violating sequence: [0x4000_0000] (decodes as [0xC000_0000]).
pub open spec fn id_dom(vals: Seq<u32>) -> bool {
    &&& vals.len() <= u32::MAX
    &&& forall|i: int| 0 <= i < vals.len() ==> id_step_ok(id_prev(vals, i), #[trigger] vals[i])
}

pub proof fn lemma_id_dom_drop(vals: Seq<u32>)
    requires
        id_dom(vals),
        vals.len() > 0,
    ensures
        id_dom(vals.drop_last()),
        id_step_ok(if vals.len() == 1 { 0u32 } else { vals.drop_last().last() }, vals.last()),
{
    let pv = vals.drop_last();
    assert forall|i: int| 0 <= i < pv.len() implies id_step_ok(id_prev(pv, i), #[trigger] pv[i]) by {
        assert(pv[i] == vals[i]);
        if i > 0 { assert(pv[i - 1] == vals[i - 1]); }
        assert(id_prev(pv, i) == id_prev(vals, i));
    }
    let n = vals.len() - 1;
    assert(id_step_ok(id_prev(vals, n), vals[n]));
    if n > 0 { assert(vals[n - 1] == pv.last()); }
}

/// the encoder's diff is exact and the decoder's wrapping addition undoes it
pub proof fn lemma_nx_exact(p: u32, v: u32)
    requires
        id_step_ok(p, v),
    ensures
        ((v as i32) - (p as i32)) as i32 == u2i(v) - u2i(p),
        i32::MIN <= (v as i32) - (p as i32) <= i32::MAX,
        nx(p, ((v as i32) - (p as i32)) as i32) == v,
{
    assert(v < 0x8000_0000u32 ==> (v as i32) == v) by(bit_vector);
    assert(v >= 0x8000_0000u32 ==> (v as i32) == v - 0x1_0000_0000) by(bit_vector);
    assert(p < 0x8000_0000u32 ==> (p as i32) == p) by(bit_vector);
    assert(p >= 0x8000_0000u32 ==> (p as i32) == p - 0x1_0000_0000) by(bit_vector);
    assert(((v as i32) as u32) == v) by(bit_vector);
}

/// what `expand` / `id_total` / `id_runs_ok` do when a run is appended
pub proof fn lemma_expand_push(rs: Seq<IdRun>, s: u32, d: i32, c: u32)
    ensures
        expand(rs.push((d, c)), s) == expand(rs, s) + ramp(expand_end(rs, s), d, c as nat),
        expand_end(rs.push((d, c)), s) == ramp_end(expand_end(rs, s), d, c as nat),
        id_total(rs.push((d, c))) == id_total(rs) + c,
        id_runs_ok(rs) && id_run_ok((d, c)) ==> id_runs_ok(rs.push((d, c))),
{
    let q = rs.push((d, c));
    assert(q.drop_last() =~= rs);
    assert(q.last() == (d, c));
    if id_runs_ok(rs) && id_run_ok((d, c)) {
        assert forall|i: int| 0 <= i < q.len() implies id_run_ok(#[trigger] q[i]) by {
            if i < rs.len() { assert(q[i] == rs[i]); }
        }
    }
}

/// the invariant of the run-level encoder state that the value round trip needs
pub open spec fn ir_good(p: IrSt, vals: Seq<u32>) -> bool {
    &&& expand(ir_all(p), 0) == vals
    &&& expand_end(ir_all(p), 0) == p.last
    &&& id_runs_ok(ir_all(p))
    &&& id_total(ir_all(p)) == vals.len()
    &&& p.count <= vals.len()
    &&& (p.count == 0 ==> p.runs.len() == 0 && p.diff == 0 && p.last == 0)
    &&& (p.count > 0 ==> id_runs_ok(p.runs) && -0x4000_0000 <= p.diff < 0x4000_0000)
}

/// one write: either the pending run grows by one or a new run (d, 1) is opened behind all runs so far
pub proof fn lemma_ir_step(p: IrSt, vals: Seq<u32>, v: u32)
    requires
        ir_good(p, vals),
        id_step_ok(p.last, v),
        vals.len() < u32::MAX,
    ensures
        ir_good(ir_write(p, v), vals.push(v)),
        ir_write(p, v).count >= 1,
        ir_write(p, v).last == v,
        // the write is inside the encoder's no-panic domain
        ie_regs_ok(p.last, p.count, p.diff, v),
{
    lemma_nx_exact(p.last, v);
    let d = ((v as i32) - (p.last as i32)) as i32;
    let q = ir_write(p, v);
    let e0 = expand_end(p.runs, 0);
    if p.diff == d && p.count > 0 {
        let c = p.count;
        lemma_expand_push(p.runs, 0, d, c);
        lemma_expand_push(p.runs, 0, d, (c + 1) as u32);
        assert(ir_all(q) == p.runs.push((d, (c + 1) as u32)));
        assert(ir_all(p) == p.runs.push((d, c)));
        assert(ramp(e0, d, (c + 1) as nat) == ramp(e0, d, c as nat).push(nx(ramp_end(e0, d, c as nat), d)));
        assert(expand(p.runs, 0) + ramp(e0, d, c as nat).push(v) =~= (expand(p.runs, 0) + ramp(e0, d, c as nat)).push(v));
    } else {
        let pa = ir_all(p);
        lemma_expand_push(pa, 0, d, 1);
        assert(ir_all(q) =~= pa.push((d, 1u32)));
        let e = expand_end(pa, 0);
        assert(ramp(e, d, 0) =~= Seq::<u32>::empty());
        assert(ramp(e, d, 1) =~= seq![nx(e, d)]);
        assert(ramp_end(e, d, 1) == nx(ramp_end(e, d, 0), d));
        assert(expand(pa, 0) + seq![v] =~= expand(pa, 0).push(v));
    }
}

pub proof fn lemma_id_vals(vals: Seq<u32>)
    requires
        id_dom(vals),
    ensures
        ir_good(ir_state(vals), vals),
        ir_state(vals).last == (if vals.len() == 0 { 0u32 } else { vals.last() }),
        // every write of the sequence is inside the encoder's no-panic domain
        vals.len() > 0 ==> ie_write_ok(ie_state(vals.drop_last()), vals.last()),
    decreases vals.len(),
{
    if vals.len() == 0 {
        assert(ir_all(ir_state(vals)) =~= Seq::<IdRun>::empty());
        assert(vals =~= Seq::<u32>::empty());
    } else {
        let pv = vals.drop_last();
        lemma_id_dom_drop(vals);
        lemma_id_vals(pv);
        lemma_ie_ir(pv);
        lemma_ir_step(ir_state(pv), pv, vals.last());
        assert(pv.push(vals.last()) =~= vals);
    }
}

/// C09 for the IntDiffOptRle column: for EVERY sequence in the domain, every tail and every n <= |vals|, a decoder
/// created on enc_col_id(vals) ++ tail returns vals[0..n] on n successive reads; after all of them it stands exactly
/// in front of the tail with an empty run register.
pub proof fn theorem_intdiff_round_trip(vals: Seq<u32>, tail: Seq<u8>, n: nat)
    requires
        id_dom(vals),
        n <= vals.len(),
    ensures
        id_dec_n(IdSt { rest: enc_col_id(vals) + tail, last: 0, count: 0, diff: 0 }, n) is Some,
        id_dec_n(IdSt { rest: enc_col_id(vals) + tail, last: 0, count: 0, diff: 0 }, n)->Some_0.0 == vals.take(n as int),
        n == vals.len() ==> id_dec_n(IdSt { rest: enc_col_id(vals) + tail, last: 0, count: 0, diff: 0 }, n)->Some_0.1.rest == tail
            && id_dec_n(IdSt { rest: enc_col_id(vals) + tail, last: 0, count: 0, diff: 0 }, n)->Some_0.1.count == 0,
{
    let st0 = IdSt { rest: enc_col_id(vals) + tail, last: 0, count: 0, diff: 0 };
    let rs = ir_all(ir_state(vals));
    lemma_ie_ir(vals);
    lemma_id_vals(vals);
    assert(ir_good(ir_state(vals), vals));
    lemma_id_runs(rs, tail, 0, 0);
    let m = (vals.len() - n) as nat;
    lemma_id_dec_n_add(st0, n, m);
    lemma_id_dec_n_len(st0, n);
    let full = id_dec_n(st0, vals.len());
    assert(full == Some((vals, IdSt { rest: tail, last: expand_end(rs, 0), count: 0, diff: id_last_diff(rs, 0) })));
    let r1 = id_dec_n(st0, n);
    assert(r1 is Some);
    let v1 = r1->Some_0.0;
    let st1 = r1->Some_0.1;
    let r2 = id_dec_n(st1, m);
    assert(r2 is Some);
    assert(v1 + r2->Some_0.0 == vals);
    assert(v1 =~= vals.take(n as int));
    if n == vals.len() {
        assert(id_dec_n(st1, 0) == Some((Seq::<u32>::empty(), st1)));
    }
}
