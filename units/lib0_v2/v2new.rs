// units/lib0_v2/v2new.rs — `DecoderV2::new` and `StringDecoder::new` (yrs/src/updates/decoder.rs): the v2 COLUMN LAYOUT.
// A v2 payload is   [flag byte]  sec(key_clock) sec(client) sec(left_clock) sec(right_clock) sec(info) sec(string)
//                                sec(parent_info) sec(type_ref) sec(len)   rest
// with sec(x) = unsigned var-int length (usize) + that many bytes (dec_buf_v2, the spec of the verified `DecoderV2::read_buf`), and
// the string section itself = sec(UTF-8 text) + the UIntOptRle column of the UTF-16 lengths.
// UNBOUNDED: every cursor with next <= buf.len(), inputs of any length.  Replaces the bounded Kani stand-in `total_v2_new`.

// ---------------------------------------------------------------------------------------------
// ONE trusted std stand-in: `std::str::from_utf8` (the same specification as in units tags / sticky / dec_comp, A9)
// ---------------------------------------------------------------------------------------------
/// whether a byte buffer is well-formed UTF-8 / the string a well-formed buffer denotes (uninterpreted, no axioms)
pub uninterp spec fn valid_utf8(b: Seq<u8>) -> bool;
pub uninterp spec fn from_utf8(b: Seq<u8>) -> Seq<char>;

pub mod vx_std_str {
    use vstd::prelude::*;
    use super::{valid_utf8, from_utf8};

    /// opaque stand-in for `core::str::Utf8Error` (only ever discarded by `map_err(|_| ..)`)
    #[verifier::external_body]
    pub struct Utf8ErrorStandIn {
        inner: core::str::Utf8Error,
    }

    /// A9 (TRUSTED std stand-in): `std::str::from_utf8(buf)` -- "Converts a slice of bytes to a string slice. [...] not all byte
    /// slices are valid string slices [...] Returns Err if the slice is not UTF-8": Ok(s), s the string the bytes denote, IFF the
    /// buffer is well-formed UTF-8.  `valid_utf8` / `from_utf8` are uninterpreted (no axioms about them).
    #[verifier::external_body]
    pub fn vx_from_utf8(buf: &[u8]) -> (r: Result<&str, Utf8ErrorStandIn>)
        ensures
            match r {
                Ok(s) => valid_utf8(buf@) && s@ == from_utf8(buf@),
                Err(_) => !valid_utf8(buf@),
            },
    {
        match std::str::from_utf8(buf) {
            Ok(s) => Ok(s),
            Err(e) => Err(Utf8ErrorStandIn { inner: e }),
        }
    }
}
use vx_std_str::*;

// ---------------------------------------------------------------------------------------------
// the spec decoder of the layout
// ---------------------------------------------------------------------------------------------
/// the offset behind the first `n` consecutive length-prefixed sections of `s`; Err(why) if one of them has a malformed /
/// truncated length var-int or a truncated payload (the FIRST such section decides)
#[verifier::opaque]
pub open spec fn secs_end(s: Seq<u8>, n: nat) -> Result<nat, SecErr>
    decreases n,
{
    if n == 0 {
        Ok(0nat)
    } else {
        match secs_end(s, (n - 1) as nat) {
            Err(e) => Err(e),
            Ok(o) => match dec_buf_v2(tail_from(s, o as int)) {
                None => Err(buf_v2_err(tail_from(s, o as int))),
                Some((b, k)) => Ok(o + k),
            },
        }
    }
}

/// the payload of the i-th section (0-based) of `s` (meaningful when secs_end(s, i + 1) is Ok)
#[verifier::opaque]
pub open spec fn sec(s: Seq<u8>, i: nat) -> Seq<u8> {
    dec_buf_v2(tail_from(s, secs_end(s, i)->Ok_0 as int))->Some_0.0
}

// ---------------------------------------------------------------------------------------------
// PROOF-INTERNAL: the same recursion over ABSOLUTE positions of the cursor's buffer `b` from position `p0` on -- the form in
// which `DecoderV2::read_buf(buf, &mut idx)` is specified (tail_from(buf@, idx)), so that the exec proof is pure congruence; the
// arithmetic of "offset in s = position in b - p0" is done once, in lemma_v2_layout_at.  The contract does not mention these.
// ---------------------------------------------------------------------------------------------
#[verifier::opaque]
pub open spec fn secs_end_at(b: Seq<u8>, p0: int, n: nat) -> Result<int, SecErr>
    decreases n,
{
    if n == 0 {
        Ok(p0)
    } else {
        match secs_end_at(b, p0, (n - 1) as nat) {
            Err(e) => Err(e),
            Ok(p) => match dec_buf_v2(tail_from(b, p)) {
                None => Err(buf_v2_err(tail_from(b, p))),
                Some((x, k)) => Ok(p + k),
            },
        }
    }
}

#[verifier::opaque]
pub open spec fn sec_at(b: Seq<u8>, p0: int, i: nat) -> Seq<u8> {
    dec_buf_v2(tail_from(b, secs_end_at(b, p0, i)->Ok_0))->Some_0.0
}

/// one more section behind the first n: either it fails (and decides the result for all nine) or it is the n-th section
pub open spec fn step_at(b: Seq<u8>, p0: int, n: nat) -> bool {
    secs_end_at(b, p0, n) is Ok ==> {
        let p = secs_end_at(b, p0, n)->Ok_0;
        match dec_buf_v2(tail_from(b, p)) {
            None => secs_end_at(b, p0, 9) == Err::<int, SecErr>(buf_v2_err(tail_from(b, p))),
            Some((x, k)) => secs_end_at(b, p0, n + 1) == Ok::<int, SecErr>(p + k) && sec_at(b, p0, n) == x,
        }
    }
}

/// the nine steps spelled out (a quantified statement over n would be a matching loop: step n mentions step n + 1), and
/// how the position-based recursion relates to the offset-based one of the contract, s = b.skip(p0)
pub open spec fn layout_at(b: Seq<u8>, p0: int) -> bool {
    let s = b.skip(p0);
    &&& secs_end_at(b, p0, 0) == Ok::<int, SecErr>(p0)
    &&& step_at(b, p0, 0)
    &&& step_at(b, p0, 1)
    &&& step_at(b, p0, 2)
    &&& step_at(b, p0, 3)
    &&& step_at(b, p0, 4)
    &&& step_at(b, p0, 5)
    &&& step_at(b, p0, 6)
    &&& step_at(b, p0, 7)
    &&& step_at(b, p0, 8)
    &&& match secs_end_at(b, p0, 9) {
        Err(e) => secs_end(s, 9) == Err::<nat, SecErr>(e),
        Ok(p) => {
            &&& p0 <= p <= b.len()
            &&& secs_end(s, 9) == Ok::<nat, SecErr>((p - p0) as nat)
            &&& s.skip(p - p0) == b.skip(p)
            &&& b.skip(p).skip(0) == b.skip(p)
            &&& sec(s, 0) == sec_at(b, p0, 0)
            &&& sec(s, 1) == sec_at(b, p0, 1)
            &&& sec(s, 2) == sec_at(b, p0, 2)
            &&& sec(s, 3) == sec_at(b, p0, 3)
            &&& sec(s, 4) == sec_at(b, p0, 4)
            &&& sec(s, 5) == sec_at(b, p0, 5)
            &&& sec(s, 6) == sec_at(b, p0, 6)
            &&& sec(s, 7) == sec_at(b, p0, 7)
            &&& sec(s, 8) == sec_at(b, p0, 8)
        },
    }
}

pub proof fn lemma_secs_at_err_mono(b: Seq<u8>, p0: int, n: nat, m: nat)
    requires
        secs_end_at(b, p0, n) is Err,
        n <= m,
    ensures
        secs_end_at(b, p0, m) == secs_end_at(b, p0, n),
    decreases m,
{
    reveal_with_fuel(secs_end_at, 2);
    if n < m {
        lemma_secs_at_err_mono(b, p0, n, (m - 1) as nat);
    }
}

pub proof fn lemma_step_at(b: Seq<u8>, p0: int, n: nat)
    requires
        n < 9,
    ensures
        step_at(b, p0, n),
{
    reveal_with_fuel(secs_end_at, 2);
    reveal(sec_at);
    if secs_end_at(b, p0, n) is Ok && secs_end_at(b, p0, n + 1) is Err {
        lemma_secs_at_err_mono(b, p0, n + 1, 9);
    }
}

/// position-based == offset-based, for every number of sections
pub proof fn lemma_secs_at_rel(b: Seq<u8>, p0: int, n: nat)
    requires
        0 <= p0 <= b.len(),
    ensures
        match secs_end_at(b, p0, n) {
            Err(e) => secs_end(b.skip(p0), n) == Err::<nat, SecErr>(e),
            Ok(p) => p0 <= p <= b.len() && secs_end(b.skip(p0), n) == Ok::<nat, SecErr>((p - p0) as nat)
                && tail_from(b.skip(p0), p - p0) == tail_from(b, p),
        },
    decreases n,
{
    reveal(dec_buf_v2);
    reveal_with_fuel(secs_end_at, 2);
    reveal_with_fuel(secs_end, 2);
    let s = b.skip(p0);
    if n > 0 {
        lemma_secs_at_rel(b, p0, (n - 1) as nat);
    }
    if secs_end_at(b, p0, n) is Ok {
        let p = secs_end_at(b, p0, n)->Ok_0;
        assert(s.skip(p - p0) =~= b.skip(p));
    }
}

pub proof fn lemma_sec_at_rel(b: Seq<u8>, p0: int, i: nat)
    requires
        0 <= p0 <= b.len(),
        i < 9,
        secs_end_at(b, p0, 9) is Ok,
    ensures
        sec(b.skip(p0), i) == sec_at(b, p0, i),
{
    reveal(sec_at);
    reveal(sec);
    if secs_end_at(b, p0, i) is Err {
        lemma_secs_at_err_mono(b, p0, i, 9);
    }
    lemma_secs_at_rel(b, p0, i);
}

pub proof fn lemma_v2_layout_at(b: Seq<u8>, p0: int)
    requires
        0 <= p0 <= b.len(),
    ensures
        layout_at(b, p0),
{
    reveal_with_fuel(secs_end_at, 2);
    lemma_step_at(b, p0, 0);
    lemma_step_at(b, p0, 1);
    lemma_step_at(b, p0, 2);
    lemma_step_at(b, p0, 3);
    lemma_step_at(b, p0, 4);
    lemma_step_at(b, p0, 5);
    lemma_step_at(b, p0, 6);
    lemma_step_at(b, p0, 7);
    lemma_step_at(b, p0, 8);
    lemma_secs_at_rel(b, p0, 9);
    if secs_end_at(b, p0, 9) is Ok {
        let p = secs_end_at(b, p0, 9)->Ok_0;
        assert(b.skip(p).skip(0) =~= b.skip(p));
        lemma_sec_at_rel(b, p0, 0);
        lemma_sec_at_rel(b, p0, 1);
        lemma_sec_at_rel(b, p0, 2);
        lemma_sec_at_rel(b, p0, 3);
        lemma_sec_at_rel(b, p0, 4);
        lemma_sec_at_rel(b, p0, 5);
        lemma_sec_at_rel(b, p0, 6);
        lemma_sec_at_rel(b, p0, 7);
        lemma_sec_at_rel(b, p0, 8);
    }
}

/// the nine column buffers in wire order + what follows the ninth
pub struct V2Cols {
    pub key_clock: Seq<u8>,
    pub client: Seq<u8>,
    pub left_clock: Seq<u8>,
    pub right_clock: Seq<u8>,
    pub info: Seq<u8>,
    pub string: Seq<u8>,
    pub parent_info: Seq<u8>,
    pub type_ref: Seq<u8>,
    pub len: Seq<u8>,
    pub rest: Seq<u8>,
}

pub open spec fn dec_v2_cols(s: Seq<u8>) -> Result<V2Cols, SecErr> {
    match secs_end(s, 9) {
        Err(e) => Err(e),
        Ok(o) => Ok(V2Cols {
            key_clock: sec(s, 0),
            client: sec(s, 1),
            left_clock: sec(s, 2),
            right_clock: sec(s, 3),
            info: sec(s, 4),
            string: sec(s, 5),
            parent_info: sec(s, 6),
            type_ref: sec(s, 7),
            len: sec(s, 8),
            rest: s.skip(o as int),
        }),
    }
}

/// the sections start behind the feature-flag byte; the flag byte is consumed exactly when there is one (`has_content()`)
pub open spec fn v2_input(unread: Seq<u8>) -> Seq<u8> {
    if unread.len() > 0 { unread.skip(1) } else { unread }
}

/// why the string column is rejected
pub enum StrErr {
    Sec(SecErr),
    Utf8,
}

pub open spec fn err_of_str(e: Error, k: StrErr) -> bool {
    match k {
        StrErr::Sec(k) => err_of_sec(e, k),
        StrErr::Utf8 => e is UnexpectedValue,
    }
}

/// the string column = one length-prefixed buffer of well-formed UTF-8 (the concatenated text) + the UIntOptRle column of
/// the lengths: Ok((text, length column))
pub open spec fn dec_str_col(c: Seq<u8>) -> Result<(Seq<char>, Seq<u8>), StrErr> {
    match dec_buf_v2(c) {
        None => Err(StrErr::Sec(buf_v2_err(c))),
        Some((b, k)) => if valid_utf8(b) { Ok((from_utf8(b), c.skip(k as int))) } else { Err(StrErr::Utf8) },
    }
}

// ---------------------------------------------------------------------------------------------
// "initialised over exactly this column": the ghost views of dec.rs in their start state
// ---------------------------------------------------------------------------------------------
impl<'a> IntDiffOptRleDecoder<'a> {
    pub closed spec fn fresh_on(&self, col: Seq<u8>) -> bool {
        self.cursor.wf() && self.st() == (IdSt { rest: col, last: 0, count: 0, diff: 0 })
    }
}

impl<'a> UIntOptRleDecoder<'a> {
    pub closed spec fn fresh_on(&self, col: Seq<u8>) -> bool {
        self.cursor.wf() && self.st() == (UoSt { rest: col, last: 0, count: 0 })
    }
}

impl<'a> RleDecoder<'a> {
    pub closed spec fn fresh_on(&self, col: Seq<u8>) -> bool {
        self.cursor.wf() && self.st() == (RlSt { rest: col, last: 0, count: 0 })
    }
}

impl<'a> StringDecoder<'a> {
    /// at position 0 of `text`, the length decoder initialised over `lens`
    pub closed spec fn fresh_on(&self, text: Seq<char>, lens: Seq<u8>) -> bool {
        self.buf@ == text && self.pos == 0 && self.len_decoder.fresh_on(lens)
    }

    // the REAL body.  TOTAL for every well-formed cursor; Ok exactly for a well-formed string column.
    /*@extract yrs/src/updates/decoder.rs | impl<'a> StringDecoder<'a> | fn new | label=string_dec_new | rules=SUB(from=std::str::from_utf8(str_bin);;to=vx_from_utf8(str_bin))
    @ret r
    @sig
        requires
            cursor.wf(),
        ensures
            match dec_str_col(cursor.rest()) {
                Err(k) => r is Err && err_of_str(r->Err_0, k),
                Ok((text, lens)) => r is Ok && r->Ok_0.fresh_on(text, lens),
            },
    @closure 1 `|_e: Utf8ErrorStandIn| -> (vx_e: Error)`
        ensures vx_e is UnexpectedValue,
    @start
        proof {
            reveal(dec_buf_v2);
            reveal(buf_v2_err);
            assert forall|k: nat| k <= cursor.rest().len() implies #[trigger] cursor.rest().skip(k as int) == cursor.buf@.skip(cursor.next + k) by {
                assert(cursor.rest().skip(k as int) =~= cursor.buf@.skip(cursor.next + k));
            }
        }
    @*/
}

impl<'a> DecoderV2<'a> {
    /// every column decoder is initialised over exactly its section, the delete-set register is 0, the key table is empty and
    /// the main cursor reads what follows the ninth section
    pub closed spec fn fresh_on(&self, c: V2Cols, text: Seq<char>, lens: Seq<u8>) -> bool {
        &&& self.cursor.wf()
        &&& self.cursor.rest() == c.rest
        &&& self.ds_curr_val == 0
        &&& self.keys@.len() == 0
        &&& self.key_clock_decoder.fresh_on(c.key_clock)
        &&& self.client_decoder.fresh_on(c.client)
        &&& self.left_clock_decoder.fresh_on(c.left_clock)
        &&& self.right_clock_decoder.fresh_on(c.right_clock)
        &&& self.info_decoder.fresh_on(c.info)
        &&& self.string_decoder.fresh_on(text, lens)
        &&& self.parent_info_decoder.fresh_on(c.parent_info)
        &&& self.type_ref_decoder.fresh_on(c.type_ref)
        &&& self.len_decoder.fresh_on(c.len)
    }

    // TOTAL + FRAMING.  The result is a function of the unread input: Err(first section error) / Err(string column error) /
    // Ok(decoder over the nine sections).
    /*@extract yrs/src/updates/decoder.rs | impl<'a> DecoderV2<'a> | fn new | label=v2_new
    @ret r
    @sig
        requires
            cursor.wf(),
        ensures
            match dec_v2_cols(v2_input(cursor.rest())) {
                Err(k) => r is Err && err_of_sec(r->Err_0, k),
                Ok(c) => match dec_str_col(c.string) {
                    Err(k) => r is Err && err_of_str(r->Err_0, k),
                    Ok((text, lens)) => r is Ok && r->Ok_0.fresh_on(c, text, lens),
                },
            },
    @after 1 `stmt:let buf`
        proof { lemma_v2_layout_at(buf@, idx as int); }
    @*/
}

// ---------------------------------------------------------------------------------------------
// C09 for the layout (and NON-VACUITY of the spec decoder): any nine buffers written as nine length-prefixed sections behind a
// flag byte and followed by anything are read back as exactly these nine buffers and that rest.  This is the byte string
// `EncoderV2::to_vec` builds -- `buf.write_u8(0)`, nine `buf.write_buf(col)` in the same order (WriteExt::write_buf, verified in
// lib0_common: out() += enc_buf(col)), `buf.write_all(rest)`; to_vec itself is NOT under contract in this unit (its struct carries
// a HashMap key table and the opaque StringEncoder), so the statement is about the layout, not about to_vec.
// ---------------------------------------------------------------------------------------------
/// the concatenated sections of `cols`
pub open spec fn enc_secs(cols: Seq<Seq<u8>>) -> Seq<u8>
    decreases cols.len(),
{
    if cols.len() == 0 {
        Seq::empty()
    } else {
        enc_secs(cols.drop_last()) + enc_buf(cols.last())
    }
}

pub proof fn lemma_enc_secs_take(cols: Seq<Seq<u8>>, n: nat)
    requires
        n < cols.len(),
    ensures
        enc_secs(cols.take(n + 1 as int)) == enc_secs(cols.take(n as int)) + enc_buf(cols[n as int]),
{
    assert(cols.take(n + 1 as int).drop_last() =~= cols.take(n as int));
}

/// the sections of a prefix of `cols` are a prefix of the sections of `cols`
pub proof fn lemma_enc_secs_prefix(cols: Seq<Seq<u8>>, n: nat)
    requires
        n <= cols.len(),
    ensures
        enc_secs(cols.take(n as int)).len() <= enc_secs(cols).len(),
        enc_secs(cols).take(enc_secs(cols.take(n as int)).len() as int) == enc_secs(cols.take(n as int)),
    decreases cols.len() - n,
{
    if n == cols.len() {
        assert(cols.take(n as int) =~= cols);
        assert(enc_secs(cols).take(enc_secs(cols).len() as int) =~= enc_secs(cols));
    } else {
        lemma_enc_secs_prefix(cols, n + 1);
        lemma_enc_secs_take(cols, n);
        let a = enc_secs(cols.take(n as int));
        let a1 = enc_secs(cols.take(n + 1 as int));
        assert(enc_secs(cols).take(a.len() as int) =~= enc_secs(cols).take(a1.len() as int).take(a.len() as int));
        assert(a1.take(a.len() as int) =~= a);
    }
}

/// the first n sections of enc_secs(cols) + rest are cols[0..n]
pub proof fn lemma_secs_of_enc(cols: Seq<Seq<u8>>, rest: Seq<u8>, n: nat)
    requires
        n <= cols.len(),
        forall|i: int| 0 <= i < cols.len() ==> (#[trigger] cols[i]).len() <= usize::MAX,
    ensures
        secs_end(enc_secs(cols) + rest, n) == Ok::<nat, SecErr>(enc_secs(cols.take(n as int)).len()),
        forall|i: nat| i < n ==> #[trigger] sec(enc_secs(cols) + rest, i) == cols[i as int],
    decreases n,
{
    reveal_with_fuel(secs_end, 2);
    reveal(sec);
    let s = enc_secs(cols) + rest;
    if n == 0 {
        assert(cols.take(0) =~= Seq::<Seq<u8>>::empty());
    } else {
        let m = (n - 1) as nat;
        lemma_secs_of_enc(cols, rest, m);
        lemma_enc_secs_take(cols, m);
        lemma_enc_secs_prefix(cols, n);
        let a = enc_secs(cols.take(m as int));
        let e = enc_buf(cols[m as int]);
        let a1 = enc_secs(cols.take(n as int));
        let tail = s.skip(a1.len() as int);
        assert(a1 == a + e);
        assert(enc_secs(cols).take(a1.len() as int) == a1);
        assert(tail_from(s, a.len() as int) =~= e + tail) by {
            assert forall|j: int| 0 <= j < e.len() implies s[a.len() + j] == e[j] by {
                assert(enc_secs(cols).take(a1.len() as int)[a.len() + j] == (a + e)[a.len() + j]);
            }
        }
        lemma_dec_enc_buf_v2(cols[m as int], tail);
        assert forall|i: nat| i < n implies #[trigger] sec(s, i) == cols[i as int] by {
            if i == m {
            }
        }
    }
}

/// the byte string `to_vec` builds: flag, nine sections, rest
pub open spec fn enc_v2_cols(flag: u8, c: V2Cols) -> Seq<u8> {
    seq![flag] + enc_secs(seq![c.key_clock, c.client, c.left_clock, c.right_clock, c.info, c.string, c.parent_info, c.type_ref, c.len])
        + c.rest
}

pub open spec fn v2_cols_encodable(c: V2Cols) -> bool {
    &&& c.key_clock.len() <= usize::MAX
    &&& c.client.len() <= usize::MAX
    &&& c.left_clock.len() <= usize::MAX
    &&& c.right_clock.len() <= usize::MAX
    &&& c.info.len() <= usize::MAX
    &&& c.string.len() <= usize::MAX
    &&& c.parent_info.len() <= usize::MAX
    &&& c.type_ref.len() <= usize::MAX
    &&& c.len.len() <= usize::MAX
}

pub proof fn theorem_v2_layout_round_trip(flag: u8, c: V2Cols)
    requires
        v2_cols_encodable(c),
    ensures
        dec_v2_cols(v2_input(enc_v2_cols(flag, c))) == Ok::<V2Cols, SecErr>(c),
{
    let cols = seq![c.key_clock, c.client, c.left_clock, c.right_clock, c.info, c.string, c.parent_info, c.type_ref, c.len];
    let s = enc_secs(cols) + c.rest;
    assert(v2_input(enc_v2_cols(flag, c)) =~= s);
    lemma_secs_of_enc(cols, c.rest, 9);
    assert(cols.take(9) =~= cols);
    assert(s.skip(enc_secs(cols).len() as int) =~= c.rest);
    assert(sec(s, 0) == cols[0]);
    assert(sec(s, 1) == cols[1]);
    assert(sec(s, 2) == cols[2]);
    assert(sec(s, 3) == cols[3]);
    assert(sec(s, 4) == cols[4]);
    assert(sec(s, 5) == cols[5]);
    assert(sec(s, 6) == cols[6]);
    assert(sec(s, 7) == cols[7]);
    assert(sec(s, 8) == cols[8]);
}
