// units/lib0_v2/rt_rl.rs — C09 for the Rle column, sequences of ARBITRARY length (theorem_rle_round_trip).
// The length of the LAST run is not part of the encoding (the decoder repeats the last value while no byte follows), so
// the statement is about a decoder created on EXACTLY enc_col_rle(vals) — as DecoderV2 does: every column is its own buffer.

/// n successive `read_u8` calls from state st
pub open spec fn rl_dec_n(st: RlSt, n: nat) -> Option<(Seq<u8>, RlSt)>
    decreases n,
{
    if n == 0 {
        Some((Seq::empty(), st))
    } else {
        match rle_step(st) {
            None => None,
            Some((v, st1)) => match rl_dec_n(st1, (n - 1) as nat) {
                None => None,
                Some((vs, st2)) => Some((seq![v] + vs, st2)),
            },
        }
    }
}

pub open spec fn rl_then(r: Option<(Seq<u8>, RlSt)>, b: nat) -> Option<(Seq<u8>, RlSt)> {
    match r {
        None => None,
        Some((v1, st1)) => match rl_dec_n(st1, b) {
            None => None,
            Some((v2, st2)) => Some((v1 + v2, st2)),
        },
    }
}

pub proof fn lemma_rl_dec_n_len(st: RlSt, n: nat)
    ensures
        rl_dec_n(st, n) is Some ==> rl_dec_n(st, n)->Some_0.0.len() == n,
    decreases n,
{
    if n > 0 {
        match rle_step(st) {
            None => {},
            Some((v, st1)) => { lemma_rl_dec_n_len(st1, (n - 1) as nat); },
        }
    }
}

pub proof fn lemma_rl_dec_n_add(st: RlSt, a: nat, b: nat)
    ensures
        rl_dec_n(st, a + b) == rl_then(rl_dec_n(st, a), b),
    decreases a,
{
    if a == 0 {
        match rl_dec_n(st, b) {
            None => {},
            Some((v2, st2)) => { assert(Seq::<u8>::empty() + v2 =~= v2); },
        }
    } else {
        match rle_step(st) {
            None => {},
            Some((v, st1)) => {
                lemma_rl_dec_n_add(st1, (a - 1) as nat, b);
                match rl_dec_n(st1, (a - 1) as nat) {
                    None => {},
                    Some((vs1, sta)) => {
                        match rl_dec_n(sta, b) {
                            None => {},
                            Some((v2, st2)) => { assert((seq![v] + vs1) + v2 =~= seq![v] + (vs1 + v2)); },
                        }
                    },
                }
            },
        }
    }
}

// ---- runs: (value, count)
pub type RlRun = (u8, u32);

/// a CLOSED run the decoder reads back exactly: 1 <= count <= i32::MAX (the decoder rejects count - 1 >= i32::MAX)
pub open spec fn rl_run_ok(r: RlRun) -> bool {
    1 <= r.1 <= i32::MAX
}

pub open spec fn rl_runs_ok(rs: Seq<RlRun>) -> bool {
    forall|i: int| 0 <= i < rs.len() ==> rl_run_ok(#[trigger] rs[i])
}

/// a closed run: the value byte, then count - 1 as unsigned var-int
pub open spec fn enc_run_rl(v: u8, c: u32) -> Seq<u8> {
    seq![v] + enc_uint((c - 1) as nat)
}

pub open spec fn enc_runs_rl(rs: Seq<RlRun>) -> Seq<u8>
    decreases rs.len(),
{
    if rs.len() == 0 {
        Seq::empty()
    } else {
        enc_runs_rl(rs.drop_last()) + enc_run_rl(rs.last().0, rs.last().1)
    }
}

pub open spec fn rep8(v: u8, c: nat) -> Seq<u8> {
    Seq::new(c, |i: int| v)
}

pub open spec fn rl_expand(rs: Seq<RlRun>) -> Seq<u8>
    decreases rs.len(),
{
    if rs.len() == 0 {
        Seq::empty()
    } else {
        rl_expand(rs.drop_last()) + rep8(rs.last().0, rs.last().1 as nat)
    }
}

pub open spec fn rl_total(rs: Seq<RlRun>) -> nat
    decreases rs.len(),
{
    if rs.len() == 0 { 0 } else { rl_total(rs.drop_last()) + rs.last().1 as nat }
}

pub open spec fn rl_last_val(rs: Seq<RlRun>, l0: u8) -> u8 {
    if rs.len() == 0 { l0 } else { rs.last().0 }
}

/// j reads from a positive count
pub proof fn lemma_rl_counted(rest: Seq<u8>, v: u8, m: i32, j: nat)
    requires
        0 <= j <= m,
    ensures
        rl_dec_n(RlSt { rest, last: v, count: m }, j) == Some((rep8(v, j), RlSt { rest, last: v, count: (m - j) as i32 })),
    decreases j,
{
    let st = RlSt { rest, last: v, count: m };
    if j == 0 {
        assert(rep8(v, 0) =~= Seq::<u8>::empty());
    } else {
        lemma_rl_counted(rest, v, m, (j - 1) as nat);
        lemma_rl_dec_n_add(st, (j - 1) as nat, 1);
        let st1 = RlSt { rest, last: v, count: (m - (j - 1)) as i32 };
        let st2 = RlSt { rest, last: v, count: (m - j) as i32 };
        assert(rle_step(st1) == Some((v, st2)));
        assert(rl_dec_n(st2, 0) == Some((Seq::<u8>::empty(), st2)));
        assert(rl_dec_n(st1, 1) == Some((seq![v] + Seq::<u8>::empty(), st2)));
        assert(rep8(v, (j - 1) as nat) + (seq![v] + Seq::<u8>::empty()) =~= rep8(v, j));
    }
}

/// j reads in the "repeat forever" state
pub proof fn lemma_rl_forever(rest: Seq<u8>, v: u8, j: nat)
    ensures
        rl_dec_n(RlSt { rest, last: v, count: -1i32 }, j) == Some((rep8(v, j), RlSt { rest, last: v, count: -1i32 })),
    decreases j,
{
    let st = RlSt { rest, last: v, count: -1i32 };
    if j == 0 {
        assert(rep8(v, 0) =~= Seq::<u8>::empty());
    } else {
        lemma_rl_forever(rest, v, (j - 1) as nat);
        assert(rle_step(st) == Some((v, st)));
        assert(seq![v] + rep8(v, (j - 1) as nat) =~= rep8(v, j));
    }
}

/// the reads of one closed run (followed by at least its count bytes, so `has_content` holds), starting with the refill
pub proof fn lemma_rl_run(v: u8, c: u32, tail: Seq<u8>, l0: u8)
    requires
        rl_run_ok((v, c)),
    ensures
        rl_dec_n(RlSt { rest: enc_run_rl(v, c) + tail, last: l0, count: 0 }, c as nat)
            == Some((rep8(v, c as nat), RlSt { rest: tail, last: v, count: 0 })),
{
    let rest0 = enc_run_rl(v, c) + tail;
    let st0 = RlSt { rest: rest0, last: l0, count: 0 };
    let e2 = enc_uint((c - 1) as nat);
    lemma_enc_uint_len((c - 1) as nat);
    assert(rest0[0] == v);
    assert(rest0.len() > 1);
    assert(rest0.skip(1) =~= e2 + tail);
    lemma_dec_enc_u32((c - 1) as u32, tail);
    assert(rest0.skip((1 + e2.len()) as int) =~= tail);
    let st1 = RlSt { rest: tail, last: v, count: (c - 1) as i32 };
    assert(rle_step(st0) == Some((v, st1)));
    lemma_rl_counted(tail, v, (c - 1) as i32, (c - 1) as nat);
    assert(seq![v] + rep8(v, (c - 1) as nat) =~= rep8(v, c as nat));
}

/// the reads of a sequence of closed runs
pub proof fn lemma_rl_runs(rs: Seq<RlRun>, tail: Seq<u8>, l0: u8)
    requires
        rl_runs_ok(rs),
    ensures
        rl_dec_n(RlSt { rest: enc_runs_rl(rs) + tail, last: l0, count: 0 }, rl_total(rs))
            == Some((rl_expand(rs), RlSt { rest: tail, last: rl_last_val(rs, l0), count: 0 })),
    decreases rs.len(),
{
    let st0 = RlSt { rest: enc_runs_rl(rs) + tail, last: l0, count: 0 };
    if rs.len() == 0 {
        assert(enc_runs_rl(rs) + tail =~= tail);
    } else {
        let r = rs.last();
        let pre = rs.drop_last();
        let tail1 = enc_run_rl(r.0, r.1) + tail;
        assert(enc_runs_rl(rs) + tail =~= enc_runs_rl(pre) + tail1);
        assert(rl_runs_ok(pre)) by {
            assert forall|i: int| 0 <= i < pre.len() implies rl_run_ok(#[trigger] pre[i]) by { assert(pre[i] == rs[i]); }
        }
        assert(rl_run_ok(rs[rs.len() - 1]));
        lemma_rl_runs(pre, tail1, l0);
        lemma_rl_run(r.0, r.1, tail, rl_last_val(pre, l0));
        lemma_rl_dec_n_add(st0, rl_total(pre), r.1 as nat);
    }
}

// ---- the encoder at the level of runs: `runs` are the CLOSED runs, (last, count) is the open one whose value byte is out
pub struct RrSt {
    pub runs: Seq<RlRun>,
    pub last: Option<u8>,
    pub count: u32,
}

pub open spec fn rr_write(st: RrSt, v: u8) -> RrSt {
    if st.last == Some(v) {
        RrSt { runs: st.runs, last: st.last, count: (st.count + 1) as u32 }
    } else {
        RrSt { runs: if st.count > 0 { st.runs.push((st.last->Some_0, st.count)) } else { st.runs }, last: Some(v), count: 1 }
    }
}

pub open spec fn rr_state(vals: Seq<u8>) -> RrSt
    decreases vals.len(),
{
    if vals.len() == 0 {
        RrSt { runs: Seq::empty(), last: None, count: 0 }
    } else {
        rr_write(rr_state(vals.drop_last()), vals.last())
    }
}

/// the bytes of the open run: just its value
pub open spec fn rr_open(st: RrSt) -> Seq<u8> {
    if st.count > 0 { seq![st.last->Some_0] } else { Seq::empty() }
}

pub open spec fn rr_good(p: RrSt, vals: Seq<u8>) -> bool {
    &&& rl_expand(p.runs) + (if p.count > 0 { rep8(p.last->Some_0, p.count as nat) } else { Seq::empty() }) == vals
    &&& rl_runs_ok(p.runs)
    &&& rl_total(p.runs) + p.count == vals.len()
    &&& (p.count > 0 <==> p.last is Some)
    &&& (p.count == 0 ==> p.runs.len() == 0)
}

pub proof fn lemma_rl_expand_push(rs: Seq<RlRun>, v: u8, c: u32)
    ensures
        rl_expand(rs.push((v, c))) == rl_expand(rs) + rep8(v, c as nat),
        rl_total(rs.push((v, c))) == rl_total(rs) + c,
        enc_runs_rl(rs.push((v, c))) == enc_runs_rl(rs) + enc_run_rl(v, c),
        rl_runs_ok(rs) && rl_run_ok((v, c)) ==> rl_runs_ok(rs.push((v, c))),
{
    let q = rs.push((v, c));
    assert(q.drop_last() =~= rs);
    assert(q.last() == (v, c));
    if rl_runs_ok(rs) && rl_run_ok((v, c)) {
        assert forall|i: int| 0 <= i < q.len() implies rl_run_ok(#[trigger] q[i]) by {
            if i < rs.len() { assert(q[i] == rs[i]); }
        }
    }
}

/// DOMAIN of the Rle column (C09): at most i32::MAX values (so that no run is longer than the decoder accepts)
pub open spec fn rl_dom(vals: Seq<u8>) -> bool {
    vals.len() <= i32::MAX
}

pub proof fn lemma_rr_step(p: RrSt, o: ReSt, vals: Seq<u8>, v: u8)
    requires
        rr_good(p, vals),
        o == (ReSt { out: enc_runs_rl(p.runs) + rr_open(p), last: p.last, count: p.count }),
        vals.len() < i32::MAX,
    ensures
        rr_good(rr_write(p, v), vals.push(v)),
        re_write(o, v) == (ReSt { out: enc_runs_rl(rr_write(p, v).runs) + rr_open(rr_write(p, v)), last: rr_write(p, v).last, count: rr_write(p, v).count }),
        re_write_ok(o, v),
{
    let q = rr_write(p, v);
    if p.last == Some(v) {
        let c = p.count;
        assert(rep8(v, (c + 1) as nat) =~= rep8(v, c as nat).push(v));
        assert(rl_expand(p.runs) + rep8(v, c as nat).push(v) =~= (rl_expand(p.runs) + rep8(v, c as nat)).push(v));
    } else {
        assert(rep8(v, 1) =~= seq![v]);
        if p.count > 0 {
            let pv = p.last->Some_0;
            lemma_rl_expand_push(p.runs, pv, p.count);
            assert(rl_expand(q.runs) + seq![v] =~= (rl_expand(p.runs) + rep8(pv, p.count as nat)).push(v));
            assert((enc_runs_rl(p.runs) + seq![pv] + enc_uint((p.count - 1) as nat)).push(v) =~= enc_runs_rl(q.runs) + seq![v]);
        } else {
            assert(rl_expand(q.runs) + seq![v] =~= (rl_expand(p.runs) + Seq::<u8>::empty()).push(v));
            assert((enc_runs_rl(p.runs) + Seq::<u8>::empty()).push(v) =~= enc_runs_rl(q.runs) + seq![v]);
        }
    }
}

pub proof fn lemma_rl_vals(vals: Seq<u8>)
    requires
        rl_dom(vals),
    ensures
        rr_good(rr_state(vals), vals),
        re_state(vals) == (ReSt { out: enc_runs_rl(rr_state(vals).runs) + rr_open(rr_state(vals)), last: rr_state(vals).last, count: rr_state(vals).count }),
        vals.len() > 0 ==> re_write_ok(re_state(vals.drop_last()), vals.last()),
    decreases vals.len(),
{
    if vals.len() == 0 {
        assert(vals =~= Seq::<u8>::empty());
        assert(rl_expand(Seq::<RlRun>::empty()) + Seq::<u8>::empty() =~= Seq::<u8>::empty());
        assert(enc_runs_rl(Seq::<RlRun>::empty()) + Seq::<u8>::empty() =~= Seq::<u8>::empty());
    } else {
        let pv = vals.drop_last();
        lemma_rl_vals(pv);
        lemma_rr_step(rr_state(pv), re_state(pv), pv, vals.last());
        assert(pv.push(vals.last()) =~= vals);
    }
}

/// C09 for the Rle column: for EVERY sequence in the domain and every n <= |vals|, a decoder created on exactly
/// enc_col_rle(vals) returns vals[0..n] on n successive reads.  (Further reads keep returning the last value.)
pub proof fn theorem_rle_round_trip(vals: Seq<u8>, n: nat)
    requires
        rl_dom(vals),
        n <= vals.len(),
    ensures
        rl_dec_n(RlSt { rest: enc_col_rle(vals), last: 0, count: 0 }, n) is Some,
        rl_dec_n(RlSt { rest: enc_col_rle(vals), last: 0, count: 0 }, n)->Some_0.0 == vals.take(n as int),
{
    let st0 = RlSt { rest: enc_col_rle(vals), last: 0, count: 0 };
    lemma_rl_vals(vals);
    let p = rr_state(vals);
    if vals.len() == 0 {
        assert(vals.take(0) =~= Seq::<u8>::empty());
    } else {
        // closed runs first, then the open run, whose single byte ends the column
        let pv = p.last->Some_0;
        let c = p.count as nat;
        let t = rl_total(p.runs);
        lemma_rl_runs(p.runs, seq![pv], 0);
        let sta = RlSt { rest: seq![pv], last: rl_last_val(p.runs, 0), count: 0 };
        assert(rl_dec_n(st0, t) == Some((rl_expand(p.runs), sta)));
        // the open run: one refill read, then "forever"
        let stb = RlSt { rest: seq![pv].skip(1), last: pv, count: -1i32 };
        assert(rle_step(sta) == Some((pv, stb)));
        lemma_rl_forever(stb.rest, pv, (c - 1) as nat);
        assert(seq![pv] + rep8(pv, (c - 1) as nat) =~= rep8(pv, c));
        assert(rl_dec_n(sta, c) == Some((rep8(pv, c), stb)));
        lemma_rl_dec_n_add(st0, t, c);
        assert(rl_dec_n(st0, vals.len()) == Some((vals, stb)));
        let m = (vals.len() - n) as nat;
        lemma_rl_dec_n_add(st0, n, m);
        lemma_rl_dec_n_len(st0, n);
        let r1 = rl_dec_n(st0, n);
        assert(r1 is Some);
        let v1 = r1->Some_0.0;
        let r2 = rl_dec_n(r1->Some_0.1, m);
        assert(r2 is Some);
        assert(v1 + r2->Some_0.0 == vals);
        assert(v1 =~= vals.take(n as int));
    }
}
