// unit `ids_attrs` — `impl Merge for ContentAttributes<A>` (yrs/src/id_map.rs): DISCHARGES assumption A3 of C16.
//
// All interval-algebra proofs of C16 (units ids, ids_insert, ids_merge, ids_xi, ids_subset, ids_lift) are generic in `T: Merge`
// and ASSUME the trait contract of units/ids_common/base.rs (merge's contract + the laws law_obeys_eq, law_eq_refl, law_eq_sym,
// law_eq_trans, law_merge_idem) for every implementor other than `()`.  `ContentAttributes<A>` is the only other implementor in
// the crate.  This unit extracts its real `eq`, `merge`, `clone`, `new`, `from_attrs` (+ the real structs and the real
// `Clone for ContentAttribute`) and PROVES the impl against that contract with
//   wf(x)           := true                 (every list is a valid value: duplicates are harmless)
//   eq_spec(a, b)   := eq_set_spec(a@, b@) = every element of a occurs in b && every element of b occurs in a
//                      (what the real `eq` computes: proved, `ensures` of eq)
//   merge_spec(a,b) := the value whose list is merge_seq(a@, b@) = a followed by the elements of b that do not occur in what has
//                      been built so far (b's order, first occurrences): exactly what the loop builds (proved)
//
// PROVED
//   (1) lemma_eq_is_set_equality: eq_set_spec(a, b) <==> same_set(a, b) (forall x: x occurs in a <==> x occurs in b) for ALL
//       lists, with or without duplicates; hence `==` is an equivalence on all values: law_eq_refl / law_eq_sym / law_eq_trans.
//   (2) merge: computes merge_spec (the inherited trait contract + the same over the lists); law_merge_idem (a ~ b ==>
//       merge_seq(a, b) == a: nothing is appended); lemma_merge_seq_union: merge is the set union; lemma_merge_seq_prefix: `a`
//       stays a prefix and merge introduces no duplicates.
//   (3) clone returns a structurally equal value (base.rs axiom_clone_merge is a THEOREM for this implementor, given
//       axiom_vec_value_is_contents); new() is empty; from_attrs keeps the list.
//   (4) lemma_witness_repaired documents the repaired defect (below): for a != b, [a, a] and [a, b] are UNEQUAL in both
//       directions, and [a, a] ~ [a] in both directions.
//
// TRUSTED (each with its documented contract at the declaration)
//   axiom_attr_eq_is_equivalence   the ONE element-equality axiom group: derived `==` of ContentAttribute<A>
//                                  (Arc<{name: String, value: A}>, A: Eq) obeys its eq_spec and is an equivalence relation.
//                                  The derived `PartialEq for ContentAttribute` itself is written out as an external_body item
//                                  (never verified, only its existence is needed); its eq_spec stays uninterpreted (OPAQUE).
//   <[T]>::contains                std: "Returns true if the slice contains an element with the given value." (vstd: no spec)
//   vx_iter_all                    std Iterator::all over slice::iter(): "Tests if every element of the iterator matches a
//                                  predicate."  Body = the std call (like vx_partition_point / rule R2); reached through two logged
//                                  SUBs `X.0.iter().all(|a| Y.0.contains(a))` -> `vx_iter_all(&X.0, |a| Y.0.contains(a))`.
//                                  See EXTRACTOR GAPS.  The rest of `eq` (the `&&`, the closures) is the real text and is
//                                  VERIFIED: `eq`'s body is NOT trusted.
//   axiom_vec_value_is_contents    the mathematical value of a (Small)Vec is its element sequence (vstd has ext-equality axioms for
//                                  Seq / slice / array but none for Vec; vstd has no other spec observation of a Vec).  Needed
//                                  because base.rs states merge's and clone's results with structural `==` on the implementor.
//   vstd's own specifications of Vec::{new, push, clone, iter}, Arc::clone
//
// REWRITES  R1 (SmallVec -> Vec), SUB `in &other.0` -> `in other.0.iter()` (std: IntoIterator for &SmallVec / &Vec is iter()),
//   the two SUBs for Iterator::all (above).
//
// REPAIRED DEFECT (history; /repo commit 6236824).  `eq` used to be `len equal && every element of self occurs in other`, which
//   is set equality only on duplicate-free lists, and duplicate lists are constructible through the public API
//   (ContentAttributes::from_attrs, IdMap::insert, IdMap::from_set (dedup() removes adjacent duplicates only), IdMap::decode).
//   Witness [a, a] vs [a, b], a != b: `[a,a] == [a,b]` was true and `[a,b] == [a,a]` false; IdMap::insert([0,3), vec![a,a]) followed
//   by insert([3,6), vec![a,b]) coalesced into ONE entry [0..6) [a,a] (attribute b lost).  `eq` now checks both inclusions and no
//   length.  units/ids_attrs/replay.rs replays the witness through the public API.
//
// EXTRACTOR GAPS
//   * `X.iter().all(|a| P)`: this Verus ACCEPTS the call (Iterator is an external trait spec) but vstd gives `all` NO postcondition
//     (the result is an arbitrary bool).  An `assume_specification` for `<slice::Iter<T> as Iterator>::all` is possible only through
//     an uninterpreted proxy of `IteratorSpec::remaining` (direct use is rejected as a cyclic definition) and is not usable here:
//     the calls are operands of the function's tail expression on temporary iterators, no proof hint can follow them, and the
//     quantifier triggers of vstd's `iter()` postcondition do not line up with a spec over the list.  A mechanical rule
//     "X.iter().all(|a| P)" -> `vx_iter_all(&X, |a| P)` (like R2) or -> index loop (like R6) would replace the hand-written SUBs
//     (which have to sit in the unit-wide rules: `|` is the field separator of an extract line, and SUB values need balanced
//     parentheses).
//   * the inherited postcondition of a trait-method impl (PartialEq::eq: `obeys_eq_spec() ==> r == self.eq_spec(other)`) is
//     reported by Verus at vstd's std_specs/cmp.rs:21; the runner maps that to line 21 of the assembled file and labels it
//     `ids_attrs::?::post` (lemma level).  The clause is therefore spelled out as an own `ensures` of `eq` (ids_attrs::attrs_eq::post).
//   * a lost structural anchor of a proof hint is dropped silently by the lenient splicer (a tail expression
//     `ContentAttributes(..)` is classified `stmt:call ContentAttributes`, not `stmt:expr`).
//
// Function bodies are pulled from /repo on every run by vx/extract.py.
#![allow(unused_imports, unused_variables, unused_mut, dead_code, unused_parens, unused_braces)]
use vstd::prelude::*;

verus! {

/*@rules R1
   SUB(from=self.0.iter().all(|a| other.0.contains(a));;to=vx_iter_all(&self.0, |a| other.0.contains(a)))
   SUB(from=other.0.iter().all(|a| self.0.contains(a));;to=vx_iter_all(&other.0, |a| self.0.contains(a)))
@*/

pub mod vx_base {
    use vstd::prelude::*;
    use core::ops::Range;
    use vstd::std_specs::cmp::PartialEqSpec;

/*@include units/ids_common/base.rs @*/
}

pub mod vx_attrs {
    use vstd::prelude::*;
    use vstd::std_specs::cmp::{PartialEqSpec, PartialEqSpecImpl};
    use std::sync::Arc;
    use std::hash::Hash;
    use super::vx_base::*;

    // ==========================================================================================
    // 1. the element type and the trusted std contracts
    // ==========================================================================================
    /*@extract yrs/src/id_map.rs | - | struct ContentAttributeInner @*/

    /*@extract yrs/src/id_map.rs | - | struct ContentAttribute @*/

    /// `#[derive(PartialEq)]` of ContentAttribute / ContentAttributeInner, written out (compiler generated: compares the
    /// Arc's contents field by field).  OPAQUE: its eq_spec is left uninterpreted; the only thing known about it is
    /// axiom_attr_eq_is_equivalence.
    impl<A: PartialEq> PartialEq for ContentAttribute<A> {
        #[verifier::external_body]
        fn eq(&self, other: &Self) -> bool {
            self.0.name == other.0.name && self.0.value == other.0.value
        }
    }

    /// `e` is an equivalence relation (as a predicate over an arbitrary element type, so that the list lemmas are generic)
    pub open spec fn eq_equiv<E: PartialEq>() -> bool {
        &&& forall|x: E| #[trigger] x.eq_spec(&x)
        &&& forall|x: E, y: E| #[trigger] x.eq_spec(&y) ==> y.eq_spec(&x)
        &&& forall|x: E, y: E, z: E| #[trigger] x.eq_spec(&y) && #[trigger] y.eq_spec(&z) ==> x.eq_spec(&z)
    }

    /// THE element-equality axiom group (A3 for the element type): `==` of ContentAttribute<A> is what its eq_spec says and is
    /// an equivalence relation (derived PartialEq over `String` and `A: Eq`; `Eq` is the std marker for exactly this).
    pub axiom fn axiom_attr_eq_is_equivalence<A: PartialEq>()
        ensures
            <ContentAttribute<A> as PartialEqSpec>::obeys_eq_spec(),
            eq_equiv::<ContentAttribute<A>>();

    /// the list `s` contains an element with the value `x` (std's wording for `slice::contains`; std computes
    /// `self.iter().any(|e| *e == *x)`, i.e. the stored element is the left operand)
    pub open spec fn occurs<E: PartialEq>(s: Seq<E>, x: E) -> bool {
        exists|i: int| 0 <= i < s.len() && (#[trigger] s[i]).eq_spec(&x)
    }

    pub open spec fn occ_idx<E: PartialEq>(s: Seq<E>, x: E) -> int {
        choose|i: int| 0 <= i < s.len() && (#[trigger] s[i]).eq_spec(&x)
    }

    /// std `slice::contains` (A2; also what `Vec::contains` / `SmallVec::contains` deref to):
    /// "Returns true if the slice contains an element with the given value."
    pub assume_specification<T: PartialEq>[ <[T]>::contains ](s: &[T], x: &T) -> (r: bool)
        ensures
            T::obeys_eq_spec() ==> r == occurs(s@, *x),
    ;

    /// std `Iterator::all` over `slice::iter()` (A2): "Tests if every element of the iterator matches a predicate. [...] if they
    /// all return true, then so does all(). If any of them return false, it returns false."  Body = the std call.
    #[verifier::external_body]
    pub fn vx_iter_all<T, F: FnMut(&T) -> bool>(v: &Vec<T>, f: F) -> (r: bool)
        requires
            forall|i: int| 0 <= i < v@.len() ==> call_requires(f, (&#[trigger] v@[i],)),
        ensures
            r ==> forall|i: int| 0 <= i < v@.len() ==> call_ensures(f, (&#[trigger] v@[i],), true),
            !r ==> exists|i: int| 0 <= i < v@.len() && call_ensures(f, (&#[trigger] v@[i],), false),
    {
        v.iter().all(f)
    }

    /// the mathematical value of a vector is its element sequence (capacity / address are not part of it); vstd states this
    /// for Seq, slices and arrays but not for Vec.  A3 (`axiom_clone_merge`: a clone is structurally equal) presupposes it.
    pub axiom fn axiom_vec_value_is_contents<E>(a: Vec<E>, b: Vec<E>)
        requires
            a@ == b@,
        ensures
            a == b;

    impl<A> Clone for ContentAttribute<A> {
        /*@extract yrs/src/id_map.rs | impl<A> Clone for ContentAttribute<A> | fn clone | label=attr_clone
        @ret r
        @sig
            ensures r == *self,
        @*/
    }

    // ==========================================================================================
    // 2. lists as sets: specs and lemmas (pure, generic in the element type)
    // ==========================================================================================
    /// no two elements are equal (NOT an invariant of the type; used to state that merge introduces no duplicates)
    pub open spec fn nodup<E: PartialEq>(s: Seq<E>) -> bool {
        forall|i: int, j: int| #![trigger s[i], s[j]] 0 <= i < s.len() && 0 <= j < s.len() && i != j ==> !s[i].eq_spec(&s[j])
    }

    /// every element of `a` occurs in `b`
    pub open spec fn sub<E: PartialEq>(a: Seq<E>, b: Seq<E>) -> bool {
        forall|i: int| 0 <= i < a.len() ==> occurs(b, #[trigger] a[i])
    }

    /// what `<ContentAttributes as PartialEq>::eq` computes: mutual containment
    pub open spec fn eq_set_spec<E: PartialEq>(a: Seq<E>, b: Seq<E>) -> bool {
        sub(a, b) && sub(b, a)
    }

    /// set equality
    pub open spec fn same_set<E: PartialEq>(a: Seq<E>, b: Seq<E>) -> bool {
        forall|x: E| occurs(a, x) <==> occurs(b, x)
    }

    /// what `<ContentAttributes as Merge>::merge` computes: `a`, then the elements of `b` (in order) that do not occur in what
    /// has been built so far
    pub open spec fn merge_seq<E: PartialEq>(a: Seq<E>, b: Seq<E>) -> Seq<E>
        decreases b.len(),
    {
        if b.len() == 0 {
            a
        } else {
            let m = merge_seq(a, b.drop_last());
            if occurs(m, b.last()) { m } else { m.push(b.last()) }
        }
    }

    pub proof fn lemma_occurs_at<E: PartialEq>(s: Seq<E>, i: int, x: E)
        requires 0 <= i < s.len(), s[i].eq_spec(&x),
        ensures occurs(s, x),
    {
    }

    pub proof fn lemma_sub_refl<E: PartialEq>(a: Seq<E>)
        requires eq_equiv::<E>(),
        ensures sub(a, a),
    {
        assert forall|i: int| 0 <= i < a.len() implies occurs(a, #[trigger] a[i]) by {
            lemma_occurs_at(a, i, a[i]);
        }
    }

    /// an element equal to one that occurs, occurs
    pub proof fn lemma_occurs_eq<E: PartialEq>(s: Seq<E>, x: E, y: E)
        requires eq_equiv::<E>(), occurs(s, x), x.eq_spec(&y),
        ensures occurs(s, y),
    {
        let i = occ_idx(s, x);
        assert(s[i].eq_spec(&x));
        assert(s[i].eq_spec(&y));
    }

    pub proof fn lemma_sub_occurs<E: PartialEq>(a: Seq<E>, b: Seq<E>, x: E)
        requires eq_equiv::<E>(), sub(a, b), occurs(a, x),
        ensures occurs(b, x),
    {
        let i = occ_idx(a, x);
        assert(a[i].eq_spec(&x));
        assert(occurs(b, a[i]));
        lemma_occurs_eq(b, a[i], x);
    }

    pub proof fn lemma_sub_trans<E: PartialEq>(a: Seq<E>, b: Seq<E>, c: Seq<E>)
        requires eq_equiv::<E>(), sub(a, b), sub(b, c),
        ensures sub(a, c),
    {
        assert forall|i: int| 0 <= i < a.len() implies occurs(c, #[trigger] a[i]) by {
            lemma_sub_occurs(b, c, a[i]);
        }
    }

    /// (1) the real `eq` is set equality, for ALL lists
    pub proof fn lemma_eq_is_set_equality<E: PartialEq>(a: Seq<E>, b: Seq<E>)
        requires
            eq_equiv::<E>(),
        ensures
            eq_set_spec(a, b) <==> same_set(a, b),
    {
        if eq_set_spec(a, b) {
            assert forall|x: E| occurs(a, x) <==> occurs(b, x) by {
                if occurs(a, x) { lemma_sub_occurs(a, b, x); }
                if occurs(b, x) { lemma_sub_occurs(b, a, x); }
            }
        }
        if same_set(a, b) {
            assert forall|i: int| 0 <= i < a.len() implies occurs(b, #[trigger] a[i]) by {
                lemma_occurs_at(a, i, a[i]);
            }
            assert forall|i: int| 0 <= i < b.len() implies occurs(a, #[trigger] b[i]) by {
                lemma_occurs_at(b, i, b[i]);
            }
        }
    }

    /// the witness of the REPAIRED defect (old `eq`: [a, a] == [a, b] but [a, b] != [a, a]).  For any two different attributes
    /// a, b: [a, a] and [a, b] are unequal in BOTH directions, and a duplicate does not matter: [a, a] ~ [a] in both directions.
    pub proof fn lemma_witness_repaired<E: PartialEq>(a: E, b: E)
        requires
            eq_equiv::<E>(),
            !a.eq_spec(&b),
        ensures
            !eq_set_spec(seq![a, a], seq![a, b]),
            !eq_set_spec(seq![a, b], seq![a, a]),
            eq_set_spec(seq![a, a], seq![a]),
            eq_set_spec(seq![a], seq![a, a]),
    {
        let x = seq![a, a];
        let y = seq![a, b];
        let z = seq![a];
        if occurs(x, y[1]) {
            let k = occ_idx(x, y[1]);
            assert(x[k].eq_spec(&b));
        }
        assert(!occurs(x, y[1]));
        assert(!sub(y, x));
        assert forall|i: int| 0 <= i < x.len() implies occurs(z, #[trigger] x[i]) by {
            lemma_occurs_at(z, 0, x[i]);
        }
        assert forall|i: int| 0 <= i < z.len() implies occurs(x, #[trigger] z[i]) by {
            lemma_occurs_at(x, 0, z[i]);
        }
    }

    // ---- merge_seq ---------------------------------------------------------------------------------------------------
    pub proof fn lemma_nodup_push<E: PartialEq>(s: Seq<E>, x: E)
        requires eq_equiv::<E>(), nodup(s), !occurs(s, x),
        ensures nodup(s.push(x)),
    {
        let t = s.push(x);
        assert forall|i: int, j: int| #![trigger t[i], t[j]] 0 <= i < t.len() && 0 <= j < t.len() && i != j implies !t[i].eq_spec(&t[j]) by {
            if i < s.len() && j < s.len() {
                assert(t[i] == s[i] && t[j] == s[j]);
            } else if i < s.len() {
                assert(t[i] == s[i]);
                if s[i].eq_spec(&x) { lemma_occurs_at(s, i, x); }
            } else {
                assert(t[j] == s[j]);
                if x.eq_spec(&s[j]) {
                    assert(s[j].eq_spec(&x));
                    lemma_occurs_at(s, j, x);
                }
            }
        }
    }

    /// one loop iteration of `merge`
    pub proof fn lemma_merge_step<E: PartialEq>(a: Seq<E>, b: Seq<E>, k: int)
        requires 0 <= k < b.len(),
        ensures
            merge_seq(a, b.take(k + 1)) == (if occurs(merge_seq(a, b.take(k)), b[k]) { merge_seq(a, b.take(k)) } else { merge_seq(a, b.take(k)).push(b[k]) }),
    {
        let t = b.take(k + 1);
        assert(t.drop_last() =~= b.take(k));
        assert(t.last() == b[k]);
    }

    pub proof fn lemma_occurs_push<E: PartialEq>(s: Seq<E>, e: E, x: E)
        ensures occurs(s.push(e), x) <==> occurs(s, x) || e.eq_spec(&x),
    {
        let t = s.push(e);
        if occurs(t, x) {
            let i = occ_idx(t, x);
            assert(t[i].eq_spec(&x));
            if i < s.len() {
                assert(t[i] == s[i]);
                lemma_occurs_at(s, i, x);
            }
        }
        if occurs(s, x) {
            let i = occ_idx(s, x);
            assert(s[i].eq_spec(&x));
            assert(t[i] == s[i]);
            lemma_occurs_at(t, i, x);
        }
        if e.eq_spec(&x) {
            assert(t[s.len() as int] == e);
            lemma_occurs_at(t, s.len() as int, x);
        }
    }

    /// merge keeps `a` as a prefix (nothing is removed or reordered) and introduces no duplicates
    pub proof fn lemma_merge_seq_prefix<E: PartialEq>(a: Seq<E>, b: Seq<E>)
        requires eq_equiv::<E>(),
        ensures
            nodup(a) ==> nodup(merge_seq(a, b)),
            a.len() <= merge_seq(a, b).len(),
            merge_seq(a, b).subrange(0, a.len() as int) == a,
        decreases b.len(),
    {
        let r = merge_seq(a, b);
        if b.len() == 0 {
            assert(r.subrange(0, a.len() as int) =~= a);
        } else {
            let m = merge_seq(a, b.drop_last());
            lemma_merge_seq_prefix(a, b.drop_last());
            if !occurs(m, b.last()) {
                if nodup(a) { lemma_nodup_push(m, b.last()); }
                assert(r.subrange(0, a.len() as int) =~= m.subrange(0, a.len() as int));
            }
        }
    }

    /// merge is the set union
    pub proof fn lemma_merge_seq_union<E: PartialEq>(a: Seq<E>, b: Seq<E>, x: E)
        requires eq_equiv::<E>(),
        ensures occurs(merge_seq(a, b), x) <==> occurs(a, x) || occurs(b, x),
        decreases b.len(),
    {
        if b.len() > 0 {
            let b0 = b.drop_last();
            let e = b.last();
            let m = merge_seq(a, b0);
            lemma_merge_seq_union(a, b0, x);
            assert(b =~= b0.push(e));
            lemma_occurs_push(b0, e, x);
            if occurs(m, e) {
                if e.eq_spec(&x) { lemma_occurs_eq(m, e, x); }
            } else {
                lemma_occurs_push(m, e, x);
            }
        }
    }

    /// merging in a list all of whose elements already occur appends nothing
    pub proof fn lemma_merge_seq_absorb<E: PartialEq>(a: Seq<E>, b: Seq<E>)
        requires sub(b, a),
        ensures merge_seq(a, b) == a,
        decreases b.len(),
    {
        if b.len() > 0 {
            let b0 = b.drop_last();
            assert forall|i: int| 0 <= i < b0.len() implies occurs(a, #[trigger] b0[i]) by {
                assert(b0[i] == b[i]);
            }
            lemma_merge_seq_absorb(a, b0);
            assert(b.last() == b[b.len() - 1]);
        }
    }

    // ==========================================================================================
    // 3. ContentAttributes<A>: the real struct and the real impls
    // ==========================================================================================
    /*@extract yrs/src/id_map.rs | - | struct ContentAttributes @*/

    impl<A> ContentAttributes<A> {
        pub open spec fn view(&self) -> Seq<ContentAttribute<A>> {
            self.0@
        }
    }

    /// two ContentAttributes with the same list are the same value
    pub proof fn lemma_attrs_ext<A>(x: ContentAttributes<A>, y: ContentAttributes<A>)
        requires x@ == y@,
        ensures x == y,
    {
        axiom_vec_value_is_contents(x.0, y.0);
    }

    impl<A> Clone for ContentAttributes<A> {
        /*@extract yrs/src/id_map.rs | impl<A> Clone for ContentAttributes<A> | fn clone | label=attrs_clone
        @ret r
        @sig
            // A3 (base.rs axiom_clone_merge) as a theorem for this implementor
            ensures r == *self,
        @before 1 `stmt:call ContentAttributes`
            proof {
                assert forall|v: Vec<ContentAttribute<A>>| (#[trigger] v@) == self.0@ implies v == self.0 by {
                    axiom_vec_value_is_contents(v, self.0);
                }
            }
        @*/
    }

    impl<A: PartialEq> PartialEqSpecImpl for ContentAttributes<A> {
        open spec fn obeys_eq_spec() -> bool {
            <ContentAttribute<A> as PartialEqSpec>::obeys_eq_spec()
        }

        open spec fn eq_spec(&self, other: &Self) -> bool {
            eq_set_spec(self@, other@)
        }
    }

    impl<A: PartialEq> PartialEq for ContentAttributes<A> {
        /*@extract yrs/src/id_map.rs | impl<A: PartialEq> PartialEq for ContentAttributes<A> | fn eq | label=attrs_eq
        @ret r
        @sig
            // the inherited contract of PartialEq::eq is `obeys_eq_spec() ==> r == self.eq_spec(other)`; spelled out:
            ensures
                <ContentAttribute<A> as PartialEqSpec>::obeys_eq_spec() ==> r == (sub(self@, other@) && sub(other@, self@)),
        @closure 1 `|a: &ContentAttribute<A>| -> (found: bool)` has=`other.0.contains(a)`
            ensures <ContentAttribute<A> as PartialEqSpec>::obeys_eq_spec() ==> found == occurs(other@, *a),
        @closure 1 `|a: &ContentAttribute<A>| -> (found: bool)` has=`self.0.contains(a)`
            ensures <ContentAttribute<A> as PartialEqSpec>::obeys_eq_spec() ==> found == occurs(self@, *a),
        @*/
    }

    impl<A> ContentAttributes<A> {
        /*@extract yrs/src/id_map.rs | impl<A> ContentAttributes<A> | fn new | label=attrs_new
        @ret r
        @sig
            ensures r@ == Seq::<ContentAttribute<A>>::empty(),
        @*/

        /*@extract yrs/src/id_map.rs | impl<A> ContentAttributes<A> | fn from_attrs
        @ret r
        @sig
            // the caller's list is taken as is (duplicates included): every list is a valid value now
            ensures r@ == attrs@,
        @*/
    }

    impl<A: PartialEq + Eq + Hash + Clone> Merge for ContentAttributes<A> {
        open spec fn wf(&self) -> bool {
            true
        }

        open spec fn merge_spec(&self, other: &Self) -> Self {
            choose|r: Self| r@ == merge_seq(self@, other@)
        }

        /*@extract yrs/src/id_map.rs | impl<A: PartialEq + Eq + Hash + Clone> Merge for ContentAttributes<A> | fn merge | label=attrs_merge | rules=SUB(from=in &other.0;;to=in other.0.iter())
        @sig
            // inherited from the trait: requires old(self).wf(), other.wf(); ensures final(self).wf(), *final(self) == old(self).merge_spec(other).
            // spelled out over the lists:
            ensures
                final(self)@ == merge_seq(old(self)@, other@),
        @start
            let ghost a0 = self@;
            let ghost b = other@;
            proof {
                axiom_attr_eq_is_equivalence::<A>();
                assert(b.take(0) =~= Seq::<ContentAttribute<A>>::empty());
            }
        @loop 1 iter=it
            invariant
                a0 == old(self)@,
                b == other@,
                <ContentAttribute<A> as PartialEqSpec>::obeys_eq_spec(),
                it.seq().len() == b.len(),
                forall|j: int| 0 <= j < b.len() ==> *(#[trigger] it.seq()[j]) == b[j],
                self@ == merge_seq(a0, b.take(it.index@ as int)),
        @before 1 `stmt:if`
            let ghost k = it.index@ as int;
            let ghost m = self@;
            proof {
                assert(*it.seq()[k] == b[k]);
                assert(*attr == b[k]);
                lemma_merge_step(a0, b, k);
            }
        @after 1 `stmt:call push`
            proof {
                assert(self@ == m.push(b[k]));
            }
        @end
            proof {
                assert(b.take(b.len() as int) =~= b);
                let r = choose|r: Self| r@ == merge_seq(a0, b);
                assert(self@ == merge_seq(a0, b));
                lemma_attrs_ext(*self, r);
            }
        @*/

        proof fn law_obeys_eq() {
            axiom_attr_eq_is_equivalence::<A>();
        }

        proof fn law_eq_refl(&self) {
            axiom_attr_eq_is_equivalence::<A>();
            lemma_sub_refl(self@);
        }

        proof fn law_eq_sym(&self, b: &Self) {
            // mutual containment is symmetric by its form
        }

        proof fn law_eq_trans(&self, b: &Self, c: &Self) {
            axiom_attr_eq_is_equivalence::<A>();
            lemma_sub_trans(self@, b@, c@);
            lemma_sub_trans(c@, b@, self@);
        }

        proof fn law_merge_idem(&self, b: &Self) {
            axiom_attr_eq_is_equivalence::<A>();
            // a ~ b: every element of b occurs in a, so the loop appends nothing
            lemma_merge_seq_absorb(self@, b@);
            let r = self.merge_spec(b);
            assert(self@ == merge_seq(self@, b@));
            assert(r@ == merge_seq(self@, b@));
            lemma_sub_refl(self@);
        }
    }
}

} // verus!
fn main() {}
