// unit `ids_attrs` — `impl Merge for ContentAttributes<A>` (yrs/src/id_map.rs): DISCHARGES assumption A3 of C16.
//
// All interval-algebra proofs of C16 (units ids, ids_insert, ids_merge, ids_xi, ids_subset, ids_lift) are generic in `T: Merge`
// and ASSUME the trait contract of units/ids_common/base.rs (merge's contract + the laws law_obeys_eq, law_eq_refl, law_eq_sym,
// law_eq_trans, law_merge_idem) for every implementor other than `()`.  `ContentAttributes<A>` is the only other implementor in
// the crate.  This unit extracts its real `eq`, `merge`, `clone`, `new`, `from_attrs` (+ the real structs and the real
// `Clone for ContentAttribute`) and PROVES the impl against that contract with
//   wf(x)           := nodup(x@)            no two elements of the attribute list are `==`
//   eq_spec(a, b)   := eq_real_spec(a@, b@) = same length && every element of a occurs in b     (what the real `eq` computes:
//                      proved, `ensures` of eq)
//   merge_spec(a,b) := the value whose list is merge_seq(a@, b@) = a followed by the elements of b that do not occur in what has
//                      been built so far (b's order, first occurrences): exactly what the loop builds (proved)
//
// PROVED
//   (1) lemma_eq_is_set_equality: on wf values eq_real_spec(a, b) <==> same_set(a, b) (forall x: x occurs in a <==> x occurs in
//       b); hence `==` restricted to wf values is an equivalence: law_eq_refl / law_eq_sym / law_eq_trans.  Symmetry is the
//       pigeonhole argument (lemma_pigeonhole, lemma_covers: induction, removing one element).  lemma_eq_sym: symmetry needs wf
//       of the LEFT operand only; it is FALSE without it (lemma_witness_asymmetry, see FINDING).
//   (2) merge: preserves wf and computes merge_spec (the inherited trait contract + the same over the lists);
//       law_merge_idem (a ~ b ==> merge_seq(a, b) == a: nothing is appended); lemma_merge_seq_union: merge is the set union,
//       lemma_merge_seq_wf: `a` stays a prefix.
//   (3) clone returns a structurally equal value (base.rs axiom_clone_merge is a THEOREM for this implementor, given
//       axiom_vec_value_is_contents); new() is empty and wf.
//
// TRUSTED (each with its documented contract at the declaration)
//   axiom_attr_eq_is_equivalence   the ONE element-equality axiom group: derived `==` of ContentAttribute<A>
//                                  (Arc<{name: String, value: A}>, A: Eq) obeys its eq_spec and is an equivalence relation.
//                                  The derived `PartialEq for ContentAttribute` itself is written out as an external_body item
//                                  (never verified, only its existence is needed); its eq_spec stays uninterpreted (OPAQUE).
//   <[T]>::contains                std: "Returns true if the slice contains an element with the given value." (vstd: no spec)
//   vx_iter_all                    std Iterator::all over slice::iter(): "Tests if every element of the iterator matches a
//                                  predicate."  Body = the std call (like vx_partition_point / rule R2); reached through the logged
//                                  SUB `self.0.iter().all(|a| other.0.contains(a))` -> `vx_iter_all(&self.0, |a| other.0.contains(a))`.
//                                  See EXTRACTOR GAPS.  The REST of `eq` (length check, early return, the closure) is the real
//                                  text and is VERIFIED: `eq`'s body is NOT trusted.
//   axiom_vec_value_is_contents    the mathematical value of a (Small)Vec is its element sequence (vstd has ext-equality axioms for
//                                  Seq / slice / array but none for Vec; vstd has no other spec observation of a Vec).  Needed
//                                  because base.rs states merge's and clone's results with structural `==` on the implementor.
//   Vec::dedup                     std contract; used ONLY by the failing FINDING obligation of IdMap::from_set
//   vstd's own specifications of Vec::{new, len, push, clone, iter}, Arc::clone
//
// REWRITES  R1 (SmallVec -> Vec), SUB `in &other.0` -> `in other.0.iter()` (std: IntoIterator for &SmallVec / &Vec is iter()),
//   SUB for Iterator::all (above), SUB `attrs.into()` -> `attrs` in the two IdMap steps (SmallVec::from(Vec) keeps the elements;
//   after R1 the conversion is Vec -> Vec), R18 statement regions for the two IdMap steps (`ensure_attrs` dropped: it replaces
//   each element by an `==` one from the interning cache, it neither removes nor reorders).
//
// FINDING (named obligations, EXPECTED TO FAIL): "every value that reaches the interval layer through the public API is wf"
//     ids_attrs::from_attrs::post           :: nodup(r@)            ContentAttributes::from_attrs(attrs) takes the vector as is
//     ids_attrs::idmap_insert_attrs::post   :: content_attrs.wf()   IdMap::insert(range, attrs) wraps the caller's Vec as is
//     ids_attrs::idmap_from_set_attrs::post :: content_attrs.wf()   IdMap::from_set: `attrs.dedup()` removes ADJACENT duplicates
//                                                                   only, [a, b, a] survives (lemma_witness_dedup)
//   (not lifted, same defect: AttrRange::with_attrs; IdMap::decode: `attrs.push(visited_attributions[attr_id].clone())` with an
//   attr_id repeated on the wire.)  ids_lift::idmap_insert REQUIRES content_attrs.wf(); nothing establishes it.
//   Witness: x = [a, a], y = [a, b] with a != b.   x == y is TRUE (same length, every element of x occurs in y) but y == x is
//   FALSE (b does not occur in x): `==` is not symmetric, so law_eq_sym (A3) is false for reachable values and "equal sets
//   compare equal" breaks.  lemma_witness_asymmetry proves this for every pair a != b from the spec of the real `eq`.
//   Replay on the real crate (units/ids_attrs/replay.rs, public API only, a = ("k","a"), b = ("k","b"), client 1):
//     from_attrs([a,a]) == from_attrs([a,b])  -> true;   from_attrs([a,b]) == from_attrs([a,a])  -> false
//     m.insert([0,3), vec![a,a]); m.insert([3,6), vec![a,b])   -> ONE entry [0..6) [a,a]: push_coalesced's `last.1 == value`
//         is true, the ranges are coalesced and attribute b is LOST for clocks 3..6 (attributions(clock 4) = [a,a]); with
//         vec![a] instead of vec![a,a] the result is [0..3) [a]; [3..6) [a,b] as it should be
//     p = {[0,3): [a,a]}, q = {[0,3): [a,b]}:  p == q -> true, q == p -> false;  p.intersect_with(q) = [a,a,b],
//         q.intersect_with(p) = [a,b], and the two results are != in both directions
//     IdMap::from_set({0..3}, vec![a,b,a]) stores [a,b,a] and is != from_set({0..3}, vec![a,b])
//
// EXTRACTOR GAPS
//   * `X.iter().all(|a| P)`: this Verus ACCEPTS the call (Iterator is an external trait spec) but vstd gives `all` NO postcondition
//     (the result is an arbitrary bool).  An `assume_specification` for `<slice::Iter<T> as Iterator>::all` is possible only through
//     an uninterpreted proxy of `IteratorSpec::remaining` (direct use is rejected as a cyclic definition) and is not usable here:
//     the call is the function's tail expression on a temporary iterator, no proof hint can follow it, and the quantifier
//     triggers of vstd's `iter()` postcondition do not line up with a spec over the list.  A mechanical rule
//     "X.iter().all(|a| P)" -> `vx_iter_all(&X, |a| P)` (like R2) or -> index loop (like R6) would replace the hand-written SUB
//     (which has to sit in the unit-wide rules: `|` is the field separator of an extract line, and SUB values need balanced
//     parentheses).
//   * the inherited postcondition of a trait-method impl (PartialEq::eq: `obeys_eq_spec() ==> r == self.eq_spec(other)`) is
//     reported by Verus at vstd's std_specs/cmp.rs:21; the runner maps that to line 21 of the assembled file and labels it
//     `ids_attrs::?::post` (lemma level).  The clause is therefore spelled out as an own `ensures` of `eq` (ids_attrs::attrs_eq::post).
//   * a lost structural anchor of a proof hint is dropped silently by the lenient splicer (I first wrote `stmt:expr
//     ContentAttributes` for a tail expression that is classified `stmt:call ContentAttributes`).
//
// Function bodies are pulled from /repo on every run by vx/extract.py.
#![feature(allocator_api)]
#![allow(unused_imports, unused_variables, unused_mut, dead_code, unused_parens, unused_braces)]
use vstd::prelude::*;

verus! {

/*@rules R1 SUB(from=self.0.iter().all(|a| other.0.contains(a));;to=vx_iter_all(&self.0, |a| other.0.contains(a))) @*/

pub mod vx_base {
    use vstd::prelude::*;
    use core::ops::Range;
    use vstd::std_specs::cmp::PartialEqSpec;

/*@include units/ids_common/base.rs @*/
}

pub mod vx_attrs {
    use vstd::prelude::*;
    use vstd::std_specs::cmp::{PartialEqSpec, PartialEqSpecImpl};
    use std::sync::Arc;
    use std::hash::Hash;
    use core::alloc::Allocator;
    use super::vx_base::*;

    // ==========================================================================================
    // 1. the element type and the trusted std contracts
    // ==========================================================================================
    /*@extract yrs/src/id_map.rs | - | struct ContentAttributeInner @*/

    /*@extract yrs/src/id_map.rs | - | struct ContentAttribute @*/

    /// `#[derive(PartialEq)]` of ContentAttribute / ContentAttributeInner, written out (compiler generated: compares the
    /// Arc's contents field by field).  OPAQUE: its eq_spec is left uninterpreted; the only thing known about it is
    /// axiom_attr_eq_is_equivalence.
    impl<A: PartialEq> PartialEq for ContentAttribute<A> {
        #[verifier::external_body]
        fn eq(&self, other: &Self) -> bool {
            self.0.name == other.0.name && self.0.value == other.0.value
        }
    }

    /// `e` is an equivalence relation (as a predicate over an arbitrary element type, so that the list lemmas are generic)
    pub open spec fn eq_equiv<E: PartialEq>() -> bool {
        &&& forall|x: E| #[trigger] x.eq_spec(&x)
        &&& forall|x: E, y: E| #[trigger] x.eq_spec(&y) ==> y.eq_spec(&x)
        &&& forall|x: E, y: E, z: E| #[trigger] x.eq_spec(&y) && #[trigger] y.eq_spec(&z) ==> x.eq_spec(&z)
    }

    /// THE element-equality axiom group (A3 for the element type): `==` of ContentAttribute<A> is what its eq_spec says and is
    /// an equivalence relation (derived PartialEq over `String` and `A: Eq`; `Eq` is the std marker for exactly this).
    pub axiom fn axiom_attr_eq_is_equivalence<A: PartialEq>()
        ensures
            <ContentAttribute<A> as PartialEqSpec>::obeys_eq_spec(),
            eq_equiv::<ContentAttribute<A>>();

    /// the list `s` contains an element with the value `x` (std's wording for `slice::contains`; std computes
    /// `self.iter().any(|e| *e == *x)`, i.e. the stored element is the left operand)
    pub open spec fn occurs<E: PartialEq>(s: Seq<E>, x: E) -> bool {
        exists|i: int| 0 <= i < s.len() && (#[trigger] s[i]).eq_spec(&x)
    }

    pub open spec fn occ_idx<E: PartialEq>(s: Seq<E>, x: E) -> int {
        choose|i: int| 0 <= i < s.len() && (#[trigger] s[i]).eq_spec(&x)
    }

    /// std `slice::contains` (A2; also what `Vec::contains` / `SmallVec::contains` deref to):
    /// "Returns true if the slice contains an element with the given value."
    pub assume_specification<T: PartialEq>[ <[T]>::contains ](s: &[T], x: &T) -> (r: bool)
        ensures
            T::obeys_eq_spec() ==> r == occurs(s@, *x),
    ;

    /// std `Iterator::all` over `slice::iter()` (A2): "Tests if every element of the iterator matches a predicate. [...] if they
    /// all return true, then so does all(). If any of them return false, it returns false."  Body = the std call.
    #[verifier::external_body]
    pub fn vx_iter_all<T, F: FnMut(&T) -> bool>(v: &Vec<T>, f: F) -> (r: bool)
        requires
            forall|i: int| 0 <= i < v@.len() ==> call_requires(f, (&#[trigger] v@[i],)),
        ensures
            r ==> forall|i: int| 0 <= i < v@.len() ==> call_ensures(f, (&#[trigger] v@[i],), true),
            !r ==> exists|i: int| 0 <= i < v@.len() && call_ensures(f, (&#[trigger] v@[i],), false),
    {
        v.iter().all(f)
    }

    /// the mathematical value of a vector is its element sequence (capacity / address are not part of it); vstd states this
    /// for Seq, slices and arrays but not for Vec.  A3 (`axiom_clone_merge`: a clone is structurally equal) presupposes it.
    pub axiom fn axiom_vec_value_is_contents<E>(a: Vec<E>, b: Vec<E>)
        requires
            a@ == b@,
        ensures
            a == b;

    impl<A> Clone for ContentAttribute<A> {
        /*@extract yrs/src/id_map.rs | impl<A> Clone for ContentAttribute<A> | fn clone | label=attr_clone
        @ret r
        @sig
            ensures r == *self,
        @*/
    }

    // ==========================================================================================
    // 2. lists as sets: specs and lemmas (pure, generic in the element type)
    // ==========================================================================================
    /// no two elements are equal
    pub open spec fn nodup<E: PartialEq>(s: Seq<E>) -> bool {
        forall|i: int, j: int| #![trigger s[i], s[j]] 0 <= i < s.len() && 0 <= j < s.len() && i != j ==> !s[i].eq_spec(&s[j])
    }

    /// every element of `a` occurs in `b`
    pub open spec fn sub<E: PartialEq>(a: Seq<E>, b: Seq<E>) -> bool {
        forall|i: int| 0 <= i < a.len() ==> occurs(b, #[trigger] a[i])
    }

    /// what `<ContentAttributes as PartialEq>::eq` computes
    pub open spec fn eq_real_spec<E: PartialEq>(a: Seq<E>, b: Seq<E>) -> bool {
        a.len() == b.len() && sub(a, b)
    }

    /// set equality
    pub open spec fn same_set<E: PartialEq>(a: Seq<E>, b: Seq<E>) -> bool {
        forall|x: E| occurs(a, x) <==> occurs(b, x)
    }

    /// what `<ContentAttributes as Merge>::merge` computes: `a`, then the elements of `b` (in order) that do not occur in what
    /// has been built so far
    pub open spec fn merge_seq<E: PartialEq>(a: Seq<E>, b: Seq<E>) -> Seq<E>
        decreases b.len(),
    {
        if b.len() == 0 {
            a
        } else {
            let m = merge_seq(a, b.drop_last());
            if occurs(m, b.last()) { m } else { m.push(b.last()) }
        }
    }

    pub proof fn lemma_occurs_at<E: PartialEq>(s: Seq<E>, i: int, x: E)
        requires 0 <= i < s.len(), s[i].eq_spec(&x),
        ensures occurs(s, x),
    {
    }

    /// removing an element that is not needed keeps `sub`
    proof fn lemma_sub_remove<E: PartialEq>(a: Seq<E>, b: Seq<E>, j: int)
        requires
            sub(a, b),
            0 <= j < b.len(),
            forall|i: int| #![trigger a[i]] 0 <= i < a.len() ==> !b[j].eq_spec(&a[i]),
        ensures
            sub(a, b.remove(j)),
    {
        let b2 = b.remove(j);
        assert forall|i: int| 0 <= i < a.len() implies occurs(b2, #[trigger] a[i]) by {
            let k = occ_idx(b, a[i]);
            assert(0 <= k < b.len() && b[k].eq_spec(&a[i]));
            assert(k != j);
            if k < j {
                assert(b2[k] == b[k]);
                lemma_occurs_at(b2, k, a[i]);
            } else {
                assert(b2[k - 1] == b[k]);
                lemma_occurs_at(b2, k - 1, a[i]);
            }
        }
    }

    /// PIGEONHOLE: a duplicate-free list all of whose elements occur in `b` is not longer than `b`
    pub proof fn lemma_pigeonhole<E: PartialEq>(a: Seq<E>, b: Seq<E>)
        requires
            eq_equiv::<E>(),
            nodup(a),
            sub(a, b),
        ensures
            a.len() <= b.len(),
        decreases a.len(),
    {
        if a.len() > 0 {
            let n = a.len() - 1;
            let x = a[n];
            let a2 = a.drop_last();
            let j = occ_idx(b, x);
            assert(0 <= j < b.len() && b[j].eq_spec(&x));
            assert forall|i: int, k: int| #![trigger a2[i], a2[k]] 0 <= i < a2.len() && 0 <= k < a2.len() && i != k implies !a2[i].eq_spec(&a2[k]) by {
                assert(a2[i] == a[i] && a2[k] == a[k]);
            }
            assert forall|i: int| 0 <= i < a2.len() implies occurs(b, #[trigger] a2[i]) by {
                assert(a2[i] == a[i]);
            }
            assert forall|i: int| #![trigger a2[i]] 0 <= i < a2.len() implies !b[j].eq_spec(&a2[i]) by {
                assert(a2[i] == a[i]);
                if b[j].eq_spec(&a[i]) {
                    // a[i] ~ b[j] ~ x = a[n], i != n: a duplicate
                    assert(a[i].eq_spec(&b[j]));
                    assert(a[i].eq_spec(&a[n]));
                }
            }
            lemma_sub_remove(a2, b, j);
            lemma_pigeonhole(a2, b.remove(j));
        }
    }

    /// "a no-dup list of length n all of whose elements occur in a list of length n covers it"
    pub proof fn lemma_covers<E: PartialEq>(a: Seq<E>, b: Seq<E>)
        requires
            eq_equiv::<E>(),
            nodup(a),
            sub(a, b),
            a.len() == b.len(),
        ensures
            sub(b, a),
    {
        assert forall|j: int| 0 <= j < b.len() implies occurs(a, #[trigger] b[j]) by {
            if !occurs(a, b[j]) {
                assert forall|i: int| #![trigger a[i]] 0 <= i < a.len() implies !b[j].eq_spec(&a[i]) by {
                    if b[j].eq_spec(&a[i]) {
                        assert(a[i].eq_spec(&b[j]));
                        lemma_occurs_at(a, i, b[j]);
                    }
                }
                lemma_sub_remove(a, b, j);
                lemma_pigeonhole(a, b.remove(j));
            }
        }
    }

    pub proof fn lemma_sub_refl<E: PartialEq>(a: Seq<E>)
        requires eq_equiv::<E>(),
        ensures sub(a, a),
    {
        assert forall|i: int| 0 <= i < a.len() implies occurs(a, #[trigger] a[i]) by {
            lemma_occurs_at(a, i, a[i]);
        }
    }

    /// an element equal to one that occurs, occurs
    pub proof fn lemma_occurs_eq<E: PartialEq>(s: Seq<E>, x: E, y: E)
        requires eq_equiv::<E>(), occurs(s, x), x.eq_spec(&y),
        ensures occurs(s, y),
    {
        let i = occ_idx(s, x);
        assert(s[i].eq_spec(&x));
        assert(s[i].eq_spec(&y));
    }

    pub proof fn lemma_sub_occurs<E: PartialEq>(a: Seq<E>, b: Seq<E>, x: E)
        requires eq_equiv::<E>(), sub(a, b), occurs(a, x),
        ensures occurs(b, x),
    {
        let i = occ_idx(a, x);
        assert(a[i].eq_spec(&x));
        assert(occurs(b, a[i]));
        lemma_occurs_eq(b, a[i], x);
    }

    pub proof fn lemma_sub_trans<E: PartialEq>(a: Seq<E>, b: Seq<E>, c: Seq<E>)
        requires eq_equiv::<E>(), sub(a, b), sub(b, c),
        ensures sub(a, c),
    {
        assert forall|i: int| 0 <= i < a.len() implies occurs(c, #[trigger] a[i]) by {
            lemma_sub_occurs(b, c, a[i]);
        }
    }

    /// (1) ON WF VALUES the real `eq` is set equality
    pub proof fn lemma_eq_is_set_equality<E: PartialEq>(a: Seq<E>, b: Seq<E>)
        requires
            eq_equiv::<E>(),
            nodup(a),
            nodup(b),
        ensures
            eq_real_spec(a, b) <==> same_set(a, b),
    {
        if eq_real_spec(a, b) {
            lemma_covers(a, b);
            assert forall|x: E| occurs(a, x) <==> occurs(b, x) by {
                if occurs(a, x) { lemma_sub_occurs(a, b, x); }
                if occurs(b, x) { lemma_sub_occurs(b, a, x); }
            }
        }
        if same_set(a, b) {
            assert forall|i: int| 0 <= i < a.len() implies occurs(b, #[trigger] a[i]) by {
                lemma_occurs_at(a, i, a[i]);
            }
            assert forall|i: int| 0 <= i < b.len() implies occurs(a, #[trigger] b[i]) by {
                lemma_occurs_at(b, i, b[i]);
            }
            lemma_pigeonhole(a, b);
            lemma_pigeonhole(b, a);
        }
    }

    /// symmetry of the real `eq` needs wf of the LEFT operand only
    pub proof fn lemma_eq_sym<E: PartialEq>(a: Seq<E>, b: Seq<E>)
        requires eq_equiv::<E>(), nodup(a), eq_real_spec(a, b),
        ensures eq_real_spec(b, a),
    {
        lemma_covers(a, b);
    }

    /// FINDING witness: without wf the real `eq` is NOT symmetric.  For any two different attributes a, b:
    /// [a, a] == [a, b] but [a, b] != [a, a].
    pub proof fn lemma_witness_asymmetry<E: PartialEq>(a: E, b: E)
        requires
            eq_equiv::<E>(),
            !a.eq_spec(&b),
        ensures
            !nodup(seq![a, a]),
            nodup(seq![a, b]),
            eq_real_spec(seq![a, a], seq![a, b]),
            !eq_real_spec(seq![a, b], seq![a, a]),
            !same_set(seq![a, a], seq![a, b]),
    {
        let x = seq![a, a];
        let y = seq![a, b];
        assert(x[0].eq_spec(&x[1]));
        assert(!b.eq_spec(&a));
        assert forall|i: int| 0 <= i < x.len() implies occurs(y, #[trigger] x[i]) by {
            lemma_occurs_at(y, 0, x[i]);
        }
        if occurs(x, y[1]) {
            let k = occ_idx(x, y[1]);
            assert(x[k].eq_spec(&b));
        }
        assert(!occurs(x, y[1]));
        lemma_occurs_at(y, 1, b);
        assert(occurs(y, b) && !occurs(x, b));
    }

    // ---- merge_seq ---------------------------------------------------------------------------------------------------
    pub proof fn lemma_nodup_push<E: PartialEq>(s: Seq<E>, x: E)
        requires eq_equiv::<E>(), nodup(s), !occurs(s, x),
        ensures nodup(s.push(x)),
    {
        let t = s.push(x);
        assert forall|i: int, j: int| #![trigger t[i], t[j]] 0 <= i < t.len() && 0 <= j < t.len() && i != j implies !t[i].eq_spec(&t[j]) by {
            if i < s.len() && j < s.len() {
                assert(t[i] == s[i] && t[j] == s[j]);
            } else if i < s.len() {
                assert(t[i] == s[i]);
                if s[i].eq_spec(&x) { lemma_occurs_at(s, i, x); }
            } else {
                assert(t[j] == s[j]);
                if x.eq_spec(&s[j]) {
                    assert(s[j].eq_spec(&x));
                    lemma_occurs_at(s, j, x);
                }
            }
        }
    }

    /// one loop iteration of `merge`
    pub proof fn lemma_merge_step<E: PartialEq>(a: Seq<E>, b: Seq<E>, k: int)
        requires 0 <= k < b.len(),
        ensures
            merge_seq(a, b.take(k + 1)) == (if occurs(merge_seq(a, b.take(k)), b[k]) { merge_seq(a, b.take(k)) } else { merge_seq(a, b.take(k)).push(b[k]) }),
    {
        let t = b.take(k + 1);
        assert(t.drop_last() =~= b.take(k));
        assert(t.last() == b[k]);
    }

    pub proof fn lemma_occurs_push<E: PartialEq>(s: Seq<E>, e: E, x: E)
        ensures occurs(s.push(e), x) <==> occurs(s, x) || e.eq_spec(&x),
    {
        let t = s.push(e);
        if occurs(t, x) {
            let i = occ_idx(t, x);
            assert(t[i].eq_spec(&x));
            if i < s.len() {
                assert(t[i] == s[i]);
                lemma_occurs_at(s, i, x);
            }
        }
        if occurs(s, x) {
            let i = occ_idx(s, x);
            assert(s[i].eq_spec(&x));
            assert(t[i] == s[i]);
            lemma_occurs_at(t, i, x);
        }
        if e.eq_spec(&x) {
            assert(t[s.len() as int] == e);
            lemma_occurs_at(t, s.len() as int, x);
        }
    }

    /// merge keeps `a` as a prefix (nothing is removed or reordered) and keeps wf
    pub proof fn lemma_merge_seq_wf<E: PartialEq>(a: Seq<E>, b: Seq<E>)
        requires eq_equiv::<E>(), nodup(a),
        ensures
            nodup(merge_seq(a, b)),
            a.len() <= merge_seq(a, b).len(),
            merge_seq(a, b).subrange(0, a.len() as int) == a,
        decreases b.len(),
    {
        let r = merge_seq(a, b);
        if b.len() == 0 {
            assert(r.subrange(0, a.len() as int) =~= a);
        } else {
            let m = merge_seq(a, b.drop_last());
            lemma_merge_seq_wf(a, b.drop_last());
            if !occurs(m, b.last()) {
                lemma_nodup_push(m, b.last());
                assert(r.subrange(0, a.len() as int) =~= m.subrange(0, a.len() as int));
            }
        }
    }

    /// merge is the set union
    pub proof fn lemma_merge_seq_union<E: PartialEq>(a: Seq<E>, b: Seq<E>, x: E)
        requires eq_equiv::<E>(),
        ensures occurs(merge_seq(a, b), x) <==> occurs(a, x) || occurs(b, x),
        decreases b.len(),
    {
        if b.len() > 0 {
            let b0 = b.drop_last();
            let e = b.last();
            let m = merge_seq(a, b0);
            lemma_merge_seq_union(a, b0, x);
            assert(b =~= b0.push(e));
            lemma_occurs_push(b0, e, x);
            if occurs(m, e) {
                if e.eq_spec(&x) { lemma_occurs_eq(m, e, x); }
            } else {
                lemma_occurs_push(m, e, x);
            }
        }
    }

    /// merging in a list all of whose elements already occur appends nothing
    pub proof fn lemma_merge_seq_absorb<E: PartialEq>(a: Seq<E>, b: Seq<E>)
        requires sub(b, a),
        ensures merge_seq(a, b) == a,
        decreases b.len(),
    {
        if b.len() > 0 {
            let b0 = b.drop_last();
            assert forall|i: int| 0 <= i < b0.len() implies occurs(a, #[trigger] b0[i]) by {
                assert(b0[i] == b[i]);
            }
            lemma_merge_seq_absorb(a, b0);
            assert(b.last() == b[b.len() - 1]);
        }
    }

    // ==========================================================================================
    // 3. ContentAttributes<A>: the real struct and the real impls
    // ==========================================================================================
    /*@extract yrs/src/id_map.rs | - | struct ContentAttributes @*/

    impl<A> ContentAttributes<A> {
        pub open spec fn view(&self) -> Seq<ContentAttribute<A>> {
            self.0@
        }
    }

    /// two ContentAttributes with the same list are the same value
    pub proof fn lemma_attrs_ext<A>(x: ContentAttributes<A>, y: ContentAttributes<A>)
        requires x@ == y@,
        ensures x == y,
    {
        axiom_vec_value_is_contents(x.0, y.0);
    }

    impl<A> Clone for ContentAttributes<A> {
        /*@extract yrs/src/id_map.rs | impl<A> Clone for ContentAttributes<A> | fn clone | label=attrs_clone
        @ret r
        @sig
            // A3 (base.rs axiom_clone_merge) as a theorem for this implementor
            ensures r == *self,
        @before 1 `stmt:call ContentAttributes`
            proof {
                assert forall|v: Vec<ContentAttribute<A>>| (#[trigger] v@) == self.0@ implies v == self.0 by {
                    axiom_vec_value_is_contents(v, self.0);
                }
            }
        @*/
    }

    impl<A: PartialEq> PartialEqSpecImpl for ContentAttributes<A> {
        open spec fn obeys_eq_spec() -> bool {
            <ContentAttribute<A> as PartialEqSpec>::obeys_eq_spec()
        }

        open spec fn eq_spec(&self, other: &Self) -> bool {
            eq_real_spec(self@, other@)
        }
    }

    impl<A: PartialEq> PartialEq for ContentAttributes<A> {
        /*@extract yrs/src/id_map.rs | impl<A: PartialEq> PartialEq for ContentAttributes<A> | fn eq | label=attrs_eq
        @ret r
        @sig
            // the inherited contract of PartialEq::eq is `obeys_eq_spec() ==> r == self.eq_spec(other)`; spelled out:
            ensures
                <ContentAttribute<A> as PartialEqSpec>::obeys_eq_spec() ==> r == (self@.len() == other@.len() && sub(self@, other@)),
        @closure 1 `|a: &ContentAttribute<A>| -> (found: bool)`
            ensures <ContentAttribute<A> as PartialEqSpec>::obeys_eq_spec() ==> found == occurs(other@, *a),
        @*/
    }

    // (the real impl block is `impl<A> ContentAttributes<A>`; `A: PartialEq` is needed to state wf)
    impl<A: PartialEq> ContentAttributes<A> {
        /*@extract yrs/src/id_map.rs | impl<A> ContentAttributes<A> | fn new | label=attrs_new
        @ret r
        @sig
            ensures
                r@ == Seq::<ContentAttribute<A>>::empty(),
                nodup(r@),
        @*/

        /*@extract yrs/src/id_map.rs | impl<A> ContentAttributes<A> | fn from_attrs
        @ret r
        @sig
            ensures
                r@ == attrs@,
                // FINDING: the caller's vector is taken as is; from_attrs(smallvec![a.clone(), a]) is not wf
                nodup(r@),
        @*/
    }

    impl<A: PartialEq + Eq + Hash + Clone> Merge for ContentAttributes<A> {
        open spec fn wf(&self) -> bool {
            nodup(self@)
        }

        open spec fn merge_spec(&self, other: &Self) -> Self {
            choose|r: Self| r@ == merge_seq(self@, other@)
        }

        /*@extract yrs/src/id_map.rs | impl<A: PartialEq + Eq + Hash + Clone> Merge for ContentAttributes<A> | fn merge | label=attrs_merge | rules=SUB(from=in &other.0;;to=in other.0.iter())
        @sig
            // inherited from the trait: requires old(self).wf(), other.wf(); ensures final(self).wf(), *final(self) == old(self).merge_spec(other).
            // spelled out over the lists:
            ensures
                nodup(final(self)@),
                final(self)@ == merge_seq(old(self)@, other@),
        @start
            let ghost a0 = self@;
            let ghost b = other@;
            proof {
                axiom_attr_eq_is_equivalence::<A>();
                assert(b.take(0) =~= Seq::<ContentAttribute<A>>::empty());
            }
        @loop 1 iter=it
            invariant
                a0 == old(self)@,
                b == other@,
                <ContentAttribute<A> as PartialEqSpec>::obeys_eq_spec(),
                eq_equiv::<ContentAttribute<A>>(),
                it.seq().len() == b.len(),
                forall|j: int| 0 <= j < b.len() ==> *(#[trigger] it.seq()[j]) == b[j],
                nodup(self@),
                self@ == merge_seq(a0, b.take(it.index@ as int)),
        @before 1 `stmt:if`
            let ghost k = it.index@ as int;
            let ghost m = self@;
            proof {
                assert(*it.seq()[k] == b[k]);
                assert(*attr == b[k]);
                lemma_merge_step(a0, b, k);
            }
        @after 1 `stmt:call push`
            proof {
                assert(self@ == m.push(b[k]));
                lemma_nodup_push(m, b[k]);
            }
        @end
            proof {
                assert(b.take(b.len() as int) =~= b);
                let r = choose|r: Self| r@ == merge_seq(a0, b);
                assert(self@ == merge_seq(a0, b));
                lemma_attrs_ext(*self, r);
            }
        @*/

        proof fn law_obeys_eq() {
            axiom_attr_eq_is_equivalence::<A>();
        }

        proof fn law_eq_refl(&self) {
            axiom_attr_eq_is_equivalence::<A>();
            lemma_sub_refl(self@);
        }

        proof fn law_eq_sym(&self, b: &Self) {
            axiom_attr_eq_is_equivalence::<A>();
            lemma_eq_sym(self@, b@);
        }

        proof fn law_eq_trans(&self, b: &Self, c: &Self) {
            axiom_attr_eq_is_equivalence::<A>();
            lemma_sub_trans(self@, b@, c@);
        }

        proof fn law_merge_idem(&self, b: &Self) {
            axiom_attr_eq_is_equivalence::<A>();
            // a ~ b: every element of b occurs in a (pigeonhole), so the loop appends nothing
            lemma_covers(self@, b@);
            lemma_merge_seq_absorb(self@, b@);
            let r = self.merge_spec(b);
            assert(self@ == merge_seq(self@, b@));
            assert(r@ == merge_seq(self@, b@));
            lemma_sub_refl(self@);
        }
    }


    // ==========================================================================================
    // 4. FINDING: is every value that reaches the interval layer through the public API wf?
    // ==========================================================================================
    // ContentAttributes::from_attrs: see the `nodup(r@)` clause above (ids_attrs::from_attrs::post).
    //
    // IdMap::insert(range, attrs):  { ..; let mut attrs = attrs; self.ensure_attrs(&mut attrs);
    //                                 let content_attrs = ContentAttributes(attrs.into()); self.inner.insert_range(.., content_attrs) }
    // `ensure_attrs` replaces every element by an `==` one from the interning cache (it neither removes nor reorders), so the
    // statement that builds the value is lifted (R18) with `attrs` as parameter.  ids_lift::idmap_insert REQUIRES
    // `content_attrs.wf()` for the value built here.
    /*@extract yrs/src/id_map.rs | impl<A: PartialEq + Eq + Hash + Clone> IdMap<A> | region insert | stmt=stmt:let content_attrs | tail=content_attrs | label=idmap_insert_attrs | rules=SUB(from=attrs.into();;to=attrs)
    @header
        fn idmap_insert_attrs<A: PartialEq + Eq + Hash + Clone>(attrs: Vec<ContentAttribute<A>>) -> (content_attrs: ContentAttributes<A>)
    @sig
        ensures
            content_attrs@ == attrs@,
            // FINDING: the caller's Vec is wrapped as is; insert(range, vec![a.clone(), a]) stores a value that is not wf
            content_attrs.wf(),
    @*/

    /// what std `Vec::dedup` keeps: an element is dropped iff it is `==` to the last element kept before it
    pub open spec fn dedup_adj<E: PartialEq>(s: Seq<E>) -> Seq<E>
        decreases s.len(),
    {
        if s.len() == 0 {
            s
        } else {
            let d = dedup_adj(s.drop_last());
            if d.len() > 0 && s.last().eq_spec(&d.last()) { d } else { d.push(s.last()) }
        }
    }

    /// std `Vec::dedup` (A2; SmallVec::dedup has the same documentation): "Removes consecutive repeated elements in the vector
    /// according to the PartialEq trait implementation. If the vector is sorted, this removes all duplicates."
    /// (std: `self.dedup_by(|a, b| a == b)`, `a` the element under test, `b` the previously retained one)
    pub assume_specification<T: PartialEq, A: Allocator>[ Vec::<T, A>::dedup ](v: &mut Vec<T, A>)
        ensures
            T::obeys_eq_spec() ==> final(v)@ == dedup_adj(old(v)@),
    ;

    // IdMap::from_set(id_set, attrs): { ..; let mut attrs: SmallVec<_> = attrs.into(); attrs.dedup(); id_map.ensure_attrs(&mut attrs);
    //                                   let content_attrs = ContentAttributes(attrs); .. insert_with(range, content_attrs.clone()) .. }
    // the only constructor that tries to establish wf: `dedup` removes ADJACENT duplicates only.
    /*@extract yrs/src/id_map.rs | impl<A: PartialEq + Eq + Hash + Clone> IdMap<A> | region from_set | stmt=stmt:let attrs | upto=stmt:let content_attrs | tail=content_attrs | label=idmap_from_set_attrs | rules=SUB(from=attrs.into();;to=attrs)
    @header
        fn idmap_from_set_attrs<A: PartialEq + Eq + Hash + Clone>(attrs: Vec<ContentAttribute<A>>) -> (content_attrs: ContentAttributes<A>)
    @drop `id_map.ensure_attrs(&mut attrs);`
    @sig
        ensures
            content_attrs@ == dedup_adj(attrs@),
            // FINDING: from_set(set, vec![a.clone(), b, a]) stores [a, b, a]
            content_attrs.wf(),
    @start
        proof { axiom_attr_eq_is_equivalence::<A>(); }
    @*/

    /// [a, b, a] (a != b) survives `dedup`
    pub proof fn lemma_witness_dedup<E: PartialEq>(a: E, b: E)
        requires eq_equiv::<E>(), !a.eq_spec(&b),
        ensures
            dedup_adj(seq![a, b, a]) == seq![a, b, a],
            !nodup(seq![a, b, a]),
    {
        let s3 = seq![a, b, a];
        let s2 = seq![a, b];
        let s1 = seq![a];
        let s0 = Seq::<E>::empty();
        assert(s3.drop_last() =~= s2 && s2.drop_last() =~= s1 && s1.drop_last() =~= s0);
        assert(dedup_adj(s0) == s0);
        assert(dedup_adj(s1) =~= s1);
        assert(!b.eq_spec(&a));
        assert(s2.last() == b && s1.last() == a);
        assert(dedup_adj(s2) =~= s2);
        assert(s3.last() == a && s2.last() == b);
        assert(dedup_adj(s3) =~= s3);
        assert(s3[0].eq_spec(&s3[2]));
    }
}

} // verus!
fn main() {}
