// Replay of the (REPAIRED) defect documented in unit ids_attrs on the real crate (public API only).  Not part of the Verus unit.
// Build as the `src/main.rs` of a scratch crate OUTSIDE /repo and /verif whose Cargo.toml has `[workspace]`, a `[[bin]]` and
// `yrs = { path = "/repo/yrs" }` (copy /verif/witness/Cargo.lock next to it):
//   cargo build --offline --target-dir /verif/.cache/witness-target && /verif/.cache/witness-target/debug/<bin>
//
// BEFORE the repair (eq = len equal && self subset of other; tree 47d63c6):
//   [a,a] == [a,b] : true
//   [a,b] == [a,a] : false
//   m1 = [0,3):[a,a] then [3,6):[a,b]  client ClientID(1) [0..6) ["a", "a"];                 <- coalesced, attribute b lost
//   m2 = [3,6):[a,b] then [0,3):[a,a]  client ClientID(1) [0..6) ["a", "a"];
//   m1 == m2 : true   m2 == m1 : true
//   m3 = [0,3):[a] then [3,6):[a,b]    client ClientID(1) [0..3) ["a"]; client ClientID(1) [3..6) ["a", "b"];
//   m1 == m3 : false   m3 == m1 : false
//   attrs at clock 4: m1 ["a", "a"]  m2 ["a", "a"]  m3 ["a", "b"]
//   p=[0,3):[a,a]  q=[0,3):[a,b]   p == q : true   q == p : false
//   p.intersect_with(q) [0..3) ["a", "a", "b"];   q.intersect_with(p) [0..3) ["a", "b"];
//   p∩q == q∩p : false   q∩p == p∩q : false
//   from_set({0..3}, [a,b,a]) [0..3) ["a", "b", "a"];   from_set([a,b,a]) == from_set([a,b]) : false   reverse : false
//
// AFTER the repair (eq = mutual containment; /repo commit 6236824):
//   [a,a] == [a,b] : false
//   [a,b] == [a,a] : false
//   m1 = [0,3):[a,a] then [3,6):[a,b]  client ClientID(1) [0..3) ["a", "a"]; client ClientID(1) [3..6) ["a", "b"];
//   m2 = [3,6):[a,b] then [0,3):[a,a]  client ClientID(1) [0..3) ["a", "a"]; client ClientID(1) [3..6) ["a", "b"];
//   m1 == m2 : true   m2 == m1 : true
//   m3 = [0,3):[a] then [3,6):[a,b]    client ClientID(1) [0..3) ["a"]; client ClientID(1) [3..6) ["a", "b"];
//   m1 == m3 : true   m3 == m1 : true
//   attrs at clock 4: m1 ["a", "b"]  m2 ["a", "b"]  m3 ["a", "b"]
//   p=[0,3):[a,a]  q=[0,3):[a,b]   p == q : false   q == p : false
//   p.intersect_with(q) [0..3) ["a", "a", "b"];   q.intersect_with(p) [0..3) ["a", "b"];
//   p∩q == q∩p : true   q∩p == p∩q : true
//   from_set({0..3}, [a,b,a]) [0..3) ["a", "b", "a"];   from_set([a,b,a]) == from_set([a,b]) : true   reverse : true
//   m1.as_id_set() == m2.as_id_set() : true
use yrs::block::{BlockRange, ClientID};
use yrs::{ContentAttribute, ContentAttributes, IdMap, IdSet, ID};

fn show(tag: &str, m: &IdMap<String>) {
    let mut s = String::new();
    for (c, r) in m.iter() {
        let names: Vec<String> = r.attrs.iter().map(|a| a.value().clone()).collect();
        s.push_str(&format!(" client {:?} [{}..{}) {:?};", c, r.range.start, r.range.end, names));
    }
    println!("{:<34}{}", tag, s);
}

fn br(c: ClientID, clock: u32, len: u32) -> BlockRange {
    BlockRange::new(ID::new(c, clock), len)
}

fn main() {
    let a: ContentAttribute<String> = ContentAttribute::new("k", "a".to_string());
    let b: ContentAttribute<String> = ContentAttribute::new("k", "b".to_string());

    // 1. value level: ContentAttributes::from_attrs takes the vector as is
    let x = ContentAttributes::from_attrs(vec![a.clone(), a.clone()].into());
    let y = ContentAttributes::from_attrs(vec![a.clone(), b.clone()].into());
    println!("[a,a] == [a,b] : {}", x == y);
    println!("[a,b] == [a,a] : {}", y == x);

    // 2. IdMap::insert takes the caller's Vec as is: coalescing of adjacent ranges uses that `==`
    let c = ClientID::new(1);
    let mut m1: IdMap<String> = IdMap::new();
    m1.insert(br(c, 0, 3), vec![a.clone(), a.clone()]);
    m1.insert(br(c, 3, 3), vec![a.clone(), b.clone()]);
    show("m1 = [0,3):[a,a] then [3,6):[a,b]", &m1);

    let mut m2: IdMap<String> = IdMap::new();
    m2.insert(br(c, 3, 3), vec![a.clone(), b.clone()]);
    m2.insert(br(c, 0, 3), vec![a.clone(), a.clone()]);
    show("m2 = [3,6):[a,b] then [0,3):[a,a]", &m2);
    println!("m1 == m2 : {}   m2 == m1 : {}", m1 == m2, m2 == m1);

    // the same two facts, stated with duplicate-free lists
    let mut m3: IdMap<String> = IdMap::new();
    m3.insert(br(c, 0, 3), vec![a.clone()]);
    m3.insert(br(c, 3, 3), vec![a.clone(), b.clone()]);
    show("m3 = [0,3):[a] then [3,6):[a,b]", &m3);
    println!("m1 == m3 : {}   m3 == m1 : {}", m1 == m3, m3 == m1);

    // attribution query for clock 4 (b was attached to it)
    let q = |m: &IdMap<String>| -> Vec<String> {
        m.attributions(&br(c, 4, 1))[0].attrs.iter().map(|a| a.value().clone()).collect()
    };
    println!("attrs at clock 4: m1 {:?}  m2 {:?}  m3 {:?}", q(&m1), q(&m2), q(&m3));

    // 3. merge_with / intersect_with are not commutative up to ==
    let mut p: IdMap<String> = IdMap::new();
    p.insert(br(c, 0, 3), vec![a.clone(), a.clone()]);
    let mut q2: IdMap<String> = IdMap::new();
    q2.insert(br(c, 0, 3), vec![a.clone(), b.clone()]);
    println!("p=[0,3):[a,a]  q=[0,3):[a,b]   p == q : {}   q == p : {}", p == q2, q2 == p);
    let mut i1 = p.clone();
    i1.intersect_with(&q2);
    let mut i2 = q2.clone();
    i2.intersect_with(&p);
    show("p.intersect_with(q)", &i1);
    show("q.intersect_with(p)", &i2);
    println!("p∩q == q∩p : {}   q∩p == p∩q : {}", i1 == i2, i2 == i1);

    // 4. from_set: dedup() removes adjacent duplicates only
    let set = IdSet::from_iter([(c, [0..3u32])]);
    let f = IdMap::from_set(set, vec![a.clone(), b.clone(), a.clone()]);
    show("from_set({0..3}, [a,b,a])", &f);
    let set = IdSet::from_iter([(c, [0..3u32])]);
    let g = IdMap::from_set(set, vec![a.clone(), b.clone()]);
    println!("from_set([a,b,a]) == from_set([a,b]) : {}   reverse : {}", f == g, g == f);

    // as_id_set agrees (values are dropped)
    println!("m1.as_id_set() == m2.as_id_set() : {}", m1.as_id_set() == m2.as_id_set());
}
