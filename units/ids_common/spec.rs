// units/ids_common/spec.rs — abstraction (view / canonical form), shared lemmas, the struct and push_coalesced
    // ------------------------------------------------------------------------------------------
    // abstraction
    // ------------------------------------------------------------------------------------------
    pub type Ent<T> = (Range<u32>, T);

    /// clock `c` lies in the half-open range `r`
    pub open spec fn inr(r: Range<u32>, c: int) -> bool {
        r.start <= c < r.end
    }

    /// the set of clocks: `c` is covered by some entry
    pub open spec fn covers<T>(s: Seq<Ent<T>>, c: int) -> bool {
        exists|i: int| 0 <= i < s.len() && #[trigger] inr(s[i].0, c)
    }

    pub open spec fn idx_of<T>(s: Seq<Ent<T>>, c: int) -> int {
        choose|i: int| 0 <= i < s.len() && #[trigger] inr(s[i].0, c)
    }

    /// the value attached to clock `c` (meaningful when `covers(s, c)`)
    pub open spec fn val_at<T>(s: Seq<Ent<T>>, c: int) -> T {
        s[idx_of(s, c)].1
    }

    pub open spec fn nonempty<T>(s: Seq<Ent<T>>) -> bool {
        forall|i: int| 0 <= i < s.len() ==> (#[trigger] s[i]).0.start < s[i].0.end
    }

    /// sorted and pairwise disjoint
    pub open spec fn sorted<T>(s: Seq<Ent<T>>) -> bool {
        forall|i: int, j: int| 0 <= i < j < s.len() ==> (#[trigger] s[i]).0.end <= (#[trigger] s[j]).0.start
    }

    pub open spec fn vals_wf<T: Merge>(s: Seq<Ent<T>>) -> bool {
        forall|i: int| 0 <= i < s.len() ==> (#[trigger] s[i]).1.wf()
    }

    /// adjacent ranges with equal values are coalesced
    pub open spec fn coalesced<T: Merge>(s: Seq<Ent<T>>) -> bool {
        // two-variable form (j == i + 1) so that the trigger cannot loop on s[i + 1]
        forall|i: int, j: int| 0 <= i && j == i + 1 && j < s.len() && (#[trigger] s[i]).0.end == (#[trigger] s[j]).0.start ==> !s[i].1.eq_spec(&s[j].1)
    }

    /// shape invariant that does not mention values (used for the `other: &IdRanges<U>` of `exclude`)
    pub open spec fn ranges_ok<T>(s: Seq<Ent<T>>) -> bool {
        nonempty(s) && sorted(s)
    }

    /// canonical form of C16: sorted, non-overlapping, no empty ranges, adjacent equal-valued ranges coalesced
    pub open spec fn canon<T: Merge>(s: Seq<Ent<T>>) -> bool {
        nonempty(s) && sorted(s) && vals_wf(s) && coalesced(s)
    }

    // ------------------------------------------------------------------------------------------
    // lemmas (pure; no executable code)
    // ------------------------------------------------------------------------------------------
    /// in a sorted sequence the covering entry is unique
    pub proof fn lemma_idx_unique<T>(s: Seq<Ent<T>>, i: int, c: int)
        requires
            sorted(s),
            0 <= i < s.len(),
            inr(s[i].0, c),
        ensures
            covers(s, c),
            idx_of(s, c) == i,
            val_at(s, c) == s[i].1,
    {
        let j = idx_of(s, c);
        assert(0 <= j < s.len() && inr(s[j].0, c));
        if j < i {
            assert(s[j].0.end <= s[i].0.start);
        } else if i < j {
            assert(s[i].0.end <= s[j].0.start);
        }
    }


    /// appending an entry that starts at or after the end of the last one
    pub proof fn lemma_push<T>(s: Seq<Ent<T>>, e: Ent<T>)
        requires
            sorted(s),
            nonempty(s),
            s.len() > 0 ==> s.last().0.end <= e.0.start,
            e.0.start < e.0.end,
        ensures
            sorted(s.push(e)),
            forall|c: int| covers(s.push(e), c) <==> covers(s, c) || inr(e.0, c),
            forall|c: int| covers(s, c) ==> #[trigger] val_at(s.push(e), c) == val_at(s, c),
            forall|c: int| inr(e.0, c) ==> #[trigger] val_at(s.push(e), c) == e.1,
    {
        let t = s.push(e);
        let n = s.len() as int;
        assert forall|i: int, j: int| 0 <= i < j < t.len() implies (#[trigger] t[i]).0.end <= (#[trigger] t[j]).0.start by {
            if j == n {
                assert(t[i] == s[i]);
                if i < n - 1 { assert(s[i].0.end <= s[n - 1].0.start); }
            } else {
                assert(t[i] == s[i] && t[j] == s[j]);
            }
        }
        assert forall|c: int| covers(t, c) <==> covers(s, c) || inr(e.0, c) by {
            if covers(t, c) {
                let i = idx_of(t, c);
                assert(inr(t[i].0, c));
                if i < n { assert(inr(s[i].0, c)); }
            }
            if covers(s, c) {
                let i = idx_of(s, c);
                assert(inr(s[i].0, c));
                assert(inr(t[i].0, c));
            }
            if inr(e.0, c) { assert(inr(t[n].0, c)); }
        }
        assert forall|c: int| covers(s, c) implies val_at(t, c) == val_at(s, c) by {
            let i = idx_of(s, c);
            assert(inr(s[i].0, c));
            assert(t[i] == s[i]);
            lemma_idx_unique(t, i, c);
        }
        assert forall|c: int| inr(e.0, c) implies val_at(t, c) == e.1 by {
            lemma_idx_unique(t, n, c);
        }
    }

    /// moving the end of the last entry to the right
    pub proof fn lemma_extend_last<T>(s: Seq<Ent<T>>, new_end: u32, t: Seq<Ent<T>>)
        requires
            sorted(s),
            s.len() > 0,
            s.last().0.end <= new_end,
            t == s.update(s.len() - 1, (s.last().0.start..new_end, s.last().1)),
        ensures
            sorted(t),
            forall|c: int| covers(t, c) <==> covers(s, c) || inr(s.last().0.start..new_end, c),
            forall|c: int| covers(s, c) ==> #[trigger] val_at(t, c) == val_at(s, c),
            forall|c: int| inr(s.last().0.start..new_end, c) ==> #[trigger] val_at(t, c) == s.last().1,
    {
        let n = s.len() - 1;
        assert forall|i: int, j: int| 0 <= i < j < t.len() implies (#[trigger] t[i]).0.end <= (#[trigger] t[j]).0.start by {
            assert(t[i] == s[i]);
            assert(s[i].0.end <= s[j].0.start);
        }
        assert forall|c: int| covers(t, c) <==> covers(s, c) || inr(s.last().0.start..new_end, c) by {
            if covers(t, c) {
                let i = idx_of(t, c);
                assert(inr(t[i].0, c));
                if i < n { assert(inr(s[i].0, c)); }
            }
            if covers(s, c) {
                let i = idx_of(s, c);
                assert(inr(s[i].0, c));
                assert(inr(t[i].0, c));
            }
            if inr(s.last().0.start..new_end, c) { assert(inr(t[n].0, c)); }
        }
        assert forall|c: int| covers(s, c) implies #[trigger] val_at(t, c) == val_at(s, c) by {
            let i = idx_of(s, c);
            assert(inr(s[i].0, c));
            assert(inr(t[i].0, c));
            lemma_idx_unique(t, i, c);
        }
        assert forall|c: int| inr(s.last().0.start..new_end, c) implies #[trigger] val_at(t, c) == s.last().1 by {
            assert(inr(t[n].0, c));
            lemma_idx_unique(t, n, c);
        }
    }

    /*@extract yrs/src/ids.rs | - | struct IdRanges @*/

    impl<T> IdRanges<T> {
        pub closed spec fn view(&self) -> Seq<Ent<T>> {
            self.0@
        }
    }



    // ------------------------------------------------------------------------------------------
    // impl Merge for ()  — the laws are proved, not assumed
    // ------------------------------------------------------------------------------------------
    impl Merge for () {
        open spec fn wf(&self) -> bool { true }

        open spec fn merge_spec(&self, other: &Self) -> Self { () }

        /*@extract yrs/src/ids.rs | impl Merge for () | fn merge @*/

        proof fn law_obeys_eq() { axiom_unit_eq(); }

        proof fn law_eq_refl(&self) { axiom_unit_eq(); }

        proof fn law_eq_sym(&self, b: &Self) { axiom_unit_eq(); }

        proof fn law_eq_trans(&self, b: &Self, c: &Self) { axiom_unit_eq(); }

        proof fn law_merge_idem(&self, b: &Self) { axiom_unit_eq(); }
    }

    // ------------------------------------------------------------------------------------------
    // push_coalesced: contract derived from its call sites (insert_with / merge build a canonical
    // vector by pushing pieces in increasing clock order)
    // ------------------------------------------------------------------------------------------
    /*@extract yrs/src/ids.rs | - | fn push_coalesced
    @sig
        requires
            canon(old(vec)@),
            value.wf(),
            range.start < range.end && old(vec)@.len() > 0 ==> old(vec)@.last().0.end <= range.start,
        ensures
            canon(final(vec)@),
            forall|c: int| #![trigger covers(final(vec)@, c)] #![trigger covers(old(vec)@, c)] #![trigger inr(range, c)]
                covers(final(vec)@, c) <==> covers(old(vec)@, c) || inr(range, c),
            forall|c: int| covers(old(vec)@, c) ==> #[trigger] val_at(final(vec)@, c) == val_at(old(vec)@, c),
            forall|c: int| inr(range, c) ==> #[trigger] val_at(final(vec)@, c).eq_spec(&value),
            range.start < range.end ==> final(vec)@.len() > 0 && final(vec)@.last().0.end == range.end,
            range.start >= range.end ==> final(vec)@ == old(vec)@,
    @start
        proof { T::law_obeys_eq(); value.law_eq_refl(); }
    @before 2 `stmt:return`
        proof {
            let s = old(vec)@;
            let n = s.len() - 1;
            assert(vec@ =~= s.update(n, (s[n].0.start..range.end, s[n].1)));
            lemma_extend_last(s, range.end, vec@);
            assert(s[n].0.end == range.start);
            assert forall|c: int| covers(vec@, c) <==> covers(s, c) || inr(range, c) by {
                if inr(s[n].0.start..range.end, c) && !inr(range, c) { assert(inr(s[n].0, c)); }
                if inr(range, c) { assert(inr(s[n].0.start..range.end, c)); }
            }
            assert forall|c: int| inr(range, c) implies #[trigger] val_at(vec@, c).eq_spec(&value) by {
                assert(inr(s[n].0.start..range.end, c));
            }
            assert forall|i: int, j: int| 0 <= i && j == i + 1 && j < vec@.len() && (#[trigger] vec@[i]).0.end == (#[trigger] vec@[j]).0.start implies !vec@[i].1.eq_spec(&vec@[j].1) by {
                assert(vec@[i] == s[i]);
                assert(vec@[j].1 == s[j].1 && vec@[j].0.start == s[j].0.start);
            }
        }
    @end
        proof {
            let s = old(vec)@;
            assert(vec@ == s.push((range, value)));
            lemma_push(s, (range, value));
            assert forall|i: int, j: int| 0 <= i && j == i + 1 && j < vec@.len() && (#[trigger] vec@[i]).0.end == (#[trigger] vec@[j]).0.start implies !vec@[i].1.eq_spec(&vec@[j].1) by {
                if j < s.len() {
                    assert(vec@[i] == s[i] && vec@[j] == s[j]);
                }
            }
            assert forall|c: int| inr(range, c) implies #[trigger] val_at(vec@, c).eq_spec(&value) by {
                assert(val_at(vec@, c) == value);
            }
        }
    @*/
