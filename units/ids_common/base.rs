// units/ids_common/base.rs — contents of `pub mod vx_base` shared by all ids_* units
/*@include vx/prelude.rs @*/

    // ------------------------------------------------------------------------------------------
    // trait Merge: the real declaration, plus the ghost interface the callers rely on.
    //   wf          value-level invariant (e.g. "attribute list has no duplicates")
    //   merge_spec  what `merge` computes
    //   eq_spec     (from PartialEqSpec) what `==` computes; required to be an equivalence on wf values
    // The laws are proof obligations of every impl inside this unit (proved for `()`), and assumptions
    // about implementors outside it (A3).
    // ------------------------------------------------------------------------------------------
    pub trait Merge: Clone + PartialEq + Sized {
        spec fn wf(&self) -> bool;

        spec fn merge_spec(&self, other: &Self) -> Self;

        /*@extract yrs/src/ids.rs | trait Merge: Clone + PartialEq | fn merge
        @sig
            requires old(self).wf(), other.wf(),
            ensures final(self).wf(), *final(self) == old(self).merge_spec(other),
        @*/

        proof fn law_obeys_eq()
            ensures Self::obeys_eq_spec();

        proof fn law_eq_refl(&self)
            requires self.wf(),
            ensures self.eq_spec(self);

        proof fn law_eq_sym(&self, b: &Self)
            requires self.wf(), b.wf(), self.eq_spec(b),
            ensures b.eq_spec(self);

        proof fn law_eq_trans(&self, b: &Self, c: &Self)
            requires self.wf(), b.wf(), c.wf(), self.eq_spec(b), b.eq_spec(c),
            ensures self.eq_spec(c);

        /// merging in an equal value changes nothing (up to `==`): what the "same value - extend"
        /// fast path of `insert_with` relies on
        proof fn law_merge_idem(&self, b: &Self)
            requires self.wf(), b.wf(), self.eq_spec(b),
            ensures self.eq_spec(&self.merge_spec(b));
    }

    /// A3: `Clone` of a `Merge` value (and of a `(Range<u32>, T)` entry, whose Clone is std's tuple impl)
    /// returns a structurally equal value.  True for `()` and for `ContentAttributes` (SmallVec of Arc).
    pub broadcast axiom fn axiom_clone_merge<T: Merge>(a: &T, b: T)
        requires #[trigger] call_ensures(T::clone, (a,), b),
        ensures *a == b;

    pub broadcast axiom fn axiom_clone_entry<T: Merge>(a: (Range<u32>, T), b: (Range<u32>, T))
        requires #[trigger] cloned(a, b),
        ensures a == b;

    /// `() == ()` is `true`: vstd leaves `PartialEqSpec for ()` uninterpreted.
    pub axiom fn axiom_unit_eq()
        ensures
            <() as PartialEqSpec>::obeys_eq_spec(),
            forall|a: (), b: ()| #[trigger] a.eq_spec(&b);

    /// A2: an allocation is at most isize::MAX bytes and a `(Range<u32>, T)` entry takes at least 8, so a
    /// vector of entries has at most usize::MAX / 8 elements on every target (used for the
    /// `a.len() + b.len()` capacity hint of `merge` and `(left + right) / 2` of `find_start`).
    pub axiom fn axiom_vec_len_bound<T>(v: &Vec<(Range<u32>, T)>)
        ensures
            v@.len() <= usize::MAX / 8;

    pub broadcast group vx_clone_axioms { axiom_clone_merge, axiom_clone_entry, axiom_range_u32_is_empty }
