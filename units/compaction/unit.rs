// unit `compaction` -- the block-list compaction of the garbage collector (property C15, mechanism "compaction of deleted
// neighbours -- DeleteSet::try_squash_with, ClientBlockList::squash_left_range_compaction").
//   yrs/src/block_store.rs   ClientBlockList::squash_left_range_compaction, ClientBlockList::squash_left, SquashBlockRange
//   yrs/src/block.rs         Block::{is_deleted, same_type, try_squash, clock_start}, BlockRange::merge
//   yrs/src/id_set.rs        DeleteSet::try_squash_with   (the only call site of squash_left_range_compaction; lifted region)
//   yrs/src/transaction.rs   TransactionMut::commit steps 7 and 8 (the call sites of squash_left; lifted regions)
//
// ABSTRACTION (that of unit blockstore, copied)  a client's list is `self.inner@ : Seq<Block>`; a block is read through
//   `start()`, `blen()`, `next() = start + blen`, `kind()` (0 Item / 1 GC / 2 Skip), `has(k)` = clock k lies in it.
//   REPRESENTATION INVARIANT `list_wf`: not empty, every block has len >= 1 and start + len <= u32::MAX, blocks CONTIGUOUS.
//
// WHAT IS PROVED, for ALL lists, ranges and answers of the item kernel
//  ClientBlockList::squash_left_range_compaction(a ..= b)      (whole real body, both loops)
//   (a) SAFETY / TOTALITY.  WEAKEST PRECONDITION: 1 <= a <= b < len (and list_wf for the u32 arithmetic):
//         a <= b       the function's own `assert!` (documented panic);
//         a >= 1       `l[l.len() - 1]` with l = inner[..right_index] (l is empty for right_index 0);
//         b < len      `split_at_mut(right_index)` and `r[0]`.
//       Then nothing can panic: `last_range.range.start - 1` (every collected start is an index visited earlier, > right_index
//       >= 1), `assert!(start_idx <= end_idx)`, `split_at_mut(end_idx)`, `left_slice[start_idx - 1]`, `right_slice[0]`,
//       `drain(start_idx..=end_idx)` and `right.clock - left.clock + right.len`.  The intervals are collected in DESCENDING index
//       order and are pairwise disjoint (`iv_ok`), so a drain only removes indices ABOVE every interval still to come: the
//       invariant of the second loop (`apply_inv`) says the list is the scanned list up to a cursor x and final from x on, and
//       every later interval lies at or below x.  Later drains are unaffected by earlier ones -- proved, no counterexample.
//   (b) FUNCTIONAL (o = list before, n = list after).  There are t (the list after the FIRST loop) and mg (mg[i] = "block i is
//       merged into block i-1") with
//         scan_rel(o, t, mg, a, b)   for every i in a ..= b, with the ORIGINAL left block o[i-1] and the right block t[i] as the
//                                    scan left it (the scan runs downwards, so t[i] may already hold its right neighbours):
//                                    mg[i] <==> (o[i-1], o[i] are both GC) || (both Items and the abstract try_squash answered
//                                    true);  t[i-1] is the squashed item in the latter case and o[i-1] otherwise;  nothing is
//                                    merged outside a ..= b.  I.e. EXACTLY the GC pairs (i-1, i) with i in the range -- the
//                                    maximal GC runs cut to the range and extended by the left neighbour a-1 -- and EXACTLY the
//                                    Item pairs the kernel accepted;  (Item, GC), (GC, Item) and every pair with a Skip stay.
//         n == compact(t, mg, 0)     the exact result (a recursive reference function over t and mg);
//         coarsened(o, n, mg)        n.len == o.len - #merged pairs (removed blocks == merged pairs); old block j lies, whole, in
//                                    n[new_index(mg, j)] which has its KIND; it starts that block iff it is not merged; a block
//                                    that takes part in no merge is found there unchanged.  `lemma_new_index_step`: j and j-1 end
//                                    up in the same block iff mg[j].  `lemma_gc_run`: a run of GC pairs i ..= j in the range ends
//                                    up with i-1 in ONE GC block covering the union.
//       and, without reference to t / mg:  list_wf(n);  n covers the same clock interval [first.start, last.next);
//       `kinds_kept`: EVERY clock keeps the kind (Item / GC / Skip) of the block that holds it;  blocks below a-1 stay where
//       they are, blocks above b are shifted by the number of removed blocks, all of them unchanged.
//   (c) `left.len = right.clock - left.clock + right.len` (lifted arm `compaction_merge_gc`): weakest precondition left.clock <=
//       right.clock and right.clock - left.clock + right.len <= u32::MAX; then left ends where right ends.  `lemma_union_len`:
//       under list_wf both hold for any i <= j and the value is the sum of the lengths of the blocks i ..= j.
//  ClientBlockList::squash_left(pos)      (whole real body).  WEAKEST PRECONDITION pos < len (`self.inner[pos]`) (+ list_wf).
//       With i = pos - r:  n == o[..i] ++ [acc(o, pos, i)] ++ o[pos+1..]  where acc(j) = the block that j ..= pos are squashed
//       into, right to left;  every pair j in (i, pos] passed the loop's test `squashable(o[j-1], acc(j))`  (is_deleted equal,
//       same type, Block::try_squash true);  the suffix is MAXIMAL: i == 0 or !squashable(o[i-1], acc(i));  r == number of
//       removed blocks;  list_wf(n), same covered interval, kinds_kept(o, n).
//  LIFTED STEPS (R18 regions of the same text, contracts of their own, no proof hints):
//       compaction_collect_gc   (first loop, arm (GC, GC))      extends the last flagged interval downwards iff its start - 1 is the
//                               index, else appends [index, index];  compaction_collect_item (arm (Item, Item));
//       compaction_scan_step    (body of the first loop)  == `scan_step`;   compaction_merge_gc  (second loop, arm (GC, GC));
//       compaction_apply_interval (body of the second loop)  == `merge_step`;   squash_left_step (body of squash_left's loop),
//       squash_left_finish (its end: `merged = pos - i`, `drain(i + 1..=pos)`).
//  The `gc_block` flag of a NEW interval is deliberately left open by all contracts: it only decides whether a later GC pair
//  extends the interval or starts a new one, and both give the same list (`gc_block: true` <-> `false` swapped in either arm is
//  a behaviour-preserving edit; the unit accepts it, checked).
//
// PRECONDITIONS AND THE CALL SITES THAT ESTABLISH THEM (each call site is a lifted region, PROVED here)
//   squash_left_range_compaction   only caller `DeleteSet::try_squash_with` (id_set.rs), region `try_squash_range` = the body of
//       `for (r, _) in range.iter().rev()`: from a non-empty list (`blocks.len() - 1`) and a non-empty range (`r.end - 1`) its
//       loop `while si > 0 && ..` yields valid_range with 1 <= start <= end <= len - 1 (index 0 never enters: the loop stops at
//       si == 0), and the guard `start != usize::MAX && end != usize::MIN` skips the call when nothing was collected.  list_wf
//       holds again afterwards, so the next range of the same client finds its precondition.  Assumed of the caller's caller:
//       the client's list is list_wf (not empty: `TransactionMut::delete_set` only ever receives ids of EXISTING items,
//       transaction.rs `self.delete_set.insert(item.id, item.len())`; an unknown client would make `get_client_blocks_mut`
//       create an empty list and `blocks.len() - 1` underflow) and r is not empty (IdRanges are canonical, units ids*).
//   squash_left   commit step 7 (`commit_squash_inserted`): i runs from len - 1 down to max(1, index of the first inserted
//       clock), `i.saturating_sub(1 + merged)` stays below the shrunk length, terminates;  commit step 8
//       (`commit_squash_merge_block`): pos = replaced_pos + 1 < len or pos = replaced_pos (find_index answers < len).
//
// THE ITEM KERNEL (pointer code, ABSTRACT: trait `Kernels`, no body, no trusted stub)
//   item_try_squash(l, r) stands for `ItemPtr::try_squash` (block.rs).  Contract, clause by clause from the real text:
//     * "returns a bool, and the answer and the new left item are FUNCTIONS of the two items" (`squash_ok`, `squash_res`): the
//       body reads only fields of `*self` and `*other` (and `other.right`'s address).
//     * "false: nothing changes": the condition is one `&&` chain whose only effectful operand, `self.content.try_squash(..)`,
//       comes LAST and returns false only through its arm `_ => false`, which touches nothing.
//     * "true: id unchanged": no assignment to `self.id`.
//     * "true: len' == len + right.len" (law_squash): `self.len = self.content.len(OffsetKind::Utf16)` after
//       `ItemContent::try_squash` appended other's content (Any / JSON: `v1.append(v2.clone())`, Deleted: `*v1 + *v2`, String:
//       `push_str`), `len == content.len(Utf16)` being the item invariant set by `Item::new` (Vec lengths, the Deleted counter
//       and UTF-16 lengths of concatenated strings add up).  The law is asked only for l.len + r.len <= u32::MAX; under list_wf
//       that holds at every call (the blocks are adjacent and end below u32::MAX).
//     * "touches no other block": the writes go to `*self` (len, content, keep flag, right link) and to `right_right.left`.
//       CAVEAT: `right_right` is the item to the right of the squashed pair, possibly block i+1 of this very list (also block
//       b+1, outside the range); only its `left` LINK is rewired.  Links are pointer state and not part of the stand-in, so
//       "unchanged" in the frame clauses reads: id, len, kind and everything but the neighbour links.
//   item_is_deleted stands for `Item::is_deleted` (a flag of `info`): abstract `deleted`.
//   The parent-map rewiring (`parent.map.get_mut(key)` .. `*e = left`, both functions) is pointer code that writes into the
//   parent Branch only: DROPPED from the ingested text (`@drop`, logged with its full text), i.e. left outside.  Observation:
//   squash_left spells it `parent.map.get_mut(parent_sub).unwrap()` where the range compaction has `if let Some(e)`.
//
// STAND-IN TYPES
//   ClientID opaque value;  Item sliced to `id`, `len` + ONE opaque field `vx_rest` (as in units blockstore / upd);
//   ClientBlockList `inner: Vec<Block>` (real: Vec<UnsafeCell<Block>>), `unsafe { &mut *X.get() }` -> `&mut X`, `unsafe { &*X.get() }`
//   -> `&X`;  VxRangeInclusive / VxRevRange: VERIFIED models of `RangeInclusive<usize>` and of its `.rev()` iterator (std's
//   `next_back`: yields end, end-1, .., start; nothing if start > end; never computes end + 1 or start - 1).
//   squash_left keeps TWO live `&mut` into the vector (`right`, `left`; legal only through UnsafeCell): `right` is lowered to
//   its INDEX `vx_right` and re-borrowed per iteration through `split_at_mut(vx_right)` together with `left`; this asks
//   index(left) < index(right) < len, which is what keeps the two references of the real code disjoint.
// TRUSTED (listed by the trust scanner)
//   VxVecApi::vx_split_at_mut   A2: std `<[T]>::split_at_mut` ("[0, mid) and [mid, len)"; panics if mid > len); the two halves keep
//                               their lengths and the vector is their concatenation when the borrows end.
//   VxVecApi::vx_drain_incl     A2: std `Vec::drain(a..=b)` with the result dropped: removes [a, b]; panics unless a <= b + 1 <= len.
//   vx_drain                    A2: std `Vec::drain(a..b)` (rule R3, text of vx/prelude.rs; only reached by an edited source).
//   ClientBlockList::find_index STUB, proved in unit blockstore (contract text cross-checked by the runner).
// REWRITES (all logged): R3, R10, the unit-wide SUBs below, per extract: `for right_index in indices_range.rev() {` -> the while
//   loop over the verified iterator model, `ItemPtr::from(x)` -> `x` and `left.try_squash(right)` -> `K::item_try_squash(left,
//   right)` (first loop), the or-pattern of Block::try_squash split in two arms (Verus: no or-pattern with by-mut-ref binding),
//   `<K: Kernels>` added to the signatures, `.unwrap_or_default()` -> `.unwrap_or(0)` on Option<usize> (vstd specifies the Some
//   case only), `&blocks[si]` -> `&blocks.inner[si]` (INLINE, accessor body checked), `a..=b` as the argument of the lowered
//   calls -> `a, b`.  `for squash_range in &squash_intervals`, `last_mut()` with its match guard, `assert!` are ingested as they are.
//
// FINDINGS: none.  (a) has no counterexample under the precondition its call site establishes; the candidate "drains shift
//   later intervals" is refuted by the descending order (proved).
// NOT INGESTED: ItemPtr::try_squash / ItemContent::try_squash (abstract kernel, see above), the parent-map rewiring, the outer
//   loops of try_squash_with (BTreeMap / IdRanges iteration) and of commit steps 7 / 8 (client lookup), GCCollector.
//
// Function bodies are pulled from /repo on every run by vx/extract.py; this file holds stand-in types, the specification,
// the contracts and the proof hints only.
#![allow(unused_imports, unused_variables, unused_mut, dead_code, unused_parens, unused_braces, unused_assignments)]
use vstd::prelude::*;
use core::ops::Range;

verus! {

/*@rules R3 R10
   SUB(from=Vec<UnsafeCell<Block>>;;to=Vec<Block>)
   SUB(from=unsafe { &mut *;;to=&mut/**/)
   SUB(from=unsafe { &*;;to=&)
   SUB(from=.get() };;to=)
   SUB(from=self.inner.split_at_mut;;to=self.inner.vx_split_at_mut)
   SUB(from=..=;;to=, )
   SUB(from=self.inner.drain;;to=self.inner.vx_drain_incl)
   SUB(from=(Block::Skip(a), Block::Skip(b)) | (Block::GC(a), Block::GC(b)) => {;;to=(Block::Skip(a), Block::Skip(b)) => { a.merge(b); true } (Block::GC(a), Block::GC(b)) => {)
@*/

#[derive(PartialEq, Eq, PartialOrd, Ord, Structural, Clone, Copy, Hash)]
pub struct ClientID(pub u64);

pub mod vx_trusted {
    use vstd::prelude::*;
    use super::Block;

    pub trait VxVecApi {
        spec fn vx_seq(&self) -> Seq<Block>;

        /// A2 (trusted): std `<[T]>::split_at_mut` through `Vec`'s DerefMut
        fn vx_split_at_mut<'a>(&'a mut self, mid: usize) -> (r: (&'a mut [Block], &'a mut [Block]))
            requires
                mid <= old(self).vx_seq().len(),
            ensures
                r.0@ == old(self).vx_seq().subrange(0, mid as int),
                r.1@ == old(self).vx_seq().subrange(mid as int, old(self).vx_seq().len() as int),
                final(r.0)@.len() == mid,
                final(r.1)@.len() == old(self).vx_seq().len() - mid,
                final(self).vx_seq() == final(r.0)@ + final(r.1)@,
        ;

        /// A2 (trusted): std `Vec::drain(a..=b)` with the result dropped
        fn vx_drain_incl(&mut self, a: usize, b: usize)
            requires
                a <= b + 1 <= old(self).vx_seq().len(),
            ensures
                final(self).vx_seq() == old(self).vx_seq().subrange(0, a as int) + old(self).vx_seq().subrange(b + 1, old(self).vx_seq().len() as int),
        ;
    }

    impl VxVecApi for Vec<Block> {
        open spec fn vx_seq(&self) -> Seq<Block> {
            self@
        }

        #[verifier::external_body]
        fn vx_split_at_mut<'a>(&'a mut self, mid: usize) -> (r: (&'a mut [Block], &'a mut [Block]))
        {
            self.split_at_mut(mid)
        }

        #[verifier::external_body]
        fn vx_drain_incl(&mut self, a: usize, b: usize)
        {
            self.drain(a..=b);
        }
    }

    /// A2 (trusted, rule R3; the text of vx/prelude.rs): std `Vec::drain(a..b)` with the result dropped
    #[verifier::external_body]
    pub fn vx_drain<T>(v: &mut Vec<T>, a: usize, b: usize)
        requires
            a <= b <= old(v).len(),
        ensures
            final(v)@ == old(v)@.subrange(0, a as int) + old(v)@.subrange(b as int, old(v).len() as int),
    {
        v.drain(a..b);
    }
}
use vx_trusted::*;

// ---------------------------------------------------------------------------------------------
// std::ops::RangeInclusive<usize> and its reversed iterator: VERIFIED models (no trusted code)
// ---------------------------------------------------------------------------------------------
pub struct VxRangeInclusive {
    pub start: usize,
    pub end: usize,
}

pub struct VxRevRange {
    pub lo: usize,
    pub hi: usize,
    pub more: bool,
}

impl VxRangeInclusive {
    pub fn start(&self) -> (r: &usize)
        ensures *r == self.start,
    {
        &self.start
    }

    pub fn end(&self) -> (r: &usize)
        ensures *r == self.end,
    {
        &self.end
    }

    pub fn rev(self) -> (r: VxRevRange)
        ensures r.lo == self.start, r.hi == self.end, r.more == (self.start <= self.end),
    {
        VxRevRange { lo: self.start, hi: self.end, more: self.start <= self.end }
    }
}

impl VxRevRange {
    pub fn vx_more(&self) -> (r: bool)
        ensures r == self.more,
    {
        self.more
    }

    pub fn vx_next(&mut self) -> (r: usize)
        requires
            old(self).more,
        ensures
            r == old(self).hi,
            final(self).lo == old(self).lo,
            old(self).lo < old(self).hi ==> final(self).more && final(self).hi == old(self).hi - 1,
            old(self).lo >= old(self).hi ==> !final(self).more && final(self).hi == old(self).hi,
    {
        let r = self.hi;
        if self.lo < self.hi {
            self.hi -= 1;
        } else {
            self.more = false;
        }
        r
    }
}

#[derive(Copy, Clone, PartialEq, Eq, Structural)]
/*@extract yrs/src/block.rs | - | struct ID @*/

#[derive(Copy, Clone, PartialEq, Eq, Structural)]
/*@extract yrs/src/block.rs | - | struct BlockRange @*/

/// opaque: everything of an Item except `id` and `len`
pub struct ItemRest(pub u64);

pub struct Item {
    pub id: ID,
    pub len: u32,
    pub vx_rest: ItemRest,
}

/*@extract yrs/src/block.rs | - | enum Block @*/

/*@extract yrs/src/block_store.rs | - | struct ClientBlockList | rules=SUB(from=inner:;;to=pub inner:) @*/

/*@extract yrs/src/block_store.rs | - | struct SquashBlockRange | rules=SUB(from=struct SquashBlockRange;;to=pub struct SquashBlockRange) SUB(from=range:;;to=pub range:) SUB(from=gc_block:;;to=pub gc_block:) @*/

// ---------------------------------------------------------------------------------------------
// views (copied from unit blockstore)
// ---------------------------------------------------------------------------------------------
impl Block {
    pub open spec fn start(&self) -> int {
        match self {
            Block::Item(x) => x.id.clock as int,
            Block::GC(r) => r.clock as int,
            Block::Skip(r) => r.clock as int,
        }
    }

    pub open spec fn blen(&self) -> int {
        match self {
            Block::Item(x) => x.len as int,
            Block::GC(r) => r.len as int,
            Block::Skip(r) => r.len as int,
        }
    }

    pub open spec fn next(&self) -> int {
        self.start() + self.blen()
    }

    pub open spec fn spec_client(&self) -> ClientID {
        match self {
            Block::Item(x) => x.id.client,
            Block::GC(r) => r.client,
            Block::Skip(r) => r.client,
        }
    }

    pub open spec fn ok(&self) -> bool {
        self.blen() >= 1 && self.next() <= u32::MAX
    }

    /// 0 = Item, 1 = GC, 2 = Skip
    pub open spec fn kind(&self) -> int {
        match self {
            Block::Item(_) => 0,
            Block::GC(_) => 1,
            Block::Skip(_) => 2,
        }
    }

    /// the item of an Item block
    pub open spec fn item(&self) -> Item {
        match self {
            Block::Item(x) => **x,
            _ => arbitrary(),
        }
    }

    /// clock k lies in the block
    pub open spec fn has(&self, k: int) -> bool {
        self.start() <= k < self.next()
    }
}

pub open spec fn list_ok(s: Seq<Block>) -> bool {
    forall|i: int| 0 <= i < s.len() ==> (#[trigger] s[i]).ok()
}

pub open spec fn list_contiguous(s: Seq<Block>) -> bool {
    forall|i: int, j: int| 0 <= i && j == i + 1 && j < s.len() ==> (#[trigger] s[i]).next() == (#[trigger] s[j]).start()
}

/// REPRESENTATION INVARIANT of a client's block list (unit blockstore)
pub open spec fn list_wf(s: Seq<Block>) -> bool {
    s.len() >= 1 && list_ok(s) && list_contiguous(s)
}

pub proof fn lemma_sorted(s: Seq<Block>, i: int, j: int)
    requires
        list_ok(s),
        list_contiguous(s),
        0 <= i <= j < s.len(),
    ensures
        s[i].start() + (j - i) <= s[j].start(),
        s[i].next() + (j - i) <= s[j].next(),
    decreases j - i,
{
    if i < j {
        lemma_sorted(s, i, j - 1);
        assert(s[j - 1].next() == s[j].start());
        assert(s[j - 1].ok() && s[j].ok());
    }
}

pub proof fn lemma_block_of(s: Seq<Block>, clock: int, i: int, j: int)
    requires
        list_ok(s),
        list_contiguous(s),
        0 <= i < s.len(),
        0 <= j < s.len(),
        s[i].has(clock),
        s[j].has(clock),
    ensures
        i == j,
{
    if i < j {
        lemma_sorted(s, i + 1, j);
        assert(s[i].next() == s[i + 1].start());
    } else if j < i {
        lemma_sorted(s, j + 1, i);
        assert(s[j].next() == s[j + 1].start());
    }
}

// ---------------------------------------------------------------------------------------------
// the ABSTRACT item kernel (pointer code of block.rs)
// ---------------------------------------------------------------------------------------------
pub trait Kernels {
    spec fn deleted(x: Item) -> bool;

    spec fn squash_ok(l: Item, r: Item) -> bool;

    spec fn squash_res(l: Item, r: Item) -> Item;

    proof fn law_squash(l: Item, r: Item)
        requires
            Self::squash_ok(l, r),
            l.len + r.len <= u32::MAX,
        ensures
            Self::squash_res(l, r).id == l.id,
            Self::squash_res(l, r).len == l.len + r.len,
    ;

    fn item_is_deleted(x: &Item) -> (r: bool)
        ensures
            r == Self::deleted(*x),
    ;

    fn item_try_squash(l: &mut Item, r: &Item) -> (b: bool)
        ensures
            b == Self::squash_ok(*old(l), *r),
            b ==> *final(l) == Self::squash_res(*old(l), *r),
            !b ==> *final(l) == *old(l),
    ;
}

pub open spec fn mk_item(x: Item) -> Block {
    Block::Item(Box::new(x))
}

/// GC / Skip block with another length (an Item block is returned as it is)
pub open spec fn with_len(b: Block, n: int) -> Block {
    match b {
        Block::Item(x) => b,
        Block::GC(r) => Block::GC(BlockRange { client: r.client, clock: r.clock, len: n as u32 }),
        Block::Skip(r) => Block::Skip(BlockRange { client: r.client, clock: r.clock, len: n as u32 }),
    }
}

/// `Block::is_deleted`
pub open spec fn sdeleted<K: Kernels>(b: Block) -> bool {
    match b {
        Block::Item(x) => K::deleted(*x),
        Block::Skip(_) => false,
        Block::GC(_) => true,
    }
}

/// `Block::try_squash` answers true
pub open spec fn blk_squash_ok<K: Kernels>(l: Block, r: Block) -> bool {
    match l {
        Block::Item(x) => r is Item && K::squash_ok(*x, r.item()),
        Block::GC(_) => r is GC,
        Block::Skip(_) => r is Skip,
    }
}

/// the left block after a successful `Block::try_squash`
pub open spec fn blk_squash_res<K: Kernels>(l: Block, r: Block) -> Block {
    match l {
        Block::Item(x) => mk_item(K::squash_res(*x, r.item())),
        _ => with_len(l, l.blen() + r.blen()),
    }
}

/// the condition of `squash_left`: `left.is_deleted() == right.is_deleted() && left.same_type(right) && left.try_squash(right)`
pub open spec fn squashable<K: Kernels>(l: Block, r: Block) -> bool {
    sdeleted::<K>(l) == sdeleted::<K>(r) && l.kind() == r.kind() && blk_squash_ok::<K>(l, r)
}

// ---------------------------------------------------------------------------------------------
// real code: Block
// ---------------------------------------------------------------------------------------------
impl BlockRange {
    /*@extract yrs/src/block.rs | impl BlockRange | fn merge | label=BlockRange.merge
    @sig
        requires
            old(self).len + other.len <= u32::MAX,
        ensures
            final(self).len == old(self).len + other.len,
            final(self).clock == old(self).clock,
            final(self).client == old(self).client,
    @*/
}

impl Block {
    /*@extract yrs/src/block.rs | impl Block | fn is_deleted | label=Block.is_deleted | rules=SUB(from=pub fn is_deleted(&self);;to=pub fn is_deleted<K: Kernels>(&self)) SUB(from=item.is_deleted();;to=K::item_is_deleted(item))
    @ret r
    @sig
        ensures
            r == sdeleted::<K>(*self),
    @*/

    /*@extract yrs/src/block.rs | impl Block | fn same_type | label=Block.same_type
    @ret r
    @sig
        ensures
            r == (self.kind() == other.kind()),
    @*/

    /*@extract yrs/src/block.rs | impl Block | fn try_squash | label=Block.try_squash | rules=SUB(from=fn try_squash;;to=fn try_squash<K: Kernels>) SUB(from=ItemPtr::from(a).try_squash(ItemPtr::from(b.as_ref()));;to=K::item_try_squash(a, b))
    @ret r
    @sig
        requires
            old(self).kind() == other.kind() && other.kind() != 0 ==> old(self).blen() + other.blen() <= u32::MAX,
        ensures
            r == blk_squash_ok::<K>(*old(self), *other),
            r ==> *final(self) == blk_squash_res::<K>(*old(self), *other),
            !r ==> *final(self) == *old(self),
    @*/
}

// ---------------------------------------------------------------------------------------------
// specification of the range compaction
// ---------------------------------------------------------------------------------------------
/// number of merged pairs among the indices lo .. hi-1
pub open spec fn cnt(mg: Seq<bool>, lo: int, hi: int) -> int
    decreases hi - lo,
{
    if lo >= hi {
        0
    } else {
        (if mg[lo] { 1int } else { 0int }) + cnt(mg, lo + 1, hi)
    }
}

/// the index, in the compacted list, of the block that holds old block j
pub open spec fn new_index(mg: Seq<bool>, j: int) -> int {
    j - cnt(mg, 1, j + 1)
}

/// block x takes in its right neighbours up to the clock before `y.next()` (an Item has been squashed by the first loop already)
pub open spec fn absorb(x: Block, y: Block) -> Block {
    with_len(x, y.next() - x.start())
}

/// the compaction of the blocks i.. of the scanned list t, where mg[j] says "block j is merged into block j-1"
pub open spec fn compact(t: Seq<Block>, mg: Seq<bool>, i: int) -> Seq<Block>
    decreases t.len() - i,
{
    if i < 0 || i >= t.len() {
        Seq::<Block>::empty()
    } else if i + 1 < t.len() && mg[i + 1] {
        seq![absorb(t[i], compact(t, mg, i + 1)[0])] + compact(t, mg, i + 1).subrange(1, compact(t, mg, i + 1).len() as int)
    } else {
        seq![t[i]] + compact(t, mg, i + 1)
    }
}

/// the Item arm of the first loop squashes the pair (l, r)
pub open spec fn item_pair_ok<K: Kernels>(l: Block, r: Block) -> bool {
    l is Item && r is Item && K::squash_ok(l.item(), r.item())
}

pub open spec fn gc_pair(l: Block, r: Block) -> bool {
    l is GC && r is GC
}

/// the first loop at index i: the pair (i-1, i) counts as merged iff both blocks are GC, or both are Items and the abstract
/// `try_squash` -- called with the ORIGINAL left item and the right item as the scan left it -- answered true; in the latter
/// case the left item is the squashed one from then on
pub open spec fn scan_at<K: Kernels>(o: Seq<Block>, t: Seq<Block>, mg: Seq<bool>, i: int) -> bool {
    let j = i - 1;
    &&& mg[i] == (gc_pair(o[j], o[i]) || item_pair_ok::<K>(o[j], t[i]))
    &&& t[j] == (if item_pair_ok::<K>(o[j], t[i]) { mk_item(K::squash_res(o[j].item(), t[i].item())) } else { o[j] })
}

/// the state (t, mg) after the first loop has visited the indices p ..= b of the list o (downwards)
pub open spec fn scan_rel<K: Kernels>(o: Seq<Block>, t: Seq<Block>, mg: Seq<bool>, p: int, b: int) -> bool {
    &&& t.len() == o.len()
    &&& mg.len() == o.len()
    &&& forall|j: int| 0 <= j < o.len() && !(p - 1 <= j < b) ==> #[trigger] t[j] == o[j]
    &&& forall|i: int| 0 <= i < o.len() && !(p <= i <= b) ==> !#[trigger] mg[i]
    &&& forall|i: int| p <= i <= b ==> #[trigger] scan_at::<K>(o, t, mg, i)
}

/// well-formedness of a scanned list: the list_wf of the original, seen through the squashes already done on Items
pub open spec fn tm_wf(t: Seq<Block>, mg: Seq<bool>) -> bool {
    &&& t.len() >= 1
    &&& mg.len() == t.len()
    &&& !mg[0]
    &&& list_ok(t)
    &&& forall|j: int, j1: int| 0 <= j && j1 == j + 1 && j1 < t.len() ==> {
            &&& (#[trigger] t[j]).start() < (#[trigger] t[j1]).start()
            &&& (mg[j1] ==> t[j].kind() == t[j1].kind() && t[j].kind() != 2)
            &&& (if mg[j1] && t[j] is Item { t[j].next() == t[j1].next() } else { t[j].next() == t[j1].start() })
        }
}

/// the clock after the last one of block j in the ORIGINAL list
pub open spec fn oend(t: Seq<Block>, j: int) -> int {
    if j + 1 < t.len() { t[j + 1].start() } else { t[j].next() }
}

/// the collected intervals: descending, disjoint, inside p ..= b, and they hold exactly the merged indices of p ..= b
pub open spec fn iv_ok(iv: Seq<SquashBlockRange>, mg: Seq<bool>, p: int, b: int) -> bool {
    &&& forall|k: int| 0 <= k < iv.len() ==> p <= (#[trigger] iv[k]).range.start <= iv[k].range.end <= b
    &&& forall|k: int, k1: int| 0 <= k && k1 == k + 1 && k1 < iv.len() ==> (#[trigger] iv[k1]).range.end < (#[trigger] iv[k]).range.start
    &&& forall|k: int, i: int| 0 <= k < iv.len() && (#[trigger] iv[k]).range.start <= i <= iv[k].range.end ==> #[trigger] mg[i]
    &&& forall|i: int| (if iv.len() > 0 { iv[0].range.end as int } else { p - 1 }) < i <= b ==> !#[trigger] mg[i]
    &&& forall|k: int, k1: int, i: int| 0 <= k && k1 == k + 1 && k1 < iv.len() && (#[trigger] iv[k1]).range.end < i < (#[trigger] iv[k]).range.start ==> !#[trigger] mg[i]
    &&& forall|i: int| p <= i < (if iv.len() > 0 { iv[iv.len() - 1].range.start as int } else { p }) ==> !#[trigger] mg[i]
}

/// ONE STEP of the first loop (index ri): the list and the intervals before (t0, iv0) and after (t1, iv1).
/// The `gc_block` flag of a NEW interval is left open: it only decides whether a later GC pair extends the interval or starts a
/// new one, and both give the same list.
pub open spec fn scan_step<K: Kernels>(t0: Seq<Block>, t1: Seq<Block>, iv0: Seq<SquashBlockRange>, iv1: Seq<SquashBlockRange>, ri: int) -> bool {
    let gc = gc_pair(t0[ri - 1], t0[ri]);
    let it = item_pair_ok::<K>(t0[ri - 1], t0[ri]);
    let ext = gc && iv0.len() > 0 && iv0[iv0.len() - 1].gc_block && iv0[iv0.len() - 1].range.start - 1 == ri;
    &&& t1 =~= (if it { t0.update(ri - 1, mk_item(K::squash_res(t0[ri - 1].item(), t0[ri].item()))) } else { t0 })
    &&& if ext {
            &&& iv1.len() == iv0.len()
            &&& forall|k: int| 0 <= k < iv0.len() - 1 ==> #[trigger] iv1[k] == iv0[k]
            &&& iv1[iv1.len() - 1].range.start == ri
            &&& iv1[iv1.len() - 1].range.end == iv0[iv0.len() - 1].range.end
        } else if gc || it {
            &&& iv1.len() == iv0.len() + 1
            &&& forall|k: int| 0 <= k < iv0.len() ==> #[trigger] iv1[k] == iv0[k]
            &&& iv1[iv1.len() - 1].range.start == ri
            &&& iv1[iv1.len() - 1].range.end == ri
        } else {
            iv1 == iv0
        }
}

pub proof fn lemma_scan_kinds<K: Kernels>(o: Seq<Block>, t: Seq<Block>, mg: Seq<bool>, p: int, b: int, j: int)
    requires
        scan_rel::<K>(o, t, mg, p, b),
        0 <= j < o.len(),
        1 <= p,
        b < o.len(),
    ensures
        t[j].kind() == o[j].kind(),
{
    if p - 1 <= j < b {
        assert(scan_at::<K>(o, t, mg, j + 1));
    }
}

pub proof fn lemma_scan_rel_step<K: Kernels>(o: Seq<Block>, t0: Seq<Block>, t1: Seq<Block>, mg0: Seq<bool>, mg1: Seq<bool>, ri: int, b: int)
    requires
        scan_rel::<K>(o, t0, mg0, ri + 1, b),
        1 <= ri <= b < o.len(),
        t1 == (if item_pair_ok::<K>(t0[ri - 1], t0[ri]) { t0.update(ri - 1, mk_item(K::squash_res(t0[ri - 1].item(), t0[ri].item()))) } else { t0 }),
        mg1 == mg0.update(ri, gc_pair(t0[ri - 1], t0[ri]) || item_pair_ok::<K>(t0[ri - 1], t0[ri])),
    ensures
        scan_rel::<K>(o, t1, mg1, ri, b),
{
    assert(t0[ri - 1] == o[ri - 1]);
    lemma_scan_kinds::<K>(o, t0, mg0, ri + 1, b, ri);
    assert forall|i: int| ri <= i <= b implies #[trigger] scan_at::<K>(o, t1, mg1, i) by {
        if i > ri {
            assert(scan_at::<K>(o, t0, mg0, i));
        }
    }
}

pub proof fn lemma_tm_wf_step<K: Kernels>(o: Seq<Block>, t0: Seq<Block>, t1: Seq<Block>, mg0: Seq<bool>, mg1: Seq<bool>, ri: int, b: int)
    requires
        scan_rel::<K>(o, t0, mg0, ri + 1, b),
        tm_wf(t0, mg0),
        1 <= ri <= b < o.len(),
        t1 == (if item_pair_ok::<K>(t0[ri - 1], t0[ri]) { t0.update(ri - 1, mk_item(K::squash_res(t0[ri - 1].item(), t0[ri].item()))) } else { t0 }),
        mg1 == mg0.update(ri, gc_pair(t0[ri - 1], t0[ri]) || item_pair_ok::<K>(t0[ri - 1], t0[ri])),
    ensures
        tm_wf(t1, mg1),
{
    let l = t0[ri - 1];
    let r = t0[ri];
    assert(!mg0[ri]);
    assert(!mg0[ri - 1]);
    assert(l.ok() && r.ok());
    assert(l.start() < r.start() && l.next() == r.start());
    if item_pair_ok::<K>(l, r) {
        K::law_squash(l.item(), r.item());
        let q = mk_item(K::squash_res(l.item(), r.item()));
        assert(q.start() == l.start() && q.next() == r.next() && q.kind() == 0);
        assert(t1[ri - 1] == q);
    }
    assert forall|i: int| 0 <= i < t1.len() implies (#[trigger] t1[i]).ok() by {
        if i != ri - 1 {
            assert(t0[i].ok());
        }
    }
    assert forall|j: int, j1: int| 0 <= j && j1 == j + 1 && j1 < t1.len() implies
        (#[trigger] t1[j]).start() < (#[trigger] t1[j1]).start()
        && (mg1[j1] ==> t1[j].kind() == t1[j1].kind() && t1[j].kind() != 2)
        && (if mg1[j1] && t1[j] is Item { t1[j].next() == t1[j1].next() } else { t1[j].next() == t1[j1].start() }) by {
        assert(t0[j].start() < t0[j1].start());
        assert(mg0[j1] ==> t0[j].kind() == t0[j1].kind() && t0[j].kind() != 2);
        assert(if mg0[j1] && t0[j] is Item { t0[j].next() == t0[j1].next() } else { t0[j].next() == t0[j1].start() });
    }
}

pub proof fn lemma_iv_step(iv0: Seq<SquashBlockRange>, iv1: Seq<SquashBlockRange>, mg0: Seq<bool>, mg1: Seq<bool>, ri: int, b: int, f: bool, ext: bool)
    requires
        iv_ok(iv0, mg0, ri + 1, b),
        1 <= ri <= b < mg0.len(),
        mg1 == mg0.update(ri, f),
        ext ==> f && iv0.len() > 0 && iv0[iv0.len() - 1].range.start - 1 == ri,
        if ext {
            &&& iv1.len() == iv0.len()
            &&& forall|k: int| 0 <= k < iv0.len() - 1 ==> #[trigger] iv1[k] == iv0[k]
            &&& iv1[iv1.len() - 1].range.start == ri
            &&& iv1[iv1.len() - 1].range.end == iv0[iv0.len() - 1].range.end
        } else if f {
            &&& iv1.len() == iv0.len() + 1
            &&& forall|k: int| 0 <= k < iv0.len() ==> #[trigger] iv1[k] == iv0[k]
            &&& iv1[iv1.len() - 1].range.start == ri
            &&& iv1[iv1.len() - 1].range.end == ri
        } else {
            iv1 == iv0
        },
    ensures
        iv_ok(iv1, mg1, ri, b),
{
    let n0 = iv0.len() as int;
    let n1 = iv1.len() as int;
    assert forall|k: int| 0 <= k < n1 implies ri <= (#[trigger] iv1[k]).range.start <= iv1[k].range.end <= b by {
        if k < n0 - 1 || (k < n0 && !ext) {
            assert(iv1[k] == iv0[k]);
            assert(ri + 1 <= iv0[k].range.start);
        } else if ext {
            assert(ri + 1 <= iv0[n0 - 1].range.start <= iv0[n0 - 1].range.end <= b);
        }
    }
    assert forall|k: int, k1: int| 0 <= k && k1 == k + 1 && k1 < n1 implies (#[trigger] iv1[k1]).range.end < (#[trigger] iv1[k]).range.start by {
        if ext {
            assert(iv1[k] == iv0[k]);
            if k1 < n0 - 1 {
                assert(iv1[k1] == iv0[k1]);
            }
            assert(iv0[k1].range.end < iv0[k].range.start);
        } else if k1 < n0 {
            assert(iv1[k] == iv0[k] && iv1[k1] == iv0[k1]);
            assert(iv0[k1].range.end < iv0[k].range.start);
        } else {
            assert(iv1[k] == iv0[k]);
            assert(ri + 1 <= iv0[k].range.start);
        }
    }
    assert forall|k: int, i: int| 0 <= k < n1 && (#[trigger] iv1[k]).range.start <= i <= iv1[k].range.end implies #[trigger] mg1[i] by {
        if k < n0 - 1 || (k < n0 && !ext) {
            assert(iv1[k] == iv0[k]);
            assert(ri + 1 <= iv0[k].range.start);
            assert(mg0[i]);
        } else if ext {
            if i > ri {
                assert(iv0[n0 - 1].range.start <= i <= iv0[n0 - 1].range.end);
                assert(mg0[i]);
            }
        }
    }
    assert forall|i: int| (if n1 > 0 { iv1[0].range.end as int } else { ri - 1 }) < i <= b implies !#[trigger] mg1[i] by {
        if n0 > 0 {
            if n0 > 1 || !ext {
                assert(iv1[0] == iv0[0]);
            }
            assert(ri + 1 <= iv0[0].range.start <= iv0[0].range.end);
            assert(!mg0[i]);
        } else {
            if i > ri {
                assert(!mg0[i]);
            }
        }
    }
    assert forall|k: int, k1: int, i: int| 0 <= k && k1 == k + 1 && k1 < n1 && (#[trigger] iv1[k1]).range.end < i < (#[trigger] iv1[k]).range.start implies !#[trigger] mg1[i] by {
        if ext {
            assert(iv1[k] == iv0[k]);
            if k1 < n0 - 1 {
                assert(iv1[k1] == iv0[k1]);
            }
            assert(ri + 1 <= iv0[k1].range.start <= iv0[k1].range.end);
            assert(!mg0[i]);
        } else if k1 < n0 {
            assert(iv1[k] == iv0[k] && iv1[k1] == iv0[k1]);
            assert(ri + 1 <= iv0[k1].range.start <= iv0[k1].range.end);
            assert(!mg0[i]);
        } else {
            // the new interval [ri, ri] under the old last one
            assert(iv1[k] == iv0[k]);
            assert(k == n0 - 1);
            assert(!mg0[i]);
        }
    }
    assert forall|i: int| ri <= i < (if n1 > 0 { iv1[n1 - 1].range.start as int } else { ri }) implies !#[trigger] mg1[i] by {
        if !ext && !f {
            if i > ri {
                assert(!mg0[i]);
            }
        }
    }
}

// ---------------------------------------------------------------------------------------------
// what `compact` does (structural induction; independent of the code)
// ---------------------------------------------------------------------------------------------
pub open spec fn cp_struct(t: Seq<Block>, mg: Seq<bool>, i: int) -> bool {
    let r = compact(t, mg, i);
    &&& r.len() >= 1
    &&& r.len() == (t.len() - i) - cnt(mg, i + 1, t.len() as int)
    &&& r[0].start() == t[i].start()
    &&& r[0].kind() == t[i].kind()
    &&& r[0].spec_client() == t[i].spec_client()
    &&& (t[i] is Item ==> r[0] == t[i])
    &&& list_ok(r)
    &&& list_contiguous(r)
    &&& r[r.len() - 1].next() == t[t.len() - 1].next()
}

/// old block j >= i lies in block (j - i) - #merged(i+1 ..= j) of compact(i)
pub open spec fn cp_holds(t: Seq<Block>, mg: Seq<bool>, i: int, j: int) -> bool {
    let r = compact(t, mg, i);
    let x = (j - i) - cnt(mg, i + 1, j + 1);
    &&& 0 <= x < r.len()
    &&& r[x].start() <= t[j].start()
    &&& oend(t, j) <= r[x].next()
    &&& r[x].kind() == t[j].kind()
    &&& (j == i || !mg[j] ==> r[x].start() == t[j].start())
    &&& (j > i && mg[j] ==> r[x].start() < t[j].start())
    &&& ((j == i || !mg[j]) && (j + 1 == t.len() || !mg[j + 1]) ==> r[x] == t[j])
}

pub proof fn lemma_tm_sorted(t: Seq<Block>, mg: Seq<bool>, i: int, j: int)
    requires
        tm_wf(t, mg),
        0 <= i < j < t.len(),
    ensures
        t[i].start() < t[j].start(),
    decreases j - i,
{
    let j0 = j - 1;
    assert(t[j0].start() < t[j].start());
    if i < j0 {
        lemma_tm_sorted(t, mg, i, j0);
    }
}

pub proof fn lemma_compact(t: Seq<Block>, mg: Seq<bool>, i: int)
    requires
        tm_wf(t, mg),
        0 <= i < t.len(),
    ensures
        cp_struct(t, mg, i),
        forall|j: int| i <= j < t.len() ==> #[trigger] cp_holds(t, mg, i, j),
    decreases t.len() - i,
{
    let r = compact(t, mg, i);
    let n = t.len() as int;
    assert(t[i].ok());
    if i + 1 == n {
        assert(compact(t, mg, i + 1) =~= Seq::<Block>::empty());
        assert(r =~= seq![t[i]]);
        assert(cnt(mg, i + 1, n) == 0);
        assert forall|j: int| i <= j < n implies #[trigger] cp_holds(t, mg, i, j) by {
            assert(cnt(mg, i + 1, j + 1) == 0);
        }
    } else {
        lemma_compact(t, mg, i + 1);
        let r1 = compact(t, mg, i + 1);
        assert(cp_struct(t, mg, i + 1));
        assert(cp_holds(t, mg, i + 1, i + 1));
        assert(cnt(mg, i + 2, i + 2) == 0);
        assert(t[i + 1].ok());
        let i1 = i + 1;
        assert(t[i].start() < t[i1].start());
        assert(mg[i1] ==> t[i].kind() == t[i1].kind() && t[i].kind() != 2);
        assert(if mg[i1] && t[i] is Item { t[i].next() == t[i1].next() } else { t[i].next() == t[i1].start() });
        assert(r1[0].ok());
        if mg[i + 1] {
            let h = absorb(t[i], r1[0]);
            let rest = r1.subrange(1, r1.len() as int);
            assert(r =~= seq![h] + rest);
            assert(h.start() == t[i].start() && h.kind() == t[i].kind() && h.spec_client() == t[i].spec_client());
            assert(h.next() == r1[0].next());
            assert(h.ok());
            assert(r.len() == r1.len());
            assert forall|k: int| 0 <= k < r.len() implies (#[trigger] r[k]).ok() by {
                if k > 0 {
                    assert(r[k] == r1[k]);
                    assert(r1[k].ok());
                }
            }
            assert forall|k: int, k1: int| 0 <= k && k1 == k + 1 && k1 < r.len() implies (#[trigger] r[k]).next() == (#[trigger] r[k1]).start() by {
                assert(r[k1] == r1[k1]);
                if k > 0 {
                    assert(r[k] == r1[k]);
                }
                assert(r1[k].next() == r1[k1].start());
            }
            assert(cnt(mg, i + 1, n) == 1 + cnt(mg, i + 2, n));
            assert forall|j: int| i <= j < n implies #[trigger] cp_holds(t, mg, i, j) by {
                if j == i {
                    assert(cnt(mg, i + 1, i + 1) == 0);
                } else {
                    assert(cp_holds(t, mg, i + 1, j));
                    assert(cnt(mg, i + 1, j + 1) == 1 + cnt(mg, i + 2, j + 1));
                    let x = (j - i1) - cnt(mg, i1 + 1, j + 1);
                    if x > 0 {
                        assert(r[x] == r1[x]);
                    } else if j > i1 {
                        lemma_tm_sorted(t, mg, i1, j);
                    }
                }
            }
        } else {
            assert(r =~= seq![t[i]] + r1);
            assert(r.len() == r1.len() + 1);
            assert forall|k: int| 0 <= k < r.len() implies (#[trigger] r[k]).ok() by {
                if k > 0 {
                    assert(r[k] == r1[k - 1]);
                    assert(r1[k - 1].ok());
                }
            }
            assert forall|k: int, k1: int| 0 <= k && k1 == k + 1 && k1 < r.len() implies (#[trigger] r[k]).next() == (#[trigger] r[k1]).start() by {
                assert(r[k1] == r1[k1 - 1]);
                if k > 0 {
                    assert(r[k] == r1[k - 1]);
                    assert(r1[k - 1].next() == r1[k1 - 1].start());
                }
            }
            assert(cnt(mg, i + 1, n) == cnt(mg, i + 2, n));
            assert forall|j: int| i <= j < n implies #[trigger] cp_holds(t, mg, i, j) by {
                if j == i {
                    assert(cnt(mg, i + 1, i + 1) == 0);
                } else {
                    assert(cp_holds(t, mg, i + 1, j));
                    assert(cnt(mg, i + 1, j + 1) == cnt(mg, i + 2, j + 1));
                    let x = (j - i1) - cnt(mg, i1 + 1, j + 1);
                    assert(r[x + 1] == r1[x]);
                }
            }
        }
    }
}

/// no merge between e and x: the compaction of e.. starts with the blocks e .. x-1 themselves
pub proof fn lemma_gap(t: Seq<Block>, mg: Seq<bool>, e: int, x: int)
    requires
        0 <= e <= x <= t.len(),
        forall|i: int| e < i <= x && i < t.len() ==> !#[trigger] mg[i],
    ensures
        t.subrange(0, x) + compact(t, mg, x) == t.subrange(0, e) + compact(t, mg, e),
    decreases x - e,
{
    if e < x {
        let y = x - 1;
        if y + 1 < t.len() {
            assert(!mg[y + 1]);
        }
        assert(compact(t, mg, y) == seq![t[y]] + compact(t, mg, x));
        assert(t.subrange(0, x) + compact(t, mg, x) =~= t.subrange(0, y) + compact(t, mg, y));
        lemma_gap(t, mg, e, y);
    }
}

/// the pairs s ..= e are all merged: block s-1 takes in everything up to the end of the head of compact(e)
pub proof fn lemma_run(t: Seq<Block>, mg: Seq<bool>, s: int, e: int)
    requires
        tm_wf(t, mg),
        1 <= s <= e < t.len(),
        forall|i: int| s <= i <= e ==> #[trigger] mg[i],
    ensures
        compact(t, mg, s - 1) == seq![absorb(t[s - 1], compact(t, mg, e)[0])] + compact(t, mg, e).subrange(1, compact(t, mg, e).len() as int),
        absorb(t[s - 1], compact(t, mg, e)[0]).next() == compact(t, mg, e)[0].next(),
        t[s - 1].kind() == t[e].kind(),
        t[s - 1].kind() != 2,
        t[s - 1].start() < t[e].start(),
    decreases e - s,
{
    lemma_compact(t, mg, e);
    assert(cp_struct(t, mg, e));
    let c = compact(t, mg, e)[0];
    assert(c.ok());
    assert(mg[s]);
    let s0 = s - 1;
    assert(t[s0].start() < t[s].start());
    assert(mg[s] ==> t[s0].kind() == t[s].kind() && t[s0].kind() != 2);
    assert(if mg[s] && t[s0] is Item { t[s0].next() == t[s].next() } else { t[s0].next() == t[s].start() });
    assert(t[s0].ok());
    if s < e {
        lemma_run(t, mg, s + 1, e);
        let m = absorb(t[s], c);
        assert(compact(t, mg, s)[0] == m);
        assert(compact(t, mg, s).subrange(1, compact(t, mg, s).len() as int) =~= compact(t, mg, e).subrange(1, compact(t, mg, e).len() as int));
        assert(absorb(t[s0], m) == absorb(t[s0], c));
    }
}

pub proof fn lemma_cnt_zero(mg: Seq<bool>, lo: int, hi: int)
    requires
        forall|i: int| lo <= i < hi ==> !#[trigger] mg[i],
    ensures
        cnt(mg, lo, hi) == 0,
    decreases hi - lo,
{
    if lo < hi {
        assert(!mg[lo]);
        lemma_cnt_zero(mg, lo + 1, hi);
    }
}

pub proof fn lemma_cnt_split(mg: Seq<bool>, lo: int, mid: int, hi: int)
    requires
        lo <= mid <= hi,
    ensures
        cnt(mg, lo, hi) == cnt(mg, lo, mid) + cnt(mg, mid, hi),
    decreases mid - lo,
{
    if lo < mid {
        lemma_cnt_split(mg, lo + 1, mid, hi);
    }
}

// ---------------------------------------------------------------------------------------------
// the user-level reading of the result
// ---------------------------------------------------------------------------------------------
/// the scan leaves first clocks, kinds and clients alone, and the last block altogether
pub open spec fn same_heads(o: Seq<Block>, t: Seq<Block>) -> bool {
    &&& t.len() == o.len()
    &&& forall|j: int| 0 <= j < o.len() ==> (#[trigger] t[j]).start() == o[j].start() && t[j].kind() == o[j].kind() && t[j].spec_client() == o[j].spec_client()
    &&& o.len() > 0 ==> t[o.len() - 1] == o[o.len() - 1]
}

/// every clock keeps the KIND (Item / GC / Skip) of the block that holds it
pub open spec fn kinds_kept(o: Seq<Block>, n: Seq<Block>) -> bool {
    forall|i: int, x: int, k: int| 0 <= i < o.len() && 0 <= x < n.len() && #[trigger] o[i].has(k) && #[trigger] n[x].has(k) ==> n[x].kind() == o[i].kind()
}

/// old block j lies, whole, in the new block new_index(mg, j), which has its kind; it starts that block iff it is not merged
/// into its left neighbour; a block that takes part in no merge is found there unchanged
pub open spec fn holds(o: Seq<Block>, n: Seq<Block>, mg: Seq<bool>, j: int) -> bool {
    let x = new_index(mg, j);
    &&& 0 <= x < n.len()
    &&& n[x].kind() == o[j].kind()
    &&& n[x].start() <= o[j].start()
    &&& o[j].next() <= n[x].next()
    &&& (mg[j] ==> n[x].start() < o[j].start())
    &&& (!mg[j] ==> n[x].start() == o[j].start())
    &&& (!mg[j] && (j + 1 == o.len() || !mg[j + 1]) ==> n[x] == o[j])
}

pub open spec fn coarsened(o: Seq<Block>, n: Seq<Block>, mg: Seq<bool>) -> bool {
    &&& n.len() == o.len() - cnt(mg, 1, o.len() as int)
    &&& forall|j: int| 0 <= j < o.len() ==> #[trigger] holds(o, n, mg, j)
}

pub open spec fn cursor(it: VxRevRange) -> int {
    if it.more { it.hi + 1 } else { it.lo as int }
}

pub proof fn lemma_tm_wf_init(o: Seq<Block>, mg: Seq<bool>)
    requires
        list_wf(o),
        mg.len() == o.len(),
        forall|i: int| 0 <= i < mg.len() ==> !#[trigger] mg[i],
    ensures
        tm_wf(o, mg),
        same_heads(o, o),
{
    assert forall|j: int, j1: int| 0 <= j && j1 == j + 1 && j1 < o.len() implies
        (#[trigger] o[j]).start() < (#[trigger] o[j1]).start()
        && (mg[j1] ==> o[j].kind() == o[j1].kind() && o[j].kind() != 2)
        && (if mg[j1] && o[j] is Item { o[j].next() == o[j1].next() } else { o[j].next() == o[j1].start() }) by {
        assert(o[j].ok());
        assert(o[j].next() == o[j1].start());
        assert(!mg[j1]);
    }
}

pub proof fn lemma_heads_step<K: Kernels>(o: Seq<Block>, t0: Seq<Block>, t1: Seq<Block>, mg0: Seq<bool>, ri: int, b: int)
    requires
        same_heads(o, t0),
        tm_wf(t0, mg0),
        scan_rel::<K>(o, t0, mg0, ri + 1, b),
        1 <= ri <= b < o.len(),
        t1 == (if item_pair_ok::<K>(t0[ri - 1], t0[ri]) { t0.update(ri - 1, mk_item(K::squash_res(t0[ri - 1].item(), t0[ri].item()))) } else { t0 }),
    ensures
        same_heads(o, t1),
{
    let l = t0[ri - 1];
    let r = t0[ri];
    assert(!mg0[ri]);
    assert(l.ok() && r.ok());
    assert(l.start() < r.start() && l.next() == r.start());
    if item_pair_ok::<K>(l, r) {
        K::law_squash(l.item(), r.item());
    }
    assert forall|j: int| 0 <= j < o.len() implies (#[trigger] t1[j]).start() == o[j].start() && t1[j].kind() == o[j].kind() && t1[j].spec_client() == o[j].spec_client() by {
        assert(t0[j].start() == o[j].start());
    }
}

/// what the compacted list compact(t, mg, 0) means for a user of the list
pub proof fn lemma_final<K: Kernels>(o: Seq<Block>, t: Seq<Block>, mg: Seq<bool>, a: int, b: int)
    requires
        list_wf(o),
        1 <= a <= b < o.len(),
        scan_rel::<K>(o, t, mg, a, b),
        tm_wf(t, mg),
        same_heads(o, t),
    ensures
        list_wf(compact(t, mg, 0)),
        compact(t, mg, 0)[0].start() == o[0].start(),
        compact(t, mg, 0).last().next() == o.last().next(),
        kinds_kept(o, compact(t, mg, 0)),
        coarsened(o, compact(t, mg, 0), mg),
        forall|j: int| 0 <= j < a - 1 ==> #[trigger] compact(t, mg, 0)[j] == o[j],
        forall|j: int| b < j < o.len() ==> compact(t, mg, 0)[j - (o.len() - compact(t, mg, 0).len())] == #[trigger] o[j],
{
    let n = compact(t, mg, 0);
    let len = o.len() as int;
    lemma_compact(t, mg, 0);
    assert(cp_struct(t, mg, 0));
    assert(t[0].start() == o[0].start());
    assert forall|j: int| 0 <= j < len implies #[trigger] holds(o, n, mg, j) by {
        assert(cp_holds(t, mg, 0, j));
        assert(t[j].start() == o[j].start());
        if j + 1 < len {
            assert(t[j + 1].start() == o[j + 1].start());
            assert(o[j].next() == o[j + 1].start());
        }
        if !mg[j] && (j + 1 == len || !mg[j + 1]) {
            // block j takes part in no merge: the scan did not touch it
            if a - 1 <= j < b {
                assert(scan_at::<K>(o, t, mg, j + 1));
            }
            assert(t[j] == o[j]);
        }
    }
    assert forall|i: int, x: int, k: int| 0 <= i < len && 0 <= x < n.len() && #[trigger] o[i].has(k) && #[trigger] n[x].has(k) implies n[x].kind() == o[i].kind() by {
        assert(holds(o, n, mg, i));
        lemma_block_of(n, k, x, new_index(mg, i));
    }
    assert forall|j: int| 0 <= j < a - 1 implies #[trigger] n[j] == o[j] by {
        assert(holds(o, n, mg, j));
        lemma_cnt_zero(mg, 1, j + 1);
        assert(!mg[j]);
        assert(!mg[j + 1]);
    }
    assert forall|j: int| b < j < len implies n[j - (len - n.len())] == #[trigger] o[j] by {
        assert(holds(o, n, mg, j));
        lemma_cnt_split(mg, 1, j + 1, len);
        lemma_cnt_zero(mg, j + 1, len);
        assert(!mg[j]);
        if j + 1 < len {
            assert(!mg[j + 1]);
        }
    }
}

/// "merged into the left neighbour" is the same as "ends up in the same block as the left neighbour"
pub proof fn lemma_new_index_step(mg: Seq<bool>, j: int)
    requires
        1 <= j,
    ensures
        new_index(mg, j) == new_index(mg, j - 1) + (if mg[j] { 0int } else { 1int }),
{
    lemma_cnt_split(mg, 1, j, j + 1);
    assert(cnt(mg, j + 1, j + 1) == 0);
}

/// COROLLARY: a run of GC pairs i ..= j inside the range ends up, together with the left neighbour i-1, in ONE GC block
/// that covers the union of their clocks
pub proof fn lemma_gc_run<K: Kernels>(o: Seq<Block>, t: Seq<Block>, mg: Seq<bool>, n: Seq<Block>, a: int, b: int, i: int, j: int)
    requires
        scan_rel::<K>(o, t, mg, a, b),
        coarsened(o, n, mg),
        1 <= a <= i <= j <= b < o.len(),
        forall|m: int| i <= m <= j ==> gc_pair(#[trigger] o[m - 1], o[m]),
    ensures
        new_index(mg, j) == new_index(mg, i - 1),
        0 <= new_index(mg, j) < n.len(),
        n[new_index(mg, j)].kind() == 1,
        n[new_index(mg, j)].start() <= o[i - 1].start(),
        o[j].next() <= n[new_index(mg, j)].next(),
    decreases j - i,
{
    assert(scan_at::<K>(o, t, mg, j));
    assert(gc_pair(o[j - 1], o[j]));
    lemma_new_index_step(mg, j);
    assert(holds(o, n, mg, j));
    assert(holds(o, n, mg, i - 1));
    if i < j {
        lemma_gc_run::<K>(o, t, mg, n, a, b, i, j - 1);
    }
}

/// loop 2, before the step for the interval [s, e] when everything above x is compacted already
pub proof fn lemma_apply_pre(t: Seq<Block>, mg: Seq<bool>, c: Seq<Block>, s: int, e: int, x: int)
    requires
        tm_wf(t, mg),
        1 <= s <= e <= x <= t.len(),
        e < t.len(),
        c == t.subrange(0, x) + compact(t, mg, x),
        forall|i: int| e < i <= x && i < t.len() ==> !#[trigger] mg[i],
        forall|i: int| s <= i <= e ==> #[trigger] mg[i],
    ensures
        c == t.subrange(0, e) + compact(t, mg, e),
        e < c.len(),
        c[s - 1] == t[s - 1],
        c[e] == compact(t, mg, e)[0],
        c[s - 1].kind() == c[e].kind(),
        c[s - 1].kind() != 2,
        c[s - 1].start() < c[e].start(),
        c[s - 1].ok(),
        c[e].ok(),
        compact(t, mg, s - 1) == seq![absorb(c[s - 1], c[e])] + c.subrange(e + 1, c.len() as int),
{
    lemma_gap(t, mg, e, x);
    lemma_compact(t, mg, e);
    assert(cp_struct(t, mg, e));
    lemma_run(t, mg, s, e);
    let ce = compact(t, mg, e);
    assert(c[s - 1] == t[s - 1]);
    assert(c[e] == ce[0]);
    assert(t[s - 1].ok());
    assert(ce[0].ok());
    assert(c.subrange(e + 1, c.len() as int) =~= ce.subrange(1, ce.len() as int));
}

/// ONE STEP of the second loop on the list c for the interval [s, e]: a GC block s-1 is stretched to the end of block e (when
/// that one is a GC block too), then the blocks s ..= e are removed
pub open spec fn merge_step(c: Seq<Block>, s: int, e: int) -> Seq<Block> {
    let l2 = if gc_pair(c[s - 1], c[e]) { with_len(c[s - 1], c[e].next() - c[s - 1].start()) } else { c[s - 1] };
    c.subrange(0, s - 1) + seq![l2] + c.subrange(e + 1, c.len() as int)
}

/// the invariant of the first loop (kept opaque in the body of the function; the lemmas below open it)
#[verifier::opaque]
pub open spec fn scan_inv<K: Kernels>(o: Seq<Block>, t: Seq<Block>, mg: Seq<bool>, iv: Seq<SquashBlockRange>, p: int, a: int, b: int) -> bool {
    &&& 1 <= a <= p <= b + 1
    &&& a <= b < o.len()
    &&& list_wf(o)
    &&& scan_rel::<K>(o, t, mg, p, b)
    &&& tm_wf(t, mg)
    &&& same_heads(o, t)
    &&& iv_ok(iv, mg, p, b)
}

pub proof fn lemma_scan_inv_init<K: Kernels>(o: Seq<Block>, mg: Seq<bool>, iv: Seq<SquashBlockRange>, a: int, b: int)
    requires
        list_wf(o),
        1 <= a <= b < o.len(),
        mg == Seq::new(o.len(), |i: int| false),
        iv.len() == 0,
    ensures
        scan_inv::<K>(o, o, mg, iv, b + 1, a, b),
{
    reveal(scan_inv);
    lemma_tm_wf_init(o, mg);
}

/// what the body of the first loop needs to run safely at index ri = p - 1
pub proof fn lemma_scan_inv_pre<K: Kernels>(o: Seq<Block>, t: Seq<Block>, mg: Seq<bool>, iv: Seq<SquashBlockRange>, p: int, a: int, b: int)
    requires
        scan_inv::<K>(o, t, mg, iv, p, a, b),
    ensures
        t.len() == o.len(),
        1 <= a <= p <= b + 1,
        b < t.len(),
        iv.len() > 0 ==> iv[iv.len() - 1].range.start >= p,
{
    reveal(scan_inv);
}

pub proof fn lemma_scan_inv_step<K: Kernels>(o: Seq<Block>, t0: Seq<Block>, t1: Seq<Block>, mg0: Seq<bool>, iv0: Seq<SquashBlockRange>, iv1: Seq<SquashBlockRange>, ri: int, a: int, b: int)
    requires
        scan_inv::<K>(o, t0, mg0, iv0, ri + 1, a, b),
        a <= ri,
        scan_step::<K>(t0, t1, iv0, iv1, ri),
    ensures
        scan_inv::<K>(o, t1, mg0.update(ri, gc_pair(t0[ri - 1], t0[ri]) || item_pair_ok::<K>(t0[ri - 1], t0[ri])), iv1, ri, a, b),
{
    reveal(scan_inv);
    let gc = gc_pair(t0[ri - 1], t0[ri]);
    let it = item_pair_ok::<K>(t0[ri - 1], t0[ri]);
    let ext = gc && iv0.len() > 0 && iv0[iv0.len() - 1].gc_block && iv0[iv0.len() - 1].range.start - 1 == ri;
    let mg1 = mg0.update(ri, gc || it);
    lemma_scan_rel_step::<K>(o, t0, t1, mg0, mg1, ri, b);
    lemma_tm_wf_step::<K>(o, t0, t1, mg0, mg1, ri, b);
    lemma_heads_step::<K>(o, t0, t1, mg0, ri, b);
    lemma_iv_step(iv0, iv1, mg0, mg1, ri, b, gc || it, ext);
}

/// the invariant of the second loop: `done` intervals are applied, the list is the scanned list up to x and compacted from x on
#[verifier::opaque]
pub open spec fn apply_inv<K: Kernels>(o: Seq<Block>, t: Seq<Block>, mg: Seq<bool>, iv: Seq<SquashBlockRange>, c: Seq<Block>, x: int, done: int, a: int, b: int) -> bool {
    &&& 1 <= a <= b < t.len()
    &&& list_wf(o)
    &&& scan_rel::<K>(o, t, mg, a, b)
    &&& tm_wf(t, mg)
    &&& same_heads(o, t)
    &&& iv_ok(iv, mg, a, b)
    &&& 0 <= done <= iv.len()
    &&& 0 <= x <= t.len()
    &&& x == (if done == 0 { t.len() as int } else { iv[done - 1].range.start - 1 })
    &&& c == t.subrange(0, x) + compact(t, mg, x)
}

pub proof fn lemma_apply_inv_init<K: Kernels>(o: Seq<Block>, t: Seq<Block>, mg: Seq<bool>, iv: Seq<SquashBlockRange>, a: int, b: int)
    requires
        scan_inv::<K>(o, t, mg, iv, a, a, b),
    ensures
        apply_inv::<K>(o, t, mg, iv, t, t.len() as int, 0, a, b),
{
    reveal(scan_inv);
    reveal(apply_inv);
    assert(t =~= t.subrange(0, t.len() as int) + compact(t, mg, t.len() as int));
}

/// what the body of the second loop needs to run safely on the interval iv[done] = [s, e]
pub proof fn lemma_apply_inv_pre<K: Kernels>(o: Seq<Block>, t: Seq<Block>, mg: Seq<bool>, iv: Seq<SquashBlockRange>, c: Seq<Block>, x: int, done: int, a: int, b: int)
    requires
        apply_inv::<K>(o, t, mg, iv, c, x, done, a, b),
        done < iv.len(),
    ensures
        ({
            let s = iv[done].range.start as int;
            let e = iv[done].range.end as int;
            &&& 1 <= s <= e < c.len()
            &&& c[s - 1].kind() == c[e].kind()
            &&& c[s - 1].kind() != 2
            &&& c[s - 1].start() < c[e].start()
            &&& c[s - 1].ok()
            &&& c[e].ok()
        }),
{
    reveal(apply_inv);
    let k = done;
    let s = iv[k].range.start as int;
    let e = iv[k].range.end as int;
    assert(a <= iv[k].range.start <= iv[k].range.end <= b);
    if k > 0 {
        let k0 = k - 1;
        assert(iv[k].range.end < iv[k0].range.start);
    }
    assert forall|i: int| e < i <= x && i < t.len() implies !#[trigger] mg[i] by {
        if k > 0 {
            let k0 = k - 1;
            assert(iv[k].range.end < i < iv[k0].range.start);
        }
    }
    assert forall|i: int| s <= i <= e implies #[trigger] mg[i] by {
        assert(iv[k].range.start <= i <= iv[k].range.end);
    }
    lemma_apply_pre(t, mg, c, s, e, x);
}

pub proof fn lemma_apply_inv_step<K: Kernels>(o: Seq<Block>, t: Seq<Block>, mg: Seq<bool>, iv: Seq<SquashBlockRange>, c: Seq<Block>, x: int, done: int, a: int, b: int)
    requires
        apply_inv::<K>(o, t, mg, iv, c, x, done, a, b),
        done < iv.len(),
    ensures
        apply_inv::<K>(o, t, mg, iv, merge_step(c, iv[done].range.start as int, iv[done].range.end as int), iv[done].range.start - 1, done + 1, a, b),
{
    reveal(apply_inv);
    let k = done;
    let s = iv[k].range.start as int;
    let e = iv[k].range.end as int;
    assert(a <= iv[k].range.start <= iv[k].range.end <= b);
    if k > 0 {
        let k0 = k - 1;
        assert(iv[k].range.end < iv[k0].range.start);
    }
    assert forall|i: int| e < i <= x && i < t.len() implies !#[trigger] mg[i] by {
        if k > 0 {
            let k0 = k - 1;
            assert(iv[k].range.end < i < iv[k0].range.start);
        }
    }
    assert forall|i: int| s <= i <= e implies #[trigger] mg[i] by {
        assert(iv[k].range.start <= i <= iv[k].range.end);
    }
    lemma_apply_pre(t, mg, c, s, e, x);
    assert(c.subrange(0, s - 1) =~= t.subrange(0, s - 1));
    assert(merge_step(c, s, e) =~= t.subrange(0, s - 1) + compact(t, mg, s - 1));
}

/// all intervals are applied: the list is compact(t, mg, 0), and that means ...
pub proof fn lemma_apply_inv_done<K: Kernels>(o: Seq<Block>, t: Seq<Block>, mg: Seq<bool>, iv: Seq<SquashBlockRange>, c: Seq<Block>, x: int, a: int, b: int)
    requires
        apply_inv::<K>(o, t, mg, iv, c, x, iv.len() as int, a, b),
    ensures
        scan_rel::<K>(o, t, mg, a, b),
        c == compact(t, mg, 0),
        list_wf(c),
        c[0].start() == o[0].start(),
        c.last().next() == o.last().next(),
        kinds_kept(o, c),
        coarsened(o, c, mg),
        forall|j: int| 0 <= j < a - 1 ==> #[trigger] c[j] == o[j],
        forall|j: int| b < j < o.len() ==> c[j - (o.len() - c.len())] == #[trigger] o[j],
{
    reveal(apply_inv);
    let done = iv.len() as int;
    assert forall|i: int| 0 < i <= x && i < t.len() implies !#[trigger] mg[i] by {
        if done > 0 {
            assert(a <= iv[done - 1].range.start);
        }
    }
    lemma_gap(t, mg, 0, x);
    assert(c =~= compact(t, mg, 0));
    lemma_final::<K>(o, t, mg, a, b);
}

impl ClientBlockList {
    /*@extract yrs/src/block_store.rs | impl ClientBlockList | region squash_left_range_compaction | arm=pub(crate) fn squash_left_range_compaction(&mut self, indices_range: RangeInclusive<usize>) | label=ClientBlockList.squash_left_range_compaction | rules=SUB(from=for right_index in indices_range.rev() {;;to=let mut vx_it = indices_range.rev(); while vx_it.vx_more() { let right_index: usize = vx_it.vx_next();) SUB(from=ItemPtr::from(left);;to=left) SUB(from=ItemPtr::from(right);;to=right) SUB(from=left.try_squash(right);;to=K::item_try_squash(left, right))
    @header
        pub fn squash_left_range_compaction<K: Kernels>(&mut self, indices_range: VxRangeInclusive)
    @drop `let left = ItemPtr::from(left);`
    @drop `let right = ItemPtr::from(right.as_ref());`
    @drop `if let Some(key) = right.parent_sub.as_deref()`
    @sig
        requires
            list_wf(old(self).inner@),
            1 <= indices_range.start <= indices_range.end < old(self).inner@.len(),
        ensures
            list_wf(final(self).inner@),
            final(self).inner@[0].start() == old(self).inner@[0].start(),
            final(self).inner@.last().next() == old(self).inner@.last().next(),
            kinds_kept(old(self).inner@, final(self).inner@),
            exists|t: Seq<Block>, mg: Seq<bool>| #[trigger] scan_rel::<K>(old(self).inner@, t, mg, indices_range.start as int, indices_range.end as int)
                && final(self).inner@ == compact(t, mg, 0) && coarsened(old(self).inner@, final(self).inner@, mg),
            forall|j: int| 0 <= j < indices_range.start - 1 ==> #[trigger] final(self).inner@[j] == old(self).inner@[j],
            forall|j: int| indices_range.end < j < old(self).inner@.len() ==> final(self).inner@[j - (old(self).inner@.len() - final(self).inner@.len())] == #[trigger] old(self).inner@[j],
    @start
        let ghost o = self.inner@;
        let ghost a = indices_range.start as int;
        let ghost b = indices_range.end as int;
        let ghost mut mg: Seq<bool> = Seq::new(o.len(), |i: int| false);
    @before 1 `stmt:let vx_it`
        proof {
            lemma_scan_inv_init::<K>(o, mg, squash_intervals@, a, b);
        }
    @loop 1
        invariant
            vx_it.lo == a,
            vx_it.more ==> a <= vx_it.hi <= b,
            scan_inv::<K>(o, self.inner@, mg, squash_intervals@, cursor(vx_it), a, b),
        decreases cursor(vx_it),
    @loopstart 1
        let ghost t0 = self.inner@;
        let ghost iv0 = squash_intervals@;
        let ghost mg0 = mg;
        let ghost ri = vx_it.hi as int;
        proof {
            lemma_scan_inv_pre::<K>(o, t0, mg0, iv0, ri + 1, a, b);
        }
    @loopend 1
        proof {
            assert(scan_step::<K>(t0, self.inner@, iv0, squash_intervals@, ri));
            lemma_scan_inv_step::<K>(o, t0, self.inner@, mg0, iv0, squash_intervals@, ri, a, b);
            mg = mg0.update(ri, gc_pair(t0[ri - 1], t0[ri]) || item_pair_ok::<K>(t0[ri - 1], t0[ri]));
        }
    @afterloop 1
        let ghost t = self.inner@;
        let ghost iv = squash_intervals@;
        let ghost mut x: int = t.len() as int;
        let ghost mut done: int = 0;
        proof {
            lemma_apply_inv_init::<K>(o, t, mg, iv, a, b);
        }
    @loop 2 iter=it
        invariant
            squash_intervals@ == iv,
            it.seq().len() == iv.len(),
            forall|k: int| 0 <= k < iv.len() ==> *(#[trigger] it.seq()[k]) == iv[k],
            done == it.index@,
            apply_inv::<K>(o, t, mg, iv, self.inner@, x, done, a, b),
    @loopstart 2
        let ghost c = self.inner@;
        let ghost s = iv[done].range.start as int;
        let ghost e = iv[done].range.end as int;
        proof {
            assert(*it.seq()[done] == iv[done]);
            lemma_apply_inv_pre::<K>(o, t, mg, iv, c, x, done, a, b);
        }
    @loopend 2
        proof {
            assert(self.inner@ =~= merge_step(c, s, e));
            lemma_apply_inv_step::<K>(o, t, mg, iv, c, x, done, a, b);
            x = s - 1;
            done = done + 1;
        }
    @end
        proof {
            assert(done == iv.len());
            lemma_apply_inv_done::<K>(o, t, mg, iv, self.inner@, x, a, b);
        }
    @*/
}

// ---------------------------------------------------------------------------------------------
// squash_left
// ---------------------------------------------------------------------------------------------
/// the block that the blocks j ..= pos of the list o are squashed into (right to left, as `squash_left` does)
pub open spec fn acc<K: Kernels>(o: Seq<Block>, pos: int, j: int) -> Block
    decreases pos - j,
{
    if j >= pos {
        o[pos]
    } else {
        blk_squash_res::<K>(o[j], acc::<K>(o, pos, j + 1))
    }
}

/// acc(j) stands where block j stood, is of its kind, and ends where block pos ends
pub open spec fn acc_head<K: Kernels>(o: Seq<Block>, pos: int, j: int) -> bool {
    &&& acc::<K>(o, pos, j).start() == o[j].start()
    &&& acc::<K>(o, pos, j).kind() == o[j].kind()
    &&& acc::<K>(o, pos, j).next() == o[pos].next()
}

pub proof fn lemma_acc_step<K: Kernels>(o: Seq<Block>, pos: int, i: int)
    requires
        list_wf(o),
        0 < i <= pos < o.len(),
        acc_head::<K>(o, pos, i),
        squashable::<K>(o[i - 1], acc::<K>(o, pos, i)),
    ensures
        acc_head::<K>(o, pos, i - 1),
        acc::<K>(o, pos, i - 1) == blk_squash_res::<K>(o[i - 1], acc::<K>(o, pos, i)),
        o[i - 1].kind() == o[i].kind(),
{
    let l = o[i - 1];
    let r = acc::<K>(o, pos, i);
    assert(l.ok() && o[pos].ok());
    assert(l.next() == o[i].start());
    if l is Item {
        K::law_squash(l.item(), r.item());
    }
}

/// the user-level reading of the result of `squash_left`: blocks i ..= pos (all of one kind) became the one block m
pub proof fn lemma_squash_left_final(o: Seq<Block>, n: Seq<Block>, m: Block, i: int, pos: int)
    requires
        list_wf(o),
        0 <= i <= pos < o.len(),
        m.start() == o[i].start(),
        m.next() == o[pos].next(),
        m.kind() == o[i].kind(),
        forall|j: int| i <= j <= pos ==> (#[trigger] o[j]).kind() == o[i].kind(),
        n == o.subrange(0, i) + seq![m] + o.subrange(pos + 1, o.len() as int),
    ensures
        list_wf(n),
        n[0].start() == o[0].start(),
        n.last().next() == o.last().next(),
        kinds_kept(o, n),
        n.len() == o.len() - (pos - i),
{
    let d = pos - i;
    lemma_sorted(o, i, pos);
    assert(o[i].ok() && o[pos].ok());
    assert forall|x: int| 0 <= x < n.len() implies (#[trigger] n[x]).ok() by {
        if x < i {
            assert(n[x] == o[x]);
            assert(o[x].ok());
        } else if x > i {
            assert(n[x] == o[x + d]);
            assert(o[x + d].ok());
        }
    }
    assert forall|x: int, x1: int| 0 <= x && x1 == x + 1 && x1 < n.len() implies (#[trigger] n[x]).next() == (#[trigger] n[x1]).start() by {
        if x1 < i {
            assert(n[x] == o[x] && n[x1] == o[x1]);
            assert(o[x].next() == o[x1].start());
        } else if x1 == i {
            assert(n[x] == o[x]);
            assert(o[x].next() == o[x1].start());
        } else if x == i {
            assert(n[x1] == o[x1 + d]);
            assert(o[pos].next() == o[pos + 1].start());
        } else {
            assert(n[x] == o[x + d] && n[x1] == o[x1 + d]);
            assert(o[x + d].next() == o[x1 + d].start());
        }
    }
    assert forall|j: int, x: int, k: int| 0 <= j < o.len() && 0 <= x < n.len() && #[trigger] o[j].has(k) && #[trigger] n[x].has(k) implies n[x].kind() == o[j].kind() by {
        if j < i {
            assert(n[j] == o[j]);
            lemma_block_of(n, k, x, j);
        } else if j <= pos {
            lemma_sorted(o, i, j);
            lemma_sorted(o, j, pos);
            assert(n[i] == m);
            lemma_block_of(n, k, x, i);
        } else {
            assert(n[j - d] == o[j]);
            lemma_block_of(n, k, x, j - d);
        }
    }
}

impl ClientBlockList {
    /*@extract yrs/src/block_store.rs | impl ClientBlockList | region squash_left | arm=pub(crate) fn squash_left(&mut self, pos: usize) -> usize | label=ClientBlockList.squash_left | rules=SUB(from=let mut right = unsafe { &mut *self.inner[pos].get() };;to=let mut vx_right: usize = pos) SUB(from=let left = unsafe { &mut *self.inner[;;to=let vx_left: usize = ) SUB(from=].get() };;to=; let (vx_l, vx_r) = self.inner.vx_split_at_mut(vx_right); let right = &vx_r[0]; let left = &mut vx_l[vx_left]) SUB(from=right = left;;to=vx_right = vx_left) SUB(from=.is_deleted();;to=.is_deleted::<K>()) SUB(from=left.try_squash(right);;to=left.try_squash::<K>(right))
    @header
        pub fn squash_left<K: Kernels>(&mut self, pos: usize) -> (r: usize)
    @drop `if let Block::Item(right) = right`
    @sig
        requires
            list_wf(old(self).inner@),
            pos < old(self).inner@.len(),
        ensures
            r <= pos,
            // exactly: the blocks pos-r ..= pos are squashed into one, everything else stays
            final(self).inner@ =~= old(self).inner@.subrange(0, pos - r) + seq![acc::<K>(old(self).inner@, pos as int, pos - r)] + old(self).inner@.subrange(pos + 1, old(self).inner@.len() as int),
            // every squashed pair passed the test of the loop ...
            forall|j: int| pos - r < j <= pos ==> squashable::<K>(#[trigger] old(self).inner@[j - 1], acc::<K>(old(self).inner@, pos as int, j)),
            // ... and the suffix is MAXIMAL: the squashed block cannot be squashed into its left neighbour
            pos - r > 0 ==> !squashable::<K>(old(self).inner@[pos - r - 1], acc::<K>(old(self).inner@, pos as int, pos - r)),
            final(self).inner@.len() == old(self).inner@.len() - r,
            list_wf(final(self).inner@),
            final(self).inner@[0].start() == old(self).inner@[0].start(),
            final(self).inner@.last().next() == old(self).inner@.last().next(),
            kinds_kept(old(self).inner@, final(self).inner@),
    @start
        let ghost o = self.inner@;
    @loop 1
        invariant
            list_wf(o),
            i <= pos < o.len(),
            vx_right == i,
            self.inner@.len() == o.len(),
            forall|j: int| 0 <= j < o.len() && (j < i || j > pos) ==> #[trigger] self.inner@[j] == o[j],
            self.inner@[i as int] == acc::<K>(o, pos as int, i as int),
            acc_head::<K>(o, pos as int, i as int),
            forall|j: int| i < j <= pos ==> squashable::<K>(#[trigger] o[j - 1], acc::<K>(o, pos as int, j)),
            forall|j: int| i <= j <= pos ==> (#[trigger] o[j]).kind() == o[i as int].kind(),
        ensures
            i > 0 ==> !squashable::<K>(o[i - 1], acc::<K>(o, pos as int, i as int)),
        decreases i,
    @loopstart 1
        let ghost c0 = self.inner@;
        let ghost i0 = i as int;
        proof {
            assert(c0[i0 - 1] == o[i0 - 1]);
            assert(o[i0 - 1].ok() && o[pos as int].ok());
            assert(o[i0 - 1].next() == o[i0].start());
        }
    @loopend 1
        proof {
            lemma_acc_step::<K>(o, pos as int, i0);
            assert(self.inner@ =~= c0.update(i0 - 1, acc::<K>(o, pos as int, i0 - 1)));
        }
    @before 1 `stmt:let merged`
        proof {
            lemma_squash_left_final(o, o.subrange(0, i as int) + seq![acc::<K>(o, pos as int, i as int)] + o.subrange(pos + 1, o.len() as int), acc::<K>(o, pos as int, i as int), i as int, pos as int);
        }
    @before 1 `stmt:expr merged`
        proof {
            // the list is, element by element, the one the lemma above speaks about
            assert(self.inner@ =~= o.subrange(0, i as int) + seq![acc::<K>(o, pos as int, i as int)] + o.subrange(pos + 1, o.len() as int));
        }
    @*/
}

// ---------------------------------------------------------------------------------------------
// the steps of the two loops once more, LIFTED on their own (R18 regions; the same source text), each with a contract of
// its own: an edit of a step fails a contract clause of real code, not only a loop invariant of the whole function
// ---------------------------------------------------------------------------------------------

// (1) first loop, arm (GC, GC): collect the index into the intervals.  WEAKEST PRECONDITION: `last_range.range.start - 1`
//     is computed for a last interval with the gc flag: its start must be >= 1 (in the function: every start is an index
//     visited earlier, i.e. > right_index >= 0).
/*@extract yrs/src/block_store.rs | impl ClientBlockList | region squash_left_range_compaction | arm=(Block::GC(_), Block::GC(_)) => | label=compaction_collect_gc
@header
    fn compaction_collect_gc(squash_intervals: &mut Vec<SquashBlockRange>, right_index: usize)
@sig
    requires
        old(squash_intervals)@.len() > 0 && old(squash_intervals)@.last().gc_block ==> old(squash_intervals)@.last().range.start >= 1,
    ensures
        ({
            let iv0 = old(squash_intervals)@;
            let iv1 = final(squash_intervals)@;
            let ext = iv0.len() > 0 && iv0.last().gc_block && iv0.last().range.start - 1 == right_index;
            // consecutive with the last (GC) interval: that interval grows downwards by one index, nothing else changes
            &&& ext ==> iv1.len() == iv0.len() && iv1.last().range.start == right_index && iv1.last().range.end == iv0.last().range.end
                    && iv1.last().gc_block == iv0.last().gc_block && forall|k: int| 0 <= k < iv0.len() - 1 ==> #[trigger] iv1[k] == iv0[k]
            // otherwise: a new interval [right_index, right_index] is appended
            &&& !ext ==> iv1.len() == iv0.len() + 1 && iv1.last().range.start == right_index && iv1.last().range.end == right_index
                    && forall|k: int| 0 <= k < iv0.len() ==> #[trigger] iv1[k] == iv0[k]
        }),
@*/

// (2) first loop, arm (Item, Item): squash right into left (abstract kernel); on success collect the index as an interval
//     of its own.  No precondition.
/*@extract yrs/src/block_store.rs | impl ClientBlockList | region squash_left_range_compaction | arm=(Block::Item(left), Block::Item(right)) => | label=compaction_collect_item | rules=SUB(from=ItemPtr::from(left);;to=left) SUB(from=ItemPtr::from(right);;to=right) SUB(from=left.try_squash(right);;to=K::item_try_squash(left, right))
@header
    fn compaction_collect_item<K: Kernels>(left: &mut Box<Item>, right: &mut Box<Item>, squash_intervals: &mut Vec<SquashBlockRange>, right_index: usize)
@sig
    ensures
        ({
            let iv0 = old(squash_intervals)@;
            let iv1 = final(squash_intervals)@;
            let ok = K::squash_ok(**old(left), **old(right));
            &&& **final(right) == **old(right)
            &&& ok ==> **final(left) == K::squash_res(**old(left), **old(right))
                    && iv1.len() == iv0.len() + 1 && iv1.last().range.start == right_index && iv1.last().range.end == right_index
                    && forall|k: int| 0 <= k < iv0.len() ==> #[trigger] iv1[k] == iv0[k]
            &&& !ok ==> **final(left) == **old(left) && iv1 == iv0
        }),
@*/

// (3) second loop, arm (GC, GC): `left.len = right.clock - left.clock + right.len`.  WEAKEST PRECONDITION: left does not start
//     after right, and the distance from left's first clock to right's end fits u32.  Then left ends where right ends
//     (`lemma_union_len`: under list_wf that length is the sum of the lengths of the blocks from left to right).
/*@extract yrs/src/block_store.rs | impl ClientBlockList | region squash_left_range_compaction | arm=(Block::GC(left), Block::GC(right)) => | label=compaction_merge_gc
@header
    fn compaction_merge_gc(left: &mut BlockRange, right: &BlockRange)
@sig
    requires
        old(left).clock <= right.clock,
        right.clock - old(left).clock + right.len <= u32::MAX,
    ensures
        final(left).clock == old(left).clock,
        final(left).client == old(left).client,
        final(left).clock + final(left).len == right.clock + right.len,
@*/

/// sum of the lengths of the blocks i ..= j
pub open spec fn span_len(s: Seq<Block>, i: int, j: int) -> int
    decreases j - i + 1,
{
    if j < i { 0 } else { span_len(s, i, j - 1) + s[j].blen() }
}

/// (c) under list_wf `right.clock - left.clock + right.len` neither underflows nor overflows and is the length of the union
pub proof fn lemma_union_len(s: Seq<Block>, i: int, j: int)
    requires
        list_wf(s),
        0 <= i <= j < s.len(),
    ensures
        s[i].start() <= s[j].start(),
        s[j].start() - s[i].start() + s[j].blen() == span_len(s, i, j),
        1 <= span_len(s, i, j) <= u32::MAX,
    decreases j - i,
{
    assert(s[j].ok() && s[i].ok());
    if i < j {
        lemma_union_len(s, i, j - 1);
        assert(s[j - 1].next() == s[j].start());
    } else {
        assert(span_len(s, i, i - 1) == 0);
    }
}

impl ClientBlockList {
    // (4) the BODY of the first loop.  WEAKEST PRECONDITION: 1 <= right_index (`l[l.len() - 1]` with l = inner[..right_index]),
    //     right_index < len (`r[0]`), and the start of a flagged last interval is >= 1 (see (1)).
    /*@extract yrs/src/block_store.rs | impl ClientBlockList | region squash_left_range_compaction | stmt=stmt:for #1 >> stmt:let ~ split_at_mut | upto=stmt:for #1 >> stmt:match | label=compaction_scan_step | rules=SUB(from=ItemPtr::from(left);;to=left) SUB(from=ItemPtr::from(right);;to=right) SUB(from=left.try_squash(right);;to=K::item_try_squash(left, right))
    @header
        fn compaction_scan_step<K: Kernels>(&mut self, squash_intervals: &mut Vec<SquashBlockRange>, right_index: usize)
    @sig
        requires
            1 <= right_index < old(self).inner@.len(),
            old(squash_intervals)@.len() > 0 && old(squash_intervals)@.last().gc_block ==> old(squash_intervals)@.last().range.start >= 1,
        ensures
            scan_step::<K>(old(self).inner@, final(self).inner@, old(squash_intervals)@, final(squash_intervals)@, right_index as int),
    @*/

    // (5) the BODY of the second loop.  WEAKEST PRECONDITION: 1 <= start <= end < len -- `assert!(start_idx <= end_idx)`,
    //     `left_slice[start_idx - 1]` with left_slice = inner[..end], `right_slice[0]`, `drain(start..=end)` -- and, for two GC
    //     blocks, the arithmetic of (3).
    /*@extract yrs/src/block_store.rs | impl ClientBlockList | region squash_left_range_compaction | stmt=stmt:for #2 >> stmt:let start_idx | upto=stmt:for #2 >> stmt:call drain | label=compaction_apply_interval
    @header
        fn compaction_apply_interval(&mut self, squash_range: &SquashBlockRange)
    @drop `let left = ItemPtr::from(left);`
    @drop `let right = ItemPtr::from(right.as_ref());`
    @drop `if let Some(key) = right.parent_sub.as_deref()`
    @sig
        requires
            1 <= squash_range.range.start <= squash_range.range.end < old(self).inner@.len(),
            gc_pair(old(self).inner@[squash_range.range.start - 1], old(self).inner@[squash_range.range.end as int]) ==>
                old(self).inner@[squash_range.range.start - 1].start() <= old(self).inner@[squash_range.range.end as int].start()
                && old(self).inner@[squash_range.range.end as int].next() - old(self).inner@[squash_range.range.start - 1].start() <= u32::MAX,
        ensures
            final(self).inner@ =~= merge_step(old(self).inner@, squash_range.range.start as int, squash_range.range.end as int),
    @*/
}

impl ClientBlockList {
    // (6) the BODY of the loop of squash_left (`break` is spelled `return (false, i, vx_right)`, falling through returns
    //     (true, i, vx_right)).  WEAKEST PRECONDITION (of the lowered text): 0 < i == index of `right` < len, and -- for
    //     `BlockRange::merge`, reached for two GC or two Skip blocks -- the two lengths add up within u32.
    /*@extract yrs/src/block_store.rs | impl ClientBlockList | region squash_left | stmt=stmt:while >> stmt:let left | upto=stmt:while >> stmt:assign right | tail=(true, i, vx_right) | label=squash_left_step | rules=SUB(from=let left = unsafe { &mut *self.inner[;;to=let vx_left: usize = ) SUB(from=].get() };;to=; let (vx_l, vx_r) = self.inner.vx_split_at_mut(vx_right); let right = &vx_r[0]; let left = &mut vx_l[vx_left]) SUB(from=right = left;;to=vx_right = vx_left) SUB(from=.is_deleted();;to=.is_deleted::<K>()) SUB(from=left.try_squash(right);;to=left.try_squash::<K>(right)) SUB(from=break;;to=return (false, i, vx_right))
    @header
        fn squash_left_step<K: Kernels>(&mut self, mut i: usize, mut vx_right: usize) -> (r: (bool, usize, usize))
    @drop `if let Block::Item(right) = right`
    @sig
        requires
            0 < i,
            i == vx_right,
            vx_right < old(self).inner@.len(),
            old(self).inner@[i - 1].kind() == old(self).inner@[i as int].kind() && old(self).inner@[i as int].kind() != 0
                ==> old(self).inner@[i - 1].blen() + old(self).inner@[i as int].blen() <= u32::MAX,
        ensures
            r.0 == squashable::<K>(old(self).inner@[i - 1], old(self).inner@[i as int]),
            r.0 ==> final(self).inner@ =~= old(self).inner@.update(i - 1, blk_squash_res::<K>(old(self).inner@[i - 1], old(self).inner@[i as int]))
                && r.1 == i - 1 && r.2 == i - 1,
            !r.0 ==> final(self).inner@ =~= old(self).inner@ && r.1 == i && r.2 == vx_right,
    @*/

    // (7) the END of squash_left: the number of merged blocks and the one bulk removal.  WEAKEST PRECONDITION i <= pos < len.
    /*@extract yrs/src/block_store.rs | impl ClientBlockList | region squash_left | stmt=stmt:let merged | upto=stmt:if ~ merged | tail=merged | label=squash_left_finish
    @header
        fn squash_left_finish(&mut self, pos: usize, i: usize) -> (r: usize)
    @sig
        requires
            i <= pos < old(self).inner@.len(),
        ensures
            r == pos - i,
            final(self).inner@ =~= old(self).inner@.subrange(0, i + 1) + old(self).inner@.subrange(pos + 1, old(self).inner@.len() as int),
    @*/
}

// ---------------------------------------------------------------------------------------------
// CALL SITES (lifted regions of the callers): they establish the preconditions, and list_wf survives them
// ---------------------------------------------------------------------------------------------
/// `clock` lies in one of the blocks (unit blockstore)
pub open spec fn in_list(s: Seq<Block>, clock: int) -> bool {
    s.len() > 0 && s[0].start() <= clock < s.last().next()
}

impl Block {
    /*@extract yrs/src/block.rs | impl Block | fn clock_start | label=Block.clock_start
    @ret r
    @sig
        ensures r == self.start(),
    @*/
}

impl ClientBlockList {
    /*@extract yrs/src/block_store.rs | impl ClientBlockList | fn len | label=ClientBlockList.len
    @ret r
    @sig
        ensures r == self.inner@.len(),
    @*/

    // STUB: proved in unit blockstore (same contract text; the runner cross-checks it and drops the body)
    #[verifier::external_body]
    /*@extract yrs/src/block_store.rs | impl ClientBlockList | fn find_index | label=ClientBlockList.find_index | rules=SUB(from=(start, end) = block.clock_range();;to=let vx_cr = block.clock_range(); start = vx_cr.0; end = vx_cr.1)
    @ret r
    @sig
        requires
            self.inner@.len() == 0 || list_wf(self.inner@),
        ensures
            r is Some <==> in_list(self.inner@, clock as int),
            r is Some ==> r.unwrap() < self.inner@.len()
                && self.inner@[r.unwrap() as int].start() <= clock < self.inner@[r.unwrap() as int].next(),
    @*/
}

pub proof fn lemma_kinds_kept_trans(o: Seq<Block>, m: Seq<Block>, n: Seq<Block>)
    requires
        list_wf(o),
        list_wf(m),
        m[0].start() == o[0].start(),
        m.last().next() == o.last().next(),
        kinds_kept(o, m),
        kinds_kept(m, n),
    ensures
        kinds_kept(o, n),
{
    assert forall|i: int, x: int, k: int| 0 <= i < o.len() && 0 <= x < n.len() && #[trigger] o[i].has(k) && #[trigger] n[x].has(k) implies n[x].kind() == o[i].kind() by {
        lemma_sorted(o, 0, i);
        lemma_sorted(o, i, o.len() - 1);
        let y = lemma_find_block(m, k);
        assert(m[y].has(k));
    }
}

pub proof fn lemma_kinds_kept_refl(o: Seq<Block>)
    requires
        list_wf(o),
    ensures
        kinds_kept(o, o),
{
    assert forall|i: int, x: int, k: int| 0 <= i < o.len() && 0 <= x < o.len() && #[trigger] o[i].has(k) && #[trigger] o[x].has(k) implies o[x].kind() == o[i].kind() by {
        lemma_block_of(o, k, i, x);
    }
}

/// a clock inside the covered interval lies in some block
pub proof fn lemma_find_block(s: Seq<Block>, k: int) -> (y: int)
    requires
        list_wf(s),
        s[0].start() <= k < s.last().next(),
    ensures
        0 <= y < s.len(),
        s[y].has(k),
{
    lemma_find_block_upto(s, k, s.len() - 1)
}

pub proof fn lemma_find_block_upto(s: Seq<Block>, k: int, hi: int) -> (y: int)
    requires
        list_wf(s),
        0 <= hi < s.len(),
        s[0].start() <= k < s[hi].next(),
    ensures
        0 <= y <= hi,
        s[y].has(k),
    decreases hi,
{
    if s[hi].start() <= k {
        hi
    } else {
        assert(s[hi - 1].next() == s[hi].start());
        lemma_find_block_upto(s, k, hi - 1)
    }
}

// DeleteSet::try_squash_with (id_set.rs), the body of `for (r, _) in range.iter().rev()`: the ONLY call site of
// squash_left_range_compaction.  From a non-empty list (`blocks.len() - 1`) and a non-empty range (`r.end - 1`) it derives
// valid_range with 1 <= start <= end <= len - 1 (the loop stops at si == 0, so index 0 never enters the range).
/*@extract yrs/src/id_set.rs | impl DeleteSet for IdSet | region try_squash_with | stmt=stmt:let si | upto=stmt:if ~ valid_range | label=try_squash_range | rules=SUB(from=(valid_range.start..=valid_range.end);;to=::<K>(VxRangeInclusive { start: valid_range.start, end: valid_range.end })) SUB(from=.unwrap_or_default();;to=.unwrap_or(0)) INLINE(file=yrs/src/block_store.rs;;container=impl Index<usize> for ClientBlockList;;fn=index;;body=unsafe { &*self.inner[index].get() };;call=&blocks[si];;to=&blocks.inner[si])
@header
    fn try_squash_range<K: Kernels>(blocks: &mut ClientBlockList, r: &Range<u32>)
@sig
    requires
        list_wf(old(blocks).inner@),
        r.start < r.end,
    ensures
        list_wf(final(blocks).inner@),
        final(blocks).inner@[0].start() == old(blocks).inner@[0].start(),
        final(blocks).inner@.last().next() == old(blocks).inner@.last().next(),
        kinds_kept(old(blocks).inner@, final(blocks).inner@),
@start
    proof {
        lemma_kinds_kept_refl(blocks.inner@);
    }
@loop 1
    invariant
        blocks.inner@ == old(blocks).inner@,
        si < blocks.inner@.len(),
        *block == blocks.inner@[si as int],
        (valid_range.start == usize::MAX && valid_range.end == usize::MIN)
            || (si + 1 == valid_range.start && valid_range.start <= valid_range.end && valid_range.end < blocks.inner@.len()),
    decreases si,
@*/

// TransactionMut::commit step 7 (transaction.rs): squash_left over the freshly inserted blocks, right to left
/*@extract yrs/src/transaction.rs | impl<'doc> TransactionMut<'doc> | region commit | stmt=stmt:let first_change_pos | upto=stmt:while ~ first_change_pos | label=commit_squash_inserted | rules=SUB(from=blocks.squash_left(i);;to=blocks.squash_left::<K>(i)) SUB(from=.unwrap_or_default();;to=.unwrap_or(0))
@header
    fn commit_squash_inserted<K: Kernels>(blocks: &mut ClientBlockList, first_clock: u32)
@sig
    requires
        list_wf(old(blocks).inner@),
    ensures
        list_wf(final(blocks).inner@),
        final(blocks).inner@[0].start() == old(blocks).inner@[0].start(),
        final(blocks).inner@.last().next() == old(blocks).inner@.last().next(),
        kinds_kept(old(blocks).inner@, final(blocks).inner@),
@start
    proof {
        lemma_kinds_kept_refl(blocks.inner@);
    }
@loop 1
    invariant
        first_change_pos >= 1,
        i < usize::MAX,
        list_wf(old(blocks).inner@),
        list_wf(blocks.inner@),
        i < blocks.inner@.len(),
        blocks.inner@[0].start() == old(blocks).inner@[0].start(),
        blocks.inner@.last().next() == old(blocks).inner@.last().next(),
        kinds_kept(old(blocks).inner@, blocks.inner@),
    decreases i,
@loopstart 1
    let ghost c0 = blocks.inner@;
@loopend 1
    proof {
        lemma_kinds_kept_trans(old(blocks).inner@, c0, blocks.inner@);
    }
@*/

// TransactionMut::commit step 8 (transaction.rs): squash_left at a block named by `merge_blocks`
/*@extract yrs/src/transaction.rs | impl<'doc> TransactionMut<'doc> | region commit | stmt=stmt:if ^ blocks.find_index(id.clock) | label=commit_squash_merge_block | rules=SUB(from=blocks.squash_left;;to=blocks.squash_left::<K>)
@header
    fn commit_squash_merge_block<K: Kernels>(blocks: &mut ClientBlockList, id: &ID)
@sig
    requires
        list_wf(old(blocks).inner@),
    ensures
        list_wf(final(blocks).inner@),
        final(blocks).inner@[0].start() == old(blocks).inner@[0].start(),
        final(blocks).inner@.last().next() == old(blocks).inner@.last().next(),
        kinds_kept(old(blocks).inner@, final(blocks).inner@),
@start
    proof {
        lemma_kinds_kept_refl(blocks.inner@);
        assert(blocks.inner@.len() == blocks.inner.len());
    }
@*/

} // verus!

fn main() {}
