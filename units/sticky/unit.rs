// unit `sticky` -- sticky indexes (yrs/src/sticky_index.rs).  Serves C14 (kernel only).
//
// PART A -- RESOLUTION KERNEL.  `StickyIndex::get_offset` maps a sticky index onto a numeric position.  After the store
//   lookups (`store.blocks.get_clock`, `store.follow_redone(right_id)` -> `ItemSlice { ptr, start, end }`, the parent branch
//   -- NOT in this unit: they need the block store) the position is computed by the statements
//       index = if right.is_deleted() || !right.is_countable() { 0 } else if self.assoc == Assoc::After { right.start } else { right.start + 1 };
//       let encoding = store.offset_kind;
//       let mut n = right.ptr.left;
//       while let Some(item) = n.as_deref() { if !item.is_deleted() && item.is_countable() { index += item.content_len(encoding); } n = item.left; }
//   These statements are lifted MECHANICALLY (rule R18, statement region `stmt:assign index` .. `stmt:while`) into
//       fn sticky_index_of(right: &ItemSlice, assoc: Assoc, encoding: OffsetKind, mut index: u32) -> (r: u32)
//   (`index` is the region's live-in/live-out variable: parameter + result; `encoding` is the dropped binding
//   `let encoding = store.offset_kind;`; `self.assoc` became the parameter `assoc`) and proved against THE PROPERTY
//       r == visible_len(lefts(right.ptr.left))                    -- all visible (= !deleted && countable) units LEFT of the anchor block
//            + (if the anchor block is visible: After  -> right.start       = the gap directly BEFORE the anchored unit
//                                               Before -> right.start + 1   = the gap directly AFTER the anchored unit
//               else 0)                                             -- deleted anchor: the gap where it used to be
//   The type-scoped arms (`IndexScope::Nested` / `IndexScope::Root`: sticky index of an EMPTY collection) are lifted the same way
//   (`index = if self.assoc == Assoc::After { ptr.content_len } else { 0 };`) into `sticky_index_of_nested` / `sticky_index_of_root`: After = END
//   of the collection, Before = START.
//
//   For verdict levels the two steps (anchor contribution, contribution of one left element) are ALSO lifted on their own
//   (`sticky_anchor_part`, `sticky_left_step`): an edit of either then fails a contract clause of real code, not just the
//   loop invariant spliced into `sticky_index_of`.  Spec-level corollaries: lemma_visible_len_insert / _update (what happens
//   LEFT of the anchor moves the position by exactly the visible units involved; nothing RIGHT of it enters the spec),
//   lemma_invisible_anchor, lemma_before_after_adjacent.
//
// FINDING S1 (OPEN on the pinned tree; obligation `sticky::sticky_index_of_units::post`, clause
//   `finding_s1_bytes_offset_kind(encoding) ==> r == sticky_position_spec(..)`): `right.start` is a CLOCK offset (UTF-16 units)
//   but is added to index-unit sums; in a document with OffsetKind::Bytes a sticky index anchored inside a string block
//   resolves to the wrong index (even into the middle of a character) as soon as a non-ASCII character precedes the gap inside
//   the anchor block.  Smallest input: Doc{offset_kind: Bytes, client 1}; text "\u{e9}" (block 1#0, text.len() == 2);
//   StickyIndex::from_id(ID(1, 0), Assoc::Before).get_offset().index == 1, the gap directly after the element is 2.
//   The clause for Utf16 documents (the default) is PROVED.  See the comment at `sticky_index_of_units`.
//
// PART B -- BINARY SERIALIZATION.  `impl Encode / Decode for IndexScope`, `for StickyIndex` (and `for Assoc`, shared with unit
//   `tags` by textual include of units/tags/assoc.rs) on top of the lib0 layer (units/lib0_common/*), `ClientID::decode`
//   (the range check on an untrusted client id), `ID::new`, `StickyIndex::new`.
//   CONTRACT: the decoders are TOTAL on every byte string (no panic, no overflow, terminate, consume a prefix) and compute
//   exactly the spec decoders `dec_scope` / `dec_sticky`; the encoders append exactly `enc_scope` / `enc_sticky`; and
//   `theorem_sticky_round_trip`: dec_sticky(enc_sticky(x) ++ tail) == Some((x, |enc_sticky(x)|)) for every sticky index whose
//   client id is < 2^53 (the ClientID range) and whose root name is shorter than 4 GiB.
//
// ------------------------------------------------------------------------------------------------------------------
// STAND-IN TYPES (everything not listed here is extracted verbatim from /repo on every run)
//
//   ItemPtr        real: `struct ItemPtr(NonNull<Item>)` with `Deref<Target = Item>` (raw pointer).
//                  here: `&'a Item<'a, C>` (read-only lowering, R15: the lifted statements only READ through the pointer).
//                  ASSUMPTION A5: the chain of `left` links is finite and not mutated while the function runs (an immutable
//                  value of this type IS a finite chain; termination of the real loop rests on this).
//                  Spelling change: `n.as_deref()` -> `n` (SUB, logged; `Option<ItemPtr>::as_deref` = `Option<&Item>`).
//   Item           sliced to the three fields the statements read: `left`, `info`, `content` (+ lifetime / content parameters).
//                  DROPPED: id, len, right, origin, right_origin, parent, redone, parent_sub.  (With `right` dropped the
//                  value is singly linked; a doubly linked immutable value cannot be built.)
//   ItemContent    ABSTRACT: a type parameter `C: ContentModel`; `ContentModel::len(&self, kind) -> u32` is a bodiless trait
//                  method whose result is the uninterpreted `len_spec(kind)` (real: `ItemContent::len`, which for strings
//                  calls `SplittableString::len(kind)`).  `Item::content_len` itself is extracted (`self.content.len(kind)`).
//   ItemSlice      re-declared with the lifetime / content parameters of the lowered pointer (same three fields ptr, start, end).
//   ItemFlags      extracted (`ItemFlags(u16)`, field made pub for the specs); `check`, `is_deleted`, `is_countable` extracted,
//                  as are `Item::{is_deleted, is_countable, content_len}` and `ItemSlice::{is_deleted, is_countable}`.
//   BranchPtr      real: `struct BranchPtr(NonNull<Branch>)`; here `&Branch`, Branch sliced to `content_len` (the one field read).
//                  DROPPED: start, map, item, name, block_len, type_ref, observers, deep_observers.
//   ClientID       real: `ClientID(NonZeroU64)` holding `value | MASK`; `new` = cfg blocks + `unsafe new_unchecked` (not
//                  ingestible).  here: the yjs value itself (`ClientID(pub u64)`); `new` requires `value < 2^53` (= the
//                  `debug_assert!(value & MASK == 0)` of the real body, rule R9) and `get` returns the value (real:
//                  `self.0.get() & !MASK`, the inverse of `new` on 53-bit values).  `ClientID::decode` and the constant
//                  `MASK` are EXTRACTED.
//   Str            stand-in for `Arc<str>` / `&str`: an opaque string whose only observable is its character sequence
//                  (`Arc<str>` equality is string equality).  SUB `Arc<str>` -> `Str`, `&str` -> `&Str`,
//                  `type_name.into()` -> `type_name.to_arc()` (`<Arc<str> as From<&str>>::from`: copies the string).
//   Encoder / Decoder   sliced to their supertraits `lib0::Write` / `lib0::Read` (no other method is used here), as in unit tags.
//   Error          sliced stand-in of units/lib0_common/base.rs (same variants).
//
// TRUSTED (same items as unit tags, nothing else)
//   A-STR          `law_utf8_round_trip`: from_utf8(utf8(s)) == s  (assumed law about the uninterpreted utf8 / from_utf8)
//   A2  str bytes  `<Str as VxBytes>::as_ref`: std `str::as_bytes` names the UTF-8 bytes of the string (= utf8(chars))
//   A-STR2         `law_utf8_valid`: valid_utf8(utf8(s))  (the bytes of a string are valid UTF-8)
//   A9' from_utf8  `vx_from_utf8`: std `std::str::from_utf8` (SUB, logged): Ok exactly for `valid_utf8(bytes)`, and then the
//                  string `from_utf8(bytes)` (both uninterpreted).  `Read::read_string` ITSELF is the real body since /repo
//                  6f5f4d8 (`let buf = self.read_buf()?; std::str::from_utf8(buf).map_err(|_| Error::UnexpectedValue)`, the real
//                  closure kept and annotated with @closure); before that it was `unsafe { from_utf8_unchecked(..) }` and a
//                  trusted stand-in here (DESIGN A9) whose contract claimed Ok for every buffer.
//   + what units/lib0_common/base.rs trusts (std `i64::unsigned_abs`, `i64::wrapping_neg`)
//
// NOT IN THIS UNIT: the store lookups of `get_offset` (`get_clock`, `follow_redone`, `parent.as_branch()`, the `Some(i) if
//   i.is_deleted()` test on the parent's item), `StickyIndex::at` (creation; walks a `BlockIter`), `get_item`, `within_range`,
//   the serde (JSON) `Serialize` / `Deserialize` impls (visitor objects over serde's traits: not ingestible).
// ------------------------------------------------------------------------------------------------------------------
#![allow(unused_imports, unused_variables, unused_mut, dead_code, unused_parens, unused_braces, unused_assignments)]
use vstd::prelude::*;
use vstd::slice::*;
use std::convert::TryInto;

verus! {

/*@rules R9 R10
   SUB(from=Arc<str>;;to=Str)
@*/

/*@include units/lib0_common/base.rs @*/

/*@include units/lib0_common/spec.rs @*/

/*@include units/lib0_common/varint.rs @*/

// =============================================================================================
// PART B -- environment
// =============================================================================================
// The sticky-index codec uses only the raw byte stream (Write/Read).  The column methods of the real traits are declared
// (signatures extracted) WITHOUT any contract: what they do to the byte stream is unspecified (in lib0 v2 they read / write
// separate columns), so a codec function that starts to use one of them on one side only fails its stream contract instead
// of being outside what the unit can ingest.
pub trait Encoder: Write {
    /*@extract yrs/src/updates/encoder.rs | trait Encoder: Write | fn write_left_id | rules=SUB(from=block::ID;;to=ID) @*/
    /*@extract yrs/src/updates/encoder.rs | trait Encoder: Write | fn write_right_id | rules=SUB(from=block::ID;;to=ID) @*/
    /*@extract yrs/src/updates/encoder.rs | trait Encoder: Write | fn write_info @*/
    /*@extract yrs/src/updates/encoder.rs | trait Encoder: Write | fn write_len @*/
    /*@extract yrs/src/updates/encoder.rs | trait Encoder: Write | fn write_type_ref @*/
}

pub trait Decoder: Read {
    /*@extract yrs/src/updates/decoder.rs | trait Decoder: Read | fn read_left_id @*/
    /*@extract yrs/src/updates/decoder.rs | trait Decoder: Read | fn read_right_id @*/
    /*@extract yrs/src/updates/decoder.rs | trait Decoder: Read | fn read_info @*/
    /*@extract yrs/src/updates/decoder.rs | trait Decoder: Read | fn read_len @*/
    /*@extract yrs/src/updates/decoder.rs | trait Decoder: Read | fn read_type_ref @*/
}

/// the UTF-8 bytes of a string / the string `std::str::from_utf8` makes of a VALID byte buffer / validity of a byte buffer
pub uninterp spec fn utf8(s: Seq<char>) -> Seq<u8>;
pub uninterp spec fn from_utf8(b: Seq<u8>) -> Seq<char>;
pub uninterp spec fn valid_utf8(b: Seq<u8>) -> bool;

/// A-STR (ASSUMED law, the same one unit tags uses): decoding the UTF-8 bytes of a string gives the string back
#[verifier::external_body] pub proof fn law_utf8_round_trip(s: Seq<char>)
    ensures from_utf8(utf8(s)) == s,
{
}

/// A-STR2 (ASSUMED law, as in unit tags): the bytes of a string (what `write_string` writes: `str::as_bytes`) are valid UTF-8
/// (a `str` is valid UTF-8 by its type invariant)
#[verifier::external_body] pub proof fn law_utf8_valid(s: Seq<char>)
    ensures valid_utf8(utf8(s)),
{
}

/// stand-in for `Arc<str>` / `str`: its only observable is the character sequence
pub struct Str { pub chars: Ghost<Seq<char>> }

pub open spec fn str_of(c: Seq<char>) -> Str {
    Str { chars: Ghost(c) }
}

impl Str {
    /// `<Arc<str> as From<&str>>::from` (spelled `type_name.into()` in /repo): a copy of the string
    pub fn to_arc(&self) -> (r: Str)
        ensures r == *self,
    {
        Str { chars: Ghost(self.chars@) }
    }
}

impl VxBytes for Str {
    open spec fn bytes(&self) -> Seq<u8> {
        utf8(self.chars@)
    }

    /// std `str::as_bytes` (trusted: names the bytes of the string)
    #[verifier::external_body] fn as_ref(&self) -> (r: &[u8]) {
        unimplemented!()
    }
}

pub trait WriteStr: Write {
    /*@extract yrs/src/encoding/write.rs | trait Write: Sized | fn write_string | rules=SUB(from=&str;;to=&Str)
    @sig
        ensures final(self).out() == old(self).out() + enc_buf(utf8(str.chars@)),
    @*/
}

impl<W: Write> WriteStr for W {}

/// std `core::str::Utf8Error`: opaque stand-in (never inspected: the real closure is `|_| Error::UnexpectedValue`)
pub struct Utf8ErrorStandIn;

/// TRUSTED std stand-in (A9'): `std::str::from_utf8` -- "Converts a slice of bytes to a string slice. ... Returns Err if the
/// slice is not UTF-8": Ok exactly for the valid byte strings, and then the string those bytes spell
#[verifier::external_body] pub fn vx_from_utf8(buf: &[u8]) -> (r: Result<&Str, Utf8ErrorStandIn>)
    ensures
        r is Ok <==> valid_utf8(buf@),
        r is Ok ==> r->Ok_0.chars@ == from_utf8(buf@),
{
    unimplemented!()
}

/// what `Read::read_string` computes on ANY byte string: a length-prefixed buffer that must be valid UTF-8.
/// None = Err (truncated / over-long length prefix, or invalid UTF-8), Some((chars, k)) = the string from the first k bytes
pub open spec fn dec_str(s: Seq<u8>) -> Option<(Seq<char>, nat)> {
    match dec_buf(s) {
        None => None,
        Some((b, k)) => if valid_utf8(b) { Some((from_utf8(b), k)) } else { None },
    }
}

pub trait ReadStr: Read {
    // the REAL body of `Read::read_string` (extension-trait position like read_buf, see units/lib0_common/base.rs SLICING)
    /*@extract yrs/src/encoding/read.rs | trait Read: Sized | fn read_string | rules=SUB(from=&str;;to=&Str) SUB(from=std::str::from_utf8(buf);;to=vx_from_utf8(buf))
    @ret res
    @sig
        requires
            old(self).wf(),
        ensures
            final(self).wf(),
            suffix_of(old(self).rest(), final(self).rest()),
            match dec_buf(old(self).rest()) {
                Some((b, k)) => k <= old(self).rest().len() && final(self).rest() == old(self).rest().skip(k as int)
                    && (valid_utf8(b) ==> res is Ok && res->Ok_0.chars@ == from_utf8(b))
                    && (!valid_utf8(b) ==> res is Err && res->Err_0 is UnexpectedValue),
                None => res is Err,
            },
    @closure 1 `|_e: Utf8ErrorStandIn| -> (vx_e: Error)`
        ensures vx_e is UnexpectedValue,
    @*/
}

impl<R: Read> ReadStr for R {}

// ---------------------------------------------------------------------------------------------
// ClientID (stand-in, see the table at the top) and ID
// ---------------------------------------------------------------------------------------------
#[derive(PartialEq, Eq, Structural, Clone, Copy)]
pub struct ClientID(pub u64);

/// `value & ClientID::MASK == 0`, i.e. the value fits into 53 bits
pub open spec fn client_id_53bit(value: u64) -> bool {
    value < 0x20_0000_0000_0000
}

pub proof fn lemma_client_id_mask(value: u64)
    ensures
        client_id_53bit(value) <==> value & (u64::MAX << 53) == 0,
{
    assert(value < 0x20_0000_0000_0000 <==> value & (u64::MAX << 53) == 0) by(bit_vector);
}

impl ClientID {
    /*@extract yrs/src/block.rs | impl ClientID | const MASK @*/

    /// STAND-IN for `ClientID::new`; precondition = the `debug_assert!(value & Self::MASK == 0)` of the real body (R9)
    pub fn new(value: u64) -> (r: ClientID)
        requires
            client_id_53bit(value),
        ensures
            r.0 == value,
    {
        ClientID(value)
    }

    /// STAND-IN for `ClientID::get` (real body: `self.0.get() & !Self::MASK`, the inverse of `new` on 53-bit values)
    pub fn get(&self) -> (r: u64)
        ensures
            r == self.0,
    {
        self.0
    }

    // the range check on an UNTRUSTED client id (real body): Ok exactly for the 53-bit values, never a panic
    /*@extract yrs/src/block.rs | impl ClientID | fn decode | label=client_id_decode | rules=SUB(from=crate::encoding::read::Error;;to=Error)
    @ret r
    @sig
        ensures
            r is Ok <==> client_id_53bit(value),
            r is Ok ==> r->Ok_0.0 == value,
    @start
        proof { lemma_client_id_mask(value); }
    @*/
}

#[derive(Copy, Clone, PartialEq, Eq, Structural)]
/*@extract yrs/src/block.rs | - | struct ID @*/

impl ID {
    /*@extract yrs/src/block.rs | impl ID | fn new | label=ID.new
    @ret r
    @sig
        ensures r.client == client, r.clock == clock,
    @*/
}

// ---------------------------------------------------------------------------------------------
// Assoc: enum, wire format, `impl Encode / Decode for Assoc` under contract, round trip -- shared with unit tags.
// (The derive below decorates the FIRST item of the included file, `enum Assoc`: the resolution kernel compares
// `self.assoc == Assoc::After`; the real enum derives PartialEq / Eq / Copy / Clone too.)
// ---------------------------------------------------------------------------------------------
#[derive(Copy, Clone, PartialEq, Eq, Structural)]
/*@include units/tags/assoc.rs @*/

// ---------------------------------------------------------------------------------------------
// IndexScope / StickyIndex: the real declarations
// ---------------------------------------------------------------------------------------------
/*@extract yrs/src/sticky_index.rs | - | enum IndexScope @*/

// field visibility only (the contracts mention the field)
/*@extract yrs/src/sticky_index.rs | - | struct StickyIndex | rules=SUB(from=scope: IndexScope;;to=pub scope: IndexScope) @*/

// ---- the wire format ...
/// a var-int coded u8 tag (what `read_var::<u8>()` reads)
pub open spec fn dec_tag(s: Seq<u8>) -> Option<(u8, nat)> {
    <u8 as VarInt>::dec(s)
}

pub open spec fn enc_id(id: ID) -> Seq<u8> {
    enc_uint(id.client.0 as nat) + enc_uint(id.clock as nat)
}

/// the tag literals `0` / `1` / `2` of `IndexScope::encode` are i32 values, written as SIGNED var-ints (one byte, equal to the
/// unsigned var-int the decoder reads, because they are < 64)
pub open spec fn enc_scope(x: IndexScope) -> Seq<u8> {
    match x {
        IndexScope::Relative(id) => enc_i64(0i64) + enc_id(id),
        IndexScope::Nested(id) => enc_i64(2i64) + enc_id(id),
        IndexScope::Root(name) => enc_i64(1i64) + enc_buf(utf8(name.chars@)),
    }
}

pub open spec fn enc_sticky(x: StickyIndex) -> Seq<u8> {
    enc_scope(x.scope) + enc_assoc(x.assoc)
}

// ---- ... and what the decoders compute on ANY byte string: None = Err, Some((x, k)) = value x from the first k bytes
/// a client id (u64 var-int, REJECTED unless < 2^53) followed by a clock (u32 var-int)
pub open spec fn dec_id(s: Seq<u8>) -> Option<(ID, nat)> {
    match dec_u64(s) {
        None => None,
        Some((client, k)) => {
            if !client_id_53bit(client) {
                None
            } else {
                match dec_u32(s.skip(k as int)) {
                    None => None,
                    Some((clock, k2)) => Some((ID { client: ClientID(client), clock }, k + k2)),
                }
            }
        },
    }
}

pub open spec fn dec_scope(s: Seq<u8>) -> Option<(IndexScope, nat)> {
    match dec_tag(s) {
        None => None,
        Some((tag, k)) => {
            let s1 = s.skip(k as int);
            if tag == 0 {
                match dec_id(s1) {
                    None => None,
                    Some((id, k2)) => Some((IndexScope::Relative(id), k + k2)),
                }
            } else if tag == 1 {
                // `read_string`: a length-prefixed buffer that must be VALID UTF-8 (else Err(UnexpectedValue))
                match dec_str(s1) {
                    None => None,
                    Some((name, k2)) => Some((IndexScope::Root(str_of(name)), k + k2)),
                }
            } else if tag == 2 {
                match dec_id(s1) {
                    None => None,
                    Some((id, k2)) => Some((IndexScope::Nested(id), k + k2)),
                }
            } else {
                None
            }
        },
    }
}

/// the input class of the repaired defect (C10): a root-scoped sticky index whose name is a well-framed buffer that is NOT
/// valid UTF-8, e.g. [1, 1, 0x80, 0].  (Before /repo 6f5f4d8 `read_string` was `from_utf8_unchecked`: such a payload decoded
/// "successfully" and aborted when the value was used.)
pub open spec fn scope_name_invalid_utf8(s: Seq<u8>) -> bool {
    match dec_tag(s) {
        None => false,
        Some((tag, k)) => tag == 1 && match dec_buf(s.skip(k as int)) {
            None => false,
            Some((b, k2)) => !valid_utf8(b),
        },
    }
}

pub open spec fn dec_sticky(s: Seq<u8>) -> Option<(StickyIndex, nat)> {
    match dec_scope(s) {
        None => None,
        Some((scope, k)) => match dec_assoc(s.skip(k as int)) {
            None => None,
            Some((assoc, k2)) => Some((StickyIndex { scope, assoc }, k + k2)),
        },
    }
}

/// TOTAL (C10 shape): whatever the bytes, a successful scope decode consumed at least 2 and never more than |s| bytes
pub proof fn lemma_dec_scope_bounded(s: Seq<u8>)
    ensures
        match dec_scope(s) {
            Some((x, k)) => 2 <= k <= s.len(),
            None => true,
        },
{
    <u8 as VarInt>::law_dec_bounded(s);
    if dec_tag(s) is Some {
        let k = dec_tag(s)->Some_0.1;
        let s1 = s.skip(k as int);
        lemma_dec_u64_bounded(s1);
        lemma_dec_u32_bounded(s1);
        if dec_u64(s1) is Some {
            lemma_dec_u32_bounded(s1.skip(dec_u64(s1)->Some_0.1 as int));
        }
    }
}

/// bookkeeping for the ID arms: where the reader stands after the client id and after the clock
pub proof fn lemma_dec_id_frame(s0: Seq<u8>, k: nat)
    requires
        k <= s0.len(),
    ensures
        ({
            let s1 = s0.skip(k as int);
            &&& suffix_of(s0, s1)
            &&& dec_u64(s1) is Some ==> {
                let k2 = dec_u64(s1)->Some_0.1;
                let s2 = s1.skip(k2 as int);
                &&& k2 <= s1.len()
                &&& s2 == s0.skip((k + k2) as int)
                &&& suffix_of(s0, s2)
                &&& dec_u32(s2) is Some ==> {
                    let k3 = dec_u32(s2)->Some_0.1;
                    &&& k3 <= s2.len()
                    &&& s2.skip(k3 as int) == s0.skip((k + (k2 + k3)) as int)
                    &&& suffix_of(s0, s2.skip(k3 as int))
                }
            }
        }),
{
    let s1 = s0.skip(k as int);
    lemma_suffix_skip(s0, k);
    lemma_dec_u64_bounded(s1);
    if dec_u64(s1) is Some {
        let k2 = dec_u64(s1)->Some_0.1;
        let s2 = s1.skip(k2 as int);
        assert(s2 =~= s0.skip((k + k2) as int));
        lemma_suffix_skip(s0, k + k2);
        lemma_dec_u32_bounded(s2);
        if dec_u32(s2) is Some {
            let k3 = dec_u32(s2)->Some_0.1;
            assert(s2.skip(k3 as int) =~= s0.skip((k + (k2 + k3)) as int));
            lemma_suffix_skip(s0, k + (k2 + k3));
        }
    }
}

// ---------------------------------------------------------------------------------------------
// the real code
// ---------------------------------------------------------------------------------------------
impl IndexScope {
    // real: `impl Encode for IndexScope`
    /*@extract yrs/src/sticky_index.rs | impl Encode for IndexScope | fn encode | label=index_scope_encode
    @sig
        ensures final(encoder).out() == old(encoder).out() + enc_scope(*self),
    @end
        proof {
            let o = old(encoder).out();
            match self {
                IndexScope::Relative(id) => {
                    assert(o + enc_i64(0i64) + enc_uint(id.client.0 as nat) + enc_uint(id.clock as nat) =~= o + enc_scope(*self));
                },
                IndexScope::Nested(id) => {
                    assert(o + enc_i64(2i64) + enc_uint(id.client.0 as nat) + enc_uint(id.clock as nat) =~= o + enc_scope(*self));
                },
                IndexScope::Root(name) => {
                    assert(o + enc_i64(1i64) + enc_buf(utf8(name.chars@)) =~= o + enc_scope(*self));
                },
            }
        }
    @*/

    // real: `impl Decode for IndexScope`.  TOTAL on every byte string + equality with the spec decoder
    /*@extract yrs/src/sticky_index.rs | impl Decode for IndexScope | fn decode | label=index_scope_decode | rules=SUB(from=type_name.into();;to=type_name.to_arc())
    @ret res
    @sig
        requires
            old(decoder).wf(),
        ensures
            final(decoder).wf(),
            match dec_scope(old(decoder).rest()) {
                Some((x, k)) => res is Ok && res->Ok_0 == x && k <= old(decoder).rest().len() && final(decoder).rest() == old(decoder).rest().skip(k as int),
                None => res is Err,
            },
            // a root name that is not valid UTF-8 is a decoding ERROR of the documented kind (never a value)
            scope_name_invalid_utf8(old(decoder).rest()) ==> res is Err && res->Err_0 is UnexpectedValue,
            suffix_of(old(decoder).rest(), final(decoder).rest()),
    @start
        let ghost s0 = decoder.rest();
        proof { lemma_suffix_skip(s0, 0); }
    @before 1 `stmt:match`
        proof {
            let k = dec_tag(s0)->Some_0.1;
            let s1 = s0.skip(k as int);
            lemma_dec_id_frame(s0, k);
            lemma_suffix_trans(s0, s1);
            lemma_skip_skip_all(s0, k);
            if dec_u64(s1) is Some {
                lemma_suffix_trans(s0, s1.skip(dec_u64(s1)->Some_0.1 as int));
            }
        }
    @*/
}

impl StickyIndex {
    /*@extract yrs/src/sticky_index.rs | impl StickyIndex | fn new | label=StickyIndex.new
    @ret r
    @sig
        ensures r.scope == scope, r.assoc == assoc,
    @*/

    // real: `impl Encode for StickyIndex`
    /*@extract yrs/src/sticky_index.rs | impl Encode for StickyIndex | fn encode | label=sticky_encode
    @sig
        ensures final(encoder).out() == old(encoder).out() + enc_sticky(*self),
    @end
        proof {
            let o = old(encoder).out();
            assert(o + enc_scope(self.scope) + enc_assoc(self.assoc) =~= o + enc_sticky(*self));
        }
    @*/

    // real: `impl Decode for StickyIndex`.  TOTAL on every byte string + equality with the spec decoder
    /*@extract yrs/src/sticky_index.rs | impl Decode for StickyIndex | fn decode | label=sticky_decode
    @ret res
    @sig
        requires
            old(decoder).wf(),
        ensures
            final(decoder).wf(),
            match dec_sticky(old(decoder).rest()) {
                Some((x, k)) => res is Ok && res->Ok_0 == x && k <= old(decoder).rest().len() && final(decoder).rest() == old(decoder).rest().skip(k as int),
                None => res is Err,
            },
            scope_name_invalid_utf8(old(decoder).rest()) ==> res is Err && res->Err_0 is UnexpectedValue,
            suffix_of(old(decoder).rest(), final(decoder).rest()),
    @start
        let ghost s0 = decoder.rest();
    @after 1 `stmt:let context`
        proof {
            let k = dec_scope(s0)->Some_0.1;
            lemma_suffix_trans(s0, decoder.rest());
            lemma_skip_skip_all(s0, k);
        }
    @*/
}

// ---------------------------------------------------------------------------------------------
// C14 "a sticky index survives binary serialization"
// ---------------------------------------------------------------------------------------------
/// DOMAIN of the round trip: client ids are ClientIDs (< 2^53, what `ClientID::new` admits); a root name is shorter than 4 GiB
/// (`read_buf` reads the length as u32)
pub open spec fn scope_dom(x: IndexScope) -> bool {
    match x {
        IndexScope::Relative(id) => client_id_53bit(id.client.0),
        IndexScope::Nested(id) => client_id_53bit(id.client.0),
        IndexScope::Root(name) => utf8(name.chars@).len() <= u32::MAX,
    }
}

pub proof fn lemma_tag_round_trip(t: u8, tail: Seq<u8>)
    requires
        t < 64,
    ensures
        enc_i64(t as i64) == enc_uint(t as nat),
        dec_tag(enc_i64(t as i64) + tail) == Some((t, enc_i64(t as i64).len())),
        (enc_i64(t as i64) + tail).skip(enc_i64(t as i64).len() as int) == tail,
{
    assert(enc_i64(t as i64) =~= enc_uint(t as nat));
    <u8 as VarInt>::law_dec_enc(t, tail);
    assert((enc_uint(t as nat) + tail).skip(enc_uint(t as nat).len() as int) =~= tail);
}

pub proof fn lemma_id_round_trip(id: ID, tail: Seq<u8>)
    requires
        client_id_53bit(id.client.0),
    ensures
        dec_id(enc_id(id) + tail) == Some((id, enc_id(id).len())),
        (enc_id(id) + tail).skip(enc_id(id).len() as int) == tail,
{
    let e1 = enc_uint(id.client.0 as nat);
    let e2 = enc_uint(id.clock as nat);
    let x = enc_id(id) + tail;
    assert(x =~= e1 + (e2 + tail));
    lemma_dec_enc_u64(id.client.0, e2 + tail);
    assert(x.skip(e1.len() as int) =~= e2 + tail);
    lemma_dec_enc_u32(id.clock, tail);
    assert(x.skip(enc_id(id).len() as int) =~= tail);
}

/// every scope of the domain, every tail
pub proof fn theorem_scope_round_trip(x: IndexScope, tail: Seq<u8>)
    requires
        scope_dom(x),
    ensures
        dec_scope(enc_scope(x) + tail) == Some((x, enc_scope(x).len())),
        (enc_scope(x) + tail).skip(enc_scope(x).len() as int) == tail,
{
    let y = enc_scope(x) + tail;
    assert(y.skip(enc_scope(x).len() as int) =~= tail);
    match x {
        IndexScope::Relative(id) => {
            let e = enc_i64(0i64);
            assert(y =~= e + (enc_id(id) + tail));
            lemma_tag_round_trip(0u8, enc_id(id) + tail);
            lemma_id_round_trip(id, tail);
        },
        IndexScope::Nested(id) => {
            let e = enc_i64(2i64);
            assert(y =~= e + (enc_id(id) + tail));
            lemma_tag_round_trip(2u8, enc_id(id) + tail);
            lemma_id_round_trip(id, tail);
        },
        IndexScope::Root(name) => {
            let e = enc_i64(1i64);
            let b = utf8(name.chars@);
            assert(y =~= e + (enc_buf(b) + tail));
            lemma_tag_round_trip(1u8, enc_buf(b) + tail);
            lemma_dec_enc_buf(b, tail);
            law_utf8_round_trip(name.chars@);
            law_utf8_valid(name.chars@);
            assert(str_of(name.chars@) == name);
        },
    }
}

/// C14: decoding the bytes `StickyIndex::encode` appended, followed by ANY tail, returns the sticky index and stops in front
/// of the tail
pub proof fn theorem_sticky_round_trip(x: StickyIndex, tail: Seq<u8>)
    requires
        scope_dom(x.scope),
    ensures
        dec_sticky(enc_sticky(x) + tail) == Some((x, enc_sticky(x).len())),
        (enc_sticky(x) + tail).skip(enc_sticky(x).len() as int) == tail,
{
    let y = enc_sticky(x) + tail;
    assert(y =~= enc_scope(x.scope) + (enc_assoc(x.assoc) + tail));
    theorem_scope_round_trip(x.scope, enc_assoc(x.assoc) + tail);
    theorem_assoc_round_trip(x.assoc, tail);
    assert(y.skip(enc_sticky(x).len() as int) =~= tail);
}

// =============================================================================================
// PART A -- resolution kernel
// =============================================================================================
/*@extract yrs/src/block.rs | - | const ITEM_FLAG_DELETED @*/
/*@extract yrs/src/block.rs | - | const ITEM_FLAG_COUNTABLE @*/

#[derive(Copy, Clone, PartialEq, Eq, Structural)]
/*@extract yrs/src/block.rs | - | struct ItemFlags | rules=SUB(from=ItemFlags(u16);;to=ItemFlags(pub u16)) @*/

#[derive(Copy, Clone, PartialEq, Eq, Structural)]
/*@extract yrs/src/doc.rs | - | enum OffsetKind @*/

/// ABSTRACT item content (real: `enum ItemContent`): all the kernel uses is its length in a given offset kind
pub trait ContentModel: Sized {
    /// `ItemContent::len(kind)` as a mathematical function of the content (uninterpreted: this unit proves the kernel
    /// for EVERY content-length function)
    spec fn len_spec(&self, kind: OffsetKind) -> u32;

    /// the length, in `kind` units, of the first `k` CLOCK units of the content (clock units = block elements: array
    /// elements, UTF-16 code units of a string -- `Item::len` is `content.len(OffsetKind::Utf16)` for every document,
    /// whatever its offset kind).  Uninterpreted; only used by the index-unit form of the property (`sticky_position_spec`).
    spec fn prefix_spec(&self, k: nat, kind: OffsetKind) -> nat;

    /// real: `ItemContent::len` (bodiless here)
    fn len(&self, kind: OffsetKind) -> (r: u32)
        ensures r == self.len_spec(kind);

    /// LAW every content kind obeys (an obligation of an implementation, not an assumption of this unit's proofs about
    /// Bytes): measured in UTF-16 units, k clock units ARE k index units
    proof fn law_prefix_utf16(&self, k: nat)
        requires
            k <= self.len_spec(OffsetKind::Utf16),
        ensures
            self.prefix_spec(k, OffsetKind::Utf16) == k;
}

/// sliced + lowered, see the table at the top
pub struct Item<'a, C> {
    pub left: Option<ItemPtr<'a, C>>,
    pub content: C,
    pub info: ItemFlags,
}

pub type ItemPtr<'a, C> = &'a Item<'a, C>;

/// re-declared with the parameters of the lowered pointer (same fields)
pub struct ItemSlice<'a, C> {
    pub ptr: ItemPtr<'a, C>,
    pub start: u32,
    pub end: u32,
}

/// sliced, see the table at the top
pub struct Branch {
    pub content_len: u32,
}

pub type BranchPtr<'a> = &'a Branch;

// ---- ghost view -------------------------------------------------------------------------------
pub struct ItemView {
    pub deleted: bool,
    pub countable: bool,
    /// `content_len(encoding)`
    pub clen: nat,
}

/// an element that counts for indexes: not tombstoned and of a countable content kind
pub open spec fn visible(v: ItemView) -> bool {
    !v.deleted && v.countable
}

impl ItemFlags {
    pub open spec fn deleted_spec(&self) -> bool {
        self.0 & 0b0000_0100 == 0b0000_0100
    }

    pub open spec fn countable_spec(&self) -> bool {
        self.0 & 0b0000_0010 == 0b0000_0010
    }

    /*@extract yrs/src/block.rs | impl ItemFlags | fn check | label=ItemFlags.check
    @ret r
    @sig
        ensures r == (self.0 & value == value),
    @*/

    /*@extract yrs/src/block.rs | impl ItemFlags | fn is_deleted | label=ItemFlags.is_deleted
    @ret r
    @sig
        ensures r == self.deleted_spec(),
    @*/

    /*@extract yrs/src/block.rs | impl ItemFlags | fn is_countable | label=ItemFlags.is_countable
    @ret r
    @sig
        ensures r == self.countable_spec(),
    @*/
}

pub open spec fn view_of<C: ContentModel>(item: &Item<'_, C>, kind: OffsetKind) -> ItemView {
    ItemView { deleted: item.info.deleted_spec(), countable: item.info.countable_spec(), clen: item.content.len_spec(kind) as nat }
}

/// the chain reachable through `.left`, nearest first
pub open spec fn lefts<'a, C: ContentModel>(n: Option<&'a Item<'a, C>>, kind: OffsetKind) -> Seq<ItemView>
    decreases n,
{
    match n {
        None => Seq::empty(),
        Some(item) => seq![view_of(item, kind)] + lefts(item.left, kind),
    }
}

/// the number of index units an element contributes to its collection
pub open spec fn units(v: ItemView) -> nat {
    if visible(v) { v.clen } else { 0 }
}

/// number of visible units in a run of elements
pub open spec fn visible_len(s: Seq<ItemView>) -> nat
    decreases s.len(),
{
    if s.len() == 0 {
        0
    } else {
        units(s[0]) + visible_len(s.skip(1))
    }
}

/// the same number, computed along the links (what the loop computes)
pub open spec fn visible_before<'a, C: ContentModel>(n: Option<&'a Item<'a, C>>, kind: OffsetKind) -> nat
    decreases n,
{
    match n {
        None => 0,
        Some(item) => units(view_of(item, kind)) + visible_before(item.left, kind),
    }
}

pub proof fn lemma_visible_before<'a, C: ContentModel>(n: Option<&'a Item<'a, C>>, kind: OffsetKind)
    ensures
        visible_before(n, kind) == visible_len(lefts(n, kind)),
    decreases n,
{
    match n {
        None => {},
        Some(item) => {
            lemma_visible_before(item.left, kind);
            let s = lefts(n, kind);
            assert(s[0] == view_of(item, kind));
            assert(s.skip(1) =~= lefts(item.left, kind));
        },
    }
}

/// what the anchored unit itself contributes: for a visible anchor block, Assoc::After designates the gap directly BEFORE the
/// anchored unit (`start` units of the block precede it), Assoc::Before the gap directly AFTER it; an invisible (deleted /
/// non-countable) anchor contributes nothing: the index is the gap where it used to be
pub open spec fn anchor_part(anchor: ItemView, start: u32, assoc: Assoc) -> int {
    if visible(anchor) {
        if assoc == Assoc::After { start as int } else { start + 1 }
    } else {
        0
    }
}

/// THE PROPERTY (C14 kernel): the position a block-relative sticky index resolves to
pub open spec fn sticky_offset_spec<C: ContentModel>(right: ItemSlice<'_, C>, assoc: Assoc, kind: OffsetKind) -> int {
    visible_len(lefts(right.ptr.left, kind)) + anchor_part(view_of(right.ptr, kind), right.start, assoc)
}

/// THE PROPERTY in the collection's INDEX units (what `Offset::index` is documented to be: "human readable index", the unit
/// `Text::insert` / `Text::len` use, i.e. bytes in a document with `OffsetKind::Bytes`): the units of the anchor block that
/// precede the gap are measured in `kind`, like the units of the blocks to its left
pub open spec fn anchor_units<C: ContentModel>(right: ItemSlice<'_, C>, assoc: Assoc, kind: OffsetKind) -> int {
    if visible(view_of(right.ptr, kind)) {
        right.ptr.content.prefix_spec(if assoc == Assoc::After { right.start as nat } else { (right.start + 1) as nat }, kind) as int
    } else {
        0
    }
}

pub open spec fn sticky_position_spec<C: ContentModel>(right: ItemSlice<'_, C>, assoc: Assoc, kind: OffsetKind) -> int {
    visible_len(lefts(right.ptr.left, kind)) + anchor_units(right, assoc, kind)
}

/// FINDING S1, input class: documents whose offset kind is Bytes
pub open spec fn finding_s1_bytes_offset_kind(kind: OffsetKind) -> bool {
    kind == OffsetKind::Bytes
}

// ---- C14 "keeps designating the same gap next to the same element", at the level of the specification.
// `sticky_offset_spec` is a function of the anchor block and of what is LEFT of it only, so nothing that happens to the right
// of the anchor can move the resolved position.  What happens to the left moves it by exactly the visible units involved:

/// an element inserted anywhere into a run adds exactly its own units
pub proof fn lemma_visible_len_insert(s: Seq<ItemView>, i: int, v: ItemView)
    requires
        0 <= i <= s.len(),
    ensures
        visible_len(s.insert(i, v)) == visible_len(s) + units(v),
    decreases s.len(),
{
    let t = s.insert(i, v);
    if i == 0 {
        assert(t[0] == v);
        assert(t.skip(1) =~= s);
    } else {
        assert(t[0] == s[0]);
        assert(t.skip(1) =~= s.skip(1).insert(i - 1, v));
        lemma_visible_len_insert(s.skip(1), i - 1, v);
    }
}

/// an element that changes (e.g. is tombstoned) changes the count by exactly the difference of its units
pub proof fn lemma_visible_len_update(s: Seq<ItemView>, i: int, v: ItemView)
    requires
        0 <= i < s.len(),
    ensures
        visible_len(s.update(i, v)) + units(s[i]) == visible_len(s) + units(v),
    decreases s.len(),
{
    let t = s.update(i, v);
    if i == 0 {
        assert(t[0] == v);
        assert(t.skip(1) =~= s.skip(1));
    } else {
        assert(t[0] == s[0]);
        assert(t.skip(1) =~= s.skip(1).update(i - 1, v));
        lemma_visible_len_update(s.skip(1), i - 1, v);
    }
}

/// a deleted (or non-countable) anchor: the position is the number of visible units before it, whatever the association
/// and the offset inside the block -- the gap where the element used to be
pub proof fn lemma_invisible_anchor<C: ContentModel>(right: ItemSlice<'_, C>, assoc: Assoc, kind: OffsetKind)
    requires
        !visible(view_of(right.ptr, kind)),
    ensures
        sticky_offset_spec(right, assoc, kind) == visible_len(lefts(right.ptr.left, kind)),
{
}

/// a visible anchor: Before and After of the same unit are the two gaps around that one unit
pub proof fn lemma_before_after_adjacent<C: ContentModel>(right: ItemSlice<'_, C>, kind: OffsetKind)
    requires
        visible(view_of(right.ptr, kind)),
    ensures
        sticky_offset_spec(right, Assoc::Before, kind) == sticky_offset_spec(right, Assoc::After, kind) + 1,
        sticky_offset_spec(right, Assoc::After, kind) == visible_len(lefts(right.ptr.left, kind)) + right.start,
{
}

/// THE PROPERTY for a type-scoped sticky index (empty collection at creation): After = the END, Before = the START
pub open spec fn sticky_type_offset_spec(content_len: u32, assoc: Assoc) -> int {
    if assoc == Assoc::After { content_len as int } else { 0 }
}

impl<'a, C: ContentModel> Item<'a, C> {
    /*@extract yrs/src/block.rs | impl Item | fn is_deleted | label=Item.is_deleted
    @ret r
    @sig
        ensures r == self.info.deleted_spec(),
    @*/

    /*@extract yrs/src/block.rs | impl Item | fn is_countable | label=Item.is_countable
    @ret r
    @sig
        ensures r == self.info.countable_spec(),
    @*/

    /*@extract yrs/src/block.rs | impl Item | fn content_len | label=Item.content_len
    @ret r
    @sig
        ensures r == self.content.len_spec(kind),
    @*/
}

impl<'a, C: ContentModel> ItemSlice<'a, C> {
    /*@extract yrs/src/slice.rs | impl ItemSlice | fn is_deleted | label=ItemSlice.is_deleted
    @ret r
    @sig
        ensures r == self.ptr.info.deleted_spec(),
    @*/

    /*@extract yrs/src/slice.rs | impl ItemSlice | fn is_countable | label=ItemSlice.is_countable
    @ret r
    @sig
        ensures r == self.ptr.info.countable_spec(),
    @*/
}

// the `IndexScope::Relative` arm of `StickyIndex::get_offset`, after the store lookups
/*@extract yrs/src/sticky_index.rs | impl StickyIndex | region get_offset | stmt=stmt:assign index | stmtnth=1 | upto=stmt:while | tail=index | label=sticky_index_of | rules=SUB(from=self.assoc;;to=assoc) SUB(from=n.as_deref();;to=n)
@header
    fn sticky_index_of<'a, C: ContentModel>(right: &ItemSlice<'a, C>, assoc: Assoc, encoding: OffsetKind, mut index: u32) -> (r: u32)
@drop `let encoding = store.offset_kind;`
@sig
    requires
        // no overflow: the resolved position fits u32.  It is at most the collection's `content_len: u32` (the branch's length
        // invariant: content_len == number of visible units) whenever `right.start` lies inside the anchor block.
        sticky_offset_spec(*right, assoc, encoding) <= u32::MAX,
    ensures
        r == sticky_offset_spec(*right, assoc, encoding),
@start
    proof { lemma_visible_before(right.ptr.left, encoding); }
@after 1 `stmt:assign index`
    let ghost idx0 = index;
@loop 1
    invariant
        index + visible_before(n, encoding) == idx0 + visible_before(right.ptr.left, encoding),
        idx0 + visible_before(right.ptr.left, encoding) <= u32::MAX,
    ensures
        // (checked where the `while let` pattern stops matching: nothing is left of `n`)
        index == idx0 + visible_before(right.ptr.left, encoding),
    decreases n,
@*/

// FINDING S1 (obligation sticky::sticky_index_of_units::post, clause `finding_s1_bytes_offset_kind(encoding) ==> ..`).
// The same statements once more, against the property in INDEX units.  `right.start` is a CLOCK offset (UTF-16 code units
// for a string block) but it is added to `content_len(encoding)` sums, which are in index units: in a document with
// `OffsetKind::Bytes` the two differ as soon as the anchor block holds a non-ASCII character before the anchored unit.
// Concrete: Doc { offset_kind: Bytes, client_id: 1 }, text.insert(0, "\u{e9}") (one block 1#0, 1 clock unit, 2 bytes, text.len() == 2):
//   StickyIndex::from_id(ID::new(ClientID::new(1), 0), Assoc::Before).get_offset(..).index == 1   (inside the character; the gap
//   directly after the element is index 2);  with "\u{e9}\u{e9}\u{e9}": anchor 1#2, Assoc::After resolves to 2, the gap before it is 4.
// For Utf16 documents (the default) the clause holds: `law_prefix_utf16`.
/*@extract yrs/src/sticky_index.rs | impl StickyIndex | region get_offset | stmt=stmt:assign index | stmtnth=1 | upto=stmt:while | tail=index | label=sticky_index_of_units | rules=SUB(from=self.assoc;;to=assoc) SUB(from=n.as_deref();;to=n)
@header
    fn sticky_index_of_units<'a, C: ContentModel>(right: &ItemSlice<'a, C>, assoc: Assoc, encoding: OffsetKind, mut index: u32) -> (r: u32)
@drop `let encoding = store.offset_kind;`
@sig
    requires
        sticky_offset_spec(*right, assoc, encoding) <= u32::MAX,
        // the anchored unit lies inside its block (ItemSlice: start <= end < ptr.len;  Item: len == content.len(Utf16))
        right.start < right.ptr.content.len_spec(OffsetKind::Utf16),
    ensures
        !finding_s1_bytes_offset_kind(encoding) ==> r == sticky_position_spec(*right, assoc, encoding),
        // FINDING S1: a clock offset is used as an index offset
        finding_s1_bytes_offset_kind(encoding) ==> r == sticky_position_spec(*right, assoc, encoding),
@start
    proof {
        lemma_visible_before(right.ptr.left, encoding);
        if encoding == OffsetKind::Utf16 {
            right.ptr.content.law_prefix_utf16(right.start as nat);
            right.ptr.content.law_prefix_utf16((right.start + 1) as nat);
        }
    }
@after 1 `stmt:assign index`
    let ghost idx0 = index;
@loop 1
    invariant
        index + visible_before(n, encoding) == idx0 + visible_before(right.ptr.left, encoding),
        idx0 + visible_before(right.ptr.left, encoding) <= u32::MAX,
    ensures
        index == idx0 + visible_before(right.ptr.left, encoding),
    decreases n,
@*/

// The two STEPS of the computation above once more, each lifted on its own.  Same source text; the point is the verdict
// level: an edit of the first statement / of the loop body then fails a CONTRACT clause of a real-code function (post)
// and not only the loop invariant spliced into `sticky_index_of` (a proof hint).
//   step 1: what the anchor itself contributes
/*@extract yrs/src/sticky_index.rs | impl StickyIndex | region get_offset | stmt=stmt:assign index | stmtnth=1 | until=stmt:let encoding | tail=index | label=sticky_anchor_part | rules=SUB(from=self.assoc;;to=assoc)
@header
    fn sticky_anchor_part<'a, C: ContentModel>(right: &ItemSlice<'a, C>, assoc: Assoc, encoding: OffsetKind, mut index: u32) -> (r: u32)
@sig
    requires
        anchor_part(view_of(right.ptr, encoding), right.start, assoc) <= u32::MAX,
    ensures
        r == anchor_part(view_of(right.ptr, encoding), right.start, assoc),
@*/

//   step 2: what one element to the left contributes (the body of the `while let` loop without the link step)
/*@extract yrs/src/sticky_index.rs | impl StickyIndex | region get_offset | stmt=stmt:while >> stmt:if | stmtnth=1 | tail=index | label=sticky_left_step
@header
    fn sticky_left_step<'a, C: ContentModel>(item: &Item<'a, C>, encoding: OffsetKind, mut index: u32) -> (r: u32)
@sig
    requires
        index + units(view_of(item, encoding)) <= u32::MAX,
    ensures
        r == index + units(view_of(item, encoding)),
@*/

// the `IndexScope::Nested` arm (type-scoped sticky index)
/*@extract yrs/src/sticky_index.rs | impl StickyIndex | region get_offset | stmt=after:stmt:assign branch ~ Some(ptr) | stmtnth=1 | toend=1 | init=stmt:let index | tail=index | label=sticky_index_of_nested | rules=SUB(from=self.assoc;;to=assoc)
@header
    fn sticky_index_of_nested(ptr: BranchPtr<'_>, assoc: Assoc) -> (r: u32)
@sig
    ensures
        r == sticky_type_offset_spec(ptr.content_len, assoc),
@*/

// the `IndexScope::Root` arm (type-scoped sticky index)
/*@extract yrs/src/sticky_index.rs | impl StickyIndex | region get_offset | stmt=after:stmt:assign branch ~ get_type | stmtnth=1 | toend=1 | init=stmt:let index | tail=index | label=sticky_index_of_root | rules=SUB(from=self.assoc;;to=assoc) SUB(from=branch.as_ref();;to=branch)
@header
    fn sticky_index_of_root(branch: Option<&BranchPtr<'_>>, assoc: Assoc) -> (r: u32)
@sig
    ensures
        // a root type that exists: END / START of the collection; an unknown root leaves the index at its initial 0
        r == (match branch { Some(ptr) => sticky_type_offset_spec(ptr.content_len, assoc), None => 0 }),
@*/

} // verus!
fn main() {}
