// units/dec_comp/aw.rs — AwarenessUpdate decoder of yrs/src/sync/awareness.rs

// ---------------------------------------------------------------------------------------------
// strings: the REAL default method `Read::read_string` over ONE trusted std stand-in (`std::str::from_utf8`)
// ---------------------------------------------------------------------------------------------
/// the UTF-8 bytes of a string / whether a byte buffer is well-formed UTF-8 / the string a well-formed buffer denotes
pub uninterp spec fn utf8(s: Seq<char>) -> Seq<u8>;
pub uninterp spec fn valid_utf8(b: Seq<u8>) -> bool;
pub uninterp spec fn from_utf8(b: Seq<u8>) -> Seq<char>;

pub mod vx_std_str {
    use vstd::prelude::*;
    use super::{valid_utf8, from_utf8};

    /// opaque stand-in for `core::str::Utf8Error` (only ever discarded by `map_err(|_| ..)`)
    #[verifier::external_body]
    pub struct Utf8ErrorStandIn {
        inner: core::str::Utf8Error,
    }

    /// A9 (TRUSTED std stand-in): `std::str::from_utf8(buf)` -- "Converts a slice of bytes to a string slice. [...] not all byte
    /// slices are valid string slices [...] Returns Err if the slice is not UTF-8": Ok(s), s the string the bytes denote, IFF the
    /// buffer is well-formed UTF-8.  `valid_utf8` / `from_utf8` are uninterpreted (no axioms about them).
    #[verifier::external_body]
    pub fn vx_from_utf8(buf: &[u8]) -> (r: Result<&str, Utf8ErrorStandIn>)
        ensures
            match r {
                Ok(s) => valid_utf8(buf@) && s@ == from_utf8(buf@),
                Err(_) => !valid_utf8(buf@),
            },
    {
        match std::str::from_utf8(buf) {
            Ok(s) => Ok(s),
            Err(e) => Err(Utf8ErrorStandIn { inner: e }),
        }
    }

    /// A9b (TRUSTED std stand-in, NOT used by the current code: it only gives the regression canary `read_string_unchecked`
    /// something to fail): `unsafe { std::str::from_utf8_unchecked(buf) }` -- "Safety: The bytes passed in must be valid
    /// UTF-8": the documented safety condition is the precondition.
    #[verifier::external_body]
    pub fn vx_from_utf8_unchecked(buf: &[u8]) -> (r: &str)
        requires
            valid_utf8(buf@),
        ensures
            r@ == from_utf8(buf@),
    {
        unsafe { std::str::from_utf8_unchecked(buf) }
    }
}
use vx_std_str::*;

pub trait ReadStr: Read {
    // the REAL body of the default method `Read::read_string` (repaired in /repo, finding F-DC-10: it used
    // `from_utf8_unchecked` on untrusted bytes): `read_buf`, then the CHECKED conversion.  Decoding succeeds only for
    // well-formed UTF-8; an ill-formed buffer is consumed and reported as an error.
    // DecoderV2 OVERRIDES read_string (separate string column; its StringDecoder::new validates the column the same way): not modelled.
    /*@extract yrs/src/encoding/read.rs | trait Read: Sized | fn read_string | label=read_string
    @ret res
    @sig
        requires
            old(self).wf(),
        ensures
            final(self).wf(),
            match dec_buf(old(self).rest()) {
                Some((b, k)) => k <= old(self).rest().len() && final(self).rest() == old(self).rest().skip(k as int)
                    && (if valid_utf8(b) { res is Ok && res->Ok_0@ == from_utf8(b) } else { res is Err }),
                None => res is Err && suffix_of(old(self).rest(), final(self).rest()),
            },
    @*/
}

impl<R: Read> ReadStr for R {}

/// R13: `Arc<str>` is an opaque value that has the characters of a string
#[verifier::external_body]
#[verifier::accept_recursive_types]
pub struct Str {
    inner: std::sync::Arc<str>,
}

impl View for Str {
    type V = Seq<char>;

    uninterp spec fn view(&self) -> Seq<char>;
}

/// std `impl From<&str> for Arc<str>` ("Allocate a reference-counted `str` and copy `v` into it"): an allocation of the
/// size of the string, which was read from the input
#[verifier::external_body]
pub fn vx_arc_str(s: &str) -> (r: Str)
    ensures
        r@ == s@,
{
    Str { inner: std::sync::Arc::from(s) }
}

/// a length-prefixed buffer consumes its length prefix (>= 1 byte) and its payload
pub proof fn lemma_dec_buf_bounded(s: Seq<u8>)
    ensures
        match dec_buf(s) {
            Some((b, k)) => 1 <= k <= s.len() && b.len() < k,
            None => true,
        },
{
    lemma_dec_u32_bounded(s);
}

// ---------------------------------------------------------------------------------------------
// AwarenessUpdate
// ---------------------------------------------------------------------------------------------
/*@extract yrs/src/sync/awareness.rs | - | struct AwarenessUpdateEntry | rules=SUB(from=Arc<str>;;to=Str) @*/

/*@extract yrs/src/sync/awareness.rs | - | struct AwarenessUpdate @*/

/// the mathematical content of an entry: (clock, JSON text)
pub type AuEnt = (u32, Seq<char>);

impl View for AwarenessUpdate {
    type V = Map<ClientID, AuEnt>;

    open spec fn view(&self) -> Map<ClientID, AuEnt> {
        au_view(self.clients@)
    }
}

pub open spec fn au_ent(e: AwarenessUpdateEntry) -> AuEnt {
    (e.clock, e.json@)
}

pub open spec fn au_view(m: Map<ClientID, AwarenessUpdateEntry>) -> Map<ClientID, AuEnt> {
    m.map_values(|e: AwarenessUpdateEntry| au_ent(e))
}

/// one entry: client as u64 var-int (must fit into 53 bits), clock as u32 var-int, JSON as length-prefixed string that must
/// be well-formed UTF-8 (F-DC-10, repaired)
pub open spec fn dec_au_item(s: Seq<u8>) -> Option<((ClientID, AuEnt), nat)> {
    match dec_u64(s) {
        None => None,
        Some((client, k)) => if !client_id_53bit(client) { None } else { match dec_u32(s.skip(k as int)) {
            None => None,
            Some((clock, k2)) => match dec_buf(s.skip((k + k2) as int)) {
                None => None,
                Some((b, k3)) => if valid_utf8(b) { Some(((ClientID(client), (clock, from_utf8(b))), k + k2 + k3)) } else { None },
            },
        } },
    }
}

pub open spec fn au_item() -> spec_fn(Seq<u8>) -> Option<((ClientID, AuEnt), nat)> {
    |s: Seq<u8>| dec_au_item(s)
}

/// `AwarenessUpdate::decode`: a usize count (u64 var-int, truncated to usize), then that many entries
pub open spec fn dec_au(s: Seq<u8>) -> Option<(Map<ClientID, AuEnt>, nat)> {
    match <usize as VarInt>::dec(s) {
        None => None,
        Some((n, k)) => match dec_list(au_item(), s.skip(k as int), n as nat) {
            None => None,
            Some((items, k2)) => Some((map_of(items), k + k2)),
        },
    }
}

pub proof fn lemma_au_item_bounded()
    ensures
        item_bounded(au_item(), 3),
{
    assert forall|s: Seq<u8>| (#[trigger] au_item()(s)) is Some implies 3 <= au_item()(s)->Some_0.1 <= s.len() by {
        lemma_dec_u64_bounded(s);
        let k = dec_u64(s)->Some_0.1;
        lemma_dec_u32_bounded(s.skip(k as int));
        let k2 = dec_u32(s.skip(k as int))->Some_0.1;
        lemma_dec_buf_bounded(s.skip((k + k2) as int));
    }
}

/// the three reads of one entry, case by case (what the loop body needs before each `?`)
pub proof fn lemma_au_item_cases(sa: Seq<u8>)
    ensures
        match dec_u64(sa) {
            None => dec_au_item(sa) is None,
            Some((client, k1)) => {
                let sb = sa.skip(k1 as int);
                1 <= k1 <= sa.len() && suffix_of(sa, sb) && if !client_id_53bit(client) { dec_au_item(sa) is None } else { match dec_u32(sb) {
                    None => dec_au_item(sa) is None,
                    Some((clock, k2)) => {
                        let sc = sb.skip(k2 as int);
                        1 <= k2 <= sb.len() && suffix_of(sa, sc) && sc == sa.skip((k1 + k2) as int) && match dec_buf(sc) {
                            None => dec_au_item(sa) is None,
                            Some((b, k3)) => 1 <= k3 <= sc.len() && suffix_of(sa, sc.skip(k3 as int)) && sc.skip(k3 as int) == sa.skip((k1 + k2 + k3) as int)
                                && if valid_utf8(b) { dec_au_item(sa) == Some(((ClientID(client), (clock, from_utf8(b))), k1 + k2 + k3)) } else { dec_au_item(sa) is None },
                        }
                    },
                } }
            },
        },
{
    lemma_dec_u64_bounded(sa);
    if dec_u64(sa) is Some {
        let k1 = dec_u64(sa)->Some_0.1;
        let sb = sa.skip(k1 as int);
        lemma_two_skips(sa, k1, 0);
        lemma_dec_u32_bounded(sb);
        if dec_u32(sb) is Some {
            let k2 = dec_u32(sb)->Some_0.1;
            let sc = sb.skip(k2 as int);
            lemma_two_skips(sa, k1, k2);
            lemma_dec_buf_bounded(sc);
            if dec_buf(sc) is Some {
                let k3 = dec_buf(sc)->Some_0.1;
                lemma_two_skips(sa, k1 + k2, k3);
            }
        }
    }
}

pub proof fn lemma_au_view_insert(m: Map<ClientID, AwarenessUpdateEntry>, c: ClientID, e: AwarenessUpdateEntry)
    ensures
        au_view(m.insert(c, e)) == au_view(m).insert(c, au_ent(e)),
{
    assert(au_view(m.insert(c, e)) =~= au_view(m).insert(c, au_ent(e)));
}

pub proof fn lemma_au_view_empty()
    ensures
        au_view(Map::<ClientID, AwarenessUpdateEntry>::empty()) == Map::<ClientID, AuEnt>::empty(),
{
    assert(au_view(Map::<ClientID, AwarenessUpdateEntry>::empty()) =~= Map::<ClientID, AuEnt>::empty());
}

impl Decode for AwarenessUpdate {
    // (a) TOTAL + PROGRESS: every iteration consumes >= 3 bytes (invariant `decoder.rest().len() + 3 * n <= s1.len()`)
    //     the client id goes through `ClientID::decode` (F-DC-6, repaired): a value >= 2^53 is an error
    // (b) ALLOCATION BUDGET: `HashMap::with_capacity(..)` goes through vx_budget (F-DC-5, repaired: capped at 1024)
    // (c) RESULT SHAPE: at most (consumed bytes) / 3 clients
    // (d) for every decoder that does not override read_string: equality with `dec_au`
    /*@extract yrs/src/sync/awareness.rs | impl Decode for AwarenessUpdate | fn decode | label=au_decode | rules=SUB(from=crate::encoding::read::Error;;to=Error) SUB(from=HashMap::with_capacity;;to=vx_budget(decoder).map_with_capacity::<ClientID, AwarenessUpdateEntry>) SUB(from=Arc<str>;;to=Str) SUB(from=decoder.read_string()?.into();;to=vx_arc_str(decoder.read_string()?))
    @ret res
    @sig
        ensures
            res is Ok ==> 3 * res->Ok_0@.len() < old(decoder).rest().len() - final(decoder).rest().len(),
            match dec_au(old(decoder).rest()) {
                Some((m, k)) => res is Ok && res->Ok_0@ == m && k <= old(decoder).rest().len() && final(decoder).rest() == old(decoder).rest().skip(k as int),
                None => res is Err,
            },
    @start
        let ghost s0 = decoder.rest();
        let ghost mut kk: nat = 0;
        let ghost mut items = Seq::<(ClientID, AuEnt)>::empty();
        proof { lemma_dec_u64_bounded(s0); }
    @after 1 `stmt:let len`
        let ghost s1 = decoder.rest();
        proof {
            lemma_suffix_skip(s0, dec_u64(s0)->Some_0.1);
            lemma_suffix_refl(s1);
            lemma_dec_list_start(au_item(), s1, len as nat);
            lemma_au_view_empty();
        }
    @loop 1 iter=it
        invariant
            s0 == old(decoder).rest(),
            decoder.wf(),
            suffix_of(s0, s1),
            suffix_of(s1, decoder.rest()),
            s1.len() < s0.len(),
            it.snapshot@.remaining().len() == len,
            0 <= it.index@ <= len,
            items.len() == it.index@,
            au_view(clients@) == map_of(items),
            decoder.rest().len() + 3 * it.index@ <= s1.len(),
            <usize as VarInt>::dec(s0) is Some && <usize as VarInt>::dec(s0)->Some_0.0 == len && s1 == s0.skip(<usize as VarInt>::dec(s0)->Some_0.1 as int),
            kk <= s1.len() && decoder.rest() == s1.skip(kk as int)
                && dec_list(au_item(), s1, len as nat) == list_join(items, kk, dec_list(au_item(), decoder.rest(), (len - it.index@) as nat)),
    @before 1 `stmt:let client_id`
        let ghost sa = decoder.rest();
        proof {
            lemma_suffix_step(s0, s1, sa);
            lemma_suffix_trans(s0, sa);
            lemma_suffix_trans(s1, sa);
            lemma_au_item_cases(sa);
            if dec_u64(sa) is Some {
                let sb = sa.skip(dec_u64(sa)->Some_0.1 as int);
                lemma_suffix_trans(sa, sb);
                if client_id_53bit(dec_u64(sa)->Some_0.0) && dec_u32(sb) is Some {
                    lemma_suffix_trans(sa, sb.skip(dec_u32(sb)->Some_0.1 as int));
                }
            }
            lemma_au_item_bounded();
            lemma_dec_list_step(au_item(), 3, s1, len as nat, items, kk, (len - items.len()) as nat);
            assert(dec_au_item(sa) == au_item()(sa));
        }
    @before 1 `stmt:call insert`
        let ghost m0 = clients@;
    @after 1 `stmt:call insert`
        proof {
            let ent = AwarenessUpdateEntry { clock, json };
            lemma_au_view_insert(m0, client_id, ent);
            lemma_map_of_push(items, client_id, (clock, json@));
            items = items.push((client_id, (clock, json@)));
            kk = kk + dec_au_item(sa)->Some_0.1;
        }
    @before 1 `stmt:call Ok`
        proof {
            lemma_suffix_step(s0, s1, decoder.rest());
            lemma_map_of_len(items);
            lemma_counted_finish(au_item(), s0, <usize as VarInt>::dec(s0)->Some_0.1, len as nat, s1, items, kk);
        }
    @*/
}
