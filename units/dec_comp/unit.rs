// unit `dec_comp` -- the COMPOSITE decoders of yrs: loops whose trip count comes from the input and collections that are
// pre-allocated from untrusted counts.  Serves C10 ("arbitrary bytes => value or error, time and memory proportional to the
// input, no panic / abort / stack overflow / unbounded loop; a decoded value can be encoded again") and C09 (round trip of
// the delete-set layer).  Builds on the proved primitive layer (units lib0, lib0_v2, tags; shared text units/lib0_common/*)
// and on the proved interval algebra (units ids_insert, ids_merge, ids_lift: cross-checked stubs).
//
//   units/dec_comp/env.rs   ClientID (stand-in) + the REAL ClientID::decode, allocation budget, sliced traits Decoder / Decode,
//                           DecoderV1 (real), DecoderV2 (sliced), Decode::decode_v1 (the public entry point), counted lists
//   units/dec_comp/canon.rs pure lemmas: canonical unit lists (size after one insert, uniqueness), permutations
//   units/dec_comp/ids.rs   yrs/src/id_set.rs   Range<u32>::decode, IdRanges<()>::decode, IdSet::decode (+ stubs of the callees)
//   units/dec_comp/sv.rs    yrs/src/state_vector.rs   StateVector::decode, Snapshot::decode
//   units/dec_comp/aw.rs    yrs/src/sync/awareness.rs  AwarenessUpdate::decode, the REAL Read::read_string
//   units/dec_comp/any.rs   yrs/src/any.rs      Any::decode / Any::decode_nested (recursive), Read::read_f32 / read_f64 / read_i64
//   units/dec_comp/idmap.rs yrs/src/id_map.rs   IdMap<A>::decode (model and contract: see the head of that file)
//   units/dec_comp/enc.rs   Range<u32> / IdRanges<()> / IdSet ::encode, EncoderV1, the round-trip theorems, "decoded values are
//                           canonical" theorems, the v2 delete-set register lemma
//
// CONTRACTS (per function; every body is the text of /repo, re-extracted on every run)
//   (a) TOTAL     trait `Decode`: for every wf reader `decode` returns Ok / Err -- no overflow, no out-of-bounds, no failing
//                 debug_assert!, termination (every loop has a `decreases`; for-loops over ranges / vectors terminate by
//                 construction); it never rewinds and never reads beyond the input (`suffix_of`); PROGRESS: Ok ==> at least one
//                 byte was consumed, and every loop iteration consumes >= c bytes (invariant `rest().len() + c * i <= s1.len()`;
//                 c = 2 ranges / id-set items / state-vector pairs / map entries of Any / IdMap clients, 3 awareness entries /
//                 IdMap ranges, 1 array elements of Any / IdMap attribute references), so the number of iterations is at most
//                 |input| / c.  `Decode::decode_v1(data: &[u8])` (the public entry point) has NO precondition.
//   (b) BUDGET    every capacity request goes through `vx_budget(decoder).<ctor>(n)` (SUB rules), whose precondition is
//                 `alloc_budget_ok`: n <= unread input bytes + 1024.
//   (c) SHAPE     Range: start <= end.  IdRanges<()>: CANONICAL (`canon` of units/ids_common/spec.rs: sorted, disjoint, no empty
//                 range, adjacent ranges coalesced), |value| * 2 < bytes consumed and |value| <= number of ranges on the wire.
//                 IdSet / Snapshot.delete_set / IdMap: the REPRESENTATION INVARIANT `wf_map` of unit ids_lift (every stored client
//                 entry canonical and non-empty), clients * 2 < bytes consumed.  StateVector / AwarenessUpdate: |value| * c < bytes
//                 consumed.  `res is Ok ==> res.enc_ok()`: a decoded value satisfies the precondition of its (v1 / abstract)
//                 encoder; `lemma_canon_ds_ok`: a canonical list is also inside the PROVED domain of the v2 delete-set writes
//                 (EncoderV2::write_ds_clock: clock >= ds_curr_val; write_ds_len: len != 0, no overflow -- unit lib0_v2).
//   (d) EXACT     on ANY byte string, v1 decoders (`D::v1()`): None = Err, Some((v, k)) = v from the first k bytes.
//                 dec_range: equality.  dec_ranges = the RAW ranges on the wire; the value is THE canonical list that covers exactly
//                 their clocks (`canon_of`: canon(r) && forall c. covers(r, c) <==> exists i. inr(raw[i], c); unique by
//                 lemma_canon_unique_unit).  dec_idset = the (client, raw ranges) SECTIONS; the value is THE well-formed set whose
//                 points are the union of the sections (`idset_of`; unique by lemma_wf_map_unique; repeated clients merged,
//                 sections without points dropped).  dec_snapshot likewise.  dec_sv / dec_au: equality, for every decoder (they
//                 use `Read` methods only); dec_au succeeds only if every JSON string is well-formed UTF-8 (`valid_utf8`).
//                 ROUND TRIP (v1): theorem_range_round_trip, theorem_ranges_round_trip / theorem_idset_wire_round_trip (the wire
//                 list / sections are read back exactly, canonical or not, whatever order the map iterator enumerates the clients
//                 in), theorem_ranges_value_round_trip / theorem_idset_round_trip (for CANONICAL / well-formed x every value the
//                 decoder contract admits for encode(x) ++ tail is x).
//   Any::decode_nested: (a) for EVERY depth, (b), BOUNDED RECURSION `decreases MAX_DECODE_DEPTH + 1 - depth`.
//
// DECODER MODEL  trait `Decoder: Read` is SLICED to reset_ds_cur_val / read_ds_clock / read_ds_len / read_any with an ABSTRACT
//   contract (suffix + progress) that the real bodies of BOTH DecoderV1 and (sliced) DecoderV2 are verified against; a decoder with
//   `v1()` (DecoderV1) additionally has the exact v1 semantics (read_ds_* = u32 var-int, reset = no-op).  (a)-(c) therefore
//   hold for v1 and v2 input, (d) for v1.  `read_string` is the REAL default `Read::read_string` (DecoderV2 overrides it with a
//   separate string column whose constructor validates UTF-8 the same way: not modelled).
//
// FINDINGS (F-DC-1 .. 15: reported, REPAIRED in /repo meanwhile; each is now an ordinary discharged obligation and has a canary)
//   F-DC-1 idranges_decode::pre [alloc_budget_ok]  `SmallVec::with_capacity(len as usize)`, len = untrusted u32.
//          `01 00 FF FF FF FF 0F` (IdSet::decode_v1): 32 GiB request -> "memory allocation of 34359738360 bytes failed", SIGABRT.
//   F-DC-3 sv_decode::pre [alloc_budget_ok]  `HashMap::with_capacity_and_hasher(len, ..)`.  `FF FF FF FF 0F`: 146 GB request, SIGABRT.
//   F-DC-5 au_decode::pre [alloc_budget_ok]  `HashMap::with_capacity(len)`, len: usize.  `FF FF FF FF FF FF FF FF FF 01`:
//          panic "Hash table capacity overflow";  `80 80 80 80 80 20`: SIGABRT.
//   F-DC-7 any_decode::pre [alloc_budget_ok] (2 sites)  `75 FF FF FF FF FF FF FF FF FF 01`: panic "capacity overflow";
//          `76 ..`: "Hash table capacity overflow";  `75 80 80 80 80 80 20`: 26 TB request, SIGABRT.
//   F-DC-2/4/6 idset_decode / sv_decode / au_decode ::pre [client_id_53bit]  `ClientID::new(untrusted u64)`:
//          `01 80 80 80 80 80 80 80 10 00` etc. (client 2^53): debug build panics (debug_assert!), release build silently aliases
//          the id to ClientID(0).  Repair: `ClientID::decode(x)?` (real body under contract here).
//   F-DC-8 Any::decode recursed without depth limit (not expressible as an obligation before the repair; the old measure
//          `decreases rest().len()` only gave depth <= |input|): 30000 x `75 01` + `7E` (60 001 bytes) overflows an 8 MB stack,
//          SIGABRT.  Repair: decode_nested(decoder, depth) with MAX_DECODE_DEPTH = 512, now the termination measure.
//   F-DC-9 (was: observation_decode_not_canonical / observation_decode_empty_entry) IdRanges::decode kept the wire ranges as
//          received, IdSet::decode overwrote repeated clients and stored empty entries: `01 01 01 00 00` / `01 01 02 05 01 00 01`
//          decoded fine and panicked in encode_v2.  Repair: sort + `insert` one by one, `insert_range`.  Now: canon / wf_map
//          postconditions, theorem_decoded_ranges_canonical, theorem_decode_canonicalises_examples, theorem_decode_no_empty_entry.
//   F-DC-10 Read::read_string built a &str from untrusted bytes with from_utf8_unchecked (the former TRUSTED stand-in claimed
//          `res is Ok` for every buffer).  Repair: `std::str::from_utf8(..).map_err(..)`; the real body is verified now.
//   F-DC-11/12/13 IdMap::decode: dangling attribute / attribute-name ids indexed out of bounds, `last_client_id + diff` and
//          `range_clock + range_len` could overflow, ranges were stored as received.  Repaired; idmap_decode.
//   NOTE on masking: Verus reports a limited number of errors per function; while F-DC-7 was open, a missing proof hint in
//   the same function was hidden behind it.  After a repair every obligation of the function has to be looked at again.
//
//   F-DC-14 (C10 "time / memory proportional to the input"; cost is not modelled, measured on the real crate, release build)
//          IdMap::decode normalised arbitrary ranges (repair of F-DC-13): n ranges [i, n) of one client, range i carrying one NEW
//          attribute, decoded to n pieces with i + 1 attributes each: value quadratic, time cubic in the input (54.5 KB ->
//          86.8 MB, 110 s).  Repair: STRICT decoding (clients strictly ascending; ranges non-empty, ascending, disjoint; anything
//          else is Error::UnexpectedValue), no sort, every insert_range on its tail path.  Now: regions idmap_check_client /
//          idmap_check_range / idmap_store_section (units/dec_comp/idmap.rs, (d)).
//   F-DC-15 (same clause) IdSet::decode merged every repeated client section on arrival: k sections of ONE client -> one O(size)
//          `IdRanges::merge` each, quadratic time (1.19 MB -> 50.7 s).  Repair: all decoded ranges are collected in one flat
//          list, sorted by (client, start) and inserted one by one with `IdSet::insert` (tail path).  The contract is unchanged;
//          the flat list is within the budget (invariant `rest + 2 * sections + 2 * |flat| <= input`).
//
// TRUSTED (each declared with its std-documented contract)
//   A4   axiom_client_id_ord_key_model / axiom_client_id_hash_key_model: derived Ord / Hash+Eq of ClientID are lawful keys
//        (same assumptions as units ids_lift / sv; vstd's BTreeMap / HashMap specifications are conditioned on them)
//   A9   vx_from_utf8 (`std::str::from_utf8`: Ok(s), s@ == from_utf8(b), IFF valid_utf8(b); uninterpreted valid_utf8 / from_utf8 /
//        utf8, opaque Utf8ErrorStandIn).  A9b vx_from_utf8_unchecked (`from_utf8_unchecked`, requires valid_utf8: the documented
//        safety condition) is NOT reached by the current code; it exists so that the regression canary has something to fail.
//   A10  vx_sort_by_start (`raw.sort_unstable_by_key(|range| range.start)`), vx_sort_by_client_start
//        (`ranges.sort_unstable_by_key(|(client, range)| (*client, range.start))`): the result is a permutation of the input (same
//        multiset), ordered by the key.  Only the permutation half is used: the canonical result does not depend on the order
//        (dropping a sort, or sorting by `range.start` only, is not property-breaking; the order is what keeps every insertion
//        on its O(1) tail path).
//   A2   vx_arc_str (`Arc<str>::from(&str)`), vx_arc_bytes (`Arc<[u8]>::from(&[u8])`), vx_i64_from_be_bytes, and
//        assume_specification of f32::from_be_bytes / f64::from_be_bytes (total, value unspecified); opaque types Str / Bytes
//   STUBS (external_body, contract text CROSS-CHECKED by the extractor against the proving unit on every run):
//        IdRanges<T>::insert_with (ids_insert), IdRanges<T>::merge (ids_merge), IdSet::insert (ids_lift, idset_insert),
//        IdSet::insert_range (ids_lift, idset_insert_range; no longer called, kept for regressions), IdMapInner<T>::insert_range
//        (ids_lift, inner_insert_range).  `IdRanges<()>::insert`, `IdRanges::new / default / is_empty /
//        from_raw`, `IdMapInner::new / default / len / clients_mut`, `IdSet::new`, `IdMap::new`, `ID::new` are RE-VERIFIED here.
//   R13  ClientID is a stand-in (`ClientID(pub u64)` holding the yjs value); `ClientID::new` carries the real body's
//        `debug_assert!(value & MASK == 0)` as its precondition, `get` returns the value.  `ClientID::decode` is the real body.
//        ContentAttribute<A> is an opaque stand-in with contract-free `new` / `clone` / `==` / `hash`; ContentAttributes<A>,
//        DeserializeOwned / from_any are ABSTRACT (trait parameters, nothing assumed): see units/dec_comp/idmap.rs.
//   vstd's specifications of Vec / HashMap / HashSet / BTreeMap / Range and Vec iterators, Seq::to_multiset, Result::map_err,
//        Option::ok_or, checked_add; units/ids_common/* and units/lib0_common/* as included.
//   The allocation helpers (VxBudget) are VERIFIED wrappers of the std constructors, not trusted: the budget is a precondition.
//   `Arc<[Any]>` / `Arc<HashMap<String, Any>>` are modelled as owned `Vec<Any>` / `HashMap<String, Any>` (AnyArr / AnyMap).
//   `#[derive(Default)] for IdSet` is written out (as in unit ids_lift).
//
// REWRITES (logged per extract in the evidence): R1 (SmallVec -> Vec), R10 (visibility); SUB for the capacity constructors
//   (-> vx_budget(decoder).<ctor>::<T>), `BuildHasherDefault::default()` -> VxHasher, the hasher type parameter of StateVector,
//   `Arc<..>` payload spellings and constructors (`.into()`, `Arc::from`, `Arc::new`), `crate::encoding::read::Error` -> Error,
//   `i64::from_be_bytes` -> wrapper, `(&client_id, block)` -> `(client_id, block)` (reference pattern), field visibility of
//   DecoderV1.cursor / EncoderV1.buf; the two sorts -> A10 and `std::str::from_utf8(buf).map_err(|_| ..)` ->
//   `vx_from_utf8(buf).map_err(|_e: Utf8ErrorStandIn| ..)` (A9; Verus rejects `|_|`): UNIT-WIDE rules because `|` is the field
//   separator of an extract line -- each `from=` contains the real closure text, so an edit of a closure makes the rule miss;
//   `range.iter()` -> `range.0.iter()` (INLINE, accessor body checked); R18 statement regions idmap_check_client /
//   idmap_check_range / idmap_store_section (same source text as idmap_decode, `id_map.inner` -> the parameter `inner`);
//   IdMap: `ContentAttributes<A>` -> `CA`, `ContentAttributes(attrs)` -> `CA::vx_from_attrs(attrs)`, `attrs: Default::default()` ->
//   `HashSet::new()`; INLINE of IdRanges::iter, IdMapInner::iter and `impl From<&[u8]> for DecoderV1` (accessor bodies checked
//   on every run).  `impl Decode for X` / `impl Encode for X` stay trait impls of the sliced traits.  The consuming loops
//   `for range in raw` / `for (range, attrs) in entries` / `for attr in visited_attributions` are ingested AS THEY ARE (vstd's
//   vec::IntoIter specification; no R6 lowering needed).
//
// NOT EXPRESSIBLE: `requires` on the abstract `Encoder::write_ds_clock / write_ds_len` with a ghost register `ds_cur`.  Between
//   `reset_ds_cur_val` and `write_ds_clock` the encoders call `write_var` (a method of the shared `Write` / `WriteExt` traits of
//   units/lib0_common, whose contract only speaks about `out()`), so a generic caller cannot know that the register survives
//   the call (no frame condition can be added from here).  The connection is made on the spec level instead: `ds_writes_ok`
//   runs the register over the writes `IdRanges::encode` performs, `lemma_canon_ds_ok` proves it for canonical lists from
//   register 0, `lemma_non_canon_ds_not_ok` refutes it for the former counter-examples.
//
// NOT COVERED: the exact value of IdMap::decode (no spec decoder: serde attributes), Update / Block decoding (pointer core),
//   IndexScope / StickyIndex (unit sticky), StateVector / AwarenessUpdate / Snapshot / Any / IdMap ENCODERS and their round trips,
//   Any's result size, the exact value of floats, stack usage as such (only the recursion depth is bounded), Drop of deeply
//   nested values, running time / memory beyond the element counts above (cost is not modelled: F-DC-14 / F-DC-15 were found by
//   measurement).
#![allow(unused_imports, unused_variables, unused_mut, dead_code, unused_parens, unused_braces, unused_assignments)]
use vstd::prelude::*;
use vstd::slice::*;
use std::convert::TryInto;
use core::ops::Range;
use std::collections::HashMap;
use std::collections::BTreeMap;
use std::collections::HashSet;
use vstd::std_specs::cmp::PartialEqSpec;
use vstd::std_specs::iter::IteratorSpec;

verus! {

/*@rules R1 R10
   SUB(from=raw.sort_unstable_by_key(|range| range.start);;to=vx_sort_by_start(&mut raw))
   SUB(from=std::str::from_utf8(buf).map_err(|_| Error::UnexpectedValue);;to=vx_from_utf8(buf).map_err(|_e: Utf8ErrorStandIn| Error::UnexpectedValue))
   SUB(from=unsafe { std::str::from_utf8_unchecked(buf) };;to=vx_from_utf8_unchecked(buf))
   SUB(from=ranges.sort_unstable_by_key(|(client, range)| (*client, range.start));;to=vx_sort_by_client_start(&mut ranges))
@*/

/*@include units/lib0_common/base.rs @*/

/*@include units/lib0_common/spec.rs @*/

/*@include units/lib0_common/varint.rs @*/

/*@include units/ids_common/base.rs @*/


/*@include units/ids_common/spec.rs @*/

pub mod vx_dc {
    use vstd::prelude::*;
    use vstd::slice::*;
    use std::convert::TryInto;
    use core::ops::Range;
    use std::collections::HashMap;
    use std::collections::BTreeMap;
    use vstd::std_specs::cmp::PartialEqSpec;
    use vstd::std_specs::iter::IteratorSpec;
    use super::*;

/*@include units/dec_comp/env.rs @*/

/*@include units/dec_comp/canon.rs @*/

/*@include units/dec_comp/ids.rs @*/

/*@include units/dec_comp/sv.rs @*/

/*@include units/dec_comp/aw.rs @*/

/*@include units/dec_comp/any.rs @*/

/*@include units/dec_comp/idmap.rs @*/

/*@include units/dec_comp/enc.rs @*/
}

} // verus!
fn main() {}
