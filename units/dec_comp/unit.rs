// unit `dec_comp` — composite decoders (C10)
#![allow(unused_imports, unused_variables, unused_mut, dead_code, unused_parens, unused_braces, unused_assignments)]
use vstd::prelude::*;
use vstd::slice::*;
use std::convert::TryInto;
use core::ops::Range;
use std::collections::HashMap;
use std::collections::BTreeMap;
use vstd::std_specs::cmp::PartialEqSpec;
use vstd::std_specs::iter::IteratorSpec;

verus! {

/*@rules R1 R9 R10 @*/

/*@include units/lib0_common/base.rs @*/

/*@include units/lib0_common/spec.rs @*/

/*@include units/lib0_common/varint.rs @*/

/*@include units/ids_common/base.rs @*/


/*@include units/ids_common/spec.rs @*/

pub mod vx_dc {
    use vstd::prelude::*;
    use vstd::slice::*;
    use std::convert::TryInto;
    use core::ops::Range;
    use std::collections::HashMap;
    use std::collections::BTreeMap;
    use vstd::std_specs::cmp::PartialEqSpec;
    use vstd::std_specs::iter::IteratorSpec;
    use super::*;

/*@include units/dec_comp/env.rs @*/

/*@include units/dec_comp/ids.rs @*/

/*@include units/dec_comp/sv.rs @*/

/*@include units/dec_comp/aw.rs @*/

/*@include units/dec_comp/any.rs @*/

/*@include units/dec_comp/enc.rs @*/
}

} // verus!
fn main() {}
