// unit `dec_comp` -- the COMPOSITE decoders of yrs: loops whose trip count comes from the input and collections that are
// pre-allocated from untrusted counts.  Serves C10 ("arbitrary bytes => value or error, time and memory proportional to the
// input, no panic / abort / stack overflow / unbounded loop; a decoded value can be encoded again") and C09 (round trip of
// the delete-set layer).  Builds on the proved primitive layer (units lib0, lib0_v2, tags; shared text units/lib0_common/*).
//
//   units/dec_comp/env.rs   ClientID (stand-in) + the REAL ClientID::decode, allocation budget, sliced traits Decoder / Decode,
//                           DecoderV1 (real), DecoderV2 (sliced), Decode::decode_v1 (the public entry point), counted lists
//   units/dec_comp/ids.rs   yrs/src/id_set.rs   Range<u32>::decode, IdRanges<()>::decode, IdSet::decode
//   units/dec_comp/sv.rs    yrs/src/state_vector.rs   StateVector::decode, Snapshot::decode
//   units/dec_comp/aw.rs    yrs/src/sync/awareness.rs  AwarenessUpdate::decode  (+ string stand-ins)
//   units/dec_comp/any.rs   yrs/src/any.rs      Any::decode / Any::decode_nested (recursive), Read::read_f32 / read_f64 / read_i64
//   units/dec_comp/enc.rs   Range<u32> / IdRanges<()> / IdSet ::encode, EncoderV1, the round-trip theorems, observations
//
// CONTRACTS (per function; every body is the text of /repo, re-extracted on every run)
//   (a) TOTAL     trait `Decode`: for every wf reader `decode` returns Ok / Err -- no overflow, no out-of-bounds, no failing
//                 debug_assert!, termination (every loop has a `decreases`; for-loops over ranges terminate by construction);
//                 it never rewinds and never reads beyond the input (`suffix_of`); PROGRESS: Ok ==> at least one byte was
//                 consumed, and every loop iteration consumes >= c bytes (invariant `rest().len() + c * i <= s1.len()`;
//                 c = 2 ranges / id-set items / state-vector pairs / map entries of Any, 3 awareness entries, 1 array
//                 elements of Any), so the number of iterations is at most |input| / c: linear time.
//                 `Decode::decode_v1(data: &[u8])` (the public entry point) has NO precondition.
//   (b) BUDGET    every capacity request goes through `vx_budget(decoder).<ctor>(n)` (SUB rules), whose precondition is
//                 `alloc_budget_ok`: n <= unread input bytes + 1024.
//   (c) SHAPE     Range: start <= end;  IdRanges / IdSet / StateVector / AwarenessUpdate: |value| * c < bytes consumed (memory
//                 of the VALUE proportional to the input);  every stored range has start <= end.  NOT guaranteed: canonical
//                 form, non-empty per-client entries (see OBSERVATIONS in enc.rs: proved counter-examples).
//                 `res is Ok ==> res.enc_ok()`: a decoded value satisfies the precondition of its encoder.
//   (d) EXACT     equality with a spec decoder on ANY byte string (None = Err, Some((v, k)) = v from the first k bytes):
//                 dec_range / dec_ranges / dec_idset / dec_snapshot for v1 decoders (`D::v1()`), dec_sv / dec_au for every
//                 decoder (they use `Read` methods only).  ROUND TRIP (v1): theorem_range_round_trip,
//                 theorem_ranges_round_trip, theorem_idset_round_trip: decode(encode(x) ++ tail) == (x, tail) for every x with
//                 start <= end ranges, 53-bit clients and < 2^32 elements -- canonical or not, whatever order the map
//                 iterator enumerates the clients in.
//   Any::decode_nested: (a) for EVERY depth, (b), BOUNDED RECURSION `decreases MAX_DECODE_DEPTH + 1 - depth`.
//
// DECODER MODEL  trait `Decoder: Read` is SLICED to reset_ds_cur_val / read_ds_clock / read_ds_len with an ABSTRACT contract
//   (suffix + progress) that the real bodies of BOTH DecoderV1 and (sliced) DecoderV2 are verified against; a decoder with
//   `v1()` (DecoderV1) additionally has the exact v1 semantics (read_ds_* = u32 var-int, reset = no-op).  (a)-(c) therefore
//   hold for v1 and v2 input, (d) for v1.  `read_string` is the default `Read::read_string` (DecoderV2 overrides it with a
//   separate string column: not modelled; only AwarenessUpdate / Any use it and both are decoded from v1 / plain readers).
//
// FINDINGS (all reported, all REPAIRED in /repo meanwhile; each is now an ordinary discharged obligation and has a canary)
//   F-DC-1 idranges_decode::pre [alloc_budget_ok]  `SmallVec::with_capacity(len as usize)`, len = untrusted u32.
//          `01 00 FF FF FF FF 0F` (IdSet::decode_v1): 32 GiB request -> "memory allocation of 34359738360 bytes failed", SIGABRT.
//   F-DC-3 sv_decode::pre [alloc_budget_ok]  `HashMap::with_capacity_and_hasher(len, ..)`.  `FF FF FF FF 0F`: 146 GB request, SIGABRT.
//   F-DC-5 au_decode::pre [alloc_budget_ok]  `HashMap::with_capacity(len)`, len: usize.  `FF FF FF FF FF FF FF FF FF 01`:
//          panic "Hash table capacity overflow";  `80 80 80 80 80 20`: SIGABRT.
//   F-DC-7 any_decode::pre [alloc_budget_ok] (2 sites)  `75 FF FF FF FF FF FF FF FF FF 01`: panic "capacity overflow";
//          `76 ..`: "Hash table capacity overflow";  `75 80 80 80 80 80 20`: 26 TB request, SIGABRT.
//   F-DC-2/4/6 idset_decode / sv_decode / au_decode ::pre [client_id_53bit]  `ClientID::new(untrusted u64)`:
//          `01 80 80 80 80 80 80 80 10 00` etc. (client 2^53): debug build panics (debug_assert!), release build silently aliases
//          the id to ClientID(0).  Repair: `ClientID::decode(x)?` (real body under contract here).
//   F-DC-8 Any::decode recursed without depth limit (not expressible as an obligation before the repair; the old measure
//          `decreases rest().len()` only gave depth <= |input|): 30000 x `75 01` + `7E` (60 001 bytes) overflows an 8 MB stack,
//          SIGABRT.  Repair: decode_nested(decoder, depth) with MAX_DECODE_DEPTH = 512, now the termination measure.
//   NOTE on masking: Verus reports a limited number of errors per function; while F-DC-7 was open, a missing proof hint in
//   the same function was hidden behind it.  After a repair every obligation of the function has to be looked at again.
//
// TRUSTED (each declared with its std-documented contract)
//   A4   axiom_client_id_ord_key_model / axiom_client_id_hash_key_model: derived Ord / Hash+Eq of ClientID are lawful keys
//        (same assumptions as units ids_lift / sv; vstd's BTreeMap / HashMap specifications are conditioned on them)
//   A9   ReadStr::read_string (stand-in of unit tags for `unsafe { from_utf8_unchecked(self.read_buf()?) }`; uninterpreted utf8 / from_utf8)
//   A2   vx_arc_str (`Arc<str>::from(&str)`), vx_arc_bytes (`Arc<[u8]>::from(&[u8])`), vx_i64_from_be_bytes, and
//        assume_specification of f32::from_be_bytes / f64::from_be_bytes (total, value unspecified); opaque types Str / Bytes
//   R13  ClientID is a stand-in (`ClientID(pub u64)` holding the yjs value); `ClientID::new` carries the real body's
//        `debug_assert!(value & MASK == 0)` as its precondition, `get` returns the value.  `ClientID::decode` is the real body.
//   vstd's specifications of Vec / HashMap / BTreeMap / Range iterators; units/ids_common/* and units/lib0_common/* as included.
//   The allocation helpers (VxBudget) are VERIFIED wrappers of the std constructors, not trusted: the budget is a precondition.
//   `Arc<[Any]>` / `Arc<HashMap<String, Any>>` are modelled as owned `Vec<Any>` / `HashMap<String, Any>` (AnyArr / AnyMap).
//   `#[derive(Default)] for IdSet` is written out (as in unit ids_lift).
//
// REWRITES (logged per extract in the evidence): R1 (SmallVec -> Vec), R10 (visibility); SUB for the capacity constructors
//   (-> vx_budget(decoder).<ctor>::<T>), `BuildHasherDefault::default()` -> VxHasher, the hasher type parameter of StateVector,
//   `Arc<..>` payload spellings and constructors (`.into()`, `Arc::from`, `Arc::new`), `crate::encoding::read::Error` -> Error,
//   `i64::from_be_bytes` -> wrapper, `(&client_id, block)` -> `(client_id, block)` (reference pattern), field visibility of
//   DecoderV1.cursor / EncoderV1.buf; INLINE of IdRanges::iter, IdMapInner::iter and `impl From<&[u8]> for DecoderV1`
//   (accessor bodies checked on every run).  `impl Decode for X` / `impl Encode for X` stay trait impls of the sliced traits.
//
// NOT COVERED: IdMap<A>::decode (serde_json attributes), Update / Block decoding (pointer core), IndexScope / StickyIndex
//   (unit sticky), StateVector / AwarenessUpdate / Snapshot / Any ENCODERS and their round trips, Any's result size, the
//   exact value of floats, stack usage as such (only the recursion depth is bounded), Drop of deeply nested values.
#![allow(unused_imports, unused_variables, unused_mut, dead_code, unused_parens, unused_braces, unused_assignments)]
use vstd::prelude::*;
use vstd::slice::*;
use std::convert::TryInto;
use core::ops::Range;
use std::collections::HashMap;
use std::collections::BTreeMap;
use std::collections::HashSet;
use vstd::std_specs::cmp::PartialEqSpec;
use vstd::std_specs::iter::IteratorSpec;

verus! {

/*@rules R1 R10
   SUB(from=raw.sort_unstable_by_key(|range| range.start);;to=vx_sort_by_start(&mut raw))
   SUB(from=std::str::from_utf8(buf).map_err(|_| Error::UnexpectedValue);;to=vx_from_utf8(buf).map_err(|_e: Utf8ErrorStandIn| Error::UnexpectedValue))
   SUB(from=unsafe { std::str::from_utf8_unchecked(buf) };;to=vx_from_utf8_unchecked(buf))
   SUB(from=entries.sort_by_key(|(range, _)| range.start);;to=vx_sort_entries_by_start(&mut entries))
@*/

/*@include units/lib0_common/base.rs @*/

/*@include units/lib0_common/spec.rs @*/

/*@include units/lib0_common/varint.rs @*/

/*@include units/ids_common/base.rs @*/


/*@include units/ids_common/spec.rs @*/

pub mod vx_dc {
    use vstd::prelude::*;
    use vstd::slice::*;
    use std::convert::TryInto;
    use core::ops::Range;
    use std::collections::HashMap;
    use std::collections::BTreeMap;
    use vstd::std_specs::cmp::PartialEqSpec;
    use vstd::std_specs::iter::IteratorSpec;
    use super::*;

/*@include units/dec_comp/env.rs @*/

/*@include units/dec_comp/canon.rs @*/

/*@include units/dec_comp/ids.rs @*/

/*@include units/dec_comp/sv.rs @*/

/*@include units/dec_comp/aw.rs @*/

/*@include units/dec_comp/any.rs @*/

/*@include units/dec_comp/idmap.rs @*/

/*@include units/dec_comp/enc.rs @*/
}

} // verus!
fn main() {}
