// units/dec_comp/canon.rs — pure lemmas about CANONICAL lists of unit entries (`canon` of units/ids_common/spec.rs for T = ()):
// what the repaired decoders (IdRanges::decode / IdSet::decode canonicalise their input) need on top of the proved contracts of
// `IdRanges<()>::insert` (unit ids_insert) and `IdSet::insert_range` (unit ids_lift).  No executable code, nothing trusted.
//   * a canonical unit list has one entry per maximal run of covered clocks ("left edges"), hence inserting ONE range
//     makes it at most one entry longer (`lemma_unit_insert_len`): the decoded value never has more entries than the wire
//   * canonical forms are unique (`lemma_canon_unique_unit`, text of unit ids_subset re-verified here): the canonical
//     result is DETERMINED by the set of clocks read from the wire
//   * a canonical list is in the domain of the v2 delete-set encoder (`lemma_canon_ds_ok`): clocks ascending, lengths >= 1

// ---------------------------------------------------------------------------------------------
// raw ranges as read from the wire
// ---------------------------------------------------------------------------------------------
/// clock `c` lies in one of the first `n` ranges of `s`
pub open spec fn covered_upto(s: Seq<Range<u32>>, n: int, c: int) -> bool {
    exists|j: int| 0 <= j < n && j < s.len() && inr(#[trigger] s[j], c)
}

/// a list of bare ranges as a list of unit entries
pub open spec fn ents_of(s: Seq<Range<u32>>) -> Seq<Ent<()>> {
    Seq::new(s.len(), |i: int| (s[i], ()))
}

/// `r` is THE canonical form of the raw list `raw`: canonical, and it covers exactly the clocks of the raw ranges
/// (`covers(raw, c)` is `exists i. inr(raw[i].0, c)`)
pub open spec fn canon_of(raw: Seq<Ent<()>>, r: Seq<Ent<()>>) -> bool {
    &&& canon(r)
    &&& forall|c: int| #![trigger covers(r, c)] #![trigger covers(raw, c)] covers(r, c) <==> covers(raw, c)
}

pub proof fn lemma_ents_of_push(s: Seq<Range<u32>>, r: Range<u32>)
    ensures
        ents_of(s.push(r)) == ents_of(s).push((r, ())),
{
    assert(ents_of(s.push(r)) =~= ents_of(s).push((r, ())));
}

pub proof fn lemma_ents_of_covers(s: Seq<Range<u32>>, c: int)
    ensures
        covers(ents_of(s), c) <==> covered_upto(s, s.len() as int, c),
{
    let e = ents_of(s);
    if covers(e, c) {
        let i = idx_of(e, c);
        assert(inr(e[i].0, c));
        assert(inr(s[i], c));
    }
    if covered_upto(s, s.len() as int, c) {
        let j = choose|j: int| 0 <= j < s.len() && j < s.len() && inr(#[trigger] s[j], c);
        assert(e[j].0 == s[j]);
        assert(inr(e[j].0, c));
    }
}

/// a permutation covers the same clocks
pub proof fn lemma_perm_covered(a: Seq<Range<u32>>, b: Seq<Range<u32>>)
    requires
        a.to_multiset() == b.to_multiset(),
    ensures
        a.len() == b.len(),
        forall|c: int| covered_upto(a, a.len() as int, c) <==> covered_upto(b, b.len() as int, c),
{
    a.to_multiset_ensures();
    b.to_multiset_ensures();
    assert forall|c: int| covered_upto(a, a.len() as int, c) <==> covered_upto(b, b.len() as int, c) by {
        if covered_upto(a, a.len() as int, c) {
            let i = choose|i: int| 0 <= i < a.len() && i < a.len() && inr(#[trigger] a[i], c);
            assert(a.contains(a[i]));
            assert(b.to_multiset().count(a[i]) > 0);
            assert(b.contains(a[i]));
            let j = choose|j: int| 0 <= j < b.len() && b[j] == a[i];
            assert(inr(b[j], c));
        }
        if covered_upto(b, b.len() as int, c) {
            let i = choose|i: int| 0 <= i < b.len() && i < b.len() && inr(#[trigger] b[i], c);
            assert(b.contains(b[i]));
            assert(a.to_multiset().count(b[i]) > 0);
            assert(a.contains(b[i]));
            let j = choose|j: int| 0 <= j < a.len() && a[j] == b[i];
            assert(inr(a[j], c));
        }
    }
}

// ---------------------------------------------------------------------------------------------
// strictly increasing integer sequences (a counting argument without cardinalities)
// ---------------------------------------------------------------------------------------------
pub open spec fn strictly_inc(a: Seq<int>) -> bool {
    forall|i: int, j: int| 0 <= i < j < a.len() ==> (#[trigger] a[i]) < (#[trigger] a[j])
}

pub open spec fn occurs(u: Seq<int>, x: int) -> bool {
    exists|k: int| 0 <= k < u.len() && (#[trigger] u[k]) == x
}

/// a strictly increasing sequence all of whose members occur in another strictly increasing sequence is not longer
pub proof fn lemma_inc_subset_len(a: Seq<int>, u: Seq<int>)
    requires
        strictly_inc(a),
        strictly_inc(u),
        forall|j: int| 0 <= j < a.len() ==> occurs(u, #[trigger] a[j]),
    ensures
        a.len() <= u.len(),
    decreases a.len(),
{
    if a.len() > 0 {
        let n = a.len() - 1;
        let last = a[n];
        assert(occurs(u, a[n]));
        let k = choose|k: int| 0 <= k < u.len() && (#[trigger] u[k]) == last;
        let a1 = a.take(n);
        let u1 = u.take(k);
        assert forall|j: int| 0 <= j < a1.len() implies occurs(u1, #[trigger] a1[j]) by {
            assert(a1[j] == a[j]);
            assert(a[j] < a[n]);
            assert(occurs(u, a[j]));
            let k2 = choose|k2: int| 0 <= k2 < u.len() && (#[trigger] u[k2]) == a[j];
            if k2 > k {
                assert(u[k] < u[k2]);
            }
            assert(k2 < k);
            assert(u1[k2] == a[j]);
        }
        assert forall|i: int, j: int| 0 <= i < j < a1.len() implies (#[trigger] a1[i]) < (#[trigger] a1[j]) by {
            assert(a1[i] == a[i] && a1[j] == a[j]);
        }
        assert forall|i: int, j: int| 0 <= i < j < u1.len() implies (#[trigger] u1[i]) < (#[trigger] u1[j]) by {
            assert(u1[i] == u[i] && u1[j] == u[j]);
        }
        lemma_inc_subset_len(a1, u1);
    }
}

/// ... and at most one longer if one extra value `x` is allowed
pub proof fn lemma_inc_subset_len1(a: Seq<int>, u: Seq<int>, x: int)
    requires
        strictly_inc(a),
        strictly_inc(u),
        forall|j: int| 0 <= j < a.len() ==> (#[trigger] a[j]) == x || occurs(u, a[j]),
    ensures
        a.len() <= u.len() + 1,
{
    if exists|j0: int| 0 <= j0 < a.len() && (#[trigger] a[j0]) == x {
        let j0 = choose|j0: int| 0 <= j0 < a.len() && (#[trigger] a[j0]) == x;
        let a1 = a.remove(j0);
        assert forall|i: int, j: int| 0 <= i < j < a1.len() implies (#[trigger] a1[i]) < (#[trigger] a1[j]) by {
            let ii = if i < j0 { i } else { i + 1 };
            let jj = if j < j0 { j } else { j + 1 };
            assert(a1[i] == a[ii] && a1[j] == a[jj]);
        }
        assert forall|j: int| 0 <= j < a1.len() implies occurs(u, #[trigger] a1[j]) by {
            let jj = if j < j0 { j } else { j + 1 };
            assert(a1[j] == a[jj]);
            if jj < j0 {
                assert(a[jj] < a[j0]);
            } else {
                assert(a[j0] < a[jj]);
            }
        }
        lemma_inc_subset_len(a1, u);
    } else {
        assert forall|j: int| 0 <= j < a.len() implies occurs(u, #[trigger] a[j]) by {}
        lemma_inc_subset_len(a, u);
    }
}

// ---------------------------------------------------------------------------------------------
// canonical unit lists: gaps and left edges
// ---------------------------------------------------------------------------------------------
/// in a canonical list of UNIT entries two different ranges are separated by a gap (adjacent ranges with equal values
/// would have been coalesced, and all unit values are equal)
pub proof fn lemma_unit_gap(s: Seq<Ent<()>>, i: int, j: int)
    requires
        canon(s),
        0 <= i < j < s.len(),
    ensures
        s[i].0.end < s[j].0.start,
{
    axiom_unit_eq();
    let i1 = i + 1;
    assert(s[i].0.end <= s[i1].0.start);
    if s[i].0.end == s[i1].0.start {
        assert(s[i].1.eq_spec(&s[i1].1));
        assert(!s[i].1.eq_spec(&s[i1].1));
    }
    if i1 < j {
        assert(s[i1].0.start < s[i1].0.end);
        assert(s[i1].0.end <= s[j].0.start);
    }
}

/// `c` is covered and `c - 1` is not
pub open spec fn left_edge(s: Seq<Ent<()>>, c: int) -> bool {
    covers(s, c) && !covers(s, c - 1)
}

pub proof fn lemma_start_is_left_edge(s: Seq<Ent<()>>, j: int)
    requires
        canon(s),
        0 <= j < s.len(),
    ensures
        left_edge(s, s[j].0.start as int),
{
    let c = s[j].0.start as int;
    assert(inr(s[j].0, c));
    if covers(s, c - 1) {
        let i = idx_of(s, c - 1);
        assert(0 <= i < s.len() && inr(s[i].0, c - 1));
        if i < j {
            lemma_unit_gap(s, i, j);
        } else if i > j {
            assert(s[j].0.end <= s[i].0.start);
        }
    }
}

pub proof fn lemma_left_edge_is_start(s: Seq<Ent<()>>, c: int)
    requires
        left_edge(s, c),
    ensures
        exists|k: int| 0 <= k < s.len() && (#[trigger] s[k]).0.start == c,
{
    let k = idx_of(s, c);
    assert(0 <= k < s.len() && inr(s[k].0, c));
    if s[k].0.start < c {
        assert(inr(s[k].0, c - 1));
    }
}

pub open spec fn starts_of(s: Seq<Ent<()>>) -> Seq<int> {
    Seq::new(s.len(), |i: int| s[i].0.start as int)
}

pub proof fn lemma_starts_inc(s: Seq<Ent<()>>)
    requires
        canon(s),
    ensures
        strictly_inc(starts_of(s)),
{
    let a = starts_of(s);
    assert forall|i: int, j: int| 0 <= i < j < a.len() implies (#[trigger] a[i]) < (#[trigger] a[j]) by {
        assert(s[i].0.start < s[i].0.end);
        assert(s[i].0.end <= s[j].0.start);
    }
}

/// C10 (memory of the value): inserting ONE range into a canonical unit list makes it at most one entry longer -- whatever
/// the insertion algorithm does, as long as the result is canonical and covers the old clocks plus the range.
pub proof fn lemma_unit_insert_len(s: Seq<Ent<()>>, r: Range<u32>, t: Seq<Ent<()>>)
    requires
        canon(s),
        canon(t),
        forall|c: int| #![trigger covers(t, c)] #![trigger covers(s, c)] #![trigger inr(r, c)] covers(t, c) <==> covers(s, c) || inr(r, c),
    ensures
        t.len() <= s.len() + 1,
{
    let ts = starts_of(t);
    let ss = starts_of(s);
    let x = r.start as int;
    lemma_starts_inc(t);
    lemma_starts_inc(s);
    assert forall|j: int| 0 <= j < ts.len() implies (#[trigger] ts[j]) == x || occurs(ss, ts[j]) by {
        let c = t[j].0.start as int;
        lemma_start_is_left_edge(t, j);
        assert(covers(t, c) <==> covers(s, c) || inr(r, c));
        assert(covers(t, c - 1) <==> covers(s, c - 1) || inr(r, c - 1));
        if covers(s, c) {
            lemma_left_edge_is_start(s, c);
            let k = choose|k: int| 0 <= k < s.len() && (#[trigger] s[k]).0.start == c;
            assert(ss[k] == c);
        } else {
            assert(inr(r, c));
            if r.start < c {
                assert(inr(r, c - 1));
            }
        }
    }
    lemma_inc_subset_len1(ts, ss, x);
}

/// one iteration of the canonicalising loop `for range in raw { ranges.insert(range) }` (the contract of `insert` is the
/// first three hypotheses)
pub proof fn lemma_insert_step(r0: Seq<Ent<()>>, rg: Range<u32>, r1: Seq<Ent<()>>, s: Seq<Range<u32>>, n: int)
    requires
        canon(r0),
        canon(r1),
        forall|c: int| #![trigger covers(r1, c)] #![trigger covers(r0, c)] #![trigger inr(rg, c)] covers(r1, c) <==> covers(r0, c) || inr(rg, c),
        0 <= n < s.len(),
        s[n] == rg,
        forall|c: int| #![trigger covers(r0, c)] covers(r0, c) <==> covered_upto(s, n, c),
        r0.len() <= n,
    ensures
        forall|c: int| #![trigger covers(r1, c)] covers(r1, c) <==> covered_upto(s, n + 1, c),
        r1.len() <= n + 1,
{
    lemma_unit_insert_len(r0, rg, r1);
    assert forall|c: int| #![trigger covers(r1, c)] covers(r1, c) <==> covered_upto(s, n + 1, c) by {
        assert(covers(r1, c) <==> covers(r0, c) || inr(rg, c));
        assert(covers(r0, c) <==> covered_upto(s, n, c));
        if covered_upto(s, n, c) {
            let j = choose|j: int| 0 <= j < n && j < s.len() && inr(#[trigger] s[j], c);
            assert(0 <= j < n + 1 && j < s.len() && inr(s[j], c));
        }
        if inr(rg, c) {
            assert(0 <= n < n + 1 && n < s.len() && inr(s[n], c));
        }
        if covered_upto(s, n + 1, c) {
            let j = choose|j: int| 0 <= j < n + 1 && j < s.len() && inr(#[trigger] s[j], c);
            if j < n {
                assert(0 <= j < n && j < s.len() && inr(s[j], c));
            }
        }
    }
}

/// the empty list is canonical and covers nothing
pub proof fn lemma_empty_canon(s: Seq<Range<u32>>)
    ensures
        canon(Seq::<Ent<()>>::empty()),
        forall|c: int| #![trigger covers(Seq::<Ent<()>>::empty(), c)] covers(Seq::<Ent<()>>::empty(), c) <==> covered_upto(s, 0, c),
{
}

/// a canonical list has ordered ranges (the v1 encoder's domain)
pub proof fn lemma_canon_ordered(s: Seq<Ent<()>>)
    requires
        canon(s),
    ensures
        forall|i: int| 0 <= i < s.len() ==> (#[trigger] s[i]).0.start <= s[i].0.end,
{
    assert forall|i: int| 0 <= i < s.len() implies (#[trigger] s[i]).0.start <= s[i].0.end by {
        assert(s[i].0.start < s[i].0.end);
    }
}

// ---------------------------------------------------------------------------------------------
// canonical forms are unique.  TEXT COPIED from unit ids_subset (lemma_tail .. lemma_canon_unique_unit; shared lemmas live in
// per-function units and cannot be included), re-verified here on every run; one assert of lemma_tail restated in the two-variable
// form of `coalesced` (the copied one-variable form is a matching loop and was flaky here).
// ---------------------------------------------------------------------------------------------
/// dropping the first entry of a canonical sequence
pub proof fn lemma_tail<T: Merge>(s: Seq<Ent<T>>)
    requires
        canon(s),
        s.len() > 0,
    ensures
        canon(s.subrange(1, s.len() as int)),
        forall|c: int| covers(s.subrange(1, s.len() as int), c) <==> covers(s, c) && !inr(s[0].0, c),
        forall|c: int| covers(s.subrange(1, s.len() as int), c) ==> #[trigger] val_at(s.subrange(1, s.len() as int), c) == val_at(s, c),
{
    let t = s.subrange(1, s.len() as int);
    assert forall|i: int| 0 <= i < t.len() implies (#[trigger] t[i]).0.start < t[i].0.end by {
        assert(t[i] == s[i + 1]);
    }
    assert forall|i: int, j: int| 0 <= i < j < t.len() implies (#[trigger] t[i]).0.end <= (#[trigger] t[j]).0.start by {
        assert(t[i] == s[i + 1] && t[j] == s[j + 1]);
    }
    assert forall|i: int| 0 <= i < t.len() implies (#[trigger] t[i]).1.wf() by {
        assert(t[i] == s[i + 1]);
    }
    // (two-variable form, as in the definition of `coalesced`: `t[i + 1]` under the trigger `t[i]` is a matching loop)
    assert forall|i: int, j: int| 0 <= i && j == i + 1 && j < t.len() && (#[trigger] t[i]).0.end == (#[trigger] t[j]).0.start implies !t[i].1.eq_spec(&t[j].1) by {
        assert(t[i] == s[i + 1] && t[j] == s[j + 1]);
    }
    assert forall|c: int| covers(t, c) <==> covers(s, c) && !inr(s[0].0, c) by {
        if covers(t, c) {
            let k = idx_of(t, c);
            assert(inr(t[k].0, c));
            assert(t[k] == s[k + 1]);
            assert(inr(s[k + 1].0, c));
            assert(s[0].0.end <= s[k + 1].0.start);
        }
        if covers(s, c) && !inr(s[0].0, c) {
            let k = idx_of(s, c);
            assert(inr(s[k].0, c));
            assert(t[k - 1] == s[k]);
            assert(inr(t[k - 1].0, c));
        }
    }
    assert forall|c: int| covers(t, c) implies #[trigger] val_at(t, c) == val_at(s, c) by {
        let k = idx_of(t, c);
        assert(inr(t[k].0, c));
        assert(t[k] == s[k + 1]);
        lemma_idx_unique(s, k + 1, c);
    }
}

/// the value hypothesis of `lemma_canon_unique` is symmetric
pub proof fn lemma_val_eq_sym<T: Merge>(a: Seq<Ent<T>>, b: Seq<Ent<T>>)
    requires
        vals_wf(a),
        vals_wf(b),
        forall|c: int| covers(a, c) <==> covers(b, c),
        forall|c: int| covers(a, c) ==> #[trigger] val_at(a, c).eq_spec(&val_at(b, c)),
    ensures
        forall|c: int| covers(b, c) ==> #[trigger] val_at(b, c).eq_spec(&val_at(a, c)),
{
    assert forall|c: int| covers(b, c) implies #[trigger] val_at(b, c).eq_spec(&val_at(a, c)) by {
        assert(covers(a, c));
        let i = idx_of(a, c);
        let j = idx_of(b, c);
        assert(0 <= i < a.len() && inr(a[i].0, c));
        assert(0 <= j < b.len() && inr(b[j].0, c));
        assert(a[i].1.wf() && b[j].1.wf());
        assert(val_at(a, c).eq_spec(&val_at(b, c)));
        a[i].1.law_eq_sym(&b[j].1);
    }
}

/// a sequence without entries covers nothing, so a canonical sequence with the same clocks is empty too
pub proof fn lemma_empty_unique<T>(a: Seq<Ent<T>>, b: Seq<Ent<T>>)
    requires
        a.len() == 0,
        nonempty(b),
        forall|c: int| covers(b, c) ==> covers(a, c),
    ensures
        b.len() == 0,
{
    if b.len() > 0 {
        let c = b[0].0.start as int;
        assert(inr(b[0].0, c));
        assert(covers(b, c));
        assert(covers(a, c));
        let k = idx_of(a, c);
        assert(0 <= k < a.len());
    }
}

/// the least covered clock is the start of the first entry
pub proof fn lemma_first_start_le<T>(a: Seq<Ent<T>>, b: Seq<Ent<T>>)
    requires
        ranges_ok(a),
        ranges_ok(b),
        a.len() > 0,
        b.len() > 0,
        forall|c: int| covers(b, c) ==> covers(a, c),
    ensures
        a[0].0.start <= b[0].0.start,
{
    let c = b[0].0.start as int;
    assert(inr(b[0].0, c));
    assert(covers(b, c));
    assert(covers(a, c));
    let k = idx_of(a, c);
    assert(0 <= k < a.len() && inr(a[k].0, c));
    if k > 0 {
        assert(a[0].0.end <= a[k].0.start);
        assert(a[0].0.start < a[0].0.end);
    }
}

/// the first entry of `a` reaches at least as far as the first entry of `b`: otherwise the clock
/// `a[0].end` is covered (it lies in `b[0]`), so `a[1]` starts there, and coalescing forces a value change
/// that `b[0]` does not have
pub proof fn lemma_first_end_ge<T: Merge>(a: Seq<Ent<T>>, b: Seq<Ent<T>>)
    requires
        canon(a),
        canon(b),
        a.len() > 0,
        b.len() > 0,
        a[0].0.start == b[0].0.start,
        forall|c: int| covers(b, c) ==> covers(a, c),
        forall|c: int| covers(a, c) ==> #[trigger] val_at(a, c).eq_spec(&val_at(b, c)),
        forall|c: int| covers(b, c) ==> #[trigger] val_at(b, c).eq_spec(&val_at(a, c)),
    ensures
        a[0].0.end >= b[0].0.end,
{
    if a[0].0.end < b[0].0.end {
        let e = a[0].0.end as int;
        assert(a[0].0.start < a[0].0.end);
        // e and e - 1 both lie in b[0]
        assert(inr(b[0].0, e));
        assert(inr(b[0].0, e - 1));
        lemma_idx_unique(b, 0, e);
        lemma_idx_unique(b, 0, e - 1);
        // e - 1 lies in a[0]
        assert(inr(a[0].0, e - 1));
        lemma_idx_unique(a, 0, e - 1);
        // e is covered by a, and the covering entry must be a[1], starting exactly at e
        assert(covers(a, e));
        let k = idx_of(a, e);
        assert(0 <= k < a.len() && inr(a[k].0, e));
        assert(k != 0);
        assert(a[0].0.end <= a[k].0.start);
        if k > 1 {
            assert(a[0].0.end <= a[1].0.start);
            assert(a[1].0.start < a[1].0.end);
            assert(a[1].0.end <= a[k].0.start);
        }
        assert(k == 1);
        lemma_idx_unique(a, 1, e);
        assert(a[0].0.end == a[1].0.start);
        assert(!a[0].1.eq_spec(&a[1].1));
        // but a[0].1 == b[0].1 == a[1].1
        assert(val_at(a, e - 1).eq_spec(&val_at(b, e - 1)));
        assert(val_at(b, e).eq_spec(&val_at(a, e)));
        assert(a[0].1.eq_spec(&b[0].1));
        assert(b[0].1.eq_spec(&a[1].1));
        assert(a[0].1.wf() && b[0].1.wf() && a[1].1.wf());
        a[0].1.law_eq_trans(&b[0].1, &a[1].1);
    }
}

/// Canonical forms are unique: two canonical sequences that cover the same clocks with `==`-equal values
/// have the same ranges and entry-wise `==`-equal values.  (This is what makes "equal sets compare and
/// encode equal" true.)
pub proof fn lemma_canon_unique<T: Merge>(a: Seq<Ent<T>>, b: Seq<Ent<T>>)
    requires
        canon(a),
        canon(b),
        forall|c: int| covers(a, c) <==> covers(b, c),
        forall|c: int| covers(a, c) ==> #[trigger] val_at(a, c).eq_spec(&val_at(b, c)),
    ensures
        a.len() == b.len(),
        forall|i: int| 0 <= i < a.len() ==> (#[trigger] a[i]).0 == b[i].0 && a[i].1.eq_spec(&b[i].1),
    decreases a.len(),
{
    if a.len() == 0 {
        lemma_empty_unique(a, b);
    } else if b.len() == 0 {
        lemma_empty_unique(b, a);
    } else {
        lemma_val_eq_sym(a, b);
        // first entries: same start, same end, equal values
        lemma_first_start_le(a, b);
        lemma_first_start_le(b, a);
        lemma_first_end_ge(a, b);
        lemma_first_end_ge(b, a);
        let s = a[0].0.start as int;
        assert(a[0].0.start < a[0].0.end);
        assert(a[0].0 == b[0].0);
        assert(inr(a[0].0, s) && inr(b[0].0, s));
        lemma_idx_unique(a, 0, s);
        lemma_idx_unique(b, 0, s);
        assert(val_at(a, s).eq_spec(&val_at(b, s)));
        assert(a[0].1.eq_spec(&b[0].1));
        // the rest, by induction
        let a1 = a.subrange(1, a.len() as int);
        let b1 = b.subrange(1, b.len() as int);
        lemma_tail(a);
        lemma_tail(b);
        assert forall|c: int| covers(a1, c) <==> covers(b1, c) by {
            assert(covers(a1, c) <==> covers(a, c) && !inr(a[0].0, c));
            assert(covers(b1, c) <==> covers(b, c) && !inr(b[0].0, c));
            assert(covers(a, c) <==> covers(b, c));
            assert(inr(a[0].0, c) == inr(b[0].0, c));
        }
        assert forall|c: int| covers(a1, c) implies #[trigger] val_at(a1, c).eq_spec(&val_at(b1, c)) by {
            assert(covers(b1, c));
            assert(val_at(a1, c) == val_at(a, c));
            assert(val_at(b1, c) == val_at(b, c));
            assert(val_at(a, c).eq_spec(&val_at(b, c)));
        }
        lemma_canon_unique(a1, b1);
        assert forall|i: int| 0 <= i < a.len() implies (#[trigger] a[i]).0 == b[i].0 && a[i].1.eq_spec(&b[i].1) by {
            if i > 0 {
                assert(a1[i - 1] == a[i]);
                assert(b1[i - 1] == b[i]);
            }
        }
    }
}

/// for `T = ()` (IdRange / IdSet): canonical sequences covering the same clocks are identical
pub proof fn lemma_canon_unique_unit(a: Seq<Ent<()>>, b: Seq<Ent<()>>)
    requires
        canon(a),
        canon(b),
        forall|c: int| covers(a, c) <==> covers(b, c),
    ensures
        a =~= b,
{
    axiom_unit_eq();
    assert forall|c: int| covers(a, c) implies #[trigger] val_at(a, c).eq_spec(&val_at(b, c)) by {}
    lemma_canon_unique(a, b);
    assert forall|i: int| 0 <= i < a.len() implies a[i] == b[i] by {
        assert(a[i].0 == b[i].0);
        assert(a[i].1 == b[i].1);
    }
}
