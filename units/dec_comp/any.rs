// units/dec_comp/any.rs — Any::decode of yrs/src/any.rs (recursive)

/// R13: `Arc<[u8]>` is an opaque value that has bytes
#[verifier::external_body]
#[verifier::accept_recursive_types]
pub struct Bytes {
    inner: std::sync::Arc<[u8]>,
}

impl View for Bytes {
    type V = Seq<u8>;

    uninterp spec fn view(&self) -> Seq<u8>;
}

/// std `impl From<&[T]> for Arc<[T]>` ("Allocate a reference-counted slice and fill it by cloning v's items")
#[verifier::external_body]
pub fn vx_arc_bytes(s: &[u8]) -> (r: Bytes)
    ensures
        r@ == s@,
{
    Bytes { inner: std::sync::Arc::from(s) }
}

/// `Arc<[Any]>` / `Arc<HashMap<String, Any>>` are modelled as the owned collections (sharing is irrelevant for decoding)
pub struct AnyArr(pub Vec<Any>);

pub struct AnyMap(pub HashMap<String, Any>);

/*@extract yrs/src/any.rs | - | enum Any | rules=SUB(from=Arc<str>;;to=Str) SUB(from=Arc<[u8]>;;to=Bytes) SUB(from=Arc<[Any]>;;to=AnyArr) SUB(from=Arc<HashMap<String, Any>>;;to=AnyMap) @*/

/// std `f32::from_be_bytes` / `f64::from_be_bytes` / `i64::from_be_bytes`: total functions of the byte array ("Creates a
/// floating point / integer value from its memory representation as a byte array in big endian"); the value is not specified here
pub assume_specification[ f32::from_be_bytes ](bytes: [u8; 4]) -> f32;

pub assume_specification[ f64::from_be_bytes ](bytes: [u8; 8]) -> f64;

/// (`i64::from_be_bytes` takes `[u8; size_of::<Self>()]`, an anonymous constant that assume_specification cannot spell: wrapper)
#[verifier::external_body]
pub fn vx_i64_from_be_bytes(bytes: [u8; 8]) -> i64 {
    i64::from_be_bytes(bytes)
}

pub trait ReadFix: Read {
    /*@extract yrs/src/encoding/read.rs | trait Read: Sized | fn read_f32
    @ret res
    @sig
        requires
            old(self).wf(),
        ensures
            final(self).wf(),
            match res {
                Ok(_) => 4 <= old(self).rest().len() && final(self).rest() == old(self).rest().skip(4),
                Err(_) => old(self).rest().len() < 4 && final(self).rest() == old(self).rest(),
            },
    @*/

    /*@extract yrs/src/encoding/read.rs | trait Read: Sized | fn read_f64
    @ret res
    @sig
        requires
            old(self).wf(),
        ensures
            final(self).wf(),
            match res {
                Ok(_) => 8 <= old(self).rest().len() && final(self).rest() == old(self).rest().skip(8),
                Err(_) => old(self).rest().len() < 8 && final(self).rest() == old(self).rest(),
            },
    @*/

    /*@extract yrs/src/encoding/read.rs | trait Read: Sized | fn read_i64 | rules=SUB(from=i64::from_be_bytes;;to=vx_i64_from_be_bytes)
    @ret res
    @sig
        requires
            old(self).wf(),
        ensures
            final(self).wf(),
            match res {
                Ok(_) => 8 <= old(self).rest().len() && final(self).rest() == old(self).rest().skip(8),
                Err(_) => old(self).rest().len() < 8 && final(self).rest() == old(self).rest(),
            },
    @*/
}

impl<R: Read> ReadFix for R {}

impl Any {
    /*@extract yrs/src/any.rs | impl Any | fn decode | label=any_decode | rules=SUB(from=HashMap::with_capacity;;to=vx_budget(decoder).map_with_capacity::<String, Any>) SUB(from=Vec::with_capacity;;to=vx_budget(decoder).vec_with_capacity::<Any>) SUB(from=Arc::from(str);;to=vx_arc_str(str)) SUB(from=Arc::new(map);;to=AnyMap(map)) SUB(from=Arc::from(arr);;to=AnyArr(arr)) SUB(from=Arc::from(decoder.read_buf()?);;to=vx_arc_bytes(decoder.read_buf()?))
    @ret res
    @sig
        requires
            old(decoder).wf(),
        ensures
            final(decoder).wf(),
            suffix_of(old(decoder).rest(), final(decoder).rest()),
            res is Ok ==> final(decoder).rest().len() < old(decoder).rest().len(),
        decreases old(decoder).rest().len(),
    @*/
}
