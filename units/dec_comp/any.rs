// units/dec_comp/any.rs — Any::decode of yrs/src/any.rs (recursive)

/// R13: `Arc<[u8]>` is an opaque value that has bytes
#[verifier::external_body]
#[verifier::accept_recursive_types]
pub struct Bytes {
    inner: std::sync::Arc<[u8]>,
}

impl View for Bytes {
    type V = Seq<u8>;

    uninterp spec fn view(&self) -> Seq<u8>;
}

/// std `impl From<&[T]> for Arc<[T]>` ("Allocate a reference-counted slice and fill it by cloning v's items")
#[verifier::external_body]
pub fn vx_arc_bytes(s: &[u8]) -> (r: Bytes)
    ensures
        r@ == s@,
{
    Bytes { inner: std::sync::Arc::from(s) }
}

/// `Arc<[Any]>` / `Arc<HashMap<String, Any>>` are modelled as the owned collections (sharing is irrelevant for decoding)
pub struct AnyArr(pub Vec<Any>);

pub struct AnyMap(pub HashMap<String, Any>);

/*@extract yrs/src/any.rs | - | enum Any | rules=SUB(from=Arc<str>;;to=Str) SUB(from=Arc<[u8]>;;to=Bytes) SUB(from=Arc<[Any]>;;to=AnyArr) SUB(from=Arc<HashMap<String, Any>>;;to=AnyMap) @*/

/// std `f32::from_be_bytes` / `f64::from_be_bytes` / `i64::from_be_bytes`: total functions of the byte array ("Creates a
/// floating point / integer value from its memory representation as a byte array in big endian"); the value is not specified here
pub assume_specification[ f32::from_be_bytes ](bytes: [u8; 4]) -> f32;

pub assume_specification[ f64::from_be_bytes ](bytes: [u8; 8]) -> f64;

/// (`i64::from_be_bytes` takes `[u8; size_of::<Self>()]`, an anonymous constant that assume_specification cannot spell: wrapper)
#[verifier::external_body]
pub fn vx_i64_from_be_bytes(bytes: [u8; 8]) -> i64 {
    i64::from_be_bytes(bytes)
}

pub trait ReadFix: Read {
    /*@extract yrs/src/encoding/read.rs | trait Read: Sized | fn read_f32
    @ret res
    @sig
        requires
            old(self).wf(),
        ensures
            final(self).wf(),
            match res {
                Ok(_) => 4 <= old(self).rest().len() && final(self).rest() == old(self).rest().skip(4),
                Err(_) => old(self).rest().len() < 4 && final(self).rest() == old(self).rest(),
            },
    @*/

    /*@extract yrs/src/encoding/read.rs | trait Read: Sized | fn read_f64
    @ret res
    @sig
        requires
            old(self).wf(),
        ensures
            final(self).wf(),
            match res {
                Ok(_) => 8 <= old(self).rest().len() && final(self).rest() == old(self).rest().skip(8),
                Err(_) => old(self).rest().len() < 8 && final(self).rest() == old(self).rest(),
            },
    @*/

    /*@extract yrs/src/encoding/read.rs | trait Read: Sized | fn read_i64 | rules=SUB(from=i64::from_be_bytes;;to=vx_i64_from_be_bytes)
    @ret res
    @sig
        requires
            old(self).wf(),
        ensures
            final(self).wf(),
            match res {
                Ok(_) => 8 <= old(self).rest().len() && final(self).rest() == old(self).rest().skip(8),
                Err(_) => old(self).rest().len() < 8 && final(self).rest() == old(self).rest(),
            },
    @*/
}

impl<R: Read> ReadFix for R {}

impl Any {
    /*@extract yrs/src/any.rs | impl Any | const MAX_DECODE_DEPTH @*/

    // the public entry point: TOTAL + PROGRESS
    /*@extract yrs/src/any.rs | impl Any | fn decode | label=any_decode
    @ret res
    @sig
        requires
            old(decoder).wf(),
        ensures
            final(decoder).wf(),
            suffix_of(old(decoder).rest(), final(decoder).rest()),
            res is Ok ==> final(decoder).rest().len() < old(decoder).rest().len(),
    @*/

    // (a) TOTAL for EVERY `depth` (no panic, `depth + 1` does not overflow) and every input;
    //     BOUNDED RECURSION (F-DC-8, repaired): the termination measure is `MAX_DECODE_DEPTH + 1 - depth`, i.e. the obligation
    //     "every recursive call happens at a depth <= MAX_DECODE_DEPTH and one level deeper" -- at most MAX_DECODE_DEPTH + 2
    //     frames whatever the input (removing the guard or recursing with `depth` fails `any_decode_nested::term`);
    //     PROGRESS: an array element takes >= 1 byte, a map entry >= 2 bytes (invariants `decoder.rest().len() + c * n <= s2.len()`)
    // (b) ALLOCATION BUDGET: both capacity requests go through vx_budget (F-DC-7, repaired: capped at 1024)
    /*@extract yrs/src/any.rs | impl Any | fn decode_nested | label=any_decode_nested | rules=SUB(from=HashMap::with_capacity;;to=vx_budget(decoder).map_with_capacity::<String, Any>) SUB(from=Vec::with_capacity;;to=vx_budget(decoder).vec_with_capacity::<Any>) SUB(from=Arc::from(str);;to=vx_arc_str(str)) SUB(from=Arc::new(map);;to=AnyMap(map)) SUB(from=Arc::from(arr);;to=AnyArr(arr)) SUB(from=Arc::from(decoder.read_buf()?);;to=vx_arc_bytes(decoder.read_buf()?))
    @ret res
    @sig
        requires
            old(decoder).wf(),
        ensures
            final(decoder).wf(),
            suffix_of(old(decoder).rest(), final(decoder).rest()),
            res is Ok ==> final(decoder).rest().len() < old(decoder).rest().len(),
            res is Ok ==> depth <= Self::MAX_DECODE_DEPTH,
        decreases Self::MAX_DECODE_DEPTH + 1 - depth,
    @start
        let ghost s0 = decoder.rest();
        proof {
            lemma_suffix_refl(s0);
            if s0.len() >= 1 {
                // what each arm may consume after the tag byte
                lemma_any_arm_reads(s0);
            }
        }
    @after 1 `stmt:let len`
        let ghost s2 = decoder.rest();
        proof { lemma_suffix_step(s0, s0.skip(1), s2); lemma_suffix_refl(s2); }
    @loop 1 iter=it
        invariant
            s0 == old(decoder).rest(),
            decoder.wf(),
            depth <= Self::MAX_DECODE_DEPTH,
            suffix_of(s0, s2),
            suffix_of(s2, decoder.rest()),
            s2.len() < s0.len(),
            0 <= it.index@,
            decoder.rest().len() + 2 * it.index@ <= s2.len(),
    @before 1 `stmt:let key`
        let ghost sa = decoder.rest();
        proof {
            lemma_suffix_step(s0, s2, sa);
            lemma_suffix_trans(s0, sa);
            lemma_dec_buf_bounded(sa);
            // (`key` borrows the decoder until the insert below: what is left after the key is named through the spec)
            if dec_buf(sa) is Some {
                let sb = sa.skip(dec_buf(sa)->Some_0.1 as int);
                lemma_suffix_skip(sa, dec_buf(sa)->Some_0.1);
                lemma_suffix_step(s0, sa, sb);
                lemma_suffix_step(s2, sa, sb);
                lemma_suffix_trans(s0, sb);
            }
        }
    @after 1 `stmt:call insert`
        proof { lemma_suffix_step(s2, sa.skip(dec_buf(sa)->Some_0.1 as int), decoder.rest()); }
    @after 1 `stmt:for`
        proof { lemma_suffix_step(s0, s2, decoder.rest()); }
    @after 2 `stmt:let len`
        let ghost s2 = decoder.rest();
        proof { lemma_suffix_step(s0, s0.skip(1), s2); lemma_suffix_refl(s2); }
    @loop 2 iter=it
        invariant
            s0 == old(decoder).rest(),
            decoder.wf(),
            depth <= Self::MAX_DECODE_DEPTH,
            suffix_of(s0, s2),
            suffix_of(s2, decoder.rest()),
            s2.len() < s0.len(),
            0 <= it.index@,
            decoder.rest().len() + it.index@ <= s2.len(),
    @before 1 `stmt:call push`
        let ghost sa = decoder.rest();
        proof {
            lemma_suffix_step(s0, s2, sa);
            lemma_suffix_trans(s0, sa);
        }
    @after 1 `stmt:call push`
        proof { lemma_suffix_step(s2, sa, decoder.rest()); }
    @after 2 `stmt:for`
        proof { lemma_suffix_step(s0, s2, decoder.rest()); }
    @*/
}

/// after the tag byte: whatever an arm of `Any::decode` reads next, what it leaves is a suffix of the input
pub proof fn lemma_any_arm_reads(s0: Seq<u8>)
    requires
        s0.len() >= 1,
    ensures
        suffix_of(s0, s0.skip(1)),
        forall|c: Seq<u8>| #[trigger] suffix_of(s0.skip(1), c) ==> suffix_of(s0, c),
        match <i64 as VarInt>::dec(s0.skip(1)) { Some((v, k)) => suffix_of(s0, s0.skip(1).skip(k as int)), None => true },
        match <usize as VarInt>::dec(s0.skip(1)) { Some((v, k)) => suffix_of(s0.skip(1), s0.skip(1).skip(k as int)), None => true },
        match dec_buf(s0.skip(1)) { Some((v, k)) => suffix_of(s0, s0.skip(1).skip(k as int)), None => true },
        s0.len() >= 5 ==> suffix_of(s0, s0.skip(1).skip(4)),
        s0.len() >= 9 ==> suffix_of(s0, s0.skip(1).skip(8)),
{
    let s1 = s0.skip(1);
    lemma_suffix_skip(s0, 1);
    lemma_suffix_trans(s0, s1);
    <i64 as VarInt>::law_dec_bounded(s1);
    if <i64 as VarInt>::dec(s1) is Some { lemma_suffix_skip(s1, <i64 as VarInt>::dec(s1)->Some_0.1); }
    <usize as VarInt>::law_dec_bounded(s1);
    if <usize as VarInt>::dec(s1) is Some { lemma_suffix_skip(s1, <usize as VarInt>::dec(s1)->Some_0.1); }
    lemma_dec_buf_bounded(s1);
    if dec_buf(s1) is Some { lemma_suffix_skip(s1, dec_buf(s1)->Some_0.1); }
    if s0.len() >= 5 { lemma_suffix_skip(s1, 4); }
    if s0.len() >= 9 { lemma_suffix_skip(s1, 8); }
}
