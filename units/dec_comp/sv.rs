// units/dec_comp/sv.rs — StateVector / Snapshot decoders of yrs/src/state_vector.rs

// the hasher is not modelled (as in unit sv): `HashMap<ClientID, u32, BuildHasherDefault<ClientHasher>>` is spelled `HashMap<ClientID, u32>`
/*@extract yrs/src/state_vector.rs | - | struct StateVector | rules=SUB(from=HashMap<ClientID, u32, BuildHasherDefault<ClientHasher>>;;to=HashMap<ClientID, u32>) @*/

impl View for StateVector {
    type V = Map<ClientID, u32>;

    closed spec fn view(&self) -> Map<ClientID, u32> {
        self.0@
    }
}

/// one (client, clock) pair of a state vector: the client as u64 var-int, the clock as u32 var-int
pub open spec fn dec_sv_item(s: Seq<u8>) -> Option<((ClientID, u32), nat)> {
    match dec_u64(s) {
        None => None,
        Some((client, k)) => match dec_u32(s.skip(k as int)) {
            None => None,
            Some((clock, k2)) => if client_id_53bit(client) { Some(((ClientID(client), clock), k + k2)) } else { None },
        },
    }
}

pub open spec fn sv_item() -> spec_fn(Seq<u8>) -> Option<((ClientID, u32), nat)> {
    |s: Seq<u8>| dec_sv_item(s)
}

/// `StateVector::decode`: a u32 count, then that many pairs (a repeated client REPLACES the earlier clock)
pub open spec fn dec_sv(s: Seq<u8>) -> Option<(Map<ClientID, u32>, nat)> {
    match dec_u32(s) {
        None => None,
        Some((n, k)) => match dec_list(sv_item(), s.skip(k as int), n as nat) {
            None => None,
            Some((items, k2)) => Some((map_of(items), k + k2)),
        },
    }
}

pub proof fn lemma_sv_item_bounded()
    ensures
        item_bounded(sv_item(), 2),
{
    assert forall|s: Seq<u8>| (#[trigger] sv_item()(s)) is Some implies 2 <= sv_item()(s)->Some_0.1 <= s.len() by {
        lemma_dec_u64_bounded(s);
        lemma_dec_u32_bounded(s.skip(dec_u64(s)->Some_0.1 as int));
    }
}

impl Decode for StateVector {
    // (a) TOTAL + PROGRESS: every iteration consumes >= 2 bytes (invariant `decoder.rest().len() + 2 * i <= s1.len()`)
    //     the client id goes through `ClientID::decode` (F-DC-4, repaired): a value >= 2^53 is an error
    // (b) ALLOCATION BUDGET: the capacity request goes through vx_budget (F-DC-3, repaired: capped at 1024)
    // (c) RESULT SHAPE: at most (consumed bytes) / 2 clients
    // (d) for EVERY decoder (only `Read` methods are used): equality with `dec_sv`
    /*@extract yrs/src/state_vector.rs | impl Decode for StateVector | fn decode | label=sv_decode | rules=SUB(from=HashMap::with_capacity_and_hasher;;to=vx_budget(decoder).map_with_capacity_and_hasher::<ClientID, u32>) SUB(from=BuildHasherDefault::default();;to=VxHasher)
    @ret res
    @sig
        ensures
            res is Ok ==> 2 * res->Ok_0@.len() < old(decoder).rest().len() - final(decoder).rest().len(),
            match dec_sv(old(decoder).rest()) {
                Some((m, k)) => res is Ok && res->Ok_0@ == m && k <= old(decoder).rest().len() && final(decoder).rest() == old(decoder).rest().skip(k as int),
                None => res is Err,
            },
    @start
        let ghost s0 = decoder.rest();
        let ghost mut kk: nat = 0;
        let ghost mut items = Seq::<(ClientID, u32)>::empty();
        proof { lemma_dec_u32_bounded(s0); }
    @after 1 `stmt:let len`
        let ghost s1 = decoder.rest();
        proof {
            lemma_suffix_skip(s0, dec_u32(s0)->Some_0.1);
            lemma_suffix_refl(s1);
            lemma_dec_list_start(sv_item(), s1, len as nat);
        }
    @loop 1
        invariant
            s0 == old(decoder).rest(),
            decoder.wf(),
            suffix_of(s0, s1),
            suffix_of(s1, decoder.rest()),
            s1.len() < s0.len(),
            0 <= i <= len,
            items.len() == i,
            sv@ == map_of(items),
            decoder.rest().len() + 2 * i <= s1.len(),
            dec_u32(s0) is Some && dec_u32(s0)->Some_0.0 == len && s1 == s0.skip(dec_u32(s0)->Some_0.1 as int),
            kk <= s1.len() && decoder.rest() == s1.skip(kk as int)
                && dec_list(sv_item(), s1, len as nat) == list_join(items, kk, dec_list(sv_item(), decoder.rest(), (len - i) as nat)),
        decreases len - i,
    @before 1 `stmt:let client`
        let ghost sa = decoder.rest();
        proof {
            lemma_suffix_step(s0, s1, sa);
            lemma_suffix_trans(s0, sa);
            lemma_dec_u64_bounded(sa);
            lemma_sv_item_bounded();
            lemma_dec_list_step(sv_item(), 2, s1, len as nat, items, kk, (len - i) as nat);
        }
    @after 1 `stmt:let client`
        let ghost sb = decoder.rest();
        proof {
            lemma_read_progress::<u64>(sa, sb, Ok::<u64, Error>(client));
            lemma_suffix_step(s0, sa, sb);
            lemma_suffix_step(s1, sa, sb);
            lemma_suffix_trans(s0, sb);
            lemma_skip_skip_all(sa, dec_u64(sa)->Some_0.1);
            lemma_dec_u32_bounded(sb);
        }
    @before 1 `stmt:call insert`
        proof {
            lemma_suffix_skip(sb, dec_u32(sb)->Some_0.1);
            lemma_suffix_step(s1, sb, decoder.rest());
            lemma_suffix_step(s0, sb, decoder.rest());
        }
    @after 1 `stmt:call insert`
        proof {
            let cid = ClientID(client);
            lemma_map_of_push(items, cid, clock);
            items = items.push((cid, clock));
            assert(dec_sv_item(sa) == sv_item()(sa));
            kk = kk + dec_sv_item(sa)->Some_0.1;
        }
    @before 1 `stmt:call Ok`
        proof {
            lemma_suffix_step(s0, s1, decoder.rest());
            lemma_map_of_len(items);
            lemma_counted_finish(sv_item(), s0, dec_u32(s0)->Some_0.1, len as nat, s1, items, kk);
        }
    @*/
}

// ---------------------------------------------------------------------------------------------
// Snapshot
// ---------------------------------------------------------------------------------------------
/*@extract yrs/src/state_vector.rs | - | struct Snapshot @*/

impl Snapshot {
    /*@extract yrs/src/state_vector.rs | impl Snapshot | fn new | label=snapshot_new
    @ret r
    @sig
        ensures r == (Snapshot { delete_set, state_map }),
    @*/
}

/// `Snapshot::decode`: the delete set, then the state vector
pub open spec fn dec_snapshot(s: Seq<u8>) -> Option<((Seq<IdItem>, Map<ClientID, u32>), nat)> {
    match dec_idset(s) {
        None => None,
        Some((ds, k)) => match dec_sv(s.skip(k as int)) {
            None => None,
            Some((sm, k2)) => Some(((ds, sm), k + k2)),
        },
    }
}

impl Decode for Snapshot {
    // TOTAL + PROGRESS, bounded result, the delete set satisfies the representation invariant (wf_map: canonical, no empty
    // entry); v1: the delete set is THE set of the decoded client sections (`idset_of`), the state vector equals `dec_snapshot`'s
    /*@extract yrs/src/state_vector.rs | impl Decode for Snapshot | fn decode | label=snapshot_decode
    @ret res
    @sig
        ensures
            res is Ok ==> 2 * res->Ok_0.delete_set@.len() + 2 * res->Ok_0.state_map@.len() < old(decoder).rest().len() - final(decoder).rest().len(),
            res is Ok ==> ranges_ordered(res->Ok_0.delete_set@),
            res is Ok ==> wf_map(res->Ok_0.delete_set@),
            D::v1() ==> match dec_snapshot(old(decoder).rest()) {
                Some((v, k)) => res is Ok && idset_of(v.0, res->Ok_0.delete_set@) && res->Ok_0.state_map@ == v.1 && k <= old(decoder).rest().len()
                    && final(decoder).rest() == old(decoder).rest().skip(k as int),
                None => res is Err,
            },
    @start
        let ghost s0 = decoder.rest();
    @after 1 `stmt:let ds`
        let ghost s1 = decoder.rest();
        proof {
            lemma_suffix_trans(s0, s1);
            lemma_suffix_len(s0, s1);
            if D::v1() {
                lemma_skip_skip_all(s0, dec_idset(s0)->Some_0.1);
            }
        }
    @*/
}
