// units/dec_comp/idmap.rs — `IdMap<A>::decode` of yrs/src/id_map.rs (attributed id map; generic `A: DeserializeOwned + ..`)
//
// MODEL (everything else is the text of /repo)
//   ContentAttribute<A>      OPAQUE stand-in (real: `Arc<{name: String, value: A}>`); `new` / `clone` / `==` / `hash` are opaque total
//                            functions without a contract (the real bodies: Arc::new, Arc::clone, derived impls)
//   ContentAttributes<A>     ABSTRACT: any `CA: AttrsOf<A>` = a `Merge` implementor (trait contract of units/ids_common/base.rs)
//                            that can be built from a list of attributes and is then `wf()`.  The real implementor is proved
//                            against the Merge contract in unit ids_attrs with `wf := true` (every list is a valid value), which
//                            is what `vx_from_attrs` states.  Type spelling `ContentAttributes<A>` -> `CA`, constructor
//                            `ContentAttributes(attrs)` -> `CA::vx_from_attrs(attrs)` (SUB, logged).
//   IdMap<A>                 `IdMap<A, CA> { attrs: HashSet<ContentAttribute<A>>, inner: IdMapInner<CA> }` (the real fields)
//   DeserializeOwned, from_any   ABSTRACT: marker trait + an opaque total function `from_any(&Any) -> Result<A, Error>` (real: serde
//                            deserialisation, then `?` converts the serde error with `From`; the conversion is part of the stand-in)
//   Decoder::read_any        abstract trait contract = the contract PROVED for `Any::decode` (never rewinds, stays inside the
//                            input, consumes >= 1 byte on success); the real bodies of DecoderV1 / DecoderV2 are verified against it
//   IdMapInner::insert_range external_body STUB of unit ids_lift, label inner_insert_range (contract text cross-checked)
//
// CONTRACT of IdMap::decode
//   (a) TOTAL: no index out of bounds at `visited_attributions[attr_id]` / `visited_attr_names[attr_name_id]` (a dangling id
//       is an error: F-DC-11, repaired), no overflow of `last_client_id + diff` / `range_clock + range_len` (checked_add:
//       F-DC-12, repaired), termination; never rewinds / reads beyond the input; PROGRESS (trait): Ok ==> >= 1 byte consumed
//   (b) BOUNDED ALLOCATION, stated as everywhere in this unit by "elements <= bytes consumed": every client iteration consumes
//       >= 2 bytes, every range >= 3, every attribute reference >= 1, and
//           visited_attributions.len() + visited_attr_names.len() <= bytes consumed so far          (loops 1-3)
//           3 * entries.len()  <= bytes consumed in this client section                             (loop 2)
//           attrs.len()        <= bytes consumed in this range                                      (loop 3)
//       No capacity is requested up front (all five collections start empty and grow by `push`).
//   (c) RESULT: `wf_map` -- every per-client entry canonical and non-empty (through the proved contract of insert_range:
//       F-DC-13, repaired: ranges were stored as received), at most (consumed bytes) / 2 clients.
//   (d) STRICT (F-DC-14, repaired: normalising arbitrary ranges was cubic): three lifted regions of the same source text (R18),
//       each a function of its own so that its clauses are CONTRACT clauses:
//         idmap_check_client   (`let diff` + check) Err(UnexpectedValue) iff the delta reads as 0 after the first section
//         idmap_check_range    (`let range_end` + check) Ok iff non-empty, inside the clock space and not before the end of its
//                              predecessor; Err(UnexpectedValue) for an empty / unordered / overlapping range
//         idmap_store_section  for a strict list (`ranges_ok`: non-empty, ascending, disjoint) of a client that is not in the map yet
//                              the stored entry is EXACTLY the wire list coalesced: the same clocks, and every clock keeps the
//                              attributes it has on the wire (`eq_spec`; nothing is merged because nothing overlaps); no entry
//                              for an empty list.  Canonical forms are unique (unit ids_subset), so this determines the entry.
//       `IdMap::decode` itself proves that both preconditions hold where the real loop runs (invariants: `ranges_ok(entries@)`,
//       every stored client <= last_client_id).
// ---------------------------------------------------------------------------------------------

/// R13: opaque stand-in for `ContentAttribute<A>` (`Arc<ContentAttributeInner<A>>`)
#[verifier::external_body]
#[verifier::accept_recursive_types(A)]
pub struct ContentAttribute<A> {
    inner: std::sync::Arc<(String, A)>,
}

impl<A> Clone for ContentAttribute<A> {
    /// real: `ContentAttribute(self.0.clone())` (Arc::clone)
    #[verifier::external_body]
    fn clone(&self) -> Self {
        ContentAttribute { inner: self.inner.clone() }
    }
}

impl<A: PartialEq> PartialEq for ContentAttribute<A> {
    /// real: derived
    #[verifier::external_body]
    fn eq(&self, other: &Self) -> bool {
        self.inner == other.inner
    }
}

impl<A: Eq> Eq for ContentAttribute<A> {}

impl<A: std::hash::Hash> std::hash::Hash for ContentAttribute<A> {
    /// real: derived
    #[verifier::external_body]
    fn hash<H: std::hash::Hasher>(&self, state: &mut H) {
        self.inner.hash(state)
    }
}

impl<A> ContentAttribute<A> {
    /// real: `ContentAttribute(Arc::new(ContentAttributeInner { name: name.into(), value }))` (`S: Into<String>` instantiated with String)
    #[verifier::external_body]
    pub fn new(name: String, value: A) -> Self {
        ContentAttribute { inner: std::sync::Arc::new((name, value)) }
    }
}

/// ABSTRACT `ContentAttributes<A>`: a Merge implementor that can be built from any attribute list (see MODEL above)
pub trait AttrsOf<A>: Merge {
    fn vx_from_attrs(attrs: Vec<ContentAttribute<A>>) -> (r: Self)
        ensures
            r.wf(),
    ;
}

/// ABSTRACT stand-in for serde's `DeserializeOwned`
pub trait DeserializeOwned: Sized {
    /// what `from_any::<Self>` computes: an arbitrary TOTAL function of the value
    fn vx_from_any(any: &Any) -> Result<Self, Error>;
}

/// `crate::encoding::serde::from_any` followed by the `From` conversion of its error that `?` performs
pub fn from_any<A: DeserializeOwned>(any: &Any) -> Result<A, Error> {
    A::vx_from_any(any)
}

/// the attribute value at a member point (text of unit ids_lift)
pub open spec fn val<T>(m: Map<ClientID, Seq<Ent<T>>>, client: ClientID, clock: int) -> T {
    val_at(m[client], clock)
}

impl<T: Merge> IdMapInner<T> {
    /*@extract yrs/src/ids.rs | impl<T: Merge> IdMapInner<T> | fn new | label=inner_new
    @ret r
    @sig
        ensures r@ == Map::<ClientID, Seq<Ent<T>>>::empty(),
    @*/

    // STUB: proved in unit ids_lift, label inner_insert_range (contract text cross-checked by the extractor on every run)
    #[verifier::external_body]
    /*@extract yrs/src/ids.rs | impl<T: Merge> IdMapInner<T> | fn insert_range | label=stub_inner_insert_range
    @sig
        requires wf_map(old(self)@), value.wf(),
        ensures
            wf_map(final(self)@),
            same_except(final(self)@, old(self)@, client_id),
            forall|c: ClientID, k: int| #![trigger has_pt(final(self)@, c, k)] #![trigger has_pt(old(self)@, c, k)] has_pt(final(self)@, c, k) <==> has_pt(old(self)@, c, k) || (c == client_id && inr(range, k)),
            forall|k: int| has_pt(old(self)@, client_id, k) && !inr(range, k) ==> #[trigger] val(final(self)@, client_id, k).eq_spec(&val(old(self)@, client_id, k)),
            forall|k: int| !has_pt(old(self)@, client_id, k) && inr(range, k) ==> #[trigger] val(final(self)@, client_id, k).eq_spec(&value),
            forall|k: int| has_pt(old(self)@, client_id, k) && inr(range, k) ==> #[trigger] val(final(self)@, client_id, k).eq_spec(&val(old(self)@, client_id, k).merge_spec(&value)),
    @*/
}

/// `IdMap<A>` with the value type abstracted (see MODEL); both real fields are kept
pub struct IdMap<A, CA: Merge> {
    pub attrs: std::collections::HashSet<ContentAttribute<A>>,
    pub inner: IdMapInner<CA>,
}

impl<A, CA: Merge> IdMap<A, CA> {
    pub open spec fn view(&self) -> Map<ClientID, Seq<Ent<CA>>> {
        self.inner@
    }
}

impl<A: PartialEq + Eq + std::hash::Hash + Clone, CA: Merge> IdMap<A, CA> {
    /*@extract yrs/src/id_map.rs | impl<A: PartialEq + Eq + Hash + Clone> IdMap<A> | fn new | label=idmap_new | rules=SUB(from=attrs: Default::default(),;;to=attrs: std::collections::HashSet::new(),)
    @ret r
    @sig
        ensures r@ == Map::<ClientID, Seq<Ent<CA>>>::empty(),
    @*/
}

/// all attached values are well-formed
pub open spec fn ents_wf<T: Merge>(s: Seq<Ent<T>>) -> bool {
    forall|j: int| 0 <= j < s.len() ==> (#[trigger] s[j]).1.wf()
}

/// `same_except` composes (the inserting loop touches one client only)
pub proof fn lemma_same_except_trans<T>(a: Map<ClientID, Seq<Ent<T>>>, b: Map<ClientID, Seq<Ent<T>>>, c: Map<ClientID, Seq<Ent<T>>>, k: ClientID)
    requires
        same_except(a, b, k),
        same_except(b, c, k),
    ensures
        same_except(a, c, k),
{
    assert forall|x: ClientID| x != k implies (#[trigger] a.contains_key(x) == c.contains_key(x)) && (a.contains_key(x) ==> a[x] == c[x]) by {
        assert(a.contains_key(x) == b.contains_key(x));
        assert(b.contains_key(x) == c.contains_key(x));
    }
}

/// a map that differs from `m0` in one client only has at most one client more
pub proof fn lemma_same_except_len<T>(m1: Map<ClientID, Seq<Ent<T>>>, m0: Map<ClientID, Seq<Ent<T>>>, k: ClientID)
    requires
        same_except(m1, m0, k),
        m0.dom().finite(),
    ensures
        m1.dom().finite(),
        m1.len() <= m0.len() + 1,
{
    assert(m1.dom().subset_of(m0.dom().insert(k))) by {
        assert forall|c: ClientID| m1.dom().contains(c) implies m0.dom().insert(k).contains(c) by {
            if c != k {
                assert(m1.contains_key(c) == m0.contains_key(c));
            }
        }
    }
    vstd::set_lib::lemma_len_subset(m1.dom(), m0.dom().insert(k));
}

/// the facts that hold throughout `IdMap::decode`: the reader only moves forward inside the input, and the two interning
/// tables have grown by at most one element per consumed byte
pub open spec fn idmap_glob(s0: Seq<u8>, rest: Seq<u8>, nv: nat, nn: nat) -> bool {
    &&& suffix_of(s0, rest)
    &&& rest.len() <= s0.len()
    &&& nv + nn <= s0.len() - rest.len()
}

/// one read inside the decoder: `a` -> `b` consumed `d` >= `c` bytes
pub proof fn lemma_glob_read(s0: Seq<u8>, a: Seq<u8>, b: Seq<u8>, nv: nat, nn: nat)
    requires
        idmap_glob(s0, a, nv, nn),
        suffix_of(a, b),
    ensures
        idmap_glob(s0, b, nv, nn),
        b.len() <= a.len(),
        // (for the next read: whatever it leaves behind is still inside the input)
        forall|c: Seq<u8>| #[trigger] suffix_of(b, c) ==> suffix_of(s0, c),
{
    lemma_suffix_trans(s0, a);
    lemma_suffix_len(a, b);
    lemma_suffix_trans(s0, b);
}

impl<A: DeserializeOwned + PartialEq + Eq + std::hash::Hash + Clone, CA: AttrsOf<A>> Decode for IdMap<A, CA> {
    /*@extract yrs/src/id_map.rs | impl<A: DeserializeOwned + PartialEq + Eq + Hash + Clone> Decode for IdMap<A> | fn decode | label=idmap_decode | rules=SUB(from=SmallVec<[(Range<u32>, ContentAttributes<A>); 1]>;;to=Vec<(Range<u32>, CA)>) SUB(from=ContentAttributes(attrs);;to=CA::vx_from_attrs(attrs))
    @ret res
    @sig
        ensures
            res is Ok ==> wf_map(res->Ok_0@),
            res is Ok ==> 2 * res->Ok_0@.len() < old(decoder).rest().len() - final(decoder).rest().len(),
    @start
        let ghost s0 = decoder.rest();
    @after 1 `stmt:let num_clients`
        let ghost s1 = decoder.rest();
        proof {
            lemma_read_progress::<u32>(s0, s1, Ok::<u32, Error>(num_clients));
            lemma_suffix_len(s0, s1);
        }
    @loop 1 iter=it1
        invariant
            s0 == old(decoder).rest(),
            decoder.wf(),
            s1.len() < s0.len(),
            idmap_glob(s0, decoder.rest(), visited_attributions@.len(), visited_attr_names@.len()),
            decoder.rest().len() + 2 * it1.index@ <= s1.len(),
            wf_map(id_map@),
            id_map@.dom().finite(),
            id_map@.len() <= it1.index@,
            // STRICT (F-DC-14, repaired): the clients arrive in strictly ascending order
            forall|c: ClientID| #[trigger] id_map@.contains_key(c) ==> c.0 <= last_client_id && it1.index@ > 0,
    @loopstart 1
        let ghost sa = decoder.rest();
        let ghost m0 = id_map@;
        proof { lemma_suffix_trans(s0, sa); }
    @after 1 `stmt:let diff`
        let ghost sb = decoder.rest();
        proof {
            lemma_read_progress::<u64>(sa, sb, Ok::<u64, Error>(diff));
            lemma_glob_read(s0, sa, sb, visited_attributions@.len(), visited_attr_names@.len());
        }
    @after 1 `stmt:let num_ranges`
        let ghost cu = client;
        let ghost sc = decoder.rest();
        proof {
            lemma_read_progress::<u32>(sb, sc, Ok::<u32, Error>(num_ranges));
            lemma_glob_read(s0, sb, sc, visited_attributions@.len(), visited_attr_names@.len());
        }
    @loop 2 iter=it2
        invariant
            s0 == old(decoder).rest(),
            decoder.wf(),
            idmap_glob(s0, decoder.rest(), visited_attributions@.len(), visited_attr_names@.len()),
            sc.len() + 2 <= sa.len(),
            decoder.rest().len() <= sc.len(),
            3 * entries@.len() <= sc.len() - decoder.rest().len(),
            ents_wf(entries@),
            // STRICT (F-DC-14, repaired): the ranges of a client arrive non-empty, ascending, without overlaps
            ranges_ok(entries@),
            id_map@ == m0,
    @loopstart 2
        let ghost sd = decoder.rest();
        proof { lemma_suffix_trans(s0, sd); }
    @after 1 `stmt:let range_clock`
        let ghost se = decoder.rest();
        proof { lemma_glob_read(s0, sd, se, visited_attributions@.len(), visited_attr_names@.len()); }
    @after 1 `stmt:let range_len`
        let ghost sf = decoder.rest();
        proof { lemma_glob_read(s0, se, sf, visited_attributions@.len(), visited_attr_names@.len()); }
    @after 1 `stmt:let attrs_len`
        let ghost sr = decoder.rest();
        proof {
            lemma_read_progress::<u32>(sf, sr, Ok::<u32, Error>(attrs_len));
            lemma_glob_read(s0, sf, sr, visited_attributions@.len(), visited_attr_names@.len());
        }
    @loop 3 iter=it3
        invariant
            s0 == old(decoder).rest(),
            decoder.wf(),
            idmap_glob(s0, decoder.rest(), visited_attributions@.len(), visited_attr_names@.len()),
            sr.len() + 3 <= sd.len(),
            decoder.rest().len() <= sr.len(),
            attrs@.len() <= sr.len() - decoder.rest().len(),
    @loopstart 3
        let ghost sg = decoder.rest();
        proof { lemma_suffix_trans(s0, sg); }
    @after 1 `stmt:let attr_id`
        let ghost sh = decoder.rest();
        proof {
            lemma_read_progress::<usize>(sg, sh, Ok::<usize, Error>(attr_id));
            lemma_glob_read(s0, sg, sh, visited_attributions@.len(), visited_attr_names@.len());
        }
    @after 1 `stmt:let attr_name_id`
        let ghost si = decoder.rest();
        proof {
            lemma_read_progress::<usize>(sh, si, Ok::<usize, Error>(attr_name_id));
            lemma_glob_read(s0, sh, si, visited_attributions@.len(), visited_attr_names@.len());
            lemma_dec_buf_bounded(si);
            if dec_buf(si) is Some { lemma_suffix_skip(si, dec_buf(si)->Some_0.1); }
        }
    @before 1 `stmt:let any`
        let ghost sj = decoder.rest();
        proof {
            lemma_suffix_refl(si);
            lemma_glob_read(s0, si, sj, visited_attributions@.len(), (visited_attr_names@.len() - (if sj.len() < si.len() { 1int } else { 0int })) as nat);
        }
    @after 1 `stmt:let any`
        proof {
            lemma_suffix_len(sj, decoder.rest());
            lemma_suffix_trans(s0, sj);
        }
    @before 4 `stmt:for`
        proof {
            // the preconditions of the lifted section store `idmap_store_section` hold at the real site (strict input)
            assert(ranges_ok(entries@) && ents_wf(entries@) && !id_map@.contains_key(client));
        }
    @loop 4 iter=it4
        invariant
            s0 == old(decoder).rest(),
            decoder.wf(),
            idmap_glob(s0, decoder.rest(), visited_attributions@.len(), visited_attr_names@.len()),
            decoder.rest().len() + 2 <= sa.len(),
            ents_wf(it4.seq()),
            wf_map(id_map@),
            same_except(id_map@, m0, client),
    @loopstart 4
        let ghost m1 = id_map@;
        proof { assert(it4.seq()[it4.index@ as int].1.wf()); }
    @loopend 4
        proof { lemma_same_except_trans(id_map@, m1, m0, client); }
    @afterloop 4
        proof {
            lemma_same_except_len(id_map@, m0, client);
            assert forall|c: ClientID| #[trigger] id_map@.contains_key(c) implies c.0 <= last_client_id by {
                if c != client {
                    assert(id_map@.contains_key(c) == m0.contains_key(c));
                }
            }
        }
    @before 5 `stmt:for`
        let ghost mf = id_map@;
    @loop 5 iter=it5
        invariant
            s0 == old(decoder).rest(),
            decoder.wf(),
            suffix_of(s0, decoder.rest()),
            s1.len() < s0.len(),
            decoder.rest().len() + 2 * mf.len() <= s1.len(),
            id_map@ == mf,
            wf_map(mf),
    @*/
}

// ---------------------------------------------------------------------------------------------
// STRICTNESS: three statement regions of `IdMap::decode`, lifted (R18; the same source text as above)
// ---------------------------------------------------------------------------------------------
// (both check regions START at a statement that is there with or without the check -- `let diff` / `let range_end` -- so that a
// dropped check leaves a region that still assembles and FAILS its contract instead of losing its anchor)
/*@extract yrs/src/id_map.rs | impl<A: DeserializeOwned + PartialEq + Eq + Hash + Clone> Decode for IdMap<A> | region decode | stmt=stmt:let diff | until=stmt:let client | tail=Ok(diff) | label=idmap_check_client
@header
    fn idmap_check_client<D: Decoder>(decoder: &mut D, i: u32) -> (r: Result<u64, Error>)
@sig
    requires
        old(decoder).wf(),
    ensures
        final(decoder).wf(),
        match dec_u64(old(decoder).rest()) {
            // a repeated client (delta 0 after the first section) is rejected as Error::UnexpectedValue ...
            Some((d, k)) => if i > 0 && d == 0 { r is Err && r->Err_0 is UnexpectedValue } else { r == Ok::<u64, Error>(d) },
            None => r is Err,
        },
        // ... so the clients of an accepted id map are strictly ascending
        r is Ok ==> i == 0 || r->Ok_0 > 0,
@*/

/*@extract yrs/src/id_map.rs | impl<A: DeserializeOwned + PartialEq + Eq + Hash + Clone> Decode for IdMap<A> | region decode | stmt=stmt:let range_end | until=stmt:call push ~ range_end | tail=Ok(range_end) | label=idmap_check_range
@header
    fn idmap_check_range<CA: Merge>(entries: &Vec<(Range<u32>, CA)>, range_clock: u32, range_len: u32) -> (r: Result<u32, Error>)
@sig
    ensures
        // accepted: exactly the non-empty ranges that fit the clock space and start at or after the end of their predecessor
        r is Ok <==> range_len != 0 && range_clock + range_len <= u32::MAX && (entries@.len() == 0 || entries@.last().0.end <= range_clock),
        r is Ok ==> r->Ok_0 == range_clock + range_len,
        // an empty range, and a range that starts before the end of its predecessor (unordered or overlapping), are rejected as
        // Error::UnexpectedValue (an overflowing one as InvalidVarInt)
        range_clock + range_len <= u32::MAX && r is Err ==> r->Err_0 is UnexpectedValue,
        range_clock + range_len > u32::MAX ==> r is Err && r->Err_0 is InvalidVarInt,
@*/

/// clock `k` lies in one of the first `n` entries
pub open spec fn ent_upto<T>(s: Seq<Ent<T>>, n: int, k: int) -> bool {
    exists|j: int| 0 <= j < n && j < s.len() && inr((#[trigger] s[j]).0, k)
}

/// the value at a covered clock of a canonical list is well-formed
pub proof fn lemma_val_wf<T: Merge>(s: Seq<Ent<T>>, k: int)
    requires
        canon(s),
        covers(s, k),
    ensures
        val_at(s, k).wf(),
{
    let i = idx_of(s, k);
    assert(0 <= i < s.len() && inr(s[i].0, k));
    assert(s[i].1.wf());
}

/// one iteration of the section store (the contract of `insert_range` is the hypotheses about m1 / m2)
pub proof fn lemma_store_step<T: Merge>(m0: Map<ClientID, Seq<Ent<T>>>, m1: Map<ClientID, Seq<Ent<T>>>, m2: Map<ClientID, Seq<Ent<T>>>, client: ClientID, es: Seq<Ent<T>>, n: int)
    requires
        ranges_ok(es),
        ents_wf(es),
        0 <= n < es.len(),
        wf_map(m1),
        wf_map(m2),
        same_except(m1, m0, client),
        same_except(m2, m1, client),
        forall|k: int| #![trigger has_pt(m1, client, k)] has_pt(m1, client, k) <==> ent_upto(es, n, k),
        forall|k: int| has_pt(m1, client, k) ==> #[trigger] val(m1, client, k).eq_spec(&val_at(es, k)),
        forall|c: ClientID, k: int| #![trigger has_pt(m2, c, k)] #![trigger has_pt(m1, c, k)] has_pt(m2, c, k) <==> has_pt(m1, c, k) || (c == client && inr(es[n].0, k)),
        forall|k: int| has_pt(m1, client, k) && !inr(es[n].0, k) ==> #[trigger] val(m2, client, k).eq_spec(&val(m1, client, k)),
        forall|k: int| !has_pt(m1, client, k) && inr(es[n].0, k) ==> #[trigger] val(m2, client, k).eq_spec(&es[n].1),
    ensures
        same_except(m2, m0, client),
        forall|k: int| #![trigger has_pt(m2, client, k)] has_pt(m2, client, k) <==> ent_upto(es, n + 1, k),
        forall|k: int| has_pt(m2, client, k) ==> #[trigger] val(m2, client, k).eq_spec(&val_at(es, k)),
{
    lemma_same_except_trans(m2, m1, m0, client);
    assert forall|k: int| #![trigger has_pt(m2, client, k)] has_pt(m2, client, k) <==> ent_upto(es, n + 1, k) by {
        assert(has_pt(m2, client, k) <==> has_pt(m1, client, k) || inr(es[n].0, k));
        assert(has_pt(m1, client, k) <==> ent_upto(es, n, k));
        if ent_upto(es, n, k) {
            let j = choose|j: int| 0 <= j < n && j < es.len() && inr((#[trigger] es[j]).0, k);
            assert(0 <= j < n + 1 && j < es.len() && inr(es[j].0, k));
        }
        if inr(es[n].0, k) {
            assert(0 <= n < n + 1 && n < es.len() && inr(es[n].0, k));
        }
        if ent_upto(es, n + 1, k) {
            let j = choose|j: int| 0 <= j < n + 1 && j < es.len() && inr((#[trigger] es[j]).0, k);
            if j < n {
                assert(0 <= j < n && j < es.len() && inr(es[j].0, k));
            }
        }
    }
    assert forall|k: int| has_pt(m2, client, k) implies #[trigger] val(m2, client, k).eq_spec(&val_at(es, k)) by {
        assert(has_pt(m2, client, k) <==> has_pt(m1, client, k) || inr(es[n].0, k));
        if inr(es[n].0, k) {
            // the new range: disjoint from everything stored so far (strict input), so its attributes are stored as they are
            if has_pt(m1, client, k) {
                assert(ent_upto(es, n, k));
                let j = choose|j: int| 0 <= j < n && j < es.len() && inr((#[trigger] es[j]).0, k);
                assert(es[j].0.end <= es[n].0.start);
            }
            lemma_idx_unique(es, n, k);
        } else {
            // an older clock: unchanged up to `==`, which is transitive on well-formed values
            assert(has_pt(m1, client, k));
            assert(ent_upto(es, n, k));
            let j = choose|j: int| 0 <= j < n && j < es.len() && inr((#[trigger] es[j]).0, k);
            lemma_idx_unique(es, j, k);
            lemma_val_wf(m2[client], k);
            lemma_val_wf(m1[client], k);
            assert(es[j].1.wf());
            val(m2, client, k).law_eq_trans(&val(m1, client, k), &val_at(es, k));
        }
    }
}

/*@extract yrs/src/id_map.rs | impl<A: DeserializeOwned + PartialEq + Eq + Hash + Clone> Decode for IdMap<A> | region decode | stmt=stmt:for | stmtnth=4 | label=idmap_store_section | rules=SUB(from=id_map.inner;;to=inner)
@header
    fn idmap_store_section<CA: Merge>(inner: &mut IdMapInner<CA>, client: ClientID, entries: Vec<(Range<u32>, CA)>)
@sig
    requires
        wf_map(old(inner)@),
        // what strict decoding has established (see the invariants of idmap_decode)
        ranges_ok(entries@),
        ents_wf(entries@),
        !old(inner)@.contains_key(client),
    ensures
        wf_map(final(inner)@),
        same_except(final(inner)@, old(inner)@, client),
        // EXACTLY the wire list, coalesced: the same clocks ...
        forall|k: int| #![trigger has_pt(final(inner)@, client, k)] has_pt(final(inner)@, client, k) <==> covers(entries@, k),
        // ... every clock keeps the attributes it has on the wire (nothing is merged: the ranges do not overlap) ...
        forall|k: int| covers(entries@, k) ==> #[trigger] val(final(inner)@, client, k).eq_spec(&val_at(entries@, k)),
        // ... and no entry at all for an empty list
        final(inner)@.contains_key(client) <==> entries@.len() > 0,
@start
    let ghost m0 = inner@;
    let ghost es = entries@;
@loop 1 iter=it
    invariant
        it.seq() == es,
        ranges_ok(es),
        ents_wf(es),
        0 <= it.index@ <= es.len(),
        wf_map(inner@),
        same_except(inner@, m0, client),
        it.index@ == 0 ==> inner@ == m0,
        !m0.contains_key(client),
        forall|k: int| #![trigger has_pt(inner@, client, k)] has_pt(inner@, client, k) <==> ent_upto(es, it.index@ as int, k),
        forall|k: int| has_pt(inner@, client, k) ==> #[trigger] val(inner@, client, k).eq_spec(&val_at(es, k)),
@loopstart 1
    let ghost m1 = inner@;
    let ghost n = it.index@ as int;
    proof { assert(es[n].1.wf()); }
@loopend 1
    proof { lemma_store_step(m0, m1, inner@, client, es, n); }
@end
    proof {
        let m2 = inner@;
        assert forall|k: int| #![trigger has_pt(m2, client, k)] has_pt(m2, client, k) <==> covers(es, k) by {
            assert(has_pt(m2, client, k) <==> ent_upto(es, es.len() as int, k));
            if ent_upto(es, es.len() as int, k) {
                let j = choose|j: int| 0 <= j < es.len() && j < es.len() && inr((#[trigger] es[j]).0, k);
                assert(inr(es[j].0, k));
            }
            if covers(es, k) {
                let j = idx_of(es, k);
                assert(0 <= j < es.len() && j < es.len() && inr(es[j].0, k));
            }
        }
        if es.len() > 0 {
            let k0 = es[0].0.start as int;
            assert(inr(es[0].0, k0));
            assert(covers(es, k0));
            assert(has_pt(m2, client, k0));
        }
        if m2.contains_key(client) {
            lemma_nonempty_point(m2[client]);
            let k1 = choose|k: int| covers(m2[client], k);
            assert(has_pt(m2, client, k1));
            assert(covers(es, k1));
            let j = idx_of(es, k1);
            assert(0 <= j < es.len());
        }
    }
@*/
