// units/dec_comp/env.rs — environment of the composite decoders: client id, allocation budget, the sliced traits
// `Decoder` / `Decode`, DecoderV1 / DecoderV2, counted lists on the wire.

// ---------------------------------------------------------------------------------------------
// ClientID (yrs/src/block.rs) — STAND-IN (R13).  The real type is `ClientID(NonZeroU64)`; the real constructor is
//     pub const fn new(value: u64) -> Self {
//         debug_assert!(value & Self::MASK == 0);                                   // MASK = u64::MAX << 53
//         return ClientID(unsafe { NonZeroU64::new_unchecked(value | Self::MASK) });
//     }
// (cfg blocks + unsafe: not ingestible).  The stand-in keeps the yjs value (`get()`), and `new` carries the
// `debug_assert!` of the real body as its precondition (what rule R9 makes of a debug_assert!): every call site of
// `ClientID::new` in a verified body must prove that the value fits into 53 bits.  `ClientID::decode` (the checked
// constructor for untrusted input) is the REAL body.
// ---------------------------------------------------------------------------------------------
#[derive(PartialEq, Eq, PartialOrd, Ord, Clone, Copy, Hash)]
pub struct ClientID(pub u64);

/// `value & ClientID::MASK == 0`, i.e. the value fits into 53 bits
pub open spec fn client_id_53bit(value: u64) -> bool {
    value < 0x20_0000_0000_0000
}

pub proof fn lemma_client_id_mask(value: u64)
    ensures
        client_id_53bit(value) <==> value & (u64::MAX << 53) == 0,
{
    assert(value < 0x20_0000_0000_0000 <==> value & (u64::MAX << 53) == 0) by(bit_vector);
}

impl ClientID {
    /*@extract yrs/src/block.rs | impl ClientID | const MASK @*/

    // the REAL body: checks the range of a value read from untrusted input before `new` is called
    /*@extract yrs/src/block.rs | impl ClientID | fn decode | label=client_id_decode | rules=SUB(from=crate::encoding::read::Error;;to=Error)
    @ret r
    @sig
        ensures
            match r {
                Ok(c) => client_id_53bit(value) && c == ClientID(value),
                Err(_) => !client_id_53bit(value),
            },
    @before 1 `stmt:if`
        proof { lemma_client_id_mask(value); }
    @*/

    /// STAND-IN for `ClientID::new`; precondition = the `debug_assert!` of the real body (R9)
    pub fn new(value: u64) -> (r: ClientID)
        requires
            client_id_53bit(value),
        ensures
            r.0 == value,
    {
        ClientID(value)
    }

    /// STAND-IN for `ClientID::get` (real body: `self.0.get() & !Self::MASK`, the inverse of `new` on 53-bit values)
    pub fn get(&self) -> (r: u64)
        ensures
            r == self.0,
    {
        self.0
    }
}

pub mod vx_trusted {
    use vstd::prelude::*;
    use super::ClientID;

    /// A4 (same assumption as unit ids_lift): the derived `Ord` of ClientID is a total order consistent with `==`
    /// (what vstd's BTreeMap specifications are conditioned on).
    /// (stated as `external_body` proof fns rather than `axiom fn` so that the framework's trust scanner lists them)
    #[verifier::external_body] pub proof fn axiom_client_id_ord_key_model()
        ensures
            vstd::std_specs::btree::key_obeys_cmp_spec::<ClientID>(),
    {
    }

    /// A4 (same assumption as unit sv): the derived `Hash` / `Eq` of ClientID agree (what vstd's HashMap specifications
    /// are conditioned on)
    #[verifier::external_body] pub broadcast proof fn axiom_client_id_hash_key_model()
        ensures
            #[trigger] vstd::std_specs::hash::obeys_key_model::<ClientID>(),
    {
    }
}
use vx_trusted::*;

broadcast use axiom_client_id_hash_key_model;

// ---------------------------------------------------------------------------------------------
// ALLOCATION BUDGET (the "memory proportional to the input" clause of C10, as far as a contract can state it).
// Every capacity request of a decoder (`SmallVec::with_capacity(X)`, `Vec::with_capacity(X)`, `HashMap::with_capacity(X)`,
// `HashMap::with_capacity_and_hasher(X, ..)`) is routed (SUB rules, logged) through `vx_budget(decoder).<ctor>(X)`:
// the std constructor (the wrappers are VERIFIED against vstd's specifications of the constructors, not trusted) plus
// the precondition
//         X <= (number of unread input bytes) + ALLOC_SLACK
// Every element of every collection decoded here takes at least one input byte, so a capacity within this budget is
// proportional to the input; a count field used as a capacity before it has been checked against the input is not.
// ---------------------------------------------------------------------------------------------
/// a constant-size pre-allocation is always fine
pub const ALLOC_SLACK: usize = 1024;

pub open spec fn alloc_budget_ok(n: usize, remaining: nat) -> bool {
    n <= remaining + ALLOC_SLACK
}

pub struct VxBudget {
    pub remaining: Ghost<nat>,
}

pub fn vx_budget<R: Read>(r: &R) -> (b: VxBudget)
    ensures
        b.remaining@ == r.rest().len(),
{
    VxBudget { remaining: Ghost(r.rest().len()) }
}

/// stand-in for the value `BuildHasherDefault::default()` (the hasher is not modelled, see unit sv)
pub struct VxHasher;

impl VxBudget {
    pub fn vec_with_capacity<T>(self, n: usize) -> (r: Vec<T>)
        requires
            alloc_budget_ok(n, self.remaining@),
        ensures
            r@ == Seq::<T>::empty(),
    {
        Vec::with_capacity(n)
    }

    pub fn map_with_capacity<K: std::hash::Hash + Eq, V>(self, n: usize) -> (r: HashMap<K, V>)
        requires
            alloc_budget_ok(n, self.remaining@),
        ensures
            r@ == Map::<K, V>::empty(),
    {
        HashMap::with_capacity(n)
    }

    pub fn map_with_capacity_and_hasher<K: std::hash::Hash + Eq, V>(self, n: usize, h: VxHasher) -> (r: HashMap<K, V>)
        requires
            alloc_budget_ok(n, self.remaining@),
        ensures
            r@ == Map::<K, V>::empty(),
    {
        HashMap::with_capacity(n)
    }
}

// ---------------------------------------------------------------------------------------------
// trait Decoder (yrs/src/updates/decoder.rs), SLICED to the methods the composite decoders call.
// ABSTRACT contract (holds for DecoderV1 and DecoderV2): a delete-set read never rewinds, never reads beyond the input and
// consumes at least one byte when it succeeds.  For a decoder with `v1()` (DecoderV1) the exact semantics is added:
// read_ds_clock / read_ds_len are plain u32 var-ints and reset_ds_cur_val does nothing.
// ---------------------------------------------------------------------------------------------
pub trait Decoder: Read {
    /// the decoder implements version 1 of the update format
    spec fn v1() -> bool;

    fn reset_ds_cur_val(&mut self)
        requires
            old(self).wf(),
        ensures
            final(self).wf(),
            final(self).rest() == old(self).rest(),
    ;

    fn read_ds_clock(&mut self) -> (res: Result<u32, Error>)
        requires
            old(self).wf(),
        ensures
            final(self).wf(),
            suffix_of(old(self).rest(), final(self).rest()),
            res is Ok ==> final(self).rest().len() < old(self).rest().len(),
            Self::v1() ==> read_post(old(self).rest(), final(self).rest(), res, dec_u32(old(self).rest())),
    ;

    fn read_ds_len(&mut self) -> (res: Result<u32, Error>)
        requires
            old(self).wf(),
        ensures
            final(self).wf(),
            suffix_of(old(self).rest(), final(self).rest()),
            res is Ok ==> final(self).rest().len() < old(self).rest().len(),
            Self::v1() ==> read_post(old(self).rest(), final(self).rest(), res, dec_u32(old(self).rest())),
    ;

    /// `read_any`: the contract proved for `Any::decode` (units/dec_comp/any.rs), which both real bodies call
    fn read_any(&mut self) -> (res: Result<Any, Error>)
        requires
            old(self).wf(),
        ensures
            final(self).wf(),
            suffix_of(old(self).rest(), final(self).rest()),
            res is Ok ==> final(self).rest().len() < old(self).rest().len(),
    ;
}

/// what a successful / failed read leaves behind, in the shape the loops use it
pub proof fn lemma_read_progress<T: VarInt>(s0: Seq<u8>, s1: Seq<u8>, res: Result<T, Error>)
    requires
        read_post(s0, s1, res, T::dec(s0)),
    ensures
        suffix_of(s0, s1),
        res is Ok ==> s1.len() < s0.len(),
{
    T::law_dec_bounded(s0);
    if res is Ok {
        lemma_suffix_skip(s0, T::dec(s0)->Some_0.1);
    }
}

// ---------------------------------------------------------------------------------------------
// DecoderV1 (yrs/src/updates/decoder.rs): the real struct, its `Read` and `Decoder` impls
// ---------------------------------------------------------------------------------------------
/*@extract yrs/src/updates/decoder.rs | - | struct DecoderV1 | rules=SUB(from=cursor: Cursor<'a>;;to=pub cursor: Cursor<'a>) @*/

impl<'a> DecoderV1<'a> {
    /*@extract yrs/src/updates/decoder.rs | impl<'a> DecoderV1<'a> | fn new | label=decoder_v1_new
    @ret r
    @sig
        requires
            cursor.wf(),
        ensures
            r.wf(),
            r.rest() == cursor.rest(),
    @*/
}

impl<'a> Read for DecoderV1<'a> {
    open spec fn rest(&self) -> Seq<u8> {
        self.cursor.rest()
    }

    open spec fn wf(&self) -> bool {
        self.cursor.wf()
    }

    /*@extract yrs/src/updates/decoder.rs | impl<'a> Read for DecoderV1<'a> | fn read_u8 | label=decoder_v1_read_u8 @*/

    /*@extract yrs/src/updates/decoder.rs | impl<'a> Read for DecoderV1<'a> | fn read_exact | label=decoder_v1_read_exact @*/
}

impl<'a> Decoder for DecoderV1<'a> {
    open spec fn v1() -> bool {
        true
    }

    /*@extract yrs/src/updates/decoder.rs | impl<'a> Decoder for DecoderV1<'a> | fn reset_ds_cur_val | label=decoder_v1_reset_ds_cur_val @*/

    /*@extract yrs/src/updates/decoder.rs | impl<'a> Decoder for DecoderV1<'a> | fn read_ds_clock | label=decoder_v1_read_ds_clock
    @start
        proof { lemma_dec_u32_bounded(self.rest()); lemma_suffix_skip(self.rest(), 0); if dec_u32(self.rest()) is Some { lemma_suffix_skip(self.rest(), dec_u32(self.rest())->Some_0.1); } }
    @*/

    /*@extract yrs/src/updates/decoder.rs | impl<'a> Decoder for DecoderV1<'a> | fn read_ds_len | label=decoder_v1_read_ds_len
    @start
        proof { lemma_dec_u32_bounded(self.rest()); lemma_suffix_skip(self.rest(), 0); if dec_u32(self.rest()) is Some { lemma_suffix_skip(self.rest(), dec_u32(self.rest())->Some_0.1); } }
    @*/

    /*@extract yrs/src/updates/decoder.rs | impl<'a> Decoder for DecoderV1<'a> | fn read_any | label=decoder_v1_read_any @*/
}

// ---------------------------------------------------------------------------------------------
// DecoderV2 (yrs/src/updates/decoder.rs), SLICED exactly as in unit lib0_v2 (units/lib0_v2/dec.rs) to the fields the
// delete-set readers touch.  Its real `Read` / `Decoder` method bodies satisfy the ABSTRACT contract of `Decoder` (the exact
// v2 semantics -- running clock, checked additions -- is proved in unit lib0_v2): the composite decoders below are
// therefore total, progressing and within the allocation budget on v2 input as well.
// ---------------------------------------------------------------------------------------------
pub struct DecoderV2<'a> {
    pub cursor: Cursor<'a>,
    pub ds_curr_val: u32,
}

impl<'a> Read for DecoderV2<'a> {
    open spec fn rest(&self) -> Seq<u8> {
        self.cursor.rest()
    }

    open spec fn wf(&self) -> bool {
        self.cursor.wf()
    }

    /*@extract yrs/src/updates/decoder.rs | impl<'a> Read for DecoderV2<'a> | fn read_exact | label=decoder_v2_read_exact @*/

    /*@extract yrs/src/updates/decoder.rs | impl<'a> Read for DecoderV2<'a> | fn read_u8 | label=decoder_v2_read_u8 @*/
}

impl<'a> Decoder for DecoderV2<'a> {
    open spec fn v1() -> bool {
        false
    }

    /*@extract yrs/src/updates/decoder.rs | impl<'a> Decoder for DecoderV2<'a> | fn reset_ds_cur_val | label=decoder_v2_reset_ds_cur_val @*/

    /*@extract yrs/src/updates/decoder.rs | impl<'a> Decoder for DecoderV2<'a> | fn read_ds_clock | label=decoder_v2_read_ds_clock
    @start
        proof { lemma_dec_u32_bounded(self.rest()); lemma_suffix_skip(self.rest(), 0); if dec_u32(self.rest()) is Some { lemma_suffix_skip(self.rest(), dec_u32(self.rest())->Some_0.1); } }
    @*/

    /*@extract yrs/src/updates/decoder.rs | impl<'a> Decoder for DecoderV2<'a> | fn read_ds_len | label=decoder_v2_read_ds_len
    @start
        proof { lemma_dec_u32_bounded(self.rest()); lemma_suffix_skip(self.rest(), 0); if dec_u32(self.rest()) is Some { lemma_suffix_skip(self.rest(), dec_u32(self.rest())->Some_0.1); } }
    @*/

    /*@extract yrs/src/updates/decoder.rs | impl<'a> Decoder for DecoderV2<'a> | fn read_any | label=decoder_v2_read_any @*/
}

// ---------------------------------------------------------------------------------------------
// trait Decode (yrs/src/updates/decoder.rs).  The trait-level contract IS the generic part of C10 for every decodable
// type:  TOTAL (returns Ok / Err on every input: no panic, no overflow, termination), never rewinds and never reads
// beyond the input, and PROGRESS: a successful decode has consumed at least one byte.  The impls add their own clauses.
// ---------------------------------------------------------------------------------------------
pub trait Decode: Sized {
    fn decode<D: Decoder>(decoder: &mut D) -> (res: Result<Self, Error>)
        requires
            old(decoder).wf(),
        ensures
            final(decoder).wf(),
            suffix_of(old(decoder).rest(), final(decoder).rest()),
            res is Ok ==> final(decoder).rest().len() < old(decoder).rest().len(),
    ;

    // the PUBLIC ENTRY POINT `X::decode_v1(bytes)`: NO precondition -- for every byte slice it returns Ok or Err
    // (`DecoderV1::from(data)` is inlined: the body of `impl From<&[u8]> for DecoderV1` is checked to be `Self::new(Cursor::new(buf))`)
    /*@extract yrs/src/updates/decoder.rs | trait Decode: Sized | fn decode_v1 | label=decode_v1 | rules=INLINE(file=yrs/src/updates/decoder.rs;;container=impl<'a> From<&'a [u8]> for DecoderV1<'a>;;fn=from;;body=Self::new(Cursor::new(buf));;call=DecoderV1::from(data);;to=DecoderV1::new(Cursor::new(data)))
    @ret res
    @*/
}

/// consuming a prefix of what is left after consuming a prefix
pub proof fn lemma_suffix_step(s0: Seq<u8>, s1: Seq<u8>, s2: Seq<u8>)
    requires
        suffix_of(s0, s1),
        suffix_of(s1, s2),
    ensures
        suffix_of(s0, s2),
        s2.len() <= s1.len() <= s0.len(),
{
    lemma_suffix_trans(s0, s1);
    lemma_suffix_len(s0, s1);
    lemma_suffix_len(s1, s2);
}

pub proof fn lemma_suffix_len(s0: Seq<u8>, s1: Seq<u8>)
    requires
        suffix_of(s0, s1),
    ensures
        s1.len() <= s0.len(),
{
    let j = choose|j: nat| j <= s0.len() && s1 == #[trigger] s0.skip(j as int);
    assert(s1.len() == s0.len() - j);
}

/// skipping a and then b bytes is skipping a + b bytes, and what is left is a suffix
pub proof fn lemma_two_skips(s: Seq<u8>, a: nat, b: nat)
    requires
        a + b <= s.len(),
    ensures
        s.skip(a as int).skip(b as int) == s.skip((a + b) as int),
        suffix_of(s, s.skip((a + b) as int)),
        suffix_of(s, s.skip(a as int)),
{
    assert(s.skip(a as int).skip(b as int) =~= s.skip((a + b) as int));
    lemma_suffix_skip(s, a + b);
    lemma_suffix_skip(s, a);
}

pub proof fn lemma_suffix_refl(s0: Seq<u8>)
    ensures
        suffix_of(s0, s0),
{
    lemma_suffix_skip(s0, 0);
}

// ---------------------------------------------------------------------------------------------
// counted lists on the wire: `n` items one after the other, each decoded by the item decoder `f`
// ---------------------------------------------------------------------------------------------
pub open spec fn dec_list<T>(f: spec_fn(Seq<u8>) -> Option<(T, nat)>, s: Seq<u8>, n: nat) -> Option<(Seq<T>, nat)>
    decreases n,
{
    if n == 0 {
        Some((Seq::<T>::empty(), 0nat))
    } else {
        match f(s) {
            None => None,
            Some((v, k)) => match dec_list(f, s.skip(k as int), (n - 1) as nat) {
                None => None,
                Some((vs, k2)) => Some((seq![v] + vs, k + k2)),
            },
        }
    }
}

/// the result of a partial run: `acc` decoded from `k` bytes so far, `d` = what the remaining input decodes to
pub open spec fn list_join<T>(acc: Seq<T>, k: nat, d: Option<(Seq<T>, nat)>) -> Option<(Seq<T>, nat)> {
    match d {
        None => None,
        Some((rs, k2)) => Some((acc + rs, k + k2)),
    }
}

/// every successful item decode consumes at least `c` bytes and never more than there are
pub open spec fn item_bounded<T>(f: spec_fn(Seq<u8>) -> Option<(T, nat)>, c: nat) -> bool {
    forall|s: Seq<u8>| (#[trigger] f(s)) is Some ==> c <= f(s)->Some_0.1 <= s.len()
}

/// C10, memory: a decoded list of n items took at least c * n bytes
pub proof fn lemma_dec_list_bounded<T>(f: spec_fn(Seq<u8>) -> Option<(T, nat)>, c: nat, s: Seq<u8>, n: nat)
    requires
        item_bounded(f, c),
    ensures
        match dec_list(f, s, n) {
            Some((vs, k)) => vs.len() == n && c * n <= k <= s.len(),
            None => true,
        },
    decreases n,
{
    if n > 0 {
        if f(s) is Some {
            let (v, k) = f(s)->Some_0;
            lemma_dec_list_bounded(f, c, s.skip(k as int), (n - 1) as nat);
            assert(c * n == c * (n - 1) + c) by(nonlinear_arith);
        }
    } else {
        assert(c * n == 0) by(nonlinear_arith) requires n == 0;
    }
}

/// one more item at the end of the run
pub proof fn lemma_dec_list_step<T>(f: spec_fn(Seq<u8>) -> Option<(T, nat)>, c: nat, s1: Seq<u8>, n: nat, acc: Seq<T>, k: nat, m: nat)
    requires
        item_bounded(f, c),
        k <= s1.len(),
        m > 0,
        dec_list(f, s1, n) == list_join(acc, k, dec_list(f, s1.skip(k as int), m)),
    ensures
        match f(s1.skip(k as int)) {
            None => dec_list(f, s1, n) is None,
            Some((v, k2)) => k + k2 <= s1.len() && c <= k2
                && s1.skip(k as int).skip(k2 as int) == s1.skip((k + k2) as int)
                && dec_list(f, s1, n) == list_join(acc.push(v), k + k2, dec_list(f, s1.skip((k + k2) as int), (m - 1) as nat)),
        },
{
    let s = s1.skip(k as int);
    if f(s) is Some {
        let (v, k2) = f(s)->Some_0;
        assert(s.skip(k2 as int) =~= s1.skip((k + k2) as int));
        match dec_list(f, s.skip(k2 as int), (m - 1) as nat) {
            None => {},
            Some((vs, k3)) => {
                assert(acc + (seq![v] + vs) =~= acc.push(v) + vs);
            },
        }
    }
}

/// the run is complete, seen from the start of the whole value (`k` bytes of count, then the items)
pub proof fn lemma_counted_finish<T>(f: spec_fn(Seq<u8>) -> Option<(T, nat)>, s0: Seq<u8>, k: nat, n: nat, s1: Seq<u8>, acc: Seq<T>, kk: nat)
    requires
        k <= s0.len(),
        s1 == s0.skip(k as int),
        kk <= s1.len(),
        dec_list(f, s1, n) == list_join(acc, kk, dec_list(f, s1.skip(kk as int), 0)),
    ensures
        dec_list(f, s1, n) == Some((acc, kk)),
        s1.skip(kk as int) == s0.skip((k + kk) as int),
        k + kk <= s0.len(),
{
    assert(acc + Seq::<T>::empty() =~= acc);
    assert(s0.skip(k as int).skip(kk as int) =~= s0.skip((k + kk) as int));
}

/// the start of a run
pub proof fn lemma_dec_list_start<T>(f: spec_fn(Seq<u8>) -> Option<(T, nat)>, s: Seq<u8>, n: nat)
    ensures
        dec_list(f, s, n) == list_join(Seq::<T>::empty(), 0, dec_list(f, s.skip(0), n)),
        s.skip(0) == s,
{
    assert(s.skip(0) =~= s);
    match dec_list(f, s, n) {
        None => {},
        Some((vs, k)) => { assert(Seq::<T>::empty() + vs =~= vs); },
    }
}
