// units/dec_comp/enc.rs — the encoders of Range<u32> / IdRanges<()> / IdSet (yrs/src/id_set.rs) and the round trip
// decode(encode(x) ++ tail) == (x, tail) in the v1 format (C09 for the delete-set layer; C10: "a value that was decoded
// successfully can be encoded again" = the decoders establish `enc_ok`, the precondition of the encoders).

// ---------------------------------------------------------------------------------------------
// trait Encoder (yrs/src/updates/encoder.rs), SLICED to the methods these bodies call; nothing is known about a
// non-v1 encoder; for an encoder with `v1()` (EncoderV1) the delete-set writes are plain u32 var-ints
// ---------------------------------------------------------------------------------------------
pub trait Encoder: Write {
    spec fn v1() -> bool;

    fn reset_ds_cur_val(&mut self)
        ensures
            Self::v1() ==> final(self).out() == old(self).out(),
    ;

    fn write_ds_clock(&mut self, clock: u32)
        ensures
            Self::v1() ==> final(self).out() == old(self).out() + enc_uint(clock as nat),
    ;

    fn write_ds_len(&mut self, len: u32)
        ensures
            Self::v1() ==> final(self).out() == old(self).out() + enc_uint(len as nat),
    ;
}

// field visibility only (cf. R10): the ghost view `out()` mentions the field
/*@extract yrs/src/updates/encoder.rs | - | struct EncoderV1 | rules=SUB(from=buf: Vec<u8>;;to=pub buf: Vec<u8>) @*/

impl Write for EncoderV1 {
    open spec fn out(&self) -> Seq<u8> {
        self.buf@
    }

    /*@extract yrs/src/updates/encoder.rs | impl Write for EncoderV1 | fn write_all | label=encoder_v1_write_all @*/

    /*@extract yrs/src/updates/encoder.rs | impl Write for EncoderV1 | fn write_u8 | label=encoder_v1_write_u8 @*/
}

impl Encoder for EncoderV1 {
    open spec fn v1() -> bool {
        true
    }

    /*@extract yrs/src/updates/encoder.rs | impl Encoder for EncoderV1 | fn reset_ds_cur_val | label=encoder_v1_reset_ds_cur_val @*/

    /*@extract yrs/src/updates/encoder.rs | impl Encoder for EncoderV1 | fn write_ds_clock | label=encoder_v1_write_ds_clock @*/

    /*@extract yrs/src/updates/encoder.rs | impl Encoder for EncoderV1 | fn write_ds_len | label=encoder_v1_write_ds_len @*/
}

/// trait Encode (yrs/src/updates/encoder.rs).  `enc_ok` is the domain on which `encode` neither overflows nor panics.
pub trait Encode {
    spec fn enc_ok(&self) -> bool;

    fn encode<E: Encoder>(&self, encoder: &mut E)
        requires
            self.enc_ok(),
    ;
}

// ---------------------------------------------------------------------------------------------
// counted lists: the encoding side and the generic round trip
// ---------------------------------------------------------------------------------------------
pub open spec fn enc_list<T>(g: spec_fn(T) -> Seq<u8>, items: Seq<T>) -> Seq<u8>
    decreases items.len(),
{
    if items.len() == 0 {
        Seq::<u8>::empty()
    } else {
        g(items[0]) + enc_list(g, items.skip(1))
    }
}

/// appending one item appends its encoding
pub proof fn lemma_enc_list_push<T>(g: spec_fn(T) -> Seq<u8>, items: Seq<T>, x: T)
    ensures
        enc_list(g, items.push(x)) == enc_list(g, items) + g(x),
    decreases items.len(),
{
    if items.len() == 0 {
        assert(items.push(x).skip(1) =~= Seq::<T>::empty());
        assert(enc_list(g, items.push(x).skip(1)) =~= Seq::<u8>::empty());
        assert(g(x) + Seq::<u8>::empty() =~= Seq::<u8>::empty() + g(x));
    } else {
        assert(items.push(x).skip(1) =~= items.skip(1).push(x));
        lemma_enc_list_push(g, items.skip(1), x);
        assert(g(items[0]) + (enc_list(g, items.skip(1)) + g(x)) =~= (g(items[0]) + enc_list(g, items.skip(1))) + g(x));
    }
}

/// the item decoder inverts the item encoder on `x`, whatever follows
pub open spec fn item_inverse<T>(f: spec_fn(Seq<u8>) -> Option<(T, nat)>, g: spec_fn(T) -> Seq<u8>, x: T) -> bool {
    forall|t: Seq<u8>| #[trigger] f(g(x) + t) == Some((x, g(x).len()))
}

/// C09 for counted lists: decoding the concatenated encodings of n items (followed by anything) yields the items
pub proof fn lemma_list_round_trip<T>(f: spec_fn(Seq<u8>) -> Option<(T, nat)>, g: spec_fn(T) -> Seq<u8>, items: Seq<T>, tail: Seq<u8>)
    requires
        forall|i: int| 0 <= i < items.len() ==> item_inverse(f, g, #[trigger] items[i]),
    ensures
        dec_list(f, enc_list(g, items) + tail, items.len()) == Some((items, enc_list(g, items).len())),
    decreases items.len(),
{
    if items.len() == 0 {
        assert(items =~= Seq::<T>::empty());
    } else {
        let x = items[0];
        let rest = items.skip(1);
        let e = g(x);
        let s = enc_list(g, items) + tail;
        assert(item_inverse(f, g, items[0]));
        assert(s =~= e + (enc_list(g, rest) + tail));
        assert(f(e + (enc_list(g, rest) + tail)) == Some((x, e.len())));
        assert(s.skip(e.len() as int) =~= enc_list(g, rest) + tail);
        assert forall|i: int| 0 <= i < rest.len() implies item_inverse(f, g, #[trigger] rest[i]) by {
            assert(rest[i] == items[i + 1]);
        }
        lemma_list_round_trip(f, g, rest, tail);
        assert(seq![x] + rest =~= items);
    }
}

// ---------------------------------------------------------------------------------------------
// Range<u32>
// ---------------------------------------------------------------------------------------------
impl Encode for Range<u32> {
    /// `self.end - self.start` must not underflow.  Every decoded range satisfies it (Range::decode: start <= end).
    open spec fn enc_ok(&self) -> bool {
        self.start <= self.end
    }

    /*@extract yrs/src/id_set.rs | impl Encode for Range<u32> | fn encode | label=range_encode
    @sig
        ensures
            E::v1() ==> final(encoder).out() == old(encoder).out() + enc_range(*self),
    @start
        proof {
            let o = encoder.out();
            assert(o + enc_uint(self.start as nat) + enc_uint((self.end - self.start) as nat) =~= o + enc_range(*self));
        }
    @*/
}

/// C09 for Range<u32> (v1): every range with start <= end, every tail
pub proof fn theorem_range_round_trip(r: Range<u32>, tail: Seq<u8>)
    requires
        r.start <= r.end,
    ensures
        dec_range(enc_range(r) + tail) == Some((r, enc_range(r).len())),
{
    let e1 = enc_uint(r.start as nat);
    let e2 = enc_uint((r.end - r.start) as nat);
    let s = enc_range(r) + tail;
    assert(s =~= e1 + (e2 + tail));
    lemma_dec_enc_u32(r.start, e2 + tail);
    assert(s.skip(e1.len() as int) =~= e2 + tail);
    lemma_dec_enc_u32((r.end - r.start) as u32, tail);
    let r2 = r.start..((r.start + (r.end - r.start)) as u32);
    assert(r2.start == r.start && r2.end == r.end);
    assert(r2 == r);
}

// ---------------------------------------------------------------------------------------------
// IdRanges<()>
// ---------------------------------------------------------------------------------------------
pub open spec fn enc_range_ent(e: Ent<()>) -> Seq<u8> {
    enc_range(e.0)
}

pub open spec fn range_enc_item() -> spec_fn(Ent<()>) -> Seq<u8> {
    |e: Ent<()>| enc_range_ent(e)
}

/// what `IdRanges<()>::encode` writes (the count is truncated to u32, as the code does)
pub open spec fn enc_ranges(s: Seq<Ent<()>>) -> Seq<u8> {
    enc_uint((s.len() as u32) as nat) + enc_list(range_enc_item(), s)
}

/// every range has start <= end
pub open spec fn ents_ordered(s: Seq<Ent<()>>) -> bool {
    forall|i: int| 0 <= i < s.len() ==> (#[trigger] s[i]).0.start <= s[i].0.end
}

impl<T: Merge> IdRanges<T> {
    /*@extract yrs/src/ids.rs | impl<T: Merge> IdRanges<T> | fn len | label=idranges_len
    @ret r
    @sig
        ensures r == self@.len(),
    @*/
}

impl Encode for IdRanges<()> {
    open spec fn enc_ok(&self) -> bool {
        ents_ordered(self@)
    }

    /*@extract yrs/src/id_set.rs | impl Encode for IdRanges<()> | fn encode | label=idranges_encode | rules=INLINE(file=yrs/src/ids.rs;;container=impl<T: Merge> IdRanges<T>;;fn=iter;;body=self.0.iter();;call=self.iter();;to=self.0.iter())
    @sig
        ensures
            E::v1() ==> final(encoder).out() == old(encoder).out() + enc_ranges(self@),
    @start
        let ghost o = encoder.out();
        let ghost s = self@;
    @loop 1 iter=it
        invariant
            s == self@,
            ents_ordered(s),
            it.seq().len() == s.len(),
            forall|j: int| 0 <= j < s.len() ==> *(#[trigger] it.seq()[j]) == s[j],
            0 <= it.index@ <= s.len(),
            E::v1() ==> encoder.out() == o + enc_uint((s.len() as u32) as nat) + enc_list(range_enc_item(), s.take(it.index@ as int)),
    @before 1 `stmt:call encode`
        let ghost i = it.index@ as int;
        proof {
            assert(*it.seq()[i] == s[i]);
            assert(s[i].0 == *range);
            lemma_enc_list_push(range_enc_item(), s.take(i), s[i]);
            assert(s.take(i).push(s[i]) =~= s.take(i + 1));
            let p = o + enc_uint((s.len() as u32) as nat);
            assert(p + enc_list(range_enc_item(), s.take(i)) + enc_range(*range) =~= p + (enc_list(range_enc_item(), s.take(i)) + enc_range_ent(s[i])));
        }
    @end
        proof {
            assert(s.take(s.len() as int) =~= s);
            let p = enc_uint((s.len() as u32) as nat);
            assert(o + p + enc_list(range_enc_item(), s) =~= o + (p + enc_list(range_enc_item(), s)));
        }
    @*/
}

pub proof fn lemma_range_item_inverse(e: Ent<()>)
    requires
        e.0.start <= e.0.end,
    ensures
        item_inverse(range_item(), range_enc_item(), e),
{
    assert forall|t: Seq<u8>| #[trigger] range_item()(range_enc_item()(e) + t) == Some((e, range_enc_item()(e).len())) by {
        theorem_range_round_trip(e.0, t);
    }
}

/// C09 for IdRanges<()> (v1): every list of fewer than 2^32 ranges with start <= end (canonical or not), every tail
pub proof fn theorem_ranges_round_trip(s: Seq<Ent<()>>, tail: Seq<u8>)
    requires
        ents_ordered(s),
        s.len() <= u32::MAX,
    ensures
        dec_ranges(enc_ranges(s) + tail) == Some((s, enc_ranges(s).len())),
{
    let e1 = enc_uint(s.len());
    let body = enc_list(range_enc_item(), s);
    let x = enc_ranges(s) + tail;
    assert(x =~= e1 + (body + tail));
    lemma_dec_enc_u32(s.len() as u32, body + tail);
    assert(x.skip(e1.len() as int) =~= body + tail);
    assert forall|i: int| 0 <= i < s.len() implies item_inverse(range_item(), range_enc_item(), #[trigger] s[i]) by {
        lemma_range_item_inverse(s[i]);
    }
    lemma_list_round_trip(range_item(), range_enc_item(), s, tail);
}

// ---------------------------------------------------------------------------------------------
// IdSet
// ---------------------------------------------------------------------------------------------
pub open spec fn enc_idset_item(x: IdItem) -> Seq<u8> {
    enc_uint(x.0.0 as nat) + enc_ranges(x.1)
}

pub open spec fn idset_enc_item() -> spec_fn(IdItem) -> Seq<u8> {
    |x: IdItem| enc_idset_item(x)
}

/// what `IdSet::encode` writes when the map iterator yields the clients in the order `items` (the count is truncated to
/// u32, as the code does).  std's BTreeMap iterates in ascending key order; vstd's specification of `iter()` only says
/// "every stored pair exactly once", so the theorems below hold for EVERY enumeration order.
pub open spec fn enc_idset_items(items: Seq<IdItem>) -> Seq<u8> {
    enc_uint((items.len() as u32) as nat) + enc_list(idset_enc_item(), items)
}

/// `items` lists every entry of `m` exactly once
pub open spec fn enumerates<V>(items: Seq<(ClientID, V)>, m: Map<ClientID, V>) -> bool {
    &&& items.len() == m.len()
    &&& forall|i: int, j: int| 0 <= i < j < items.len() ==> (#[trigger] items[i]).0 != (#[trigger] items[j]).0
    &&& forall|i: int| 0 <= i < items.len() ==> m.contains_key((#[trigger] items[i]).0) && m[items[i].0] == items[i].1
    &&& forall|k: ClientID| #[trigger] m.contains_key(k) ==> exists|i: int| 0 <= i < items.len() && (#[trigger] items[i]).0 == k
}

/// the first `n` items as a map
pub proof fn lemma_map_of_prefix<V>(items: Seq<(ClientID, V)>, n: int)
    requires
        0 <= n <= items.len(),
        forall|i: int, j: int| 0 <= i < j < items.len() ==> (#[trigger] items[i]).0 != (#[trigger] items[j]).0,
    ensures
        forall|k: ClientID| #[trigger] map_of(items.take(n)).contains_key(k) <==> exists|i: int| 0 <= i < n && (#[trigger] items[i]).0 == k,
        forall|i: int| 0 <= i < n ==> map_of(items.take(n))[(#[trigger] items[i]).0] == items[i].1,
    decreases n,
{
    let p = items.take(n);
    if n == 0 {
        assert(p.len() == 0);
    } else {
        lemma_map_of_prefix(items, n - 1);
        let q = items.take(n - 1);
        assert(p.drop_last() =~= q);
        assert(p.last() == items[n - 1]);
        let last = items[n - 1];
        assert(map_of(p) == map_of(q).insert(last.0, last.1));
        assert forall|k: ClientID| #[trigger] map_of(p).contains_key(k) <==> exists|i: int| 0 <= i < n && (#[trigger] items[i]).0 == k by {
            if map_of(p).contains_key(k) {
                if k == last.0 {
                    assert(items[n - 1].0 == k);
                } else {
                    assert(map_of(q).contains_key(k));
                    let i = choose|i: int| 0 <= i < n - 1 && (#[trigger] items[i]).0 == k;
                    assert(0 <= i < n && items[i].0 == k);
                }
            }
            if exists|i: int| 0 <= i < n && (#[trigger] items[i]).0 == k {
                let i = choose|i: int| 0 <= i < n && (#[trigger] items[i]).0 == k;
                if i < n - 1 {
                    assert(0 <= i < n - 1 && items[i].0 == k);
                    assert(map_of(q).contains_key(k));
                }
            }
        }
        assert forall|i: int| 0 <= i < n implies map_of(p)[(#[trigger] items[i]).0] == items[i].1 by {
            if i < n - 1 {
                assert(items[i].0 != items[n - 1].0);
                assert(map_of(q)[items[i].0] == items[i].1);
            }
        }
    }
}

/// inserting the entries of a map, in any order, rebuilds the map
pub proof fn lemma_map_of_enumerates<V>(items: Seq<(ClientID, V)>, m: Map<ClientID, V>)
    requires
        enumerates(items, m),
    ensures
        map_of(items) == m,
{
    lemma_map_of_prefix(items, items.len() as int);
    assert(items.take(items.len() as int) =~= items);
    let r = map_of(items);
    assert forall|k: ClientID| r.contains_key(k) <==> m.contains_key(k) by {
        if r.contains_key(k) {
            let i = choose|i: int| 0 <= i < items.len() && (#[trigger] items[i]).0 == k;
            assert(m.contains_key(items[i].0));
        }
        if m.contains_key(k) {
            let i = choose|i: int| 0 <= i < items.len() && (#[trigger] items[i]).0 == k;
            assert(0 <= i < items.len() && items[i].0 == k);
        }
    }
    assert forall|k: ClientID| r.contains_key(k) implies r[k] == m[k] by {
        let i = choose|i: int| 0 <= i < items.len() && (#[trigger] items[i]).0 == k;
        assert(r[items[i].0] == items[i].1);
        assert(m[items[i].0] == items[i].1);
    }
    assert(r =~= m);
}

/// `o1` is `o0` followed by the encoding of SOME enumeration of the set `m`: what `IdSet::encode` guarantees about its output
pub open spec fn idset_written(m: Map<ClientID, Seq<Ent<()>>>, o0: Seq<u8>, o1: Seq<u8>) -> bool {
    exists|items: Seq<IdItem>| #[trigger] enumerates(items, m) && o1 == o0 + enc_idset_items(items)
}

/// the (client, ranges) pairs a BTreeMap iterator yields, by value
pub open spec fn items_of(s: Seq<(&ClientID, &IdRanges<()>)>) -> Seq<IdItem> {
    Seq::new(s.len(), |j: int| (*s[j].0, s[j].1@))
}

/// the items a BTreeMap iterator yields: every stored pair exactly once (vstd's `iter()` contract, restated as in unit ids_lift)
pub open spec fn iter_of<V>(s: Seq<(&ClientID, &V)>, m: Map<ClientID, V>) -> bool {
    &&& s.no_duplicates()
    &&& forall|i: int| 0 <= i < s.len() ==> m.contains_key(*(#[trigger] s[i]).0) && m[*s[i].0] == *s[i].1
    &&& forall|k: ClientID| #[trigger] m.contains_key(k) ==> exists|i: int| 0 <= i < s.len() && *(#[trigger] s[i]).0 == k
}

pub proof fn lemma_items_of_enumerates(s: Seq<(&ClientID, &IdRanges<()>)>, m: Map<ClientID, IdRanges<()>>)
    requires
        iter_of(s, m),
        s.len() == m.len(),
    ensures
        enumerates(items_of(s), lift(m)),
{
    let items = items_of(s);
    assert(lift(m).dom() =~= m.dom());
    assert forall|i: int, j: int| 0 <= i < j < items.len() implies (#[trigger] items[i]).0 != (#[trigger] items[j]).0 by {
        if *s[i].0 == *s[j].0 {
            assert(m[*s[i].0] == *s[i].1 && m[*s[j].0] == *s[j].1);
            assert(s[i] == s[j]);
        }
    }
    assert forall|i: int| 0 <= i < items.len() implies lift(m).contains_key((#[trigger] items[i]).0) && lift(m)[items[i].0] == items[i].1 by {
        assert(m.contains_key(*s[i].0) && m[*s[i].0] == *s[i].1);
    }
    assert forall|k: ClientID| #[trigger] lift(m).contains_key(k) implies exists|i: int| 0 <= i < items.len() && (#[trigger] items[i]).0 == k by {
        assert(m.contains_key(k));
        let i = choose|i: int| 0 <= i < s.len() && *(#[trigger] s[i]).0 == k;
        assert(items[i].0 == k);
    }
}

/// every enumeration a map iterator may produce lists every entry exactly once
pub proof fn lemma_all_iters_enumerate(m: Map<ClientID, IdRanges<()>>)
    ensures
        forall|s: Seq<(&ClientID, &IdRanges<()>)>| #[trigger] iter_of(s, m) && s.len() == m.len() ==> enumerates(items_of(s), lift(m)),
{
    assert forall|s: Seq<(&ClientID, &IdRanges<()>)>| #[trigger] iter_of(s, m) && s.len() == m.len() implies enumerates(items_of(s), lift(m)) by {
        lemma_items_of_enumerates(s, m);
    }
}

impl<T: Merge> IdMapInner<T> {
    /*@extract yrs/src/ids.rs | impl<T: Merge> IdMapInner<T> | fn len | label=inner_len
    @ret r
    @sig
        ensures r == self.raw().len(),
    @start
        proof { axiom_client_id_ord_key_model(); }
    @*/
}

impl Encode for IdSet {
    /// every stored range has start <= end.  `IdSet::decode` establishes it: a decoded set can be encoded again.
    open spec fn enc_ok(&self) -> bool {
        ranges_ordered(self@)
    }

    // v1: what is written is the encoding of SOME enumeration of the stored (client, ranges) pairs
    /*@extract yrs/src/id_set.rs | impl Encode for IdSet | fn encode | label=idset_encode | rules=SUB(from=for (&client_id, block);;to=for (client_id, block)) INLINE(file=yrs/src/ids.rs;;container=impl<T: Merge> IdMapInner<T>;;fn=iter;;body=self.0.iter();;call=self.0.iter();;to=self.0.0.iter())
    @sig
        ensures
            E::v1() ==> idset_written(self@, old(encoder).out(), final(encoder).out()),
    @start
        let ghost o = encoder.out();
        let ghost mut done = Seq::<IdItem>::empty();
        proof {
            axiom_client_id_ord_key_model();
            self.0.lemma_view();
            lemma_all_iters_enumerate(self.0.raw());
        }
    @loop 1 iter=it
        invariant
            iter_of(it.seq(), self.0.raw()),
            enumerates(items_of(it.seq()), self@),
            done == items_of(it.seq()).take(it.index@ as int),
            self@ == lift(self.0.raw()),
            ranges_ordered(self@),
            it.seq().len() == self.0.raw().len(),
            0 <= it.index@ <= it.seq().len(),
            it.index@ == it.seq().len() ==> done == items_of(it.seq()),
            E::v1() ==> encoder.out() == o + enc_uint((it.seq().len() as u32) as nat) + enc_list(idset_enc_item(), done),
    @before 1 `stmt:call reset_ds_cur_val`
        let ghost i = it.index@ as int;
        proof {
            let all = items_of(it.seq());
            assert(it.seq()[i] == (client_id, block));
            assert(self.0.raw().contains_key(*client_id) && self.0.raw()[*client_id] == *block);
            assert(self@.contains_key(*client_id) && self@[*client_id] == block@);
            assert(ents_ordered(block@)) by {
                assert forall|j: int| 0 <= j < block@.len() implies (#[trigger] block@[j]).0.start <= block@[j].0.end by {
                    assert(self@[*client_id][j].0.start <= self@[*client_id][j].0.end);
                }
            }
            lemma_enc_list_push(idset_enc_item(), all.take(i), all[i]);
            assert(all.take(i).push(all[i]) =~= all.take(i + 1));
            assert(all[i] == (*client_id, block@));
            let p = o + enc_uint((it.seq().len() as u32) as nat);
            let q = enc_list(idset_enc_item(), all.take(i));
            assert(p + q + enc_uint(client_id.0 as nat) + enc_ranges(block@) =~= p + (q + enc_idset_item(all[i])));
            assert(i + 1 == all.len() ==> all.take(i + 1) =~= all);
        }
        proof { done = done.push((*client_id, block@)); }
    @end
        proof {
            // (at loop exit `done` is the whole enumeration)
            if E::v1() {
                let p = enc_uint((done.len() as u32) as nat);
                assert(o + p + enc_list(idset_enc_item(), done) =~= o + (p + enc_list(idset_enc_item(), done)));
                assert(enumerates(done, self@) && encoder.out() == o + enc_idset_items(done));
                assert(idset_written(self@, o, encoder.out()));
            }
        }
    @*/
}

pub proof fn lemma_idset_item_inverse(x: IdItem)
    requires
        client_id_53bit(x.0.0),
        ents_ordered(x.1),
        x.1.len() <= u32::MAX,
    ensures
        item_inverse(idset_item(), idset_enc_item(), x),
{
    assert forall|t: Seq<u8>| #[trigger] idset_item()(idset_enc_item()(x) + t) == Some((x, idset_enc_item()(x).len())) by {
        let e1 = enc_uint(x.0.0 as nat);
        let e2 = enc_ranges(x.1);
        let s = enc_idset_item(x) + t;
        assert(s =~= e1 + (e2 + t));
        lemma_dec_enc_u64(x.0.0, e2 + t);
        assert(s.skip(e1.len() as int) =~= e2 + t);
        theorem_ranges_round_trip(x.1, t);
        assert(ClientID(x.0.0) == x.0);
    }
}

/// the domain of the IdSet round trip: real client ids (53 bits: an invariant of the real `ClientID`, which the stand-in does
/// not enforce), ranges with start <= end, fewer than 2^32 ranges per client and fewer than 2^32 clients
pub open spec fn idset_items_dom(items: Seq<IdItem>) -> bool {
    &&& items.len() <= u32::MAX
    &&& forall|i: int| 0 <= i < items.len() ==> client_id_53bit((#[trigger] items[i]).0.0) && ents_ordered(items[i].1) && items[i].1.len() <= u32::MAX
}

/// C09 for IdSet (v1), in terms of the written item sequence: the decoder reads exactly the written sections, whatever follows
pub proof fn theorem_idset_items_round_trip(items: Seq<IdItem>, tail: Seq<u8>)
    requires
        idset_items_dom(items),
    ensures
        dec_idset(enc_idset_items(items) + tail) == Some((items, enc_idset_items(items).len())),
{
    let e1 = enc_uint(items.len());
    let body = enc_list(idset_enc_item(), items);
    let x = enc_idset_items(items) + tail;
    assert(x =~= e1 + (body + tail));
    lemma_dec_enc_u32(items.len() as u32, body + tail);
    assert(x.skip(e1.len() as int) =~= body + tail);
    assert forall|i: int| 0 <= i < items.len() implies item_inverse(idset_item(), idset_enc_item(), #[trigger] items[i]) by {
        lemma_idset_item_inverse(items[i]);
    }
    lemma_list_round_trip(idset_item(), idset_enc_item(), items, tail);
}

/// the domain of the IdSet round trip, on the set itself
pub open spec fn idset_dom(m: Map<ClientID, Seq<Ent<()>>>) -> bool {
    &&& m.len() <= u32::MAX
    &&& forall|c: ClientID| #[trigger] m.contains_key(c) ==> client_id_53bit(c.0) && ents_ordered(m[c]) && m[c].len() <= u32::MAX
}

/// C09 for IdSet (v1) on the WIRE: whatever order `IdSet::encode` enumerated the set `m` in, the decoder reads back
/// exactly the written sections -- an enumeration of `m` -- and stops in front of the tail.  `m` need not be canonical.
pub proof fn theorem_idset_wire_round_trip(m: Map<ClientID, Seq<Ent<()>>>, bytes: Seq<u8>, tail: Seq<u8>)
    requires
        idset_dom(m),
        idset_written(m, Seq::<u8>::empty(), bytes),
    ensures
        dec_idset(bytes + tail) is Some,
        dec_idset(bytes + tail)->Some_0.1 == bytes.len(),
        enumerates(dec_idset(bytes + tail)->Some_0.0, m),
{
    let items = choose|items: Seq<IdItem>| #[trigger] enumerates(items, m) && bytes == Seq::<u8>::empty() + enc_idset_items(items);
    assert(Seq::<u8>::empty() + enc_idset_items(items) =~= enc_idset_items(items));
    assert forall|i: int| 0 <= i < items.len() implies client_id_53bit((#[trigger] items[i]).0.0) && ents_ordered(items[i].1) && items[i].1.len() <= u32::MAX by {
        assert(m.contains_key(items[i].0) && m[items[i].0] == items[i].1);
    }
    theorem_idset_items_round_trip(items, tail);
}

/// a canonical non-empty sequence covers a point, and a covering sequence is non-empty (text of unit ids_lift)
pub proof fn lemma_nonempty_point<T: Merge>(s: Seq<Ent<T>>)
    requires canon(s),
    ensures s.len() > 0 <==> exists|k: int| covers(s, k),
{
    if s.len() > 0 {
        assert(inr(s[0].0, s[0].0.start as int));
        assert(covers(s, s[0].0.start as int));
    }
    if exists|k: int| covers(s, k) {
        let k = choose|k: int| covers(s, k);
        let i = idx_of(s, k);
        assert(inr(s[i].0, k));
    }
}

/// the representation invariant makes the stored map a function of the point set: two well-formed sets with the same
/// points are EQUAL (what makes `==`, `is_empty()` and the encoding agree with the mathematical set)
pub proof fn lemma_wf_map_unique(m1: Map<ClientID, Seq<Ent<()>>>, m2: Map<ClientID, Seq<Ent<()>>>)
    requires
        wf_map(m1),
        wf_map(m2),
        forall|c: ClientID, k: int| #![trigger has_pt(m1, c, k)] #![trigger has_pt(m2, c, k)] has_pt(m1, c, k) <==> has_pt(m2, c, k),
    ensures
        m1 == m2,
{
    assert forall|c: ClientID| m1.contains_key(c) <==> m2.contains_key(c) by {
        if m1.contains_key(c) {
            lemma_nonempty_point(m1[c]);
            let k = choose|k: int| covers(m1[c], k);
            assert(has_pt(m1, c, k));
            assert(has_pt(m2, c, k));
        }
        if m2.contains_key(c) {
            lemma_nonempty_point(m2[c]);
            let k = choose|k: int| covers(m2[c], k);
            assert(has_pt(m2, c, k));
            assert(has_pt(m1, c, k));
        }
    }
    assert forall|c: ClientID| m1.contains_key(c) implies m1[c] == m2[c] by {
        assert forall|k: int| covers(m1[c], k) <==> covers(m2[c], k) by {
            assert(has_pt(m1, c, k) <==> has_pt(m2, c, k));
        }
        lemma_canon_unique_unit(m1[c], m2[c]);
    }
    assert(m1 =~= m2);
}

/// an enumeration of a well-formed set describes it
pub proof fn lemma_enumerates_idset_of(items: Seq<IdItem>, m: Map<ClientID, Seq<Ent<()>>>)
    requires
        enumerates(items, m),
        wf_map(m),
    ensures
        idset_of(items, m),
{
    assert forall|c: ClientID, k: int| #![trigger has_pt(m, c, k)] has_pt(m, c, k) <==> items_pt(items, items.len() as int, c, k) by {
        if has_pt(m, c, k) {
            let i = choose|i: int| 0 <= i < items.len() && (#[trigger] items[i]).0 == c;
            assert(m[items[i].0] == items[i].1);
            assert(0 <= i < items.len() && i < items.len() && items[i].0 == c && covers(items[i].1, k));
        }
        if items_pt(items, items.len() as int, c, k) {
            let i = choose|i: int| 0 <= i < items.len() && i < items.len() && (#[trigger] items[i]).0 == c && covers(items[i].1, k);
            assert(m.contains_key(items[i].0) && m[items[i].0] == items[i].1);
        }
    }
}

/// C09 for IdSet (v1), end to end, on VALUES: for a set `m` that satisfies the representation invariant, whatever order
/// `IdSet::encode` enumerated it in, `IdSet::decode` applied to what was written (`bytes`, followed by any tail) succeeds, stops
/// in front of the tail, and EVERY value `m2` its contract admits (`idset_of(sections, m2)`) is `m`.
pub proof fn theorem_idset_round_trip(m: Map<ClientID, Seq<Ent<()>>>, bytes: Seq<u8>, tail: Seq<u8>)
    requires
        idset_dom(m),
        wf_map(m),
        idset_written(m, Seq::<u8>::empty(), bytes),
    ensures
        dec_idset(bytes + tail) is Some,
        dec_idset(bytes + tail)->Some_0.1 == bytes.len(),
        forall|m2: Map<ClientID, Seq<Ent<()>>>| #[trigger] idset_of(dec_idset(bytes + tail)->Some_0.0, m2) ==> m2 == m,
{
    theorem_idset_wire_round_trip(m, bytes, tail);
    let items = dec_idset(bytes + tail)->Some_0.0;
    lemma_enumerates_idset_of(items, m);
    assert forall|m2: Map<ClientID, Seq<Ent<()>>>| #[trigger] idset_of(items, m2) implies m2 == m by {
        assert forall|c: ClientID, k: int| #![trigger has_pt(m2, c, k)] #![trigger has_pt(m, c, k)] has_pt(m2, c, k) <==> has_pt(m, c, k) by {
            assert(has_pt(m2, c, k) <==> items_pt(items, items.len() as int, c, k));
            assert(has_pt(m, c, k) <==> items_pt(items, items.len() as int, c, k));
        }
        lemma_wf_map_unique(m2, m);
    }
}

/// C09 for IdRanges<()> (v1), on VALUES: for a CANONICAL list `s`, every value `r` the contract of `IdRanges::decode` admits
/// for the bytes `IdRanges::encode` wrote (`canon_of(raw, r)`, raw = the ranges read back = `s`) is `s`.
pub proof fn theorem_ranges_value_round_trip(s: Seq<Ent<()>>, tail: Seq<u8>)
    requires
        canon(s),
        s.len() <= u32::MAX,
    ensures
        dec_ranges(enc_ranges(s) + tail) == Some((s, enc_ranges(s).len())),
        forall|r: Seq<Ent<()>>| #[trigger] canon_of(s, r) ==> r == s,
{
    lemma_canon_ordered(s);
    theorem_ranges_round_trip(s, tail);
    assert forall|r: Seq<Ent<()>>| #[trigger] canon_of(s, r) implies r == s by {
        assert forall|c: int| covers(r, c) <==> covers(s, c) by {}
        lemma_canon_unique_unit(r, s);
    }
}

// ---------------------------------------------------------------------------------------------
// DECODED VALUES ARE CANONICAL (was: observation_decode_not_canonical / observation_decode_empty_entry, proved
// counter-examples against the old decoders; finding F-DC-9, repaired in /repo).  The decoders' postconditions
// (`canon_of` / `idset_of`) DETERMINE the value, and the value is in the domain of the whole IdRanges / IdSet algebra
// (units ids*, C16) and of BOTH encoders.
// ---------------------------------------------------------------------------------------------
/// the v2 delete-set register (EncoderV2::ds_curr_val) run over the writes `IdRanges::encode` performs for the list `s`
/// (per range: write_ds_clock(start), write_ds_len(end - start)), starting with register value `cur`:
/// `write_ds_clock(clock)` needs `clock >= ds_curr_val` and sets it to `clock`; `write_ds_len(len)` needs `len != 0` and
/// `ds_curr_val + len <= u32::MAX` and adds `len` -- the preconditions PROVED for the real bodies in unit lib0_v2
/// (labels v2_write_ds_clock / v2_write_ds_len).
pub open spec fn ds_writes_ok(s: Seq<Ent<()>>, cur: int) -> bool
    decreases s.len(),
{
    if s.len() == 0 {
        true
    } else {
        let r = s[0].0;
        &&& r.start >= cur                                  // write_ds_clock(r.start):      clock >= ds_curr_val
        &&& r.end - r.start != 0 && r.end - r.start >= 1    // write_ds_len(r.end - r.start): len != 0 (no underflow: start <= end)
        &&& r.start + (r.end - r.start) <= u32::MAX         //                               ds_curr_val + len <= u32::MAX
        &&& ds_writes_ok(s.skip(1), r.end as int)
    }
}

/// "a decoded value can be encoded again", v2: for a canonical list the clock arguments are non-decreasing along the list
/// and every length argument is >= 1, i.e. every write is within the proved domain of EncoderV2 (after `reset_ds_cur_val`,
/// cur = 0; `IdSet::encode` resets before every client)
pub proof fn lemma_canon_ds_ok(s: Seq<Ent<()>>, cur: int)
    requires
        canon(s),
        s.len() > 0 ==> cur <= s[0].0.start,
    ensures
        ds_writes_ok(s, cur),
    decreases s.len(),
{
    if s.len() > 0 {
        let t = s.skip(1);
        assert(s[0].0.start < s[0].0.end);
        assert forall|i: int| 0 <= i < t.len() implies (#[trigger] t[i]).0.start < t[i].0.end by {
            assert(t[i] == s[i + 1]);
        }
        assert forall|i: int, j: int| 0 <= i < j < t.len() implies (#[trigger] t[i]).0.end <= (#[trigger] t[j]).0.start by {
            assert(t[i] == s[i + 1] && t[j] == s[j + 1]);
        }
        assert forall|i: int, j: int| 0 <= i && j == i + 1 && j < t.len() && (#[trigger] t[i]).0.end == (#[trigger] t[j]).0.start implies !t[i].1.eq_spec(&t[j].1) by {
            assert(t[i] == s[i + 1] && t[j] == s[j + 1]);
        }
        if t.len() > 0 {
            assert(t[0] == s[1]);
            assert(s[0].0.end <= s[1].0.start);
        }
        lemma_canon_ds_ok(t, s[0].0.end as int);
    }
}

/// and conversely the old counter-examples are OUTSIDE that domain (why the v2 encoder panicked on decoded values before the
/// repair): an empty range violates `len != 0`, an unordered / overlapping pair violates `clock >= ds_curr_val`
pub proof fn lemma_non_canon_ds_not_ok()
    ensures
        !ds_writes_ok(seq![(3u32..3u32, ())], 0),
        !ds_writes_ok(seq![(5u32..6u32, ()), (0u32..3u32, ())], 0),
        !ds_writes_ok(seq![(0u32..5u32, ()), (2u32..7u32, ())], 0),
{
    let s1 = seq![(3u32..3u32, ())];
    assert(s1[0].0.end - s1[0].0.start == 0);
    let s2 = seq![(5u32..6u32, ()), (0u32..3u32, ())];
    assert(s2.skip(1)[0] == s2[1]);
    assert(!ds_writes_ok(s2.skip(1), 6)) by {
        assert(s2.skip(1)[0].0.start < 6);
    }
    let s3 = seq![(0u32..5u32, ()), (2u32..7u32, ())];
    assert(s3.skip(1)[0] == s3[1]);
    assert(!ds_writes_ok(s3.skip(1), 5)) by {
        assert(s3.skip(1)[0].0.start < 5);
    }
}

/// THEOREM (the opposite of the former observation_decode_not_canonical): whatever raw ranges come off the wire, every value
/// the contract of `IdRanges<()>::decode` admits is canonical, UNIQUE (the contract determines the value), within the domain
/// of the v1 encoder (start <= end) and of the v2 encoder (ds_writes_ok from register 0)
pub proof fn theorem_decoded_ranges_canonical(raw: Seq<Ent<()>>, r: Seq<Ent<()>>, r2: Seq<Ent<()>>)
    requires
        canon_of(raw, r),
        canon_of(raw, r2),
    ensures
        canon(r),
        ents_ordered(r),
        ds_writes_ok(r, 0),
        r2 == r,
{
    lemma_canon_ordered(r);
    lemma_canon_ds_ok(r, 0);
    assert forall|c: int| covers(r2, c) <==> covers(r, c) by {
        assert(covers(r2, c) <==> covers(raw, c));
        assert(covers(r, c) <==> covers(raw, c));
    }
    lemma_canon_unique_unit(r2, r);
}

/// the four inputs of the former observation, now: the wire lists still decode (`dec_ranges` of their encoding is the raw
/// list), and the VALUE is the canonical list -- sorted, merged, empty range dropped
pub proof fn theorem_decode_canonicalises_examples()
    ensures
        ({
            // unsorted
            let s = seq![(5u32..6u32, ()), (0u32..3u32, ())];
            dec_ranges(enc_ranges(s)) == Some((s, enc_ranges(s).len()))
                && forall|r: Seq<Ent<()>>| #[trigger] canon_of(s, r) ==> r == seq![(0u32..3u32, ()), (5u32..6u32, ())]
        }),
        ({
            // an empty range
            let s = seq![(3u32..3u32, ())];
            dec_ranges(enc_ranges(s)) == Some((s, enc_ranges(s).len()))
                && forall|r: Seq<Ent<()>>| #[trigger] canon_of(s, r) ==> r == Seq::<Ent<()>>::empty()
        }),
        ({
            // overlapping
            let s = seq![(0u32..5u32, ()), (2u32..7u32, ())];
            dec_ranges(enc_ranges(s)) == Some((s, enc_ranges(s).len()))
                && forall|r: Seq<Ent<()>>| #[trigger] canon_of(s, r) ==> r == seq![(0u32..7u32, ())]
        }),
        ({
            // adjacent
            let s = seq![(0u32..2u32, ()), (2u32..4u32, ())];
            dec_ranges(enc_ranges(s)) == Some((s, enc_ranges(s).len()))
                && forall|r: Seq<Ent<()>>| #[trigger] canon_of(s, r) ==> r == seq![(0u32..4u32, ())]
        }),
{
    let e = Seq::<u8>::empty();
    axiom_unit_eq();
    let s1 = seq![(5u32..6u32, ()), (0u32..3u32, ())];
    let c1 = seq![(0u32..3u32, ()), (5u32..6u32, ())];
    theorem_ranges_round_trip(s1, e);
    assert(enc_ranges(s1) + e =~= enc_ranges(s1));
    lemma_example_canon(s1, c1);
    let s2 = seq![(3u32..3u32, ())];
    let c2 = Seq::<Ent<()>>::empty();
    theorem_ranges_round_trip(s2, e);
    assert(enc_ranges(s2) + e =~= enc_ranges(s2));
    lemma_example_canon(s2, c2);
    let s3 = seq![(0u32..5u32, ()), (2u32..7u32, ())];
    let c3 = seq![(0u32..7u32, ())];
    theorem_ranges_round_trip(s3, e);
    assert(enc_ranges(s3) + e =~= enc_ranges(s3));
    lemma_example_canon(s3, c3);
    let s4 = seq![(0u32..2u32, ()), (2u32..4u32, ())];
    let c4 = seq![(0u32..4u32, ())];
    theorem_ranges_round_trip(s4, e);
    assert(enc_ranges(s4) + e =~= enc_ranges(s4));
    lemma_example_canon(s4, c4);
}

/// helper for the examples: `c` is canonical and covers the same clocks as the (at most two) raw ranges of `s`
pub proof fn lemma_example_canon(s: Seq<Ent<()>>, c: Seq<Ent<()>>)
    requires
        s.len() <= 2,
        c.len() <= 2,
        forall|i: int| 0 <= i < c.len() ==> (#[trigger] c[i]).0.start < c[i].0.end,
        c.len() == 2 ==> c[0].0.end < c[1].0.start,
        forall|k: int| ((0 < s.len() && inr(s[0].0, k)) || (1 < s.len() && inr(s[1].0, k))) <==> ((0 < c.len() && inr(c[0].0, k)) || (1 < c.len() && inr(c[1].0, k))),
    ensures
        forall|r: Seq<Ent<()>>| #[trigger] canon_of(s, r) ==> r == c,
{
    axiom_unit_eq();
    assert(canon(c));
    assert forall|k: int| covers(c, k) <==> covers(s, k) by {
        if covers(c, k) {
            let i = idx_of(c, k);
            assert(inr(c[i].0, k));
            if 0 < s.len() && inr(s[0].0, k) { } else { assert(inr(s[1].0, k)); }
        }
        if covers(s, k) {
            let i = idx_of(s, k);
            assert(inr(s[i].0, k));
            if 0 < c.len() && inr(c[0].0, k) { } else { assert(inr(c[1].0, k)); }
        }
    }
    assert forall|r: Seq<Ent<()>>| #[trigger] canon_of(s, r) implies r == c by {
        assert forall|k: int| covers(r, k) <==> covers(c, k) by {
            assert(covers(r, k) <==> covers(s, k));
        }
        lemma_canon_unique_unit(r, c);
    }
}

/// the former observation_decode_empty_entry, now its opposite: a client section WITHOUT ranges (`01 07 00`: one client,
/// id 7, zero ranges) still decodes, and the value is the EMPTY set -- no empty per-client entry is stored
pub proof fn theorem_decode_no_empty_entry()
    ensures
        ({
            let items = seq![(ClientID(7), Seq::<Ent<()>>::empty())];
            dec_idset(enc_idset_items(items)) == Some((items, enc_idset_items(items).len()))
                && forall|m: Map<ClientID, Seq<Ent<()>>>| #[trigger] idset_of(items, m) ==> m == Map::<ClientID, Seq<Ent<()>>>::empty()
        }),
{
    let items = seq![(ClientID(7), Seq::<Ent<()>>::empty())];
    theorem_idset_items_round_trip(items, Seq::<u8>::empty());
    assert(enc_idset_items(items) + Seq::<u8>::empty() =~= enc_idset_items(items));
    let e = Map::<ClientID, Seq<Ent<()>>>::empty();
    assert forall|m: Map<ClientID, Seq<Ent<()>>>| #[trigger] idset_of(items, m) implies m == e by {
        assert forall|c: ClientID, k: int| #![trigger has_pt(m, c, k)] #![trigger has_pt(e, c, k)] has_pt(m, c, k) <==> has_pt(e, c, k) by {
            assert(has_pt(m, c, k) <==> items_pt(items, items.len() as int, c, k));
            if items_pt(items, items.len() as int, c, k) {
                let i = choose|i: int| 0 <= i < items.len() && i < items.len() && (#[trigger] items[i]).0 == c && covers(items[i].1, k);
                let j = idx_of(items[i].1, k);
                assert(0 <= j < items[i].1.len());
            }
        }
        lemma_wf_map_unique(m, e);
    }
}
