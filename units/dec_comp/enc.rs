// units/dec_comp/enc.rs — the encoders of Range<u32> / IdRanges<()> / IdSet (yrs/src/id_set.rs) and the round trip
// decode(encode(x) ++ tail) == (x, tail) in the v1 format (C09 for the delete-set layer; C10: "a value that was decoded
// successfully can be encoded again" = the decoders establish `enc_ok`, the precondition of the encoders).

// ---------------------------------------------------------------------------------------------
// trait Encoder (yrs/src/updates/encoder.rs), SLICED to the methods these bodies call; nothing is known about a
// non-v1 encoder; for an encoder with `v1()` (EncoderV1) the delete-set writes are plain u32 var-ints
// ---------------------------------------------------------------------------------------------
pub trait Encoder: Write {
    spec fn v1() -> bool;

    fn reset_ds_cur_val(&mut self)
        ensures
            Self::v1() ==> final(self).out() == old(self).out(),
    ;

    fn write_ds_clock(&mut self, clock: u32)
        ensures
            Self::v1() ==> final(self).out() == old(self).out() + enc_uint(clock as nat),
    ;

    fn write_ds_len(&mut self, len: u32)
        ensures
            Self::v1() ==> final(self).out() == old(self).out() + enc_uint(len as nat),
    ;
}

/*@extract yrs/src/updates/encoder.rs | - | struct EncoderV1 @*/

impl Write for EncoderV1 {
    open spec fn out(&self) -> Seq<u8> {
        self.buf@
    }

    /*@extract yrs/src/updates/encoder.rs | impl Write for EncoderV1 | fn write_all | label=encoder_v1_write_all @*/

    /*@extract yrs/src/updates/encoder.rs | impl Write for EncoderV1 | fn write_u8 | label=encoder_v1_write_u8 @*/
}

impl Encoder for EncoderV1 {
    open spec fn v1() -> bool {
        true
    }

    /*@extract yrs/src/updates/encoder.rs | impl Encoder for EncoderV1 | fn reset_ds_cur_val | label=encoder_v1_reset_ds_cur_val @*/

    /*@extract yrs/src/updates/encoder.rs | impl Encoder for EncoderV1 | fn write_ds_clock | label=encoder_v1_write_ds_clock @*/

    /*@extract yrs/src/updates/encoder.rs | impl Encoder for EncoderV1 | fn write_ds_len | label=encoder_v1_write_ds_len @*/
}

/// trait Encode (yrs/src/updates/encoder.rs).  `enc_ok` is the domain on which `encode` neither overflows nor panics.
pub trait Encode {
    spec fn enc_ok(&self) -> bool;

    fn encode<E: Encoder>(&self, encoder: &mut E)
        requires
            self.enc_ok(),
    ;
}

// ---------------------------------------------------------------------------------------------
// counted lists: the encoding side and the generic round trip
// ---------------------------------------------------------------------------------------------
pub open spec fn enc_list<T>(g: spec_fn(T) -> Seq<u8>, items: Seq<T>) -> Seq<u8>
    decreases items.len(),
{
    if items.len() == 0 {
        Seq::<u8>::empty()
    } else {
        g(items[0]) + enc_list(g, items.skip(1))
    }
}

/// appending one item appends its encoding
pub proof fn lemma_enc_list_push<T>(g: spec_fn(T) -> Seq<u8>, items: Seq<T>, x: T)
    ensures
        enc_list(g, items.push(x)) == enc_list(g, items) + g(x),
    decreases items.len(),
{
    if items.len() == 0 {
        assert(items.push(x).skip(1) =~= Seq::<T>::empty());
        assert(enc_list(g, items.push(x).skip(1)) =~= Seq::<u8>::empty());
        assert(g(x) + Seq::<u8>::empty() =~= Seq::<u8>::empty() + g(x));
    } else {
        assert(items.push(x).skip(1) =~= items.skip(1).push(x));
        lemma_enc_list_push(g, items.skip(1), x);
        assert(g(items[0]) + (enc_list(g, items.skip(1)) + g(x)) =~= (g(items[0]) + enc_list(g, items.skip(1))) + g(x));
    }
}

/// the item decoder inverts the item encoder on `x`, whatever follows
pub open spec fn item_inverse<T>(f: spec_fn(Seq<u8>) -> Option<(T, nat)>, g: spec_fn(T) -> Seq<u8>, x: T) -> bool {
    forall|t: Seq<u8>| #[trigger] f(g(x) + t) == Some((x, g(x).len()))
}

/// C09 for counted lists: decoding the concatenated encodings of n items (followed by anything) yields the items
pub proof fn lemma_list_round_trip<T>(f: spec_fn(Seq<u8>) -> Option<(T, nat)>, g: spec_fn(T) -> Seq<u8>, items: Seq<T>, tail: Seq<u8>)
    requires
        forall|i: int| 0 <= i < items.len() ==> item_inverse(f, g, #[trigger] items[i]),
    ensures
        dec_list(f, enc_list(g, items) + tail, items.len()) == Some((items, enc_list(g, items).len())),
    decreases items.len(),
{
    if items.len() == 0 {
        assert(items =~= Seq::<T>::empty());
    } else {
        let x = items[0];
        let rest = items.skip(1);
        let e = g(x);
        let s = enc_list(g, items) + tail;
        assert(item_inverse(f, g, items[0]));
        assert(s =~= e + (enc_list(g, rest) + tail));
        assert(f(e + (enc_list(g, rest) + tail)) == Some((x, e.len())));
        assert(s.skip(e.len() as int) =~= enc_list(g, rest) + tail);
        assert forall|i: int| 0 <= i < rest.len() implies item_inverse(f, g, #[trigger] rest[i]) by {
            assert(rest[i] == items[i + 1]);
        }
        lemma_list_round_trip(f, g, rest, tail);
        assert(seq![x] + rest =~= items);
    }
}

// ---------------------------------------------------------------------------------------------
// Range<u32>
// ---------------------------------------------------------------------------------------------
impl Encode for Range<u32> {
    /// `self.end - self.start` must not underflow.  Every decoded range satisfies it (Range::decode: start <= end).
    open spec fn enc_ok(&self) -> bool {
        self.start <= self.end
    }

    /*@extract yrs/src/id_set.rs | impl Encode for Range<u32> | fn encode | label=range_encode
    @sig
        ensures
            E::v1() ==> final(encoder).out() == old(encoder).out() + enc_range(*self),
    @start
        proof {
            let o = encoder.out();
            assert(o + enc_uint(self.start as nat) + enc_uint((self.end - self.start) as nat) =~= o + enc_range(*self));
        }
    @*/
}

/// C09 for Range<u32> (v1): every range with start <= end, every tail
pub proof fn theorem_range_round_trip(r: Range<u32>, tail: Seq<u8>)
    requires
        r.start <= r.end,
    ensures
        dec_range(enc_range(r) + tail) == Some((r, enc_range(r).len())),
{
    let e1 = enc_uint(r.start as nat);
    let e2 = enc_uint((r.end - r.start) as nat);
    let s = enc_range(r) + tail;
    assert(s =~= e1 + (e2 + tail));
    lemma_dec_enc_u32(r.start, e2 + tail);
    assert(s.skip(e1.len() as int) =~= e2 + tail);
    lemma_dec_enc_u32((r.end - r.start) as u32, tail);
    let r2 = r.start..((r.start + (r.end - r.start)) as u32);
    assert(r2.start == r.start && r2.end == r.end);
    assert(r2 == r);
}

// ---------------------------------------------------------------------------------------------
// IdRanges<()>
// ---------------------------------------------------------------------------------------------
pub open spec fn enc_range_ent(e: Ent<()>) -> Seq<u8> {
    enc_range(e.0)
}

pub open spec fn range_enc_item() -> spec_fn(Ent<()>) -> Seq<u8> {
    |e: Ent<()>| enc_range_ent(e)
}

/// what `IdRanges<()>::encode` writes (the count is truncated to u32, as the code does)
pub open spec fn enc_ranges(s: Seq<Ent<()>>) -> Seq<u8> {
    enc_uint((s.len() as u32) as nat) + enc_list(range_enc_item(), s)
}

/// every range has start <= end
pub open spec fn ents_ordered(s: Seq<Ent<()>>) -> bool {
    forall|i: int| 0 <= i < s.len() ==> (#[trigger] s[i]).0.start <= s[i].0.end
}

impl<T: Merge> IdRanges<T> {
    /*@extract yrs/src/ids.rs | impl<T: Merge> IdRanges<T> | fn len | label=idranges_len
    @ret r
    @sig
        ensures r == self@.len(),
    @*/
}

impl Encode for IdRanges<()> {
    open spec fn enc_ok(&self) -> bool {
        ents_ordered(self@)
    }

    /*@extract yrs/src/id_set.rs | impl Encode for IdRanges<()> | fn encode | label=idranges_encode | rules=INLINE(file=yrs/src/ids.rs;;container=impl<T: Merge> IdRanges<T>;;fn=iter;;body=self.0.iter();;call=self.iter();;to=self.0.iter())
    @sig
        ensures
            E::v1() ==> final(encoder).out() == old(encoder).out() + enc_ranges(self@),
    @start
        let ghost o = encoder.out();
        let ghost s = self@;
    @loop 1 iter=it
        invariant
            s == self@,
            ents_ordered(s),
            it.seq().len() == s.len(),
            forall|j: int| 0 <= j < s.len() ==> *(#[trigger] it.seq()[j]) == s[j],
            0 <= it.index@ <= s.len(),
            E::v1() ==> encoder.out() == o + enc_uint((s.len() as u32) as nat) + enc_list(range_enc_item(), s.take(it.index@ as int)),
    @before 1 `stmt:call encode`
        let ghost i = it.index@ as int;
        proof {
            assert(*it.seq()[i] == s[i]);
            assert(s[i].0 == *range);
            lemma_enc_list_push(range_enc_item(), s.take(i), s[i]);
            assert(s.take(i).push(s[i]) =~= s.take(i + 1));
            let p = o + enc_uint((s.len() as u32) as nat);
            assert(p + enc_list(range_enc_item(), s.take(i)) + enc_range(*range) =~= p + (enc_list(range_enc_item(), s.take(i)) + enc_range_ent(s[i])));
        }
    @end
        proof {
            assert(s.take(s.len() as int) =~= s);
            let p = enc_uint((s.len() as u32) as nat);
            assert(o + p + enc_list(range_enc_item(), s) =~= o + (p + enc_list(range_enc_item(), s)));
        }
    @*/
}

pub proof fn lemma_range_item_inverse(e: Ent<()>)
    requires
        e.0.start <= e.0.end,
    ensures
        item_inverse(range_item(), range_enc_item(), e),
{
    assert forall|t: Seq<u8>| #[trigger] range_item()(range_enc_item()(e) + t) == Some((e, range_enc_item()(e).len())) by {
        theorem_range_round_trip(e.0, t);
    }
}

/// C09 for IdRanges<()> (v1): every list of fewer than 2^32 ranges with start <= end (canonical or not), every tail
pub proof fn theorem_ranges_round_trip(s: Seq<Ent<()>>, tail: Seq<u8>)
    requires
        ents_ordered(s),
        s.len() <= u32::MAX,
    ensures
        dec_ranges(enc_ranges(s) + tail) == Some((s, enc_ranges(s).len())),
{
    let e1 = enc_uint(s.len());
    let body = enc_list(range_enc_item(), s);
    let x = enc_ranges(s) + tail;
    assert(x =~= e1 + (body + tail));
    lemma_dec_enc_u32(s.len() as u32, body + tail);
    assert(x.skip(e1.len() as int) =~= body + tail);
    assert forall|i: int| 0 <= i < s.len() implies item_inverse(range_item(), range_enc_item(), #[trigger] s[i]) by {
        lemma_range_item_inverse(s[i]);
    }
    lemma_list_round_trip(range_item(), range_enc_item(), s, tail);
}
