// units/dec_comp/ids.rs — delete-set / id-set decoders of yrs/src/id_set.rs:  Range<u32>, IdRanges<()>, IdSet

// ---------------------------------------------------------------------------------------------
// v1 wire format and what the decoders compute on ANY byte string (None = Err, Some((value, k)) = value from the first k bytes)
// ---------------------------------------------------------------------------------------------
pub open spec fn enc_range(r: Range<u32>) -> Seq<u8> {
    enc_uint(r.start as nat) + enc_uint((r.end - r.start) as nat)
}

pub open spec fn dec_range(s: Seq<u8>) -> Option<(Range<u32>, nat)> {
    match dec_u32(s) {
        None => None,
        Some((clock, k)) => match dec_u32(s.skip(k as int)) {
            None => None,
            Some((len, k2)) => if clock + len > u32::MAX { None } else { Some((clock..((clock + len) as u32), k + k2)) },
        },
    }
}

/// a range as an entry of an `IdRanges<()>` (the attached value is `()`)
pub open spec fn dec_range_ent(s: Seq<u8>) -> Option<(Ent<()>, nat)> {
    match dec_range(s) {
        None => None,
        Some((r, k)) => Some(((r, ()), k)),
    }
}

pub open spec fn range_item() -> spec_fn(Seq<u8>) -> Option<(Ent<()>, nat)> {
    |s: Seq<u8>| dec_range_ent(s)
}

/// `IdRanges<()>::decode`: a u32 count, then that many ranges
pub open spec fn dec_ranges(s: Seq<u8>) -> Option<(Seq<Ent<()>>, nat)> {
    match dec_u32(s) {
        None => None,
        Some((n, k)) => match dec_list(range_item(), s.skip(k as int), n as nat) {
            None => None,
            Some((rs, k2)) => Some((rs, k + k2)),
        },
    }
}

/// every successful range decode consumes between 2 and 22 bytes
pub proof fn lemma_dec_range_bounded(s: Seq<u8>)
    ensures
        match dec_range(s) {
            Some((r, k)) => 2 <= k <= s.len() && r.start <= r.end,
            None => true,
        },
{
    lemma_dec_u32_bounded(s);
    if dec_u32(s) is Some {
        lemma_dec_u32_bounded(s.skip(dec_u32(s)->Some_0.1 as int));
    }
}

pub proof fn lemma_range_item_bounded()
    ensures
        item_bounded(range_item(), 2),
{
    assert forall|s: Seq<u8>| (#[trigger] range_item()(s)) is Some implies 2 <= range_item()(s)->Some_0.1 <= s.len() by {
        lemma_dec_range_bounded(s);
    }
}

/// C10 for `dec_ranges`: a decoded value with n ranges took at least 1 + 2n bytes
pub proof fn lemma_dec_ranges_bounded(s: Seq<u8>)
    ensures
        match dec_ranges(s) {
            Some((rs, k)) => 1 + 2 * rs.len() <= k <= s.len(),
            None => true,
        },
{
    lemma_dec_u32_bounded(s);
    if dec_u32(s) is Some {
        let (n, k) = dec_u32(s)->Some_0;
        lemma_range_item_bounded();
        lemma_dec_list_bounded(range_item(), 2, s.skip(k as int), n as nat);
    }
}

// ---------------------------------------------------------------------------------------------
// Range<u32>
// ---------------------------------------------------------------------------------------------
impl Decode for Range<u32> {
    // TOTAL + PROGRESS (trait contract), RESULT SHAPE start <= end, and for a v1 decoder equality with `dec_range`
    /*@extract yrs/src/id_set.rs | impl Decode for Range<u32> | fn decode | label=range_decode
    @ret res
    @sig
        ensures
            res is Ok ==> res->Ok_0.start <= res->Ok_0.end,
            res is Ok ==> res->Ok_0.enc_ok(),
            res is Ok ==> final(decoder).rest().len() + 2 <= old(decoder).rest().len(),
            D::v1() ==> read_post(old(decoder).rest(), final(decoder).rest(), res, dec_range(old(decoder).rest())),
    @start
        let ghost s0 = decoder.rest();
    @after 1 `stmt:let clock`
        let ghost s1 = decoder.rest();
        proof {
            lemma_suffix_trans(s0, s1);
            lemma_suffix_len(s0, s1);
            if D::v1() {
                let k = dec_u32(s0)->Some_0.1;
                lemma_dec_u32_bounded(s0);
                lemma_skip_skip_all(s0, k);
                lemma_dec_u32_bounded(s1);
            }
        }
    @*/
}

// ---------------------------------------------------------------------------------------------
// IdRanges<()>
// ---------------------------------------------------------------------------------------------
impl<T: Merge> IdRanges<T> {
    /*@extract yrs/src/ids.rs | impl<T: Merge> IdRanges<T> | fn from_raw
    @ret r
    @sig
        ensures r@ == raw@,
    @*/
}

impl Decode for IdRanges<()> {
    // (a) TOTAL + PROGRESS: every iteration consumes >= 2 bytes (invariant `decoder.rest().len() + 2 * n <= s1.len()`)
    // (b) ALLOCATION BUDGET: the capacity request goes through vx_budget (F-DC-1, repaired: capped at 1024)
    // (c) RESULT SHAPE: every range has start <= end, the value has at most (consumed bytes) / 2 entries; NOT canonical
    // (d) v1: equality with `dec_ranges`
    /*@extract yrs/src/id_set.rs | impl Decode for IdRanges<()> | fn decode | label=idranges_decode | rules=SUB(from=SmallVec::with_capacity;;to=vx_budget(decoder).vec_with_capacity::<(Range<u32>, ())>)
    @ret res
    @sig
        ensures
            res is Ok ==> 2 * res->Ok_0@.len() < old(decoder).rest().len() - final(decoder).rest().len(),
            res is Ok ==> forall|i: int| 0 <= i < res->Ok_0@.len() ==> (#[trigger] res->Ok_0@[i]).0.start <= res->Ok_0@[i].0.end,
            res is Ok ==> res->Ok_0.enc_ok(),
            D::v1() ==> match dec_ranges(old(decoder).rest()) {
                Some((v, k)) => res is Ok && res->Ok_0@ == v && k <= old(decoder).rest().len() && final(decoder).rest() == old(decoder).rest().skip(k as int),
                None => res is Err,
            },
    @start
        let ghost s0 = decoder.rest();
        let ghost mut kk: nat = 0;
    @after 1 `stmt:let len`
        let ghost s1 = decoder.rest();
        proof {
            lemma_read_progress::<u32>(s0, s1, Ok::<u32, Error>(len));
            lemma_suffix_refl(s1);
            lemma_dec_list_start(range_item(), s1, len as nat);
        }
    @loop 1 iter=it
        invariant
            s0 == old(decoder).rest(),
            decoder.wf(),
            suffix_of(s0, s1),
            suffix_of(s1, decoder.rest()),
            s1.len() < s0.len(),
            it.snapshot@.remaining().len() == len,
            0 <= it.index@ <= len,
            ranges@.len() == it.index@,
            decoder.rest().len() + 2 * it.index@ <= s1.len(),
            forall|i: int| 0 <= i < ranges@.len() ==> (#[trigger] ranges@[i]).0.start <= ranges@[i].0.end,
            D::v1() ==> dec_u32(s0) is Some && dec_u32(s0)->Some_0.0 == len && s1 == s0.skip(dec_u32(s0)->Some_0.1 as int),
            D::v1() ==> kk <= s1.len() && decoder.rest() == s1.skip(kk as int)
                && dec_list(range_item(), s1, len as nat) == list_join(ranges@, kk, dec_list(range_item(), decoder.rest(), (len - it.index@) as nat)),
    @before 1 `stmt:call push`
        let ghost sa = decoder.rest();
        let ghost ra = ranges@;
        proof {
            lemma_suffix_step(s0, s1, sa);
            lemma_suffix_trans(s0, sa);
            if D::v1() {
                lemma_range_item_bounded();
                lemma_dec_list_step(range_item(), 2, s1, len as nat, ra, kk, (len - ra.len()) as nat);
            }
        }
    @after 1 `stmt:call push`
        proof {
            lemma_suffix_step(s1, sa, decoder.rest());
            if D::v1() {
                kk = kk + dec_range(sa)->Some_0.1;
                assert(dec_range_ent(sa) == range_item()(sa));
            }
        }
    @before 1 `stmt:call Ok`
        proof {
            lemma_suffix_step(s0, s1, decoder.rest());
            if D::v1() {
                lemma_dec_u32_bounded(s0);
                lemma_counted_finish(range_item(), s0, dec_u32(s0)->Some_0.1, len as nat, s1, ranges@, kk);
            }
        }
    @*/
}

// ---------------------------------------------------------------------------------------------
// IdSet
// ---------------------------------------------------------------------------------------------
/*@extract yrs/src/ids.rs | - | struct IdMapInner @*/

/// per-client entry sequences
pub open spec fn lift<T>(m: Map<ClientID, IdRanges<T>>) -> Map<ClientID, Seq<Ent<T>>> {
    m.map_values(|r: IdRanges<T>| r@)
}

pub proof fn lemma_lift_insert<T>(m: Map<ClientID, IdRanges<T>>, k: ClientID, v: IdRanges<T>)
    ensures lift(m.insert(k, v)) == lift(m).insert(k, v@),
{
    assert(lift(m.insert(k, v)) =~= lift(m).insert(k, v@));
}

impl<T: Merge> IdMapInner<T> {
    /// the stored map (client -> IdRanges)
    pub closed spec fn raw(&self) -> Map<ClientID, IdRanges<T>> {
        self.0@
    }

    pub closed spec fn view(&self) -> Map<ClientID, Seq<Ent<T>>> {
        lift(self.0@)
    }

    pub proof fn lemma_view(&self)
        ensures self@ == lift(self.raw()),
    {
    }

    /*@extract yrs/src/ids.rs | impl<T: Merge> IdMapInner<T> | fn clients_mut | label=inner_clients_mut
    @ret r
    @sig
        ensures
            r@ == old(self).raw(),
            final(self).raw() == final(r)@,
    @*/
}

impl<T: Merge> Default for IdMapInner<T> {
    /*@extract yrs/src/ids.rs | impl<T: Merge> Default for IdMapInner<T> | fn default | label=inner_default
    @ret r
    @sig
        ensures r@ == Map::<ClientID, Seq<Ent<T>>>::empty(),
    @start
        proof { assert(lift(Map::<ClientID, IdRanges<T>>::empty()) =~= Map::<ClientID, Seq<Ent<T>>>::empty()); }
    @*/
}

/*@extract yrs/src/id_set.rs | - | type IdRange @*/

/*@extract yrs/src/id_set.rs | - | struct IdSet @*/

/// `#[derive(Default)]` of IdSet, written out (as in unit ids_lift)
impl Default for IdSet {
    fn default() -> (r: Self)
        ensures r@ == Map::<ClientID, Seq<Ent<()>>>::empty(),
    {
        IdSet(IdMapInner::default())
    }
}

impl IdSet {
    pub open spec fn view(&self) -> Map<ClientID, Seq<Ent<()>>> {
        self.0@
    }

    /*@extract yrs/src/id_set.rs | impl IdSet | fn new | label=idset_new
    @ret r
    @sig
        ensures r@ == Map::<ClientID, Seq<Ent<()>>>::empty(),
    @*/
}

/// one (client, ranges) item of an id set: the client as u64 var-int (must fit into 53 bits), then the client's ranges
pub open spec fn dec_idset_item(s: Seq<u8>) -> Option<((ClientID, Seq<Ent<()>>), nat)> {
    match dec_u64(s) {
        None => None,
        Some((client, k)) => match dec_ranges(s.skip(k as int)) {
            None => None,
            Some((rs, k2)) => if client_id_53bit(client) { Some(((ClientID(client), rs), k + k2)) } else { None },
        },
    }
}

pub open spec fn idset_item() -> spec_fn(Seq<u8>) -> Option<((ClientID, Seq<Ent<()>>), nat)> {
    |s: Seq<u8>| dec_idset_item(s)
}

/// the map built by inserting the items one after the other (a later item REPLACES an earlier one of the same client)
pub open spec fn map_of<V>(items: Seq<(ClientID, V)>) -> Map<ClientID, V>
    decreases items.len(),
{
    if items.len() == 0 {
        Map::<ClientID, V>::empty()
    } else {
        map_of(items.drop_last()).insert(items.last().0, items.last().1)
    }
}

/// `IdSet::decode`: a u32 client count, then that many items
pub open spec fn dec_idset(s: Seq<u8>) -> Option<(Map<ClientID, Seq<Ent<()>>>, nat)> {
    match dec_u32(s) {
        None => None,
        Some((n, k)) => match dec_list(idset_item(), s.skip(k as int), n as nat) {
            None => None,
            Some((items, k2)) => Some((map_of(items), k + k2)),
        },
    }
}

pub proof fn lemma_idset_item_bounded()
    ensures
        item_bounded(idset_item(), 2),
{
    assert forall|s: Seq<u8>| (#[trigger] idset_item()(s)) is Some implies 2 <= idset_item()(s)->Some_0.1 <= s.len() by {
        lemma_dec_u64_bounded(s);
        lemma_dec_ranges_bounded(s.skip(dec_u64(s)->Some_0.1 as int));
    }
}

pub proof fn lemma_map_of_push<V>(items: Seq<(ClientID, V)>, c: ClientID, v: V)
    ensures
        map_of(items.push((c, v))) == map_of(items).insert(c, v),
{
    assert(items.push((c, v)).drop_last() =~= items);
}

/// the map has at most as many clients as there were items
pub proof fn lemma_map_of_len<V>(items: Seq<(ClientID, V)>)
    ensures
        map_of(items).len() <= items.len(),
    decreases items.len(),
{
    if items.len() > 0 {
        lemma_map_of_len(items.drop_last());
    }
}

/// every range stored for any client has start <= end -- ALL that `IdSet::decode` guarantees about the shape of its result
pub open spec fn ranges_ordered(m: Map<ClientID, Seq<Ent<()>>>) -> bool {
    forall|c: ClientID, i: int| #![trigger m[c][i]] m.contains_key(c) && 0 <= i < m[c].len() ==> m[c][i].0.start <= m[c][i].0.end
}

impl Decode for IdSet {
    // (a) TOTAL + PROGRESS: every iteration consumes >= 2 bytes (invariant `decoder.rest().len() + 2 * i <= s1.len()`)
    //     the client id goes through `ClientID::decode` (F-DC-2, repaired): a value >= 2^53 is an error
    // (c) RESULT SHAPE: at most (consumed bytes) / 2 clients, every stored range has start <= end; NOT canonical, empty
    //     per-client entries possible, a repeated client REPLACES the earlier entry
    // (d) v1: equality with `dec_idset`
    /*@extract yrs/src/id_set.rs | impl Decode for IdSet | fn decode | label=idset_decode
    @ret res
    @sig
        ensures
            res is Ok ==> 2 * res->Ok_0@.len() < old(decoder).rest().len() - final(decoder).rest().len(),
            res is Ok ==> ranges_ordered(res->Ok_0@),
            res is Ok ==> res->Ok_0.enc_ok(),
            D::v1() ==> match dec_idset(old(decoder).rest()) {
                Some((m, k)) => res is Ok && res->Ok_0@ == m && k <= old(decoder).rest().len() && final(decoder).rest() == old(decoder).rest().skip(k as int),
                None => res is Err,
            },
    @start
        let ghost s0 = decoder.rest();
        let ghost mut kk: nat = 0;
        let ghost mut items = Seq::<(ClientID, Seq<Ent<()>>)>::empty();
    @after 1 `stmt:let client_len`
        let ghost s1 = decoder.rest();
        proof {
            lemma_read_progress::<u32>(s0, s1, Ok::<u32, Error>(client_len));
            lemma_suffix_refl(s1);
            lemma_dec_list_start(idset_item(), s1, client_len as nat);
        }
    @loop 1
        invariant
            s0 == old(decoder).rest(),
            decoder.wf(),
            suffix_of(s0, s1),
            suffix_of(s1, decoder.rest()),
            s1.len() < s0.len(),
            0 <= i <= client_len,
            items.len() == i,
            set@ == map_of(items),
            ranges_ordered(set@),
            decoder.rest().len() + 2 * i <= s1.len(),
            D::v1() ==> dec_u32(s0) is Some && dec_u32(s0)->Some_0.0 == client_len && s1 == s0.skip(dec_u32(s0)->Some_0.1 as int),
            D::v1() ==> kk <= s1.len() && decoder.rest() == s1.skip(kk as int)
                && dec_list(idset_item(), s1, client_len as nat) == list_join(items, kk, dec_list(idset_item(), decoder.rest(), (client_len - i) as nat)),
        decreases client_len - i,
    @after 1 `stmt:call reset_ds_cur_val`
        let ghost sa = decoder.rest();
        proof {
            lemma_suffix_step(s0, s1, sa);
            lemma_suffix_trans(s0, sa);
            lemma_dec_u64_bounded(sa);
            if D::v1() {
                lemma_idset_item_bounded();
                lemma_dec_list_step(idset_item(), 2, s1, client_len as nat, items, kk, (client_len - i) as nat);
            }
        }
    @after 1 `stmt:let client`
        let ghost sb = decoder.rest();
        proof {
            lemma_read_progress::<u64>(sa, sb, Ok::<u64, Error>(client));
            lemma_suffix_step(s0, sa, sb);
            lemma_suffix_step(s1, sa, sb);
            lemma_suffix_trans(s0, sb);
            if D::v1() {
                lemma_skip_skip_all(sa, dec_u64(sa)->Some_0.1);
            }
        }
    @before 1 `stmt:call clients_mut`
        let ghost raw0 = set.0.raw();
        proof {
            axiom_client_id_ord_key_model();
            set.0.lemma_view();
            lemma_suffix_step(s0, sb, decoder.rest());
        }
    @after 1 `stmt:call clients_mut`
        proof {
            set.0.lemma_view();
            let cid = ClientID(client);
            lemma_lift_insert(raw0, cid, range);
            lemma_map_of_push(items, cid, range@);
            items = items.push((cid, range@));
            lemma_suffix_step(s1, sb, decoder.rest());
            if D::v1() {
                assert(dec_idset_item(sa) == idset_item()(sa));
                kk = kk + dec_idset_item(sa)->Some_0.1;
            }
        }
    @before 1 `stmt:call Ok`
        proof {
            lemma_suffix_step(s0, s1, decoder.rest());
            lemma_map_of_len(items);
            if D::v1() {
                lemma_dec_u32_bounded(s0);
                lemma_counted_finish(idset_item(), s0, dec_u32(s0)->Some_0.1, client_len as nat, s1, items, kk);
            }
        }
    @*/
}
