// units/dec_comp/ids.rs — delete-set / id-set decoders of yrs/src/id_set.rs:  Range<u32>, IdRanges<()>, IdSet

// ---------------------------------------------------------------------------------------------
// v1 wire format and what the decoders compute on ANY byte string (None = Err, Some((value, k)) = value from the first k bytes)
// ---------------------------------------------------------------------------------------------
pub open spec fn enc_range(r: Range<u32>) -> Seq<u8> {
    enc_uint(r.start as nat) + enc_uint((r.end - r.start) as nat)
}

pub open spec fn dec_range(s: Seq<u8>) -> Option<(Range<u32>, nat)> {
    match dec_u32(s) {
        None => None,
        Some((clock, k)) => match dec_u32(s.skip(k as int)) {
            None => None,
            Some((len, k2)) => if clock + len > u32::MAX { None } else { Some((clock..((clock + len) as u32), k + k2)) },
        },
    }
}

/// a range as an entry of an `IdRanges<()>` (the attached value is `()`)
pub open spec fn dec_range_ent(s: Seq<u8>) -> Option<(Ent<()>, nat)> {
    match dec_range(s) {
        None => None,
        Some((r, k)) => Some(((r, ()), k)),
    }
}

pub open spec fn range_item() -> spec_fn(Seq<u8>) -> Option<(Ent<()>, nat)> {
    |s: Seq<u8>| dec_range_ent(s)
}

/// `IdRanges<()>::decode`: a u32 count, then that many ranges
pub open spec fn dec_ranges(s: Seq<u8>) -> Option<(Seq<Ent<()>>, nat)> {
    match dec_u32(s) {
        None => None,
        Some((n, k)) => match dec_list(range_item(), s.skip(k as int), n as nat) {
            None => None,
            Some((rs, k2)) => Some((rs, k + k2)),
        },
    }
}

/// every successful range decode consumes between 2 and 22 bytes
pub proof fn lemma_dec_range_bounded(s: Seq<u8>)
    ensures
        match dec_range(s) {
            Some((r, k)) => 2 <= k <= s.len() && r.start <= r.end,
            None => true,
        },
{
    lemma_dec_u32_bounded(s);
    if dec_u32(s) is Some {
        lemma_dec_u32_bounded(s.skip(dec_u32(s)->Some_0.1 as int));
    }
}

pub proof fn lemma_range_item_bounded()
    ensures
        item_bounded(range_item(), 2),
{
    assert forall|s: Seq<u8>| (#[trigger] range_item()(s)) is Some implies 2 <= range_item()(s)->Some_0.1 <= s.len() by {
        lemma_dec_range_bounded(s);
    }
}

/// C10 for `dec_ranges`: a decoded value with n ranges took at least 1 + 2n bytes
pub proof fn lemma_dec_ranges_bounded(s: Seq<u8>)
    ensures
        match dec_ranges(s) {
            Some((rs, k)) => 1 + 2 * rs.len() <= k <= s.len(),
            None => true,
        },
{
    lemma_dec_u32_bounded(s);
    if dec_u32(s) is Some {
        let (n, k) = dec_u32(s)->Some_0;
        lemma_range_item_bounded();
        lemma_dec_list_bounded(range_item(), 2, s.skip(k as int), n as nat);
    }
}

// ---------------------------------------------------------------------------------------------
// Range<u32>
// ---------------------------------------------------------------------------------------------
impl Decode for Range<u32> {
    // TOTAL + PROGRESS (trait contract), RESULT SHAPE start <= end, and for a v1 decoder equality with `dec_range`
    /*@extract yrs/src/id_set.rs | impl Decode for Range<u32> | fn decode | label=range_decode
    @ret res
    @sig
        ensures
            res is Ok ==> res->Ok_0.start <= res->Ok_0.end,
            res is Ok ==> res->Ok_0.enc_ok(),
            res is Ok ==> final(decoder).rest().len() + 2 <= old(decoder).rest().len(),
            D::v1() ==> read_post(old(decoder).rest(), final(decoder).rest(), res, dec_range(old(decoder).rest())),
    @start
        let ghost s0 = decoder.rest();
    @after 1 `stmt:let clock`
        let ghost s1 = decoder.rest();
        proof {
            lemma_suffix_trans(s0, s1);
            lemma_suffix_len(s0, s1);
            if D::v1() {
                let k = dec_u32(s0)->Some_0.1;
                lemma_dec_u32_bounded(s0);
                lemma_skip_skip_all(s0, k);
                lemma_dec_u32_bounded(s1);
            }
        }
    @*/
}

// ---------------------------------------------------------------------------------------------
// IdRanges<()>
// ---------------------------------------------------------------------------------------------
pub mod vx_std_sort {
    use vstd::prelude::*;
    use core::ops::Range;

    /// A10 (TRUSTED std stand-in): `raw.sort_unstable_by_key(|range| range.start)` (the body is that statement).
    /// slice::sort_unstable_by_key: "Sorts the slice in ascending order with a key extraction function, without preserving the
    /// initial order of equal elements": the result is a permutation of the input (same multiset) ordered by the key.
    /// (Verus has no specification of the slice sorts.)
    #[verifier::external_body]
    pub fn vx_sort_by_start(v: &mut Vec<Range<u32>>)
        ensures
            final(v)@.to_multiset() == old(v)@.to_multiset(),
            forall|i: int, j: int| 0 <= i < j < final(v)@.len() ==> (#[trigger] final(v)@[i]).start <= (#[trigger] final(v)@[j]).start,
    {
        v.sort_unstable_by_key(|range| range.start);
    }
}
use vx_std_sort::*;

impl<T> Default for IdRanges<T> {
    /*@extract yrs/src/ids.rs | impl<T> Default for IdRanges<T> | fn default | label=idranges_default
    @ret r
    @sig
        ensures r@ == Seq::<Ent<T>>::empty(),
    @*/
}

impl<T: Merge> IdRanges<T> {
    /*@extract yrs/src/ids.rs | impl<T: Merge> IdRanges<T> | fn new | label=idranges_new
    @ret r
    @sig
        ensures r@ == Seq::<Ent<T>>::empty(),
    @*/

    // (not called by the decoders any more: kept so that a regression to `IdRanges::from_raw(..)` still assembles and FAILS)
    /*@extract yrs/src/ids.rs | impl<T: Merge> IdRanges<T> | fn from_raw
    @ret r
    @sig
        ensures r@ == raw@,
    @*/

    /*@extract yrs/src/ids.rs | impl<T: Merge> IdRanges<T> | fn is_empty | label=idranges_is_empty
    @ret r
    @sig
        ensures r == (self@.len() == 0),
    @*/

    // STUB: proved in unit ids_insert (contract text cross-checked by the extractor on every run)
    #[verifier::external_body]
    /*@extract yrs/src/ids.rs | impl<T: Merge> IdRanges<T> | fn insert_with | label=stub_insert_with
    @sig
        requires canon(old(self)@), value.wf(),
        ensures
            canon(final(self)@),
            forall|c: int| #![trigger covers(final(self)@, c)] #![trigger covers(old(self)@, c)] #![trigger inr(range, c)] covers(final(self)@, c) <==> covers(old(self)@, c) || inr(range, c),
            forall|c: int| covers(old(self)@, c) && !inr(range, c) ==> #[trigger] val_at(final(self)@, c).eq_spec(&val_at(old(self)@, c)),
            forall|c: int| !covers(old(self)@, c) && inr(range, c) ==> #[trigger] val_at(final(self)@, c).eq_spec(&value),
            forall|c: int| covers(old(self)@, c) && inr(range, c) ==> #[trigger] val_at(final(self)@, c).eq_spec(&val_at(old(self)@, c).merge_spec(&value)),
    @*/

    // STUB: proved in unit ids_merge (contract text cross-checked by the extractor on every run); only the (unverified) body of
    // the stub of `IdSet::insert_range` below calls it
    #[verifier::external_body]
    /*@extract yrs/src/ids.rs | impl<T: Merge> IdRanges<T> | fn merge | label=stub_merge
    @sig
        requires canon(old(self)@), canon(other@),
        ensures
            canon(final(self)@),
            forall|c: int| covers(final(self)@, c) <==> covers(old(self)@, c) || covers(other@, c),
            forall|c: int| covers(old(self)@, c) && !covers(other@, c) ==> #[trigger] val_at(final(self)@, c).eq_spec(&val_at(old(self)@, c)),
            forall|c: int| !covers(old(self)@, c) && covers(other@, c) ==> #[trigger] val_at(final(self)@, c).eq_spec(&val_at(other@, c)),
            forall|c: int| covers(old(self)@, c) && covers(other@, c) ==> #[trigger] val_at(final(self)@, c).eq_spec(&val_at(old(self)@, c).merge_spec(&val_at(other@, c))),
    @*/
}

impl IdRanges<()> {
    // the contract proved in unit ids_insert (same text), RE-VERIFIED here against the stub of `insert_with`
    /*@extract yrs/src/ids.rs | impl IdRanges<()> | fn insert | label=idranges_insert
    @sig
        requires canon(old(self)@),
        ensures
            canon(final(self)@),
            forall|c: int| #![trigger covers(final(self)@, c)] #![trigger covers(old(self)@, c)] #![trigger inr(range, c)] covers(final(self)@, c) <==> covers(old(self)@, c) || inr(range, c),
    @*/
}

/// everything `IdRanges<()>::decode` has established once the raw ranges `raw0` are read (s0 = input at entry, s2 = what is left)
pub open spec fn idranges_wire<D: Decoder>(s0: Seq<u8>, s2: Seq<u8>, raw0: Seq<Range<u32>>) -> bool {
    &&& suffix_of(s0, s2)
    &&& 2 * raw0.len() < s0.len() - s2.len()
    &&& D::v1() ==> dec_ranges(s0) is Some && dec_ranges(s0)->Some_0.0 == ents_of(raw0) && dec_ranges(s0)->Some_0.1 <= s0.len()
            && s2 == s0.skip(dec_ranges(s0)->Some_0.1 as int)
}

impl Decode for IdRanges<()> {
    // (a) TOTAL + PROGRESS: every iteration of the reading loop consumes >= 2 bytes (invariant `decoder.rest().len() + 2 * n <= s1.len()`),
    //     the canonicalising loop runs once per range read
    // (b) ALLOCATION BUDGET: the capacity request goes through vx_budget (F-DC-1, repaired: capped at 1024)
    // (c) RESULT SHAPE: CANONICAL (F-DC-9, repaired: sort + insert one by one), at most (consumed bytes) / 2 entries, and not more
    //     entries than ranges on the wire
    // (d) v1: `dec_ranges` is the list of RAW ranges on the wire; the result is THE canonical list that covers exactly their
    //     clocks (`canon_of`; unique by lemma_canon_unique_unit)
    /*@extract yrs/src/id_set.rs | impl Decode for IdRanges<()> | fn decode | label=idranges_decode | rules=SUB(from=Vec::with_capacity;;to=vx_budget(decoder).vec_with_capacity::<Range<u32>>)
    @ret res
    @sig
        ensures
            res is Ok ==> 2 * res->Ok_0@.len() < old(decoder).rest().len() - final(decoder).rest().len(),
            res is Ok ==> forall|i: int| 0 <= i < res->Ok_0@.len() ==> (#[trigger] res->Ok_0@[i]).0.start <= res->Ok_0@[i].0.end,
            res is Ok ==> res->Ok_0.enc_ok(),
            res is Ok ==> canon(res->Ok_0@),
            D::v1() ==> match dec_ranges(old(decoder).rest()) {
                Some((raw, k)) => res is Ok && canon_of(raw, res->Ok_0@) && res->Ok_0@.len() <= raw.len()
                    && k <= old(decoder).rest().len() && final(decoder).rest() == old(decoder).rest().skip(k as int),
                None => res is Err,
            },
    @start
        let ghost s0 = decoder.rest();
        let ghost mut kk: nat = 0;
    @after 1 `stmt:let len`
        let ghost s1 = decoder.rest();
        proof {
            lemma_read_progress::<u32>(s0, s1, Ok::<u32, Error>(len));
            lemma_suffix_refl(s1);
            lemma_dec_list_start(range_item(), s1, len as nat);
            assert(ents_of(Seq::<Range<u32>>::empty()) =~= Seq::<Ent<()>>::empty());
        }
    @loop 1 iter=it
        invariant
            s0 == old(decoder).rest(),
            decoder.wf(),
            suffix_of(s0, s1),
            suffix_of(s1, decoder.rest()),
            s1.len() < s0.len(),
            it.snapshot@.remaining().len() == len,
            0 <= it.index@ <= len,
            raw@.len() == it.index@,
            decoder.rest().len() + 2 * it.index@ <= s1.len(),
            D::v1() ==> dec_u32(s0) is Some && dec_u32(s0)->Some_0.0 == len && s1 == s0.skip(dec_u32(s0)->Some_0.1 as int),
            D::v1() ==> kk <= s1.len() && decoder.rest() == s1.skip(kk as int)
                && dec_list(range_item(), s1, len as nat) == list_join(ents_of(raw@), kk, dec_list(range_item(), decoder.rest(), (len - it.index@) as nat)),
    @loopstart 1
        let ghost sa = decoder.rest();
        let ghost ra = raw@;
        proof {
            lemma_suffix_step(s0, s1, sa);
            lemma_suffix_trans(s0, sa);
            if D::v1() {
                lemma_range_item_bounded();
                lemma_dec_list_step(range_item(), 2, s1, len as nat, ents_of(ra), kk, (len - ra.len()) as nat);
            }
        }
    @loopend 1
        proof {
            lemma_suffix_step(s1, sa, decoder.rest());
            lemma_ents_of_push(ra, raw@.last());
            assert(raw@ == ra.push(raw@.last()));
            if D::v1() {
                kk = kk + dec_range(sa)->Some_0.1;
                assert(dec_range_ent(sa) == range_item()(sa));
            }
        }
    @afterloop 1
        let ghost raw0 = raw@;
        proof {
            lemma_suffix_step(s0, s1, decoder.rest());
            if D::v1() {
                lemma_dec_u32_bounded(s0);
                lemma_counted_finish(range_item(), s0, dec_u32(s0)->Some_0.1, len as nat, s1, ents_of(raw0), kk);
            }
            assert(idranges_wire::<D>(s0, decoder.rest(), raw0));
        }
    @before 2 `stmt:for`
        let ghost rs = raw@;
        proof {
            lemma_perm_covered(rs, raw0);
            lemma_empty_canon(rs);
        }
    @loop 2 iter=it2
        invariant
            s0 == old(decoder).rest(),
            decoder.wf(),
            idranges_wire::<D>(s0, decoder.rest(), raw0),
            it2.seq() == rs,
            rs.len() == raw0.len(),
            forall|c: int| covered_upto(rs, rs.len() as int, c) <==> covered_upto(raw0, raw0.len() as int, c),
            canon(ranges@),
            ranges@.len() <= it2.index@ <= rs.len(),
            forall|c: int| #![trigger covers(ranges@, c)] covers(ranges@, c) <==> covered_upto(rs, it2.index@ as int, c),
    @loopstart 2
        let ghost r0 = ranges@;
        let ghost n0 = it2.index@ as int;
    @loopend 2
        proof { lemma_insert_step(r0, rs[n0], ranges@, rs, n0); }
    @afterloop 2
        proof {
            lemma_canon_ordered(ranges@);
            assert forall|c: int| #![trigger covers(ranges@, c)] #![trigger covers(ents_of(raw0), c)] covers(ranges@, c) <==> covers(ents_of(raw0), c) by {
                lemma_ents_of_covers(raw0, c);
                assert(covers(ranges@, c) <==> covered_upto(rs, rs.len() as int, c));
            }
            assert(canon_of(ents_of(raw0), ranges@));
            assert(ents_of(raw0).len() == raw0.len());
        }
    @*/
}

// ---------------------------------------------------------------------------------------------
// IdSet
// ---------------------------------------------------------------------------------------------
/*@extract yrs/src/ids.rs | - | struct IdMapInner @*/

/// per-client entry sequences
pub open spec fn lift<T>(m: Map<ClientID, IdRanges<T>>) -> Map<ClientID, Seq<Ent<T>>> {
    m.map_values(|r: IdRanges<T>| r@)
}

pub proof fn lemma_lift_insert<T>(m: Map<ClientID, IdRanges<T>>, k: ClientID, v: IdRanges<T>)
    ensures lift(m.insert(k, v)) == lift(m).insert(k, v@),
{
    assert(lift(m.insert(k, v)) =~= lift(m).insert(k, v@));
}

impl<T: Merge> IdMapInner<T> {
    /// the stored map (client -> IdRanges)
    pub closed spec fn raw(&self) -> Map<ClientID, IdRanges<T>> {
        self.0@
    }

    pub closed spec fn view(&self) -> Map<ClientID, Seq<Ent<T>>> {
        lift(self.0@)
    }

    pub proof fn lemma_view(&self)
        ensures self@ == lift(self.raw()),
    {
    }

    /*@extract yrs/src/ids.rs | impl<T: Merge> IdMapInner<T> | fn clients_mut | label=inner_clients_mut
    @ret r
    @sig
        ensures
            r@ == old(self).raw(),
            final(self).raw() == final(r)@,
    @*/
}

impl<T: Merge> Default for IdMapInner<T> {
    /*@extract yrs/src/ids.rs | impl<T: Merge> Default for IdMapInner<T> | fn default | label=inner_default
    @ret r
    @sig
        ensures r@ == Map::<ClientID, Seq<Ent<T>>>::empty(),
    @start
        proof { assert(lift(Map::<ClientID, IdRanges<T>>::empty()) =~= Map::<ClientID, Seq<Ent<T>>>::empty()); }
    @*/
}

/*@extract yrs/src/id_set.rs | - | type IdRange @*/

/*@extract yrs/src/id_set.rs | - | struct IdSet @*/

/// `#[derive(Default)]` of IdSet, written out (as in unit ids_lift)
impl Default for IdSet {
    fn default() -> (r: Self)
        ensures r@ == Map::<ClientID, Seq<Ent<()>>>::empty(),
    {
        IdSet(IdMapInner::default())
    }
}

// ---- the abstraction of unit ids_lift (predicate text copied; the stub contracts below must be textually those of ids_lift)
/// the point (client, clock) is a member
pub open spec fn has_pt<T>(m: Map<ClientID, Seq<Ent<T>>>, client: ClientID, clock: int) -> bool {
    m.contains_key(client) && covers(m[client], clock)
}

/// every per-client entry is canonical
pub open spec fn canon_all<T: Merge>(m: Map<ClientID, Seq<Ent<T>>>) -> bool {
    forall|c: ClientID| #[trigger] m.contains_key(c) ==> canon(m[c])
}

/// "empty IdRanges entries are never stored in the map" (doc comment of IdMapInner::is_empty)
pub open spec fn no_empty_entry<T>(m: Map<ClientID, Seq<Ent<T>>>) -> bool {
    forall|c: ClientID| #[trigger] m.contains_key(c) ==> m[c].len() > 0
}

/// representation invariant of IdMapInner / IdSet / IdMap (unit ids_lift)
pub open spec fn wf_map<T: Merge>(m: Map<ClientID, Seq<Ent<T>>>) -> bool {
    canon_all(m) && no_empty_entry(m)
}

/// all clients except `k` are untouched
pub open spec fn same_except<T>(a: Map<ClientID, Seq<Ent<T>>>, b: Map<ClientID, Seq<Ent<T>>>, k: ClientID) -> bool {
    forall|c: ClientID| c != k ==> (#[trigger] a.contains_key(c) == b.contains_key(c)) && (a.contains_key(c) ==> a[c] == b[c])
}

/// the clock interval [clock, clock + len) (text of unit ids_lift)
pub open spec fn in_block(clock: u32, len: u32, k: int) -> bool {
    clock <= k < clock + len
}

/*@extract yrs/src/block.rs | - | struct ID @*/

impl ID {
    /*@extract yrs/src/block.rs | impl ID | fn new | label=id_new
    @ret r
    @sig
        ensures r.client == client, r.clock == clock,
    @*/
}

pub mod vx_std_sort3 {
    use vstd::prelude::*;
    use core::ops::Range;
    use super::ClientID;

    /// A10 (TRUSTED std stand-in): `ranges.sort_unstable_by_key(|(client, range)| (*client, range.start))` (the body is that
    /// statement).  slice::sort_unstable_by_key: the result is a permutation of the input (same multiset) ordered by the key,
    /// here the pair (client, start) in the derived lexicographic order (ClientID: the order of its integer).
    #[verifier::external_body]
    pub fn vx_sort_by_client_start(v: &mut Vec<(ClientID, Range<u32>)>)
        ensures
            final(v)@.to_multiset() == old(v)@.to_multiset(),
            forall|i: int, j: int| 0 <= i < j < final(v)@.len() ==> (#[trigger] final(v)@[i]).0.0 < (#[trigger] final(v)@[j]).0.0
                || (final(v)@[i].0.0 == final(v)@[j].0.0 && final(v)@[i].1.start <= final(v)@[j].1.start),
    {
        v.sort_unstable_by_key(|(client, range)| (*client, range.start));
    }
}
use vx_std_sort3::*;

impl IdSet {
    pub open spec fn view(&self) -> Map<ClientID, Seq<Ent<()>>> {
        self.0@
    }

    /*@extract yrs/src/id_set.rs | impl IdSet | fn new | label=idset_new
    @ret r
    @sig
        ensures r@ == Map::<ClientID, Seq<Ent<()>>>::empty(),
    @*/

    // STUB: proved in unit ids_lift, label idset_insert (contract text cross-checked by the extractor on every run).  The
    // unverified body reaches the std entry API through `clients_mut()` (IdMapInner::entry returns a std Entry: not ingestible)
    #[verifier::external_body]
    /*@extract yrs/src/id_set.rs | impl IdSet | fn insert | label=stub_idset_insert | rules=SUB(from=.entry(id.client);;to=.clients_mut().entry(id.client))
    @sig
        requires
            wf_map(old(self)@),
            id.clock + len <= u32::MAX,
        ensures
            wf_map(final(self)@),
            same_except(final(self)@, old(self)@, id.client),
            forall|c: ClientID, k: int| #![trigger has_pt(final(self)@, c, k)] #![trigger has_pt(old(self)@, c, k)]
                has_pt(final(self)@, c, k) <==> has_pt(old(self)@, c, k) || (c == id.client && in_block(id.clock, len, k)),
    @*/

    // STUB: proved in unit ids_lift, label idset_insert_range (contract text cross-checked by the extractor on every run);
    // not called by `IdSet::decode` any more: kept so that a regression to `insert_range` still assembles
    #[verifier::external_body]
    /*@extract yrs/src/id_set.rs | impl IdSet | fn insert_range | label=stub_idset_insert_range
    @sig
        requires
            wf_map(old(self)@),
            canon(range@),
        ensures
            wf_map(final(self)@),
            same_except(final(self)@, old(self)@, client),
            forall|c: ClientID, k: int| #![trigger has_pt(final(self)@, c, k)] #![trigger has_pt(old(self)@, c, k)]
                has_pt(final(self)@, c, k) <==> has_pt(old(self)@, c, k) || (c == client && covers(range@, k)),
    @*/
}

pub type IdItem = (ClientID, Seq<Ent<()>>);

/// one (client, ranges) item of an id set: the client as u64 var-int (must fit into 53 bits), then the client's RAW ranges
pub open spec fn dec_idset_item(s: Seq<u8>) -> Option<(IdItem, nat)> {
    match dec_u64(s) {
        None => None,
        Some((client, k)) => match dec_ranges(s.skip(k as int)) {
            None => None,
            Some((rs, k2)) => if client_id_53bit(client) { Some(((ClientID(client), rs), k + k2)) } else { None },
        },
    }
}

pub open spec fn idset_item() -> spec_fn(Seq<u8>) -> Option<(IdItem, nat)> {
    |s: Seq<u8>| dec_idset_item(s)
}

/// the map built by inserting the items one after the other (a later item REPLACES an earlier one of the same client);
/// used by StateVector / AwarenessUpdate (a HashMap::insert per item)
pub open spec fn map_of<V>(items: Seq<(ClientID, V)>) -> Map<ClientID, V>
    decreases items.len(),
{
    if items.len() == 0 {
        Map::<ClientID, V>::empty()
    } else {
        map_of(items.drop_last()).insert(items.last().0, items.last().1)
    }
}

/// `IdSet::decode` on the wire: a u32 client count, then that many (client, raw ranges) SECTIONS
pub open spec fn dec_idset(s: Seq<u8>) -> Option<(Seq<IdItem>, nat)> {
    match dec_u32(s) {
        None => None,
        Some((n, k)) => match dec_list(idset_item(), s.skip(k as int), n as nat) {
            None => None,
            Some((items, k2)) => Some((items, k + k2)),
        },
    }
}

/// the point (c, k) lies in one of the first `n` client sections
pub open spec fn items_pt(items: Seq<IdItem>, n: int, c: ClientID, k: int) -> bool {
    exists|i: int| 0 <= i < n && i < items.len() && (#[trigger] items[i]).0 == c && covers(items[i].1, k)
}

/// `m` is THE set decoded from the client sections `items`: it satisfies the representation invariant of unit ids_lift
/// (every stored entry canonical and non-empty) and its points are the union of the sections (repeated clients merged,
/// sections without points dropped).  Unique by lemma_wf_map_unique.
pub open spec fn idset_of(items: Seq<IdItem>, m: Map<ClientID, Seq<Ent<()>>>) -> bool {
    &&& wf_map(m)
    &&& forall|c: ClientID, k: int| #![trigger has_pt(m, c, k)] has_pt(m, c, k) <==> items_pt(items, items.len() as int, c, k)
}

pub proof fn lemma_idset_item_bounded()
    ensures
        item_bounded(idset_item(), 2),
{
    assert forall|s: Seq<u8>| (#[trigger] idset_item()(s)) is Some implies 2 <= idset_item()(s)->Some_0.1 <= s.len() by {
        lemma_dec_u64_bounded(s);
        lemma_dec_ranges_bounded(s.skip(dec_u64(s)->Some_0.1 as int));
    }
}

pub proof fn lemma_map_of_push<V>(items: Seq<(ClientID, V)>, c: ClientID, v: V)
    ensures
        map_of(items.push((c, v))) == map_of(items).insert(c, v),
{
    assert(items.push((c, v)).drop_last() =~= items);
}

/// the map has at most as many clients as there were items
pub proof fn lemma_map_of_len<V>(items: Seq<(ClientID, V)>)
    ensures
        map_of(items).len() <= items.len(),
    decreases items.len(),
{
    if items.len() > 0 {
        lemma_map_of_len(items.drop_last());
    }
}

/// every range stored for any client has start <= end (the domain of the v1 encoder; implied by wf_map)
pub open spec fn ranges_ordered(m: Map<ClientID, Seq<Ent<()>>>) -> bool {
    forall|c: ClientID, i: int| #![trigger m[c][i]] m.contains_key(c) && 0 <= i < m[c].len() ==> m[c][i].0.start <= m[c][i].0.end
}

pub proof fn lemma_wf_ranges_ordered(m: Map<ClientID, Seq<Ent<()>>>)
    requires
        wf_map(m),
    ensures
        ranges_ordered(m),
{
    assert forall|c: ClientID, i: int| #![trigger m[c][i]] m.contains_key(c) && 0 <= i < m[c].len() implies m[c][i].0.start <= m[c][i].0.end by {
        assert(canon(m[c]));
        assert(m[c][i].0.start < m[c][i].0.end);
    }
}

/// the raw ranges of the client section read from `sb` (v1: what is on the wire; otherwise nothing is known about the wire
/// format and the section is represented by the decoded value itself)
pub open spec fn section_raw<D: Decoder>(sb: Seq<u8>, rng: Seq<Ent<()>>) -> Seq<Ent<()>> {
    if D::v1() { dec_ranges(sb)->Some_0.0 } else { rng }
}

/// the FLAT list `IdSet::decode` collects: one (client, range) pair per decoded range of every section
pub type Flat = Seq<(ClientID, Range<u32>)>;

/// the point (c, k) lies in one of the first `n` pairs
pub open spec fn flat_pt(f: Flat, n: int, c: ClientID, k: int) -> bool {
    exists|j: int| 0 <= j < n && j < f.len() && (#[trigger] f[j]).0 == c && inr(f[j].1, k)
}

/// every collected range has start <= end (so `range.end - range.start` does not underflow and the block fits the clock space)
pub open spec fn flat_ordered(f: Flat) -> bool {
    forall|j: int| 0 <= j < f.len() ==> (#[trigger] f[j]).1.start <= f[j].1.end
}

/// clock `k` lies in one of the first `n` ranges of the section `rng`
pub open spec fn sec_upto(rng: Seq<Ent<()>>, n: int, k: int) -> bool {
    exists|j: int| 0 <= j < n && j < rng.len() && inr((#[trigger] rng[j]).0, k)
}

/// the wire-level part of the loop invariant of `IdSet::decode` after `n` sections (`items`, `kk` bytes of the list consumed)
pub open spec fn idset_inv<D: Decoder>(s0: Seq<u8>, s1: Seq<u8>, rest: Seq<u8>, client_len: u32, n: int, items: Seq<IdItem>, kk: nat) -> bool {
    &&& suffix_of(s0, s1)
    &&& suffix_of(s1, rest)
    &&& s1.len() < s0.len()
    &&& 0 <= n <= client_len
    &&& items.len() == n
    &&& D::v1() ==> dec_u32(s0) is Some && dec_u32(s0)->Some_0.0 == client_len && s1 == s0.skip(dec_u32(s0)->Some_0.1 as int)
    &&& D::v1() ==> kk <= s1.len() && rest == s1.skip(kk as int)
            && dec_list(idset_item(), s1, client_len as nat) == list_join(items, kk, dec_list(idset_item(), rest, (client_len - n) as nat))
}

/// flattening one more range of the current section
pub proof fn lemma_flat_push(f: Flat, cid: ClientID, rng: Seq<Ent<()>>, n: int, items: Seq<IdItem>)
    requires
        0 <= n < rng.len(),
        forall|c: ClientID, k: int| #![trigger flat_pt(f, f.len() as int, c, k)] flat_pt(f, f.len() as int, c, k) <==> items_pt(items, items.len() as int, c, k) || (c == cid && sec_upto(rng, n, k)),
    ensures
        forall|c: ClientID, k: int| #![trigger flat_pt(f.push((cid, rng[n].0)), (f.len() + 1) as int, c, k)]
            flat_pt(f.push((cid, rng[n].0)), (f.len() + 1) as int, c, k) <==> items_pt(items, items.len() as int, c, k) || (c == cid && sec_upto(rng, n + 1, k)),
{
    let f1 = f.push((cid, rng[n].0));
    let m = f.len() as int;
    assert forall|c: ClientID, k: int| #![trigger flat_pt(f1, m + 1, c, k)]
        flat_pt(f1, m + 1, c, k) <==> items_pt(items, items.len() as int, c, k) || (c == cid && sec_upto(rng, n + 1, k)) by {
        assert(flat_pt(f, m, c, k) <==> items_pt(items, items.len() as int, c, k) || (c == cid && sec_upto(rng, n, k)));
        if flat_pt(f1, m + 1, c, k) {
            let j = choose|j: int| 0 <= j < m + 1 && j < f1.len() && (#[trigger] f1[j]).0 == c && inr(f1[j].1, k);
            if j < m {
                assert(f1[j] == f[j]);
                assert(0 <= j < m && j < f.len() && f[j].0 == c && inr(f[j].1, k));
                if c == cid && sec_upto(rng, n, k) {
                    let i = choose|i: int| 0 <= i < n && i < rng.len() && inr((#[trigger] rng[i]).0, k);
                    assert(0 <= i < n + 1 && i < rng.len() && inr(rng[i].0, k));
                }
            } else {
                assert(f1[j] == (cid, rng[n].0));
                assert(0 <= n < n + 1 && n < rng.len() && inr(rng[n].0, k));
            }
        }
        if flat_pt(f, m, c, k) {
            let j = choose|j: int| 0 <= j < m && j < f.len() && (#[trigger] f[j]).0 == c && inr(f[j].1, k);
            assert(f1[j] == f[j]);
            assert(0 <= j < m + 1 && j < f1.len() && f1[j].0 == c && inr(f1[j].1, k));
        }
        if c == cid && sec_upto(rng, n + 1, k) {
            let i = choose|i: int| 0 <= i < n + 1 && i < rng.len() && inr((#[trigger] rng[i]).0, k);
            if i < n {
                assert(0 <= i < n && i < rng.len() && inr(rng[i].0, k));
            } else {
                assert(f1[m] == (cid, rng[n].0));
                assert(0 <= m < m + 1 && m < f1.len() && f1[m].0 == c && inr(f1[m].1, k));
            }
        }
    }
}

/// a section is flattened completely: the flat list describes the sections read so far, including this one
pub proof fn lemma_flat_section_done(f: Flat, cid: ClientID, rng: Seq<Ent<()>>, raw: Seq<Ent<()>>, items: Seq<IdItem>)
    requires
        forall|c: ClientID, k: int| #![trigger flat_pt(f, f.len() as int, c, k)] flat_pt(f, f.len() as int, c, k) <==> items_pt(items, items.len() as int, c, k) || (c == cid && sec_upto(rng, rng.len() as int, k)),
        forall|k: int| #![trigger covers(rng, k)] #![trigger covers(raw, k)] covers(rng, k) <==> covers(raw, k),
    ensures
        forall|c: ClientID, k: int| #![trigger flat_pt(f, f.len() as int, c, k)] flat_pt(f, f.len() as int, c, k) <==> items_pt(items.push((cid, raw)), (items.len() + 1) as int, c, k),
{
    let items1 = items.push((cid, raw));
    let n = items.len() as int;
    assert forall|c: ClientID, k: int| #![trigger flat_pt(f, f.len() as int, c, k)] flat_pt(f, f.len() as int, c, k) <==> items_pt(items1, n + 1, c, k) by {
        assert(flat_pt(f, f.len() as int, c, k) <==> items_pt(items, n, c, k) || (c == cid && sec_upto(rng, rng.len() as int, k)));
        assert(covers(rng, k) <==> covers(raw, k));
        if sec_upto(rng, rng.len() as int, k) {
            let i = choose|i: int| 0 <= i < rng.len() && i < rng.len() && inr((#[trigger] rng[i]).0, k);
            assert(inr(rng[i].0, k));
            assert(covers(rng, k));
        }
        if covers(rng, k) {
            let i = idx_of(rng, k);
            assert(0 <= i < rng.len() && i < rng.len() && inr(rng[i].0, k));
        }
        if items_pt(items, n, c, k) {
            let i = choose|i: int| 0 <= i < n && i < items.len() && (#[trigger] items[i]).0 == c && covers(items[i].1, k);
            assert(items1[i] == items[i]);
            assert(0 <= i < n + 1 && i < items1.len() && items1[i].0 == c && covers(items1[i].1, k));
        }
        if c == cid && covers(raw, k) {
            assert(items1[n] == (cid, raw));
            assert(0 <= n < n + 1 && n < items1.len() && items1[n].0 == c && covers(items1[n].1, k));
        }
        if items_pt(items1, n + 1, c, k) {
            let i = choose|i: int| 0 <= i < n + 1 && i < items1.len() && (#[trigger] items1[i]).0 == c && covers(items1[i].1, k);
            if i < n {
                assert(items1[i] == items[i]);
                assert(0 <= i < n && i < items.len() && items[i].0 == c && covers(items[i].1, k));
            } else {
                assert(items1[i] == (cid, raw));
            }
        }
    }
}

/// a permutation of the flat list describes the same points and keeps start <= end
pub proof fn lemma_flat_perm(a: Flat, b: Flat)
    requires
        a.to_multiset() == b.to_multiset(),
        flat_ordered(b),
    ensures
        a.len() == b.len(),
        flat_ordered(a),
        forall|c: ClientID, k: int| #![trigger flat_pt(a, a.len() as int, c, k)] flat_pt(a, a.len() as int, c, k) <==> flat_pt(b, b.len() as int, c, k),
{
    a.to_multiset_ensures();
    b.to_multiset_ensures();
    assert forall|j: int| 0 <= j < a.len() implies (#[trigger] a[j]).1.start <= a[j].1.end by {
        assert(a.contains(a[j]));
        assert(b.to_multiset().count(a[j]) > 0);
        assert(b.contains(a[j]));
        let i = choose|i: int| 0 <= i < b.len() && b[i] == a[j];
        assert(b[i].1.start <= b[i].1.end);
    }
    assert forall|c: ClientID, k: int| #![trigger flat_pt(a, a.len() as int, c, k)] flat_pt(a, a.len() as int, c, k) <==> flat_pt(b, b.len() as int, c, k) by {
        if flat_pt(a, a.len() as int, c, k) {
            let j = choose|j: int| 0 <= j < a.len() && j < a.len() && (#[trigger] a[j]).0 == c && inr(a[j].1, k);
            assert(a.contains(a[j]));
            assert(b.to_multiset().count(a[j]) > 0);
            assert(b.contains(a[j]));
            let i = choose|i: int| 0 <= i < b.len() && b[i] == a[j];
            assert(0 <= i < b.len() && i < b.len() && b[i].0 == c && inr(b[i].1, k));
        }
        if flat_pt(b, b.len() as int, c, k) {
            let j = choose|j: int| 0 <= j < b.len() && j < b.len() && (#[trigger] b[j]).0 == c && inr(b[j].1, k);
            assert(b.contains(b[j]));
            assert(a.to_multiset().count(b[j]) > 0);
            assert(a.contains(b[j]));
            let i = choose|i: int| 0 <= i < a.len() && a[i] == b[j];
            assert(0 <= i < a.len() && i < a.len() && a[i].0 == c && inr(a[i].1, k));
        }
    }
}

/// one iteration of the inserting loop `for (client, range) in ranges { set.insert(ID::new(client, range.start), range.end - range.start) }`
/// (the contract of `IdSet::insert` is the hypotheses about m0 / m1)
pub proof fn lemma_flat_insert_step(m0: Map<ClientID, Seq<Ent<()>>>, m1: Map<ClientID, Seq<Ent<()>>>, f: Flat, n: int, len: u32)
    requires
        0 <= n < f.len(),
        f[n].1.start <= f[n].1.end,
        len == f[n].1.end - f[n].1.start,
        same_except(m1, m0, f[n].0),
        forall|c: ClientID, k: int| #![trigger has_pt(m1, c, k)] #![trigger has_pt(m0, c, k)] has_pt(m1, c, k) <==> has_pt(m0, c, k) || (c == f[n].0 && in_block(f[n].1.start, len, k)),
        forall|c: ClientID, k: int| #![trigger has_pt(m0, c, k)] has_pt(m0, c, k) <==> flat_pt(f, n, c, k),
        m0.dom().finite(),
        m0.len() <= n,
    ensures
        forall|c: ClientID, k: int| #![trigger has_pt(m1, c, k)] has_pt(m1, c, k) <==> flat_pt(f, n + 1, c, k),
        m1.dom().finite(),
        m1.len() <= n + 1,
{
    let cid = f[n].0;
    assert forall|c: ClientID, k: int| #![trigger has_pt(m1, c, k)] has_pt(m1, c, k) <==> flat_pt(f, n + 1, c, k) by {
        assert(has_pt(m1, c, k) <==> has_pt(m0, c, k) || (c == cid && in_block(f[n].1.start, len, k)));
        assert(has_pt(m0, c, k) <==> flat_pt(f, n, c, k));
        assert(in_block(f[n].1.start, len, k) <==> inr(f[n].1, k));
        if flat_pt(f, n, c, k) {
            let j = choose|j: int| 0 <= j < n && j < f.len() && (#[trigger] f[j]).0 == c && inr(f[j].1, k);
            assert(0 <= j < n + 1 && j < f.len() && f[j].0 == c && inr(f[j].1, k));
        }
        if c == cid && inr(f[n].1, k) {
            assert(0 <= n < n + 1 && n < f.len() && f[n].0 == c && inr(f[n].1, k));
        }
        if flat_pt(f, n + 1, c, k) {
            let j = choose|j: int| 0 <= j < n + 1 && j < f.len() && (#[trigger] f[j]).0 == c && inr(f[j].1, k);
            if j < n {
                assert(0 <= j < n && j < f.len() && f[j].0 == c && inr(f[j].1, k));
            }
        }
    }
    assert(m1.dom().subset_of(m0.dom().insert(cid))) by {
        assert forall|c: ClientID| m1.dom().contains(c) implies m0.dom().insert(cid).contains(c) by {
            if c != cid {
                assert(m1.contains_key(c) == m0.contains_key(c));
            }
        }
    }
    vstd::set_lib::lemma_len_subset(m1.dom(), m0.dom().insert(cid));
}

impl Decode for IdSet {
    // (a) TOTAL + PROGRESS: every section consumes >= 2 bytes and >= 2 bytes per decoded range (invariant
    //     `decoder.rest().len() + 2 * i + 2 * ranges.len() <= s1.len()`: the FLAT list is proportional to the input), the inserting
    //     loop runs once per collected range; `range.end - range.start` does not underflow.
    //     The client id goes through `ClientID::decode` (F-DC-2, repaired): a value >= 2^53 is an error
    // (c) RESULT SHAPE: at most (consumed bytes) / 2 clients; the REPRESENTATION INVARIANT of unit ids_lift (F-DC-9, repaired):
    //     every stored entry canonical and non-empty (through the proved contract of `IdSet::insert`)
    // (d) v1: the point set is the union of the decoded client sections (`idset_of`; repeated clients are merged)
    //     F-DC-15 (repaired): all ranges are collected, sorted by (client, start) and inserted one by one (tail path)
    /*@extract yrs/src/id_set.rs | impl Decode for IdSet | fn decode | label=idset_decode | rules=INLINE(file=yrs/src/ids.rs;;container=impl<T: Merge> IdRanges<T>;;fn=iter;;body=self.0.iter();;call=range.iter();;to=range.0.iter())
    @ret res
    @sig
        ensures
            res is Ok ==> 2 * res->Ok_0@.len() < old(decoder).rest().len() - final(decoder).rest().len(),
            res is Ok ==> ranges_ordered(res->Ok_0@),
            res is Ok ==> res->Ok_0.enc_ok(),
            res is Ok ==> wf_map(res->Ok_0@),
            D::v1() ==> match dec_idset(old(decoder).rest()) {
                Some((items, k)) => res is Ok && idset_of(items, res->Ok_0@) && k <= old(decoder).rest().len() && final(decoder).rest() == old(decoder).rest().skip(k as int),
                None => res is Err,
            },
    @start
        let ghost s0 = decoder.rest();
        let ghost mut kk: nat = 0;
        let ghost mut items = Seq::<IdItem>::empty();
    @after 1 `stmt:let client_len`
        let ghost s1 = decoder.rest();
        proof {
            lemma_read_progress::<u32>(s0, s1, Ok::<u32, Error>(client_len));
            lemma_suffix_refl(s1);
            lemma_dec_list_start(idset_item(), s1, client_len as nat);
        }
    @loop 1
        invariant
            s0 == old(decoder).rest(),
            decoder.wf(),
            set@ == Map::<ClientID, Seq<Ent<()>>>::empty(),
            idset_inv::<D>(s0, s1, decoder.rest(), client_len, i as int, items, kk),
            decoder.rest().len() + 2 * i + 2 * ranges@.len() <= s1.len(),
            flat_ordered(ranges@),
            forall|c: ClientID, k: int| #![trigger flat_pt(ranges@, ranges@.len() as int, c, k)] flat_pt(ranges@, ranges@.len() as int, c, k) <==> items_pt(items, items.len() as int, c, k),
        decreases client_len - i,
    @after 1 `stmt:call reset_ds_cur_val`
        let ghost sa = decoder.rest();
        proof {
            lemma_suffix_step(s0, s1, sa);
            lemma_suffix_trans(s0, sa);
            lemma_dec_u64_bounded(sa);
            if D::v1() {
                lemma_idset_item_bounded();
                lemma_dec_list_step(idset_item(), 2, s1, client_len as nat, items, kk, (client_len - i) as nat);
            }
        }
    @after 1 `stmt:let client`
        let ghost sb = decoder.rest();
        proof {
            lemma_read_progress::<u64>(sa, sb, Ok::<u64, Error>(client));
            lemma_suffix_step(s0, sa, sb);
            lemma_suffix_step(s1, sa, sb);
            lemma_suffix_trans(s0, sb);
            if D::v1() {
                lemma_skip_skip_all(sa, dec_u64(sa)->Some_0.1);
            }
        }
    @after 1 `stmt:let range`
        let ghost rng = range@;
        let ghost raw = section_raw::<D>(sb, rng);
        let ghost f0 = ranges@;
        let ghost items0 = items;
        proof {
            lemma_suffix_step(s0, sb, decoder.rest());
            lemma_suffix_step(s1, sb, decoder.rest());
        }
    @after 2 `stmt:let client`
        proof {
            // the section is complete on the wire: account for it now, the flattening loop does not touch the reader
            items = items.push((client, raw));
            if D::v1() {
                assert(dec_idset_item(sa) == idset_item()(sa));
                kk = kk + dec_idset_item(sa)->Some_0.1;
            }
            assert(idset_inv::<D>(s0, s1, decoder.rest(), client_len, i + 1, items, kk));
            assert(!sec_upto(rng, 0, 0) || true);
            assert forall|c: ClientID, k: int| #![trigger flat_pt(f0, f0.len() as int, c, k)] flat_pt(f0, f0.len() as int, c, k) <==> items_pt(items0, items0.len() as int, c, k) || (c == client && sec_upto(rng, 0, k)) by {}
        }
    @loop 2 iter=it2
        invariant
            s0 == old(decoder).rest(),
            decoder.wf(),
            set@ == Map::<ClientID, Seq<Ent<()>>>::empty(),
            i < client_len,
            items == items0.push((client, raw)),
            idset_inv::<D>(s0, s1, decoder.rest(), client_len, i + 1, items, kk),
            decoder.rest().len() + 2 * (i + 1) + 2 * (f0.len() + rng.len()) <= s1.len(),
            canon(rng),
            forall|k: int| #![trigger covers(rng, k)] #![trigger covers(raw, k)] covers(rng, k) <==> covers(raw, k),
            it2.seq().len() == rng.len(),
            forall|j: int| 0 <= j < rng.len() ==> *(#[trigger] it2.seq()[j]) == rng[j],
            0 <= it2.index@ <= rng.len(),
            ranges@.len() == f0.len() + it2.index@,
            flat_ordered(ranges@),
            forall|c: ClientID, k: int| #![trigger flat_pt(ranges@, ranges@.len() as int, c, k)] flat_pt(ranges@, ranges@.len() as int, c, k) <==> items_pt(items0, items0.len() as int, c, k) || (c == client && sec_upto(rng, it2.index@ as int, k)),
    @loopstart 2
        let ghost fa = ranges@;
        let ghost n2 = it2.index@ as int;
        proof {
            assert(*it2.seq()[n2] == rng[n2]);
            assert(rng[n2].0.start < rng[n2].0.end);
        }
    @loopend 2
        proof {
            lemma_flat_push(fa, client, rng, n2, items0);
            assert(ranges@ == fa.push((client, rng[n2].0)));
        }
    @afterloop 2
        proof { lemma_flat_section_done(ranges@, client, rng, raw, items0); }
    @afterloop 1
        let ghost flat0 = ranges@;
    @before 2 `stmt:for`
        let ghost fs = ranges@;
        proof { lemma_flat_perm(fs, flat0); }
    @loop 3 iter=it3
        invariant
            s0 == old(decoder).rest(),
            decoder.wf(),
            idset_inv::<D>(s0, s1, decoder.rest(), client_len, client_len as int, items, kk),
            decoder.rest().len() + 2 * client_len + 2 * fs.len() <= s1.len(),
            it3.seq() == fs,
            flat_ordered(fs),
            forall|c: ClientID, k: int| #![trigger flat_pt(fs, fs.len() as int, c, k)] flat_pt(fs, fs.len() as int, c, k) <==> items_pt(items, items.len() as int, c, k),
            wf_map(set@),
            set@.dom().finite(),
            set@.len() <= it3.index@ <= fs.len(),
            forall|c: ClientID, k: int| #![trigger has_pt(set@, c, k)] has_pt(set@, c, k) <==> flat_pt(fs, it3.index@ as int, c, k),
    @loopstart 3
        let ghost m0 = set@;
        let ghost n3 = it3.index@ as int;
        proof { assert(fs[n3].1.start <= fs[n3].1.end); }
    @loopend 3
        proof { lemma_flat_insert_step(m0, set@, fs, n3, (fs[n3].1.end - fs[n3].1.start) as u32); }
    @before 1 `stmt:call Ok`
        proof {
            lemma_suffix_step(s0, s1, decoder.rest());
            lemma_wf_ranges_ordered(set@);
            if D::v1() {
                lemma_dec_u32_bounded(s0);
                lemma_counted_finish(idset_item(), s0, dec_u32(s0)->Some_0.1, client_len as nat, s1, items, kk);
            }
        }
    @*/
}
