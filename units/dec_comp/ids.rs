// units/dec_comp/ids.rs — delete-set / id-set decoders of yrs/src/id_set.rs:  Range<u32>, IdRanges<()>, IdSet

// ---------------------------------------------------------------------------------------------
// v1 wire format and what the decoders compute on ANY byte string (None = Err, Some((value, k)) = value from the first k bytes)
// ---------------------------------------------------------------------------------------------
pub open spec fn enc_range(r: Range<u32>) -> Seq<u8> {
    enc_uint(r.start as nat) + enc_uint((r.end - r.start) as nat)
}

pub open spec fn dec_range(s: Seq<u8>) -> Option<(Range<u32>, nat)> {
    match dec_u32(s) {
        None => None,
        Some((clock, k)) => match dec_u32(s.skip(k as int)) {
            None => None,
            Some((len, k2)) => if clock + len > u32::MAX { None } else { Some((clock..((clock + len) as u32), k + k2)) },
        },
    }
}

/// `n` ranges one after the other
pub open spec fn dec_range_list(s: Seq<u8>, n: nat) -> Option<(Seq<Ent<()>>, nat)>
    decreases n,
{
    if n == 0 {
        Some((Seq::<Ent<()>>::empty(), 0nat))
    } else {
        match dec_range(s) {
            None => None,
            Some((r, k)) => match dec_range_list(s.skip(k as int), (n - 1) as nat) {
                None => None,
                Some((rs, k2)) => Some((seq![(r, ())] + rs, k + k2)),
            },
        }
    }
}

/// `IdRanges<()>::decode`: a u32 count, then that many ranges
pub open spec fn dec_ranges(s: Seq<u8>) -> Option<(Seq<Ent<()>>, nat)> {
    match dec_u32(s) {
        None => None,
        Some((n, k)) => match dec_range_list(s.skip(k as int), n as nat) {
            None => None,
            Some((rs, k2)) => Some((rs, k + k2)),
        },
    }
}

/// the result of a partial run: `acc` decoded from `k` bytes so far, `d` = what the remaining input decodes to
pub open spec fn list_join<T>(acc: Seq<T>, k: nat, d: Option<(Seq<T>, nat)>) -> Option<(Seq<T>, nat)> {
    match d {
        None => None,
        Some((rs, k2)) => Some((acc + rs, k + k2)),
    }
}

/// every successful range decode consumes between 2 and 22 bytes
pub proof fn lemma_dec_range_bounded(s: Seq<u8>)
    ensures
        match dec_range(s) {
            Some((r, k)) => 2 <= k <= s.len() && r.start <= r.end,
            None => true,
        },
{
    lemma_dec_u32_bounded(s);
    if dec_u32(s) is Some {
        lemma_dec_u32_bounded(s.skip(dec_u32(s)->Some_0.1 as int));
    }
}

/// C10, memory: a decoded list of n ranges took at least 2n bytes; every range has start <= end (and NOTHING else holds)
pub proof fn lemma_dec_range_list_bounded(s: Seq<u8>, n: nat)
    ensures
        match dec_range_list(s, n) {
            Some((rs, k)) => rs.len() == n && 2 * n <= k <= s.len() && (forall|i: int| 0 <= i < rs.len() ==> (#[trigger] rs[i]).0.start <= rs[i].0.end),
            None => true,
        },
    decreases n,
{
    if n > 0 {
        lemma_dec_range_bounded(s);
        if dec_range(s) is Some {
            let (r, k) = dec_range(s)->Some_0;
            lemma_dec_range_list_bounded(s.skip(k as int), (n - 1) as nat);
        }
    }
}

/// one more range at the end of the run
pub proof fn lemma_dec_range_list_step(s1: Seq<u8>, n: nat, acc: Seq<Ent<()>>, k: nat, m: nat)
    requires
        k <= s1.len(),
        m > 0,
        dec_range_list(s1, n) == list_join(acc, k, dec_range_list(s1.skip(k as int), m)),
    ensures
        match dec_range(s1.skip(k as int)) {
            None => dec_range_list(s1, n) is None,
            Some((r, k2)) => k + k2 <= s1.len() && r.start <= r.end && k2 >= 2
                && s1.skip(k as int).skip(k2 as int) == s1.skip((k + k2) as int)
                && dec_range_list(s1, n) == list_join(acc.push((r, ())), k + k2, dec_range_list(s1.skip((k + k2) as int), (m - 1) as nat)),
        },
{
    let s = s1.skip(k as int);
    lemma_dec_range_bounded(s);
    if dec_range(s) is Some {
        let (r, k2) = dec_range(s)->Some_0;
        assert(s.skip(k2 as int) =~= s1.skip((k + k2) as int));
        match dec_range_list(s.skip(k2 as int), (m - 1) as nat) {
            None => {},
            Some((rs, k3)) => {
                assert(acc + (seq![(r, ())] + rs) =~= acc.push((r, ())) + rs);
            },
        }
    }
}

// ---------------------------------------------------------------------------------------------
// Range<u32>
// ---------------------------------------------------------------------------------------------
impl Decode for Range<u32> {
    // TOTAL + PROGRESS (trait contract), RESULT SHAPE start <= end, and for a v1 decoder equality with `dec_range`
    /*@extract yrs/src/id_set.rs | impl Decode for Range<u32> | fn decode | label=range_decode
    @ret res
    @sig
        ensures
            res is Ok ==> res->Ok_0.start <= res->Ok_0.end,
            D::v1() ==> read_post(old(decoder).rest(), final(decoder).rest(), res, dec_range(old(decoder).rest())),
    @start
        let ghost s0 = decoder.rest();
    @after 1 `stmt:let clock`
        let ghost s1 = decoder.rest();
    @after 1 `stmt:let len`
        proof {
            lemma_suffix_step(s0, s1, decoder.rest());
            if D::v1() {
                let k = dec_u32(s0)->Some_0.1;
                lemma_dec_u32_bounded(s0);
                lemma_skip_skip_all(s0, k);
                lemma_dec_u32_bounded(s1);
            }
        }
    @*/
}

// ---------------------------------------------------------------------------------------------
// IdRanges<()>
// ---------------------------------------------------------------------------------------------
impl<T: Merge> IdRanges<T> {
    /*@extract yrs/src/ids.rs | impl<T: Merge> IdRanges<T> | fn from_raw
    @ret r
    @sig
        ensures r@ == raw@,
    @*/
}

impl Decode for IdRanges<()> {
    // (a) TOTAL + PROGRESS: every iteration consumes >= 2 bytes (invariant `decoder.rest().len() + 2 * n <= s1.len()`)
    // (b) ALLOCATION BUDGET: the capacity request goes through vx_budget                         -- FINDING F-DC-1 (see unit.rs)
    // (c) RESULT SHAPE: every range has start <= end, the value has at most (consumed bytes) / 2 entries; NOT canonical
    // (d) v1: equality with `dec_ranges`
    /*@extract yrs/src/id_set.rs | impl Decode for IdRanges<()> | fn decode | label=idranges_decode | rules=SUB(from=SmallVec::with_capacity;;to=vx_budget(decoder).vec_with_capacity::<(Range<u32>, ())>)
    @ret res
    @sig
        ensures
            res is Ok ==> 2 * res->Ok_0@.len() < old(decoder).rest().len() - final(decoder).rest().len(),
            res is Ok ==> forall|i: int| 0 <= i < res->Ok_0@.len() ==> (#[trigger] res->Ok_0@[i]).0.start <= res->Ok_0@[i].0.end,
            D::v1() ==> match dec_ranges(old(decoder).rest()) {
                Some((v, k)) => res is Ok && res->Ok_0@ == v && k <= old(decoder).rest().len() && final(decoder).rest() == old(decoder).rest().skip(k as int),
                None => res is Err,
            },
    @start
        let ghost s0 = decoder.rest();
        let ghost mut kk: nat = 0;
    @after 1 `stmt:let len`
        let ghost s1 = decoder.rest();
        proof {
            lemma_read_progress::<u32>(s0, s1, Ok::<u32, Error>(len));
            lemma_suffix_refl(s1);
            assert(s1.skip(0) =~= s1);
        }
    @loop 1 iter=it
        invariant
            decoder.wf(),
            suffix_of(s0, s1),
            suffix_of(s1, decoder.rest()),
            s1.len() < s0.len(),
            it.snapshot@.remaining().len() == len,
            0 <= it.index@ <= len,
            ranges@.len() == it.index@,
            decoder.rest().len() + 2 * it.index@ <= s1.len(),
            forall|i: int| 0 <= i < ranges@.len() ==> (#[trigger] ranges@[i]).0.start <= ranges@[i].0.end,
            D::v1() ==> kk <= s1.len() && decoder.rest() == s1.skip(kk as int)
                && dec_range_list(s1, len as nat) == list_join(ranges@, kk, dec_range_list(decoder.rest(), (len - it.index@) as nat)),
    @before 1 `stmt:call push`
        let ghost sa = decoder.rest();
        let ghost ra = ranges@;
        proof {
            lemma_suffix_step(s0, s1, sa);
            lemma_suffix_trans(s0, sa);
            if D::v1() {
                lemma_dec_range_list_step(s1, len as nat, ra, kk, (len - ra.len()) as nat);
            }
        }
    @after 1 `stmt:call push`
        proof {
            lemma_suffix_step(s1, sa, decoder.rest());
            if D::v1() {
                kk = kk + dec_range(sa)->Some_0.1;
            }
        }
    @before 1 `stmt:call Ok`
        proof {
            lemma_suffix_step(s0, s1, decoder.rest());
            if D::v1() {
                let k = dec_u32(s0)->Some_0.1;
                lemma_dec_u32_bounded(s0);
                assert(s0.skip(k as int).skip(kk as int) =~= s0.skip((k + kk) as int));
                assert(ranges@ + Seq::<Ent<()>>::empty() =~= ranges@);
            }
        }
    @*/
}
