// content_codec reproducers (throw-away cargo project, path dependency on /repo/yrs):
//   CARGO_NET_OFFLINE=true cargo run --offline --release --target-dir /tmp/cc-repro-target -- <experiment> [N]
//
//   any N        F-CC-1 (repaired by e4c67f4): v1 update with ONE ContentAny block announcing N values and carrying none.
//                Before the repair the Any arm of ItemContent::decode did `values.try_reserve(len)?`:
//                N = 100_000_000 (12 input bytes) -> Err(EndOfBuffer) with VmPeak 3 MB -> 2.35 GB,
//                N = 0xFFFFFFFF (13 bytes) -> Err(NotEnoughMemory) after a 103 GB request.  After: VmPeak stays ~3 MB.
//   json2 N      O-CC-2 (same root as the open finding K5): v2 update with ONE ContentJSON block of N EMPTY strings.  `len` comes
//                from the run-length coded len column, every string from the string column (lengths run-length coded): the
//                N strings cost no input bytes.  ~40 input bytes -> N * 24 bytes of heap.
//   rt           sanity: ContentJSON written by ItemContent::encode is read back (F40, repaired by 492046c)
//   jsonv1       F-CC-3 (format-inherent, v1 only): ContentEmbed / ContentFormat values travel as JSON text in lib0 v1
//                (EncoderV1::write_json = Any::to_json, DecoderV1::read_json = Any::from_json): Any::Undefined arrives as Null
//                (and a null FORMAT value means "remove the attribute"), Any::Buffer as an array of numbers, NaN as Null.
//                All of them survive v2 (write_json = write_any).  This is the limit of the pairing law read_json ~ write_json
//                that unit content_codec assumes.
use std::collections::HashMap;
use std::sync::Arc;
use yrs::updates::decoder::Decode;
use yrs::{Any, Doc, ReadTxn, StateVector, Text, Transact, Update};

fn vm_kb(key: &str) -> u64 {
    let s = std::fs::read_to_string("/proc/self/status").unwrap();
    for l in s.lines() {
        if l.starts_with(key) {
            return l.split_whitespace().nth(1).unwrap().parse().unwrap();
        }
    }
    0
}

fn varint(mut n: u64) -> Vec<u8> {
    let mut v = vec![];
    loop {
        let b = (n & 0x7f) as u8;
        n >>= 7;
        if n == 0 {
            v.push(b);
            break;
        } else {
            v.push(b | 0x80);
        }
    }
    v
}

/// lib0 signed var-int: first byte = 6 value bits | 0x40 sign | 0x80 continuation, then 7-bit groups
fn varint_signed(mut n: u64, negative: bool) -> Vec<u8> {
    let mut v = vec![];
    let mut b = (n & 0x3f) as u8 | if negative { 0x40 } else { 0 };
    n >>= 6;
    if n != 0 {
        b |= 0x80;
    }
    v.push(b);
    while n != 0 {
        let mut b = (n & 0x7f) as u8;
        n >>= 7;
        if n != 0 {
            b |= 0x80;
        }
        v.push(b);
    }
    v
}

fn buf(b: &[u8]) -> Vec<u8> {
    let mut v = varint(b.len() as u64);
    v.extend_from_slice(b);
    v
}

fn main() {
    let args: Vec<String> = std::env::args().collect();
    let exp = args.get(1).map(|s| s.as_str()).unwrap_or("any");
    let n: u64 = args.get(2).map(|s| s.parse().unwrap()).unwrap_or(100_000_000);
    match exp {
        "any" => {
            // 1 client section | 1 block | client 1 | clock 0 | info 0x08 (ContentAny, no origins) | parent info 1 | "a" | len = N
            let mut u = vec![1u8, 1, 1, 0, 0x08, 1, 1, b'a'];
            u.extend(varint(n));
            let before = vm_kb("VmSize:");
            let t = std::time::Instant::now();
            let r = Update::decode_v1(&u);
            println!(
                "any   N={:>10} input={:>2} bytes {:02x?} -> {:?}  VmSize before {} kB, VmPeak {} kB, VmHWM {} kB, {:?}",
                n, u.len(), u, r.as_ref().map(|_| ()).map_err(|e| e.to_string()), before, vm_kb("VmPeak:"), vm_kb("VmHWM:"), t.elapsed()
            );
        }
        "json2" => {
            let mut u = vec![0u8]; // feature flag
            u.extend(buf(&[])); // key clock column
            u.extend(buf(&varint_signed(1, false))); // client column: 1
            u.extend(buf(&[])); // left clock
            u.extend(buf(&[])); // right clock
            u.extend(buf(&[0x02])); // info column: ContentJSON, no origins (value repeated forever)
            let mut s = buf(b"a"); // string table: "a"
            s.extend(varint_signed(1, false)); // length of the parent name
            s.extend(varint_signed(0, true)); // -0: the length 0 ...
            s.extend(varint(n - 2)); // ... repeated N times
            u.extend(buf(&s)); // string column
            u.extend(buf(&[0x01])); // parent info column: 1 (named parent)
            u.extend(buf(&[])); // type ref column
            u.extend(buf(&varint_signed(n, false))); // len column: N
            u.extend([1u8, 1, 0]); // rest: 1 client section, 1 block, clock 0
            u.push(0); // empty delete set
            let before = vm_kb("VmSize:");
            let t = std::time::Instant::now();
            let r = Update::decode_v2(&u);
            println!(
                "json2 N={:>10} input={:>2} bytes {:02x?} -> {:?}  VmSize before {} kB, VmPeak {} kB, VmHWM (peak RSS) {} kB, {:?}",
                n, u.len(), u, r.as_ref().map(|_| ()).map_err(|e| e.to_string()), before, vm_kb("VmPeak:"), vm_kb("VmHWM:"), t.elapsed()
            );
        }
        "jsonv1" => {
            for (name, v) in [
                ("BigInt", Any::BigInt(1i64 << 60)),
                ("Undefined", Any::Undefined),
                ("Buffer", Any::Buffer(Arc::from(&[1u8, 2, 3][..]))),
                ("NaN", Any::Number(f64::NAN)),
                ("Number", Any::Number(1.5)),
            ] {
                for ver in [1, 2] {
                    let d1 = Doc::with_client_id(1);
                    let t1 = d1.get_or_insert_text("t");
                    {
                        let mut txn = d1.transact_mut();
                        t1.insert_embed(&mut txn, 0, v.clone());
                        let mut attrs = HashMap::new();
                        attrs.insert(Arc::from("k"), v.clone());
                        t1.insert_with_attributes(&mut txn, 1, "x", attrs);
                    }
                    let sv = StateVector::default();
                    let (bytes, u) = if ver == 1 {
                        let b = d1.transact().encode_state_as_update_v1(&sv);
                        let u = Update::decode_v1(&b);
                        (b, u)
                    } else {
                        let b = d1.transact().encode_state_as_update_v2(&sv);
                        let u = Update::decode_v2(&b);
                        (b, u)
                    };
                    let d2 = Doc::with_client_id(2);
                    let t2 = d2.get_or_insert_text("t");
                    d2.transact_mut().apply_update(u.unwrap()).unwrap();
                    let a = t1.diff(&d1.transact(), yrs::types::text::YChange::identity);
                    let b = t2.diff(&d2.transact(), yrs::types::text::YChange::identity);
                    let show = |d: &Vec<yrs::types::text::Diff<yrs::types::text::YChange>>| {
                        d.iter().map(|d| format!("({:?}, {:?})", d.insert, d.attributes)).collect::<Vec<_>>().join(" ")
                    };
                    println!("jsonv1 {:<9} v{} ({} bytes): same={:<5} sent {}   received {}", name, ver, bytes.len(), show(&a) == show(&b), show(&a), show(&b));
                }
            }
        }
        _ => {
            // ContentJSON as a Yjs peer writes it: map entry "k" of root "a" with JSON content ["1","2"]
            // info 0x22 = ContentJSON | HAS_PARENT_SUB
            let u = vec![1u8, 1, 1, 0, 0x22, 1, 1, b'a', 1, b'k', 2, 1, b'1', 1, b'2', 0];
            let r = Update::decode_v1(&u);
            println!("rt    {:?}", r);
            use yrs::updates::encoder::Encode;
            let back = r.unwrap().encode_v1();
            println!("rt    re-encoded equal: {}", back == u);
        }
    }
}
