// unit `content_codec` -- decoding of block CONTENT and of the ITEM arm of `Update::decode_block`.  Serves C10 and C09.
//
//   yrs/src/block.rs      ItemContent::decode (WHOLE body: the dispatch on `ref_num & 0b1111` and all ten arms) + its four block
//                         arms lifted on their own (R18): content_decode_json / _any (behind `let len = ..`, `len` a PARAMETER),
//                         content_decode_type / _doc;  ItemContent::len, ItemContent::is_countable, ItemFlags::new (whole);
//                         Item::new (PREFIX: everything up to and including `let mut item = Box::new(Item { .. });`, i.e. the
//                         `if len == 0 { return None; }` guard and the field-by-field construction);  ClientID::decode (whole)
//   yrs/src/types/mod.rs  <TypeRef as Decode>::decode (whole; inherent impl, static dispatch)
//   yrs/src/doc.rs        <Options as Decode>::decode (whole body as a region; the in-memory option-parsing loop is DROPPED, see EXCLUDED)
//   yrs/src/update.rs     Update::decode_block (WHOLE body, all three arms) + its ITEM arm lifted on its own (decode_block_item)
//   yrs/src/updates/decoder.rs  DecoderV1::{read_id, read_left_id, read_right_id, read_parent_info, read_type_ref} (real bodies
//                         against the byte-level clauses of the decoder model, `trait V1Reads`)
//
// DECODER MODEL.  `trait Decoder: Read` is ABSTRACT and carries TWO ghost views of the unread input:
//   rest(): Seq<u8>   the unread bytes of the main stream (units lib0 / dec_comp / upd_dec): `wf`, `suffix_of`, progress, budget (C10)
//   toks(): Seq<Tok>  the unread TOKENS, in the vocabulary of unit header's token-log `Encoder` (Tok::{Info, LeftId, RightId,
//                     ParentInfo, String, Len, Var, Buf, Json, Any, Key, TypeRef}: one token per `write_*` call) (C09)
// Every `read_*` method has
//   (B) the byte-level clauses of units dec_comp / upd_dec: wf kept, never rewinds / reads beyond the input (`suffix_of`), and the
//       PROGRESS clause that the real body has: read_any / read_json / read_buf consume >= 1 byte of rest() in EVERY decoder
//       (v1: own var-int / tag byte; v2: `Any::decode(&mut self.cursor)`, `Read::read_buf`), the others only for a v1 decoder
//       (`Self::v1()`: v2 reads them from separate RLE columns; nothing is promised there);
//   (L) its PAIRING LAW: if the unread tokens start with the token the matching `write_*` produces, the read returns that
//       token's payload and consumes exactly that token (`paired`).  Nothing is promised when the head token is of another kind
//       (a v1 decoder would read garbage, a v2 decoder another column).
// The pairing laws are THE ASSUMPTION of the round-trip statements (R): they hold for every Encoder / Decoder pair that
// satisfies them, which is how the independence from v1 / v2 is expressed.  List (method ~ token):
//   read_info ~ Info(u8) | read_left_id ~ LeftId(ID) | read_right_id ~ RightId(ID) | read_parent_info ~ ParentInfo(bool) |
//   read_string ~ String(s) | read_len ~ Len(u32) | read_buf ~ Buf(bytes) | read_json ~ Json(any) | read_any ~ Any(any) |
//   read_key ~ Key(s) | read_type_ref ~ TypeRef(u8)            (`Read::read_var::<u32>` ~ Var(u32) is NOT assumed: the Skip arm
//   of decode_block is covered at byte level only; unit upd_dec lifts and proves that arm.)
// For lib0 v1 the laws are instances of `dec(enc(v) + tail) == Some((v, |enc(v)|))` (units lib0 / lib0_common: law_dec_enc,
// lemma_dec_enc_buf) with toks() = the token parse of rest(); for v2 of the column round trips of unit lib0_v2.
// KNOWN LIMIT of one law (F-CC-3, measured on the real crate, repro `jsonv1`): `read_json ~ Json(any)` holds for lib0 v1 only on
// values JSON can represent -- EncoderV1::write_json is `Any::to_json` (serde_json), so Any::Undefined arrives as Null (a null
// FORMAT value then means "remove the attribute"), Any::Buffer as an array of numbers, a non-finite Number as Null.  Inherent in
// the v1 format (Yjs: JSON.stringify); v2 writes Embed / Format values with write_any and is exact.
//
// SPECIFICATION (QUOTED from units/header/unit.rs, where `lemma_roundtrip: parse_block(grammar(h) + rest) == Some((Item(decoded_of(h)),
// rest))` is proved for the grammar that `Item::encode` / `ItemSlice::encode` / `ItemContent::encode` are proved to write):
//   Tok, Content, Parent, Decoded, rd_*, rd_strings, rd_anys, parse_type_ref, parse_content, parse_opt_left / _right / _str,
//   parse_parent, parse_item, content_ref, content_toks, content_count, content_wf, lemma_parse_content (+ its helpers).
//   Differences: payloads are VIEWS here (`Str` = Seq<char>, the view of &str / String / Arc<str> / SplittableString / Uuid;
//   `TypeRefV` = the view of the exec enum TypeRef), and `utf16_len` is defined through `str_units` (the uninterpreted spec of
//   `SplittableString::len`) with the REAL `as u32` cast of `ItemContent::len`.
//
// CONTRACTS
//  ItemContent::decode(decoder, ref_num)  [content_decode; arms content_decode_json / _any / _type / _doc]
//   (T) TOTAL   Ok or Err for every wf decoder and every ref_num: no panic / overflow, both loops terminate (JSON: range loop;
//               Any: `decreases len - i`).  BUDGET: both `try_reserve` calls go through `vx_budget(decoder).for_vec(..).try_reserve(n)`
//               (SUB, logged) whose PRECONDITION is dec_comp's `alloc_budget_ok`: n <= unread bytes + 1024 (the code asks for
//               `.min(1024)`); everything else grows by ONE element per loop round, and a round consumes >= 1 byte of rest()
//               (Any: every decoder; JSON: v1 decoders -- F-CC-2).  SIZE: Ok ==> content_elems(result) <= bytes consumed (JSON under
//               v1()), content_elems(result) <= u32::MAX, Binary: |buf| < bytes consumed.
//   (P) SUFFIX  `suffix_of(old.rest(), final.rest())`, wf kept.
//   (V) VALUE   `content_ok`: parse_content(ref_num, old.toks()) == Some((c, t1)) ==> Ok(r), content_is(r, c), final.toks() == t1
//               -- or, JSON / Any arms only, Err because the allocator refused a budgeted reservation (`out_of_memory`: this Verus
//               gives the error conversion of `?` no specification, so the refusal is recorded in the uninterpreted
//               `vx_alloc_refused(n)`, n <= 1024, by the try_reserve stand-in).
//               parse_content IS the wire grammar: Deleted = Len;  JSON = Len n, then EXACTLY n String tokens (rd_strings(t, n));
//               Binary = Buf;  String = String;  Embed = Json;  Format = Key, Json;  Type = parse_type_ref;  Any = Len n, then exactly
//               n Any tokens;  Doc = String (guid), Any (options).  The lifted JSON / Any arms state the count on its own,
//               independent of the pairing laws: `json_exactly_len`: Ok(r) ==> r is JSON with EXACTLY `len` strings (the clause
//               repaired by 492046c, F40: `0..len + 1`, `1..len`, `while remaining >= 0` all fail it), `any_exactly_len` likewise.
//               Every other `ref_num & 0b1111` (0, 10..15) => Err(UnexpectedValue), nothing consumed (`unknown_ref_is_error`);
//               Ok(r) ==> the variant of r is the one the tag names.
//   (R) ROUND TRIP  `theorem_content_round_trip` ((V) + header's lemma_parse_content): for every call that satisfies (V), every
//               content c with content_wf(c) (element counts fit the u32 length prefix) and every `rest`:
//               old.toks() == content_toks(c) + rest && ref_num & 0x0f == content_ref(c) ==> Ok(r), content_is(r, c), final.toks() ==
//               rest (or out_of_memory).  content_toks(c) is what unit header proves `ItemContent::encode` / `encode_slice` to append.
//  TypeRef::decode  [typeref_decode]  (T)(P) as above; (V) parse_type_ref(old.toks()) == Some((t, t1)) ==> Ok(r), r.view() == t,
//               final.toks() == t1; kinds outside {0..6, 9, 15} (7 = weak link needs cfg(feature = "weak")) => Err.
//  Options::decode  [options_decode]  (T)(P), Ok ==> progress; (V) String g, Any o at the head ==> Ok(r), r.guid@ == g, both consumed.
//  Item::new (prefix)  [item_new]  `none_iff_empty`: None IFF content.len(Utf16) == 0; Some(item): every field as passed, redone None,
//               COUNTABLE flag per content kind, len == content.len(Utf16) >= 1.
//  ItemContent::len  [content_len]  Deleted: its len; String: `str_units(s, kind) as u32`; Any / JSON: `v.len() as u32`; else 1.
//  decode_block_item(id, decoder, info)  [decode_block_item] = the `info =>` arm of Update::decode_block
//   (T)(P) as above;  (V) `item_ok`: parse_item(info, old.toks()) == Some((d, t1)) ==> Ok(r), final.toks() == t1, and
//               r is None IFF content_count(d.content) == 0, else r == Some(Block::Item(it)) with item_is(it, id, d): id as given,
//               len == content_count(d.content) >= 1, origin / right_origin / parent / parent_sub / content == d's, left == right ==
//               redone == None, COUNTABLE flag (or out_of_memory).  parse_item is the flag discipline of unit header's grammar:
//                 "parent + parent_sub, written iff neither origin nor right origin is present" (parent_part), origin iff
//                 HAS_ORIGIN, right origin iff HAS_RIGHT_ORIGIN (in this order), parent = ParentInfo(true) String | ParentInfo(false)
//                 LeftId, parent_sub iff cant_copy && HAS_PARENT_SUB, then the content with the tag `info & 0b1111`.
//   (U) the clause unit upd_dec ASSUMES for its bodiless `decode_block`, same text:
//                 `res is Ok && res->Ok_0 is Some ==> block_of(res->Ok_0->Some_0, id)`   (block_of: client, clock == id's, len >= 1)
//  Update::decode_block(id, decoder)  [decode_block]  EXACTLY the four clauses of upd_dec's bodiless declaration (wf, suffix_of,
//               `Self::v1() && res is Ok ==> progress`, block_of), PROVED here from the real body (all three arms) -- plus the token
//               clause `block_ok`: toks start with Info(i), i not in {0, 10}, parse_item(i, ..) == Some((d, t1)) ==> as item_ok.
//               So upd_dec's bodiless method can be turned into a cross-checked stub of this function.
//
// FINDINGS
//   F-CC-1 (C10; found while writing this unit, REPAIRED in /repo e4c67f4; now the discharged obligations content_decode_any::pre /
//          content_decode::pre, canary any_min_1024_dropped): the Any arm did `values.try_reserve(len)?` with len = untrusted
//          `read_len()? as usize` (492046c had capped the JSON arm only).  Update::decode_v1(&[1,1,1,0,0x08,1,1,0x61,0x80,0xC2,0xD7,
//          0x2F]) (12 bytes, ContentAny len 100_000_000, no values) returned Err(EndOfBuffer) after reserving 2.35 GB (VmPeak 3 MB
//          -> 2.35 GB); len 0xFFFFFFFF (13 bytes) -> Err(NotEnoughMemory) after a 103 GB request.  repro `any N`.
//   F-CC-2 (C10, v2 only, OPEN: second instance of the root cause of K5 -- run-length coded columns cost no input bytes): the JSON
//          arm reads `len` from the len column and every string from the string column (lengths RLE-coded), so N empty strings
//          cost nothing.  Update::decode_v2 of 29 bytes (repro `json2 50000000`) -> Ok, 1.17 GB peak RSS, 0.7 s; N = 2 * 10^8 -> 4.7 GB;
//          N = 2^32 - 1 under `ulimit -v 3000000` -> SIGABRT in RawVec::grow_one <- ItemContent::decode.  The SIZE clause for JSON is
//          therefore stated (and proved) under `D::v1()`; for column decoders it is false.  The Any arm is fine in both versions.
//   F-CC-3 (C09, v1 only, format-inherent): see KNOWN LIMIT above.
// OBSERVATIONS (no clause fails)
//   O-CC-3  `read_len` / `read_type_ref` of DecoderV2 truncate (`read_u64()? as u32`, `as u8`): lenient, not a totality issue.
//   O-CC-4  `ItemContent::len`: `str.len(kind) as u32`, `v.len() as u32` truncate for >= 2^32 units / elements (needs a >= 4 GiB
//           input; decode cannot produce such Any / JSON vectors: `content_elems <= u32::MAX` is proved).  A string of exactly
//           k * 2^32 UTF-16 units would count as empty and be dropped by Item::new.
//   O-CC-5  Options::decode ignores an options value that is not a map and unknown keys (lenient, by design).
//
// STAND-INS (everything else is extracted from /repo on every run)
//   ClientID        `ClientID(pub u64)` holding the yjs value (units dec_comp / upd_dec); `ClientID::decode` is the REAL body, `new`
//                   carries the real body's debug_assert (53 bit) as precondition.
//   ArcStr          `Arc<str>` (SUB, logged): opaque, view Seq<char>, trusted `clone`;  Uuid = ArcStr (real: newtype of Arc<str>).
//   SplittableString  opaque, view Seq<char>; `len(kind)` TRUSTED with the uninterpreted spec `str_units`.
//   Any             the REAL enum (any.rs) with the Arc payloads spelled as opaque types (Bytes, AnyArr, AnyMap), as in unit dec_comp;
//                   values are only produced by read_any / read_json and matched once (`if let Any::Map(opts)` in Options::decode).
//   TypeRef         re-declared without discriminants and without the cfg(feature = "weak") variant, as in unit header.
//   Branch          sliced to `item`, `name`, `type_ref` (header);  Branch::new TRUSTED: type_ref as given, item / name None.
//   BranchPtr, ItemPtr  opaque (never produced by decoding: left / right are passed as None, parent is Unknown / Named / ID).
//   Options         sliced to `guid`, `should_load`, `auto_load` (+ one opaque rest);  Options::default TRUSTED (random ids: value
//                   unspecified);  Doc opaque with the spec accessor `options()`;  Doc::with_options TRUSTED (`r.options() == options`).
//   Update          the two functions are extracted into free functions (no `Self` use in their bodies).
// TRUSTED (module vx_trusted; each with its std / yrs-documented contract at the declaration)
//   VxBudget::try_reserve (std Vec::try_reserve: capacity only; PRECONDITION alloc_budget_ok = the obligation; Err ==> vx_alloc_refused),
//   VxInto impls &str -> ArcStr / SplittableString (the Any -> Any / Box<Any> impls are VERIFIED), VxToOwned for str / [u8],
//   ArcStr::clone, SplittableString::len, vx_branch_new, vx_options_default, Doc::with_options; + what units/lib0_common/base.rs trusts.
// REWRITES (all logged): R9 R10; SUB `Arc<str>` -> ArcStr, `.into()` -> `.vx_into()` (local trait, target type inferred as in the
//   real code), `.to_owned()` -> `.vx_to_owned()`, `buf.try_reserve` / `values.try_reserve` -> `vx_budget(decoder).for_vec(&..).try_reserve`,
//   `decoder.read_buf()` -> `Decoder::read_buf(decoder)` (lib0_common's blanket ReadExt::read_buf would be ambiguous),
//   INLINE `Block::from(item)` -> `Block::Item(item)` (body of `impl From<Box<Item>> for Block` checked on every run), field
//   visibility of ItemFlags.0 / DecoderV1.cursor / ITEM_FLAG_COUNTABLE.  R18 regions as listed; @drop of the option-parsing `for`.
// EXCLUDED: the tail of Item::new after the `Box::new` (`ItemPtr::from(&mut item)`, `branch.item = Some(item_ptr)`, `branch.name =
//   root_name`: raw back-pointer of a nested type; does not touch id / len / origins / parent / content kind);  the loop of
//   Options::decode that copies known keys of the decoded map into option fields (in-memory, no decoder access, bounded by the map
//   decoded under dec_comp's budget; lossy by design, so Doc round-trips up to `as_any`: (V) for Doc states the guid and the
//   consumption only);  Any::from_json / Any::decode themselves (dec_comp);  the real DecoderV2 bodies and the v1 bodies listed at
//   `trait V1Reads` (units lib0, lib0_v2, dec_comp, upd_dec);  byte sizes of strings / Any values (element counts only, as in
//   dec_comp);  TypeRef::WeakLink (cfg(feature = "weak"));  what `Update::integrate` does with a decoded item.
#![feature(allocator_api)]
#![allow(unused_imports, unused_variables, unused_mut, dead_code, unused_parens, unused_braces, unused_assignments)]
use vstd::prelude::*;
use vstd::slice::*;
use std::convert::TryInto;
use core::ops::Range;
use std::collections::HashMap;
use vstd::std_specs::iter::IteratorSpec;

verus! {

/*@rules R9 R10
   SUB(from=Arc<str>;;to=ArcStr)
   SUB(from=.into();;to=.vx_into())
   SUB(from=.to_owned();;to=.vx_to_owned())
   SUB(from=buf.try_reserve;;to=vx_budget(decoder).for_vec(&buf).try_reserve)
   SUB(from=values.try_reserve;;to=vx_budget(decoder).for_vec(&values).try_reserve)
   SUB(from=decoder.read_buf();;to=Decoder::read_buf(decoder))
   INLINE(file=yrs/src/block.rs;;container=impl From<Box<Item>> for Block;;fn=from;;body=Block::Item(value);;call=Block::from(item);;to=Block::Item(item))
@*/

/*@include units/lib0_common/base.rs @*/

/*@include units/lib0_common/spec.rs @*/

/*@include units/lib0_common/varint.rs @*/

// ---------------------------------------------------------------------------------------------
// opaque stand-ins and trusted std / yrs constructors
// ---------------------------------------------------------------------------------------------
#[derive(PartialEq, Eq, Structural, Clone, Copy)]
pub struct ClientID(pub u64);

/// `value & ClientID::MASK == 0`, i.e. the value fits into 53 bits (text of units/upd_dec/unit.rs)
pub open spec fn client_id_53bit(value: u64) -> bool {
    value < 0x20_0000_0000_0000
}

pub proof fn lemma_client_id_mask(value: u64)
    ensures
        client_id_53bit(value) <==> value & (u64::MAX << 53) == 0,
{
    assert(value < 0x20_0000_0000_0000 <==> value & (u64::MAX << 53) == 0) by(bit_vector);
}

impl ClientID {
    /*@extract yrs/src/block.rs | impl ClientID | const MASK @*/

    // the REAL body: checks the range of a value read from untrusted input
    /*@extract yrs/src/block.rs | impl ClientID | fn decode | label=client_id_decode | rules=SUB(from=crate::encoding::read::Error;;to=Error)
    @ret r
    @sig
        ensures
            match r {
                Ok(c) => client_id_53bit(value) && c == ClientID(value),
                Err(_) => !client_id_53bit(value),
            },
    @before 1 `stmt:if`
        proof { lemma_client_id_mask(value); }
    @*/

    /// STAND-IN for `ClientID::new`; precondition = the `debug_assert!(value & Self::MASK == 0)` of the real body (R9)
    pub fn new(value: u64) -> (r: ClientID)
        requires
            client_id_53bit(value),
        ensures
            r.0 == value,
    {
        ClientID(value)
    }
}

/// the view of every string-like value (&str, String, Arc<str>, SplittableString, Uuid)
pub type Str = Seq<char>;

/// `SplittableString::len(kind)`: number of UTF-16 code units / UTF-8 bytes of a string (uninterpreted)
pub uninterp spec fn str_units(s: Str, kind: OffsetKind) -> usize;

#[derive(Copy, Clone, PartialEq, Eq, Structural)]
/*@extract yrs/src/doc.rs | - | enum OffsetKind @*/

pub mod vx_trusted {
    use vstd::prelude::*;
    use super::Read;
    use super::Error;
    use super::TryReserveErrorStandIn;
    use super::{Str, str_units, OffsetKind, TypeRef, Branch, Options, Any};

    /// R13: `Arc<str>` is an opaque value that has the characters of a string (as in unit dec_comp)
    #[verifier::external_body]
    #[verifier::accept_recursive_types]
    pub struct ArcStr {
        inner: std::sync::Arc<str>,
    }

    impl View for ArcStr {
        type V = Seq<char>;

        uninterp spec fn view(&self) -> Seq<char>;
    }

    impl Clone for ArcStr {
        /// std `Arc::clone`: another pointer to the same allocation
        #[verifier::external_body]
        fn clone(&self) -> (r: Self)
            ensures r == *self,
        {
            ArcStr { inner: self.inner.clone() }
        }
    }

    /// R13: `Arc<[u8]>`, `Arc<[Any]>`, `Arc<HashMap<String, Any>>`: opaque payloads of `Any` (never inspected here)
    #[verifier::external_body]
    #[verifier::accept_recursive_types]
    pub struct Bytes {
        inner: std::sync::Arc<[u8]>,
    }

    #[verifier::external_body]
    #[verifier::accept_recursive_types]
    pub struct AnyArr {
        inner: std::sync::Arc<[u8]>,
    }

    #[verifier::external_body]
    #[verifier::accept_recursive_types]
    pub struct AnyMap {
        inner: std::sync::Arc<[u8]>,
    }

    /// block.rs `SplittableString { content: SmallString<[u8; 8]> }`: opaque, has the characters of a string
    #[verifier::external_body]
    pub struct SplittableString {
        inner: String,
    }

    impl View for SplittableString {
        type V = Seq<char>;

        uninterp spec fn view(&self) -> Seq<char>;
    }

    impl SplittableString {
        /// block.rs `SplittableString::len(kind)`: "len == 1 => len, Bytes => len, Utf16 => self.utf16_len()": a function of the
        /// characters and the kind (uninterpreted `str_units`)
        #[verifier::external_body]
        pub fn len(&self, kind: OffsetKind) -> (r: usize)
            ensures
                r == str_units(self@, kind),
        {
            unimplemented!()
        }
    }

    /// the conversions the real code spells `.into()` (SUB `.into()` -> `.vx_into()`, logged; the target type is inferred
    /// exactly as in the real code)
    pub trait VxInto<T> {
        spec fn into_ok(&self, r: T) -> bool;

        fn vx_into(self) -> (r: T)
            ensures
                self.into_ok(r),
        ;
    }

    /// std `impl From<&str> for Arc<str>`: "Allocate a reference-counted str and copy v into it"
    impl<'a> VxInto<ArcStr> for &'a str {
        open spec fn into_ok(&self, r: ArcStr) -> bool {
            r@ == self@
        }

        #[verifier::external_body]
        fn vx_into(self) -> (r: ArcStr) {
            ArcStr { inner: std::sync::Arc::from(self) }
        }
    }

    /// block.rs `impl<'a> From<&'a str> for SplittableString`: `Self::from(SmallString::from_str(str))`
    impl<'a> VxInto<SplittableString> for &'a str {
        open spec fn into_ok(&self, r: SplittableString) -> bool {
            r@ == self@
        }

        #[verifier::external_body]
        fn vx_into(self) -> (r: SplittableString) {
            SplittableString { inner: self.to_owned() }
        }
    }

    /// std `impl<T> From<T> for T` (VERIFIED: identity)
    impl VxInto<Any> for Any {
        open spec fn into_ok(&self, r: Any) -> bool {
            r == *self
        }

        fn vx_into(self) -> (r: Any) {
            self
        }
    }

    /// std `impl<T> From<T> for Box<T>` (VERIFIED: Box::new)
    impl VxInto<Box<Any>> for Any {
        open spec fn into_ok(&self, r: Box<Any>) -> bool {
            *r == *self
        }

        fn vx_into(self) -> (r: Box<Any>) {
            Box::new(self)
        }
    }

    /// std `ToOwned` (SUB `.to_owned()` -> `.vx_to_owned()`, logged): "Creates owned data from borrowed data, usually by cloning"
    pub trait VxToOwned<T> {
        spec fn owned_ok(&self, r: T) -> bool;

        fn vx_to_owned(&self) -> (r: T)
            ensures
                self.owned_ok(r),
        ;
    }

    impl VxToOwned<String> for str {
        open spec fn owned_ok(&self, r: String) -> bool {
            r@ == self@
        }

        #[verifier::external_body]
        fn vx_to_owned(&self) -> (r: String) {
            self.to_owned()
        }
    }

    impl VxToOwned<Vec<u8>> for [u8] {
        open spec fn owned_ok(&self, r: Vec<u8>) -> bool {
            r@ == self@
        }

        #[verifier::external_body]
        fn vx_to_owned(&self) -> (r: Vec<u8>) {
            self.to_owned()
        }
    }

    /// branch.rs `Branch::new(type_ref)`: `Box::new(Self { start: None, map: HashMap::default(), block_len: 0, content_len: 0,
    /// item: None, name: None, type_ref, observers: .., deep_observers: .. })` -- the sliced fields as in the real literal
    #[verifier::external_body]
    pub fn vx_branch_new(type_ref: TypeRef) -> (r: Box<Branch>)
        ensures
            r.type_ref == type_ref,
            r.item is None,
            r.name is None,
    {
        unimplemented!()
    }

    /// doc.rs `Options::default()` (`Options::with_client_id(<random>)`, guid = uuid_v4()): SOME options, value unspecified
    #[verifier::external_body]
    pub fn vx_options_default() -> (r: Options) {
        unimplemented!()
    }

    // -----------------------------------------------------------------------------------------
    // ALLOCATION BUDGET (text of units/dec_comp/env.rs / units/upd_dec/unit.rs)
    // -----------------------------------------------------------------------------------------
    /// a constant-size pre-allocation is always fine
    pub const ALLOC_SLACK: usize = 1024;

    pub open spec fn alloc_budget_ok(n: usize, remaining: nat) -> bool {
        n <= remaining + ALLOC_SLACK
    }

    pub struct VxBudget {
        pub remaining: Ghost<nat>,
    }

    /// "the allocator refused a request for n more elements" (uninterpreted: nothing is known about it unless a
    /// `try_reserve` has just failed)
    pub uninterp spec fn vx_alloc_refused(n: usize) -> bool;

    pub fn vx_budget<R: Read>(r: &R) -> (b: VxBudget)
        ensures
            b.remaining@ == r.rest().len(),
    {
        VxBudget { remaining: Ghost(r.rest().len()) }
    }

    impl VxBudget {
        /// names the collection the request is for (verified identity; the collection is only borrowed)
        pub fn for_vec<T>(self, v: &Vec<T>) -> (r: VxBudget)
            ensures r == self,
        {
            self
        }

        /// A2: std `Vec::try_reserve(additional)`: "Tries to reserve capacity for at least additional more elements to be inserted
        /// ... If the capacity overflows, or the allocator reports a failure, then an error is returned."  Only the CAPACITY
        /// changes: the collection is not even borrowed mutably by the stand-in; the result is unspecified (Ok or Err).
        /// PRECONDITION: the request is within the budget -- the obligation of the caller, not an assumption.
        /// A failure is recorded in the uninterpreted `vx_alloc_refused(n)` ("the allocator refused a request for n elements"),
        /// because this Verus gives no specification to the error conversion of `?`: the contracts say "no error on a
        /// well-formed content UNLESS the allocator refused a (budgeted) request" through it.
        #[verifier::external_body]
        pub fn try_reserve(self, n: usize) -> (r: Result<(), TryReserveErrorStandIn>)
            requires
                alloc_budget_ok(n, self.remaining@),
            ensures
                r is Err ==> vx_alloc_refused(n),
        {
            unimplemented!()
        }
    }
}
use vx_trusted::*;

pub type Uuid = ArcStr;

/// real: `NotEnoughMemory(#[from] TryReserveError)` (thiserror generates exactly this impl); what `?` calls on `try_reserve`'s result
impl vstd::std_specs::convert::FromSpecImpl<TryReserveErrorStandIn> for Error {
    open spec fn obeys_from_spec() -> bool {
        true
    }

    open spec fn from_spec(e: TryReserveErrorStandIn) -> Error {
        Error::NotEnoughMemory(e)
    }
}

impl From<TryReserveErrorStandIn> for Error {
    fn from(e: TryReserveErrorStandIn) -> (r: Error) {
        Error::NotEnoughMemory(e)
    }
}

// ---------------------------------------------------------------------------------------------
// real declarations
// ---------------------------------------------------------------------------------------------
/*@extract yrs/src/block.rs | - | const BLOCK_GC_REF_NUMBER @*/
/*@extract yrs/src/block.rs | - | const BLOCK_ITEM_DELETED_REF_NUMBER @*/
/*@extract yrs/src/block.rs | - | const BLOCK_ITEM_JSON_REF_NUMBER @*/
/*@extract yrs/src/block.rs | - | const BLOCK_ITEM_BINARY_REF_NUMBER @*/
/*@extract yrs/src/block.rs | - | const BLOCK_ITEM_STRING_REF_NUMBER @*/
/*@extract yrs/src/block.rs | - | const BLOCK_ITEM_EMBED_REF_NUMBER @*/
/*@extract yrs/src/block.rs | - | const BLOCK_ITEM_FORMAT_REF_NUMBER @*/
/*@extract yrs/src/block.rs | - | const BLOCK_ITEM_TYPE_REF_NUMBER @*/
/*@extract yrs/src/block.rs | - | const BLOCK_ITEM_ANY_REF_NUMBER @*/
/*@extract yrs/src/block.rs | - | const BLOCK_ITEM_DOC_REF_NUMBER @*/
/*@extract yrs/src/block.rs | - | const BLOCK_SKIP_REF_NUMBER @*/
/*@extract yrs/src/block.rs | - | const HAS_RIGHT_ORIGIN @*/
/*@extract yrs/src/block.rs | - | const HAS_ORIGIN @*/
/*@extract yrs/src/block.rs | - | const HAS_PARENT_SUB @*/
/*@extract yrs/src/block.rs | - | const ITEM_FLAG_COUNTABLE | rules=SUB(from=const ITEM_FLAG_COUNTABLE;;to=pub const ITEM_FLAG_COUNTABLE) @*/

/*@extract yrs/src/types/mod.rs | - | const TYPE_REFS_ARRAY @*/
/*@extract yrs/src/types/mod.rs | - | const TYPE_REFS_MAP @*/
/*@extract yrs/src/types/mod.rs | - | const TYPE_REFS_TEXT @*/
/*@extract yrs/src/types/mod.rs | - | const TYPE_REFS_XML_ELEMENT @*/
/*@extract yrs/src/types/mod.rs | - | const TYPE_REFS_XML_FRAGMENT @*/
/*@extract yrs/src/types/mod.rs | - | const TYPE_REFS_XML_HOOK @*/
/*@extract yrs/src/types/mod.rs | - | const TYPE_REFS_XML_TEXT @*/
/*@extract yrs/src/types/mod.rs | - | const TYPE_REFS_WEAK @*/
/*@extract yrs/src/types/mod.rs | - | const TYPE_REFS_DOC @*/
/*@extract yrs/src/types/mod.rs | - | const TYPE_REFS_UNDEFINED @*/

#[derive(Copy, Clone, PartialEq, Eq, Structural)]
/*@extract yrs/src/block.rs | - | struct ID @*/

#[derive(Copy, Clone, PartialEq, Eq, Structural)]
/*@extract yrs/src/block.rs | - | struct BlockRange @*/

/*@extract yrs/src/block.rs | - | struct ItemFlags | rules=SUB(from=(u16);;to=(pub u16)) @*/

/// opaque: raw pointers of the block graph; decoding never produces one
pub struct ItemPtr(pub u64);

pub struct BranchPtr(pub u64);

/// the REAL enum, Arc payloads spelled as opaque types (as in unit dec_comp)
/*@extract yrs/src/any.rs | - | enum Any | rules=SUB(from=Arc<[u8]>;;to=Bytes) SUB(from=Arc<[Any]>;;to=AnyArr) SUB(from=Arc<HashMap<String, Any>>;;to=AnyMap) @*/

/// sliced (see STAND-INS): re-declared without discriminants and without the cfg(feature = "weak") variant, as in unit header
pub enum TypeRef {
    Array,
    Map,
    Text,
    XmlElement(ArcStr),
    XmlFragment,
    XmlHook,
    XmlText,
    SubDoc,
    Undefined,
}

/// sliced, as in unit header
pub struct Branch {
    pub item: Option<ItemPtr>,
    pub name: Option<ArcStr>,
    pub type_ref: TypeRef,
}

impl Branch {
    /// real: `Branch::new(type_ref) -> Box<Self>` (TRUSTED stand-in, see vx_branch_new)
    pub fn new(type_ref: TypeRef) -> (r: Box<Branch>)
        ensures
            r.type_ref == type_ref,
            r.item is None,
            r.name is None,
    {
        vx_branch_new(type_ref)
    }
}

/// opaque: everything of `Options` that decoding does not touch outside the dropped loop
pub struct OptionsRest(pub u64);

/// sliced (see STAND-INS)
pub struct Options {
    pub guid: Uuid,
    pub should_load: bool,
    pub auto_load: bool,
    pub vx_rest: OptionsRest,
}

impl Options {
    /// real: `Options::default()` (TRUSTED stand-in, see vx_options_default)
    pub fn default() -> (r: Options) {
        vx_options_default()
    }
}

/// opaque (real: `Doc { store: DocStore }`, an Arc); `options()` = the options the document was created with
#[verifier::external_body]
pub struct Doc {
    inner: u64,
}

impl Doc {
    pub uninterp spec fn options(&self) -> Options;

    /// doc.rs `Doc::with_options(options)`: "Creates a new document with a configured set of Options" (TRUSTED)
    #[verifier::external_body]
    pub fn with_options(options: Options) -> (r: Doc)
        ensures
            r.options() == options,
    {
        unimplemented!()
    }
}

/*@extract yrs/src/types/mod.rs | - | enum TypePtr @*/

/*@extract yrs/src/block.rs | - | enum ItemContent @*/

/*@extract yrs/src/block.rs | - | struct Item @*/

/*@extract yrs/src/block.rs | - | enum Block @*/

// ---------------------------------------------------------------------------------------------
// TOKENS and the READER SPECIFICATION -- QUOTED from units/header/unit.rs (see SPECIFICATION in the header comment)
// ---------------------------------------------------------------------------------------------
pub enum Tok {
    Info(u8),
    LeftId(ID),
    RightId(ID),
    ParentInfo(bool),
    String(Str),
    Len(u32),
    /// `Write::write_var::<u32>` (what `decode_block` reads for a Skip block)
    Var(u32),
    Buf(Seq<u8>),
    Json(Any),
    Any(Any),
    Key(Str),
    TypeRef(u8),
}

/// view of the exec enum `TypeRef`
pub enum TypeRefV {
    Array,
    Map,
    Text,
    XmlElement(Str),
    XmlFragment,
    XmlHook,
    XmlText,
    SubDoc,
    Undefined,
}

/// decoded content (what `ItemContent::decode` reconstructs)
pub enum Content {
    Deleted(u32),
    Json(Seq<Str>),
    Binary(Seq<u8>),
    String(Str),
    Embed(Any),
    Format(Str, Any),
    Type(TypeRefV),
    Any(Seq<Any>),
    /// guid, options
    Doc(Str, Any),
}

pub enum Parent {
    Named(Str),
    ID(ID),
}

/// what `decode_block` hands to `Item::new` (parent / parent_sub are only transmitted when there is no origin at all;
/// otherwise the integrating peer copies them from the origin item)
pub struct Decoded {
    pub origin: Option<ID>,
    pub right_origin: Option<ID>,
    /// None = TypePtr::Unknown
    pub parent: Option<Parent>,
    pub parent_sub: Option<Str>,
    pub content: Content,
}

/// content tag, as dispatched by `ItemContent::decode`
pub open spec fn content_ref(c: Content) -> u8 {
    match c {
        Content::Deleted(_) => 1,
        Content::Json(_) => 2,
        Content::Binary(_) => 3,
        Content::String(_) => 4,
        Content::Embed(_) => 5,
        Content::Format(_, _) => 6,
        Content::Type(_) => 7,
        Content::Any(_) => 8,
        Content::Doc(_, _) => 9,
    }
}

pub open spec fn strs_toks(v: Seq<Str>) -> Seq<Tok> {
    Seq::new(v.len(), |j: int| Tok::String(v[j]))
}

pub open spec fn anys_toks(v: Seq<Any>) -> Seq<Tok> {
    Seq::new(v.len(), |j: int| Tok::Any(v[j]))
}

pub open spec fn type_ref_kind(t: TypeRefV) -> u8 {
    match t {
        TypeRefV::Array => 0,
        TypeRefV::Map => 1,
        TypeRefV::Text => 2,
        TypeRefV::XmlElement(_) => 3,
        TypeRefV::XmlFragment => 4,
        TypeRefV::XmlHook => 5,
        TypeRefV::XmlText => 6,
        TypeRefV::SubDoc => 9,
        TypeRefV::Undefined => 15,
    }
}

pub open spec fn type_ref_toks(t: TypeRefV) -> Seq<Tok> {
    match t {
        TypeRefV::XmlElement(name) => seq![Tok::TypeRef(3), Tok::Key(name)],
        _ => seq![Tok::TypeRef(type_ref_kind(t))],
    }
}

/// what unit header proves `ItemContent::encode` to append to the token log
pub open spec fn content_toks(c: Content) -> Seq<Tok> {
    match c {
        Content::Deleted(n) => seq![Tok::Len(n)],
        Content::Json(v) => seq![Tok::Len(v.len() as u32)] + strs_toks(v),
        Content::Binary(b) => seq![Tok::Buf(b)],
        Content::String(s) => seq![Tok::String(s)],
        Content::Embed(a) => seq![Tok::Json(a)],
        Content::Format(k, a) => seq![Tok::Key(k), Tok::Json(a)],
        Content::Type(t) => type_ref_toks(t),
        Content::Any(v) => seq![Tok::Len(v.len() as u32)] + anys_toks(v),
        Content::Doc(g, o) => seq![Tok::String(g), Tok::Any(o)],
    }
}

/// number of UTF-16 code units of a string as `ItemContent::len(OffsetKind::Utf16)` reports it (`str.len(kind) as u32`)
pub open spec fn utf16_len(s: Str) -> u32 {
    str_units(s, OffsetKind::Utf16) as u32
}

/// number of elements the reader attributes to a content (`ItemContent::len(Utf16)`, used by `Item::new`)
pub open spec fn content_count(c: Content) -> int {
    match c {
        Content::Deleted(n) => n as int,
        Content::Json(v) => v.len() as int,
        Content::String(s) => utf16_len(s) as int,
        Content::Any(v) => v.len() as int,
        _ => 1,
    }
}

pub open spec fn rd_info(t: Seq<Tok>) -> Option<(u8, Seq<Tok>)> {
    if t.len() > 0 && t[0] is Info { Some((t[0]->Info_0, t.skip(1))) } else { None }
}

pub open spec fn rd_left(t: Seq<Tok>) -> Option<(ID, Seq<Tok>)> {
    if t.len() > 0 && t[0] is LeftId { Some((t[0]->LeftId_0, t.skip(1))) } else { None }
}

pub open spec fn rd_right(t: Seq<Tok>) -> Option<(ID, Seq<Tok>)> {
    if t.len() > 0 && t[0] is RightId { Some((t[0]->RightId_0, t.skip(1))) } else { None }
}

pub open spec fn rd_string(t: Seq<Tok>) -> Option<(Str, Seq<Tok>)> {
    if t.len() > 0 && t[0] is String { Some((t[0]->String_0, t.skip(1))) } else { None }
}

pub open spec fn rd_len(t: Seq<Tok>) -> Option<(u32, Seq<Tok>)> {
    if t.len() > 0 && t[0] is Len { Some((t[0]->Len_0, t.skip(1))) } else { None }
}

pub open spec fn rd_parent_info(t: Seq<Tok>) -> Option<(bool, Seq<Tok>)> {
    if t.len() > 0 && t[0] is ParentInfo { Some((t[0]->ParentInfo_0, t.skip(1))) } else { None }
}

pub open spec fn rd_json(t: Seq<Tok>) -> Option<(Any, Seq<Tok>)> {
    if t.len() > 0 && t[0] is Json { Some((t[0]->Json_0, t.skip(1))) } else { None }
}

pub open spec fn rd_any(t: Seq<Tok>) -> Option<(Any, Seq<Tok>)> {
    if t.len() > 0 && t[0] is Any { Some((t[0]->Any_0, t.skip(1))) } else { None }
}

pub open spec fn rd_key(t: Seq<Tok>) -> Option<(Str, Seq<Tok>)> {
    if t.len() > 0 && t[0] is Key { Some((t[0]->Key_0, t.skip(1))) } else { None }
}

pub open spec fn rd_buf(t: Seq<Tok>) -> Option<(Seq<u8>, Seq<Tok>)> {
    if t.len() > 0 && t[0] is Buf { Some((t[0]->Buf_0, t.skip(1))) } else { None }
}

pub open spec fn rd_type_ref(t: Seq<Tok>) -> Option<(u8, Seq<Tok>)> {
    if t.len() > 0 && t[0] is TypeRef { Some((t[0]->TypeRef_0, t.skip(1))) } else { None }
}

/// EXACTLY `n` strings (the JSON arm of `ItemContent::decode`)
pub open spec fn rd_strings(t: Seq<Tok>, n: nat) -> Option<(Seq<Str>, Seq<Tok>)>
    decreases n,
{
    if n == 0 {
        Some((Seq::empty(), t))
    } else {
        match rd_string(t) {
            None => None,
            Some((s, t1)) => match rd_strings(t1, (n - 1) as nat) {
                None => None,
                Some((v, t2)) => Some((seq![s] + v, t2)),
            },
        }
    }
}

pub open spec fn rd_anys(t: Seq<Tok>, n: nat) -> Option<(Seq<Any>, Seq<Tok>)>
    decreases n,
{
    if n == 0 {
        Some((Seq::empty(), t))
    } else {
        match rd_any(t) {
            None => None,
            Some((a, t1)) => match rd_anys(t1, (n - 1) as nat) {
                None => None,
                Some((v, t2)) => Some((seq![a] + v, t2)),
            },
        }
    }
}

/// `TypeRef::decode`
pub open spec fn parse_type_ref(t: Seq<Tok>) -> Option<(TypeRefV, Seq<Tok>)> {
    match rd_type_ref(t) {
        None => None,
        Some((k, t1)) => {
            if k == 0 { Some((TypeRefV::Array, t1)) }
            else if k == 1 { Some((TypeRefV::Map, t1)) }
            else if k == 2 { Some((TypeRefV::Text, t1)) }
            else if k == 3 {
                match rd_key(t1) {
                    None => None,
                    Some((name, t2)) => Some((TypeRefV::XmlElement(name), t2)),
                }
            }
            else if k == 4 { Some((TypeRefV::XmlFragment, t1)) }
            else if k == 5 { Some((TypeRefV::XmlHook, t1)) }
            else if k == 6 { Some((TypeRefV::XmlText, t1)) }
            else if k == 9 { Some((TypeRefV::SubDoc, t1)) }
            else if k == 15 { Some((TypeRefV::Undefined, t1)) }
            else { None }
        },
    }
}

/// `ItemContent::decode(decoder, info)`: dispatch on `info & 0b1111`
pub open spec fn parse_content(info: u8, t: Seq<Tok>) -> Option<(Content, Seq<Tok>)> {
    let k = info & 0x0f;
    if k == 1 {
        match rd_len(t) { None => None, Some((n, t1)) => Some((Content::Deleted(n), t1)) }
    } else if k == 2 {
        match rd_len(t) {
            None => None,
            Some((n, t1)) => match rd_strings(t1, n as nat) {
                None => None,
                Some((v, t2)) => Some((Content::Json(v), t2)),
            },
        }
    } else if k == 3 {
        match rd_buf(t) { None => None, Some((b, t1)) => Some((Content::Binary(b), t1)) }
    } else if k == 4 {
        match rd_string(t) { None => None, Some((s, t1)) => Some((Content::String(s), t1)) }
    } else if k == 5 {
        match rd_json(t) { None => None, Some((a, t1)) => Some((Content::Embed(a), t1)) }
    } else if k == 6 {
        match rd_key(t) {
            None => None,
            Some((key, t1)) => match rd_json(t1) {
                None => None,
                Some((a, t2)) => Some((Content::Format(key, a), t2)),
            },
        }
    } else if k == 7 {
        match parse_type_ref(t) { None => None, Some((tr, t1)) => Some((Content::Type(tr), t1)) }
    } else if k == 8 {
        match rd_len(t) {
            None => None,
            Some((n, t1)) => match rd_anys(t1, n as nat) {
                None => None,
                Some((v, t2)) => Some((Content::Any(v), t2)),
            },
        }
    } else if k == 9 {
        match rd_string(t) {
            None => None,
            Some((g, t1)) => match rd_any(t1) {
                None => None,
                Some((o, t2)) => Some((Content::Doc(g, o), t2)),
            },
        }
    } else {
        None
    }
}

pub open spec fn parse_opt_left(present: bool, t: Seq<Tok>) -> Option<(Option<ID>, Seq<Tok>)> {
    if present {
        match rd_left(t) { None => None, Some((id, t1)) => Some((Some(id), t1)) }
    } else {
        Some((None, t))
    }
}

pub open spec fn parse_opt_right(present: bool, t: Seq<Tok>) -> Option<(Option<ID>, Seq<Tok>)> {
    if present {
        match rd_right(t) { None => None, Some((id, t1)) => Some((Some(id), t1)) }
    } else {
        Some((None, t))
    }
}

pub open spec fn parse_parent(present: bool, t: Seq<Tok>) -> Option<(Option<Parent>, Seq<Tok>)> {
    if present {
        match rd_parent_info(t) {
            None => None,
            Some((named, t1)) => if named {
                match rd_string(t1) { None => None, Some((n, t2)) => Some((Some(Parent::Named(n)), t2)) }
            } else {
                match rd_left(t1) { None => None, Some((id, t2)) => Some((Some(Parent::ID(id)), t2)) }
            },
        }
    } else {
        Some((None, t))
    }
}

pub open spec fn parse_opt_str(present: bool, t: Seq<Tok>) -> Option<(Option<Str>, Seq<Tok>)> {
    if present {
        match rd_string(t) { None => None, Some((s, t1)) => Some((Some(s), t1)) }
    } else {
        Some((None, t))
    }
}

/// the `info =>` arm of `Update::decode_block`, flag-driven
pub open spec fn parse_item(info: u8, t: Seq<Tok>) -> Option<(Decoded, Seq<Tok>)> {
    let cant = info & (0x80u8 | 0x40u8) == 0;
    match parse_opt_left(info & 0x80 != 0, t) {
        None => None,
        Some((origin, t1)) => match parse_opt_right(info & 0x40 != 0, t1) {
            None => None,
            Some((right_origin, t2)) => match parse_parent(cant, t2) {
                None => None,
                Some((parent, t3)) => match parse_opt_str(cant && (info & 0x20 != 0), t3) {
                    None => None,
                    Some((parent_sub, t4)) => match parse_content(info, t4) {
                        None => None,
                        Some((content, t5)) => Some((Decoded { origin, right_origin, parent, parent_sub, content }, t5)),
                    },
                },
            },
        },
    }
}

// ---- round trip of the content grammar (QUOTED from units/header/unit.rs: lemma_skip_cons .. lemma_parse_content) ----------

pub proof fn lemma_skip_cons(x: Tok, s: Seq<Tok>)
    ensures
        (seq![x] + s).len() == s.len() + 1,
        (seq![x] + s)[0] == x,
        (seq![x] + s).skip(1) == s,
{
    assert((seq![x] + s).skip(1) =~= s);
}

pub proof fn lemma_rd_strings(v: Seq<Str>, rest: Seq<Tok>)
    ensures
        rd_strings(strs_toks(v) + rest, v.len()) == Some((v, rest)),
    decreases v.len(),
{
    if v.len() == 0 {
        assert(strs_toks(v) + rest =~= rest);
        assert(v =~= Seq::empty());
    } else {
        let w = v.skip(1);
        let t = strs_toks(v) + rest;
        assert(t =~= seq![Tok::String(v[0])] + (strs_toks(w) + rest));
        lemma_skip_cons(Tok::String(v[0]), strs_toks(w) + rest);
        lemma_rd_strings(w, rest);
        assert(seq![v[0]] + w =~= v);
    }
}

pub proof fn lemma_rd_anys(v: Seq<Any>, rest: Seq<Tok>)
    ensures
        rd_anys(anys_toks(v) + rest, v.len()) == Some((v, rest)),
    decreases v.len(),
{
    if v.len() == 0 {
        assert(anys_toks(v) + rest =~= rest);
        assert(v =~= Seq::empty());
    } else {
        let w = v.skip(1);
        let t = anys_toks(v) + rest;
        assert(t =~= seq![Tok::Any(v[0])] + (anys_toks(w) + rest));
        lemma_skip_cons(Tok::Any(v[0]), anys_toks(w) + rest);
        lemma_rd_anys(w, rest);
        assert(seq![v[0]] + w =~= v);
    }
}

/// a content the reader can take back: element counts fit the u32 length prefix
pub open spec fn content_wf(c: Content) -> bool {
    match c {
        Content::Json(v) => v.len() <= u32::MAX,
        Content::Any(v) => v.len() <= u32::MAX,
        _ => true,
    }
}

pub proof fn lemma_parse_type_ref(tr: TypeRefV, rest: Seq<Tok>)
    ensures
        parse_type_ref(type_ref_toks(tr) + rest) == Some((tr, rest)),
{
    match tr {
        TypeRefV::XmlElement(name) => {
            assert(type_ref_toks(tr) + rest =~= seq![Tok::TypeRef(3)] + (seq![Tok::Key(name)] + rest));
            lemma_skip_cons(Tok::TypeRef(3), seq![Tok::Key(name)] + rest);
            lemma_skip_cons(Tok::Key(name), rest);
        },
        _ => {
            assert(type_ref_toks(tr) + rest =~= seq![Tok::TypeRef(type_ref_kind(tr))] + rest);
            lemma_skip_cons(Tok::TypeRef(type_ref_kind(tr)), rest);
        },
    }
}

pub proof fn lemma_parse_content(info: u8, c: Content, rest: Seq<Tok>)
    requires
        content_wf(c),
        info & 0x0f == content_ref(c),
    ensures
        parse_content(info, content_toks(c) + rest) == Some((c, rest)),
{
    let t = content_toks(c) + rest;
    match c {
        Content::Deleted(n) => {
            assert(t =~= seq![Tok::Len(n)] + rest);
            lemma_skip_cons(Tok::Len(n), rest);
        },
        Content::Json(v) => {
            assert(t =~= seq![Tok::Len(v.len() as u32)] + (strs_toks(v) + rest));
            lemma_skip_cons(Tok::Len(v.len() as u32), strs_toks(v) + rest);
            lemma_rd_strings(v, rest);
        },
        Content::Binary(b) => {
            assert(t =~= seq![Tok::Buf(b)] + rest);
            lemma_skip_cons(Tok::Buf(b), rest);
        },
        Content::String(s) => {
            assert(t =~= seq![Tok::String(s)] + rest);
            lemma_skip_cons(Tok::String(s), rest);
        },
        Content::Embed(a) => {
            assert(t =~= seq![Tok::Json(a)] + rest);
            lemma_skip_cons(Tok::Json(a), rest);
        },
        Content::Format(k, a) => {
            assert(t =~= seq![Tok::Key(k)] + (seq![Tok::Json(a)] + rest));
            lemma_skip_cons(Tok::Key(k), seq![Tok::Json(a)] + rest);
            lemma_skip_cons(Tok::Json(a), rest);
        },
        Content::Type(tr) => {
            lemma_parse_type_ref(tr, rest);
        },
        Content::Any(v) => {
            assert(t =~= seq![Tok::Len(v.len() as u32)] + (anys_toks(v) + rest));
            lemma_skip_cons(Tok::Len(v.len() as u32), anys_toks(v) + rest);
            lemma_rd_anys(v, rest);
        },
        Content::Doc(g, o) => {
            assert(t =~= seq![Tok::String(g)] + (seq![Tok::Any(o)] + rest));
            lemma_skip_cons(Tok::String(g), seq![Tok::Any(o)] + rest);
            lemma_skip_cons(Tok::Any(o), rest);
        },
    }
}

// ---------------------------------------------------------------------------------------------
// views: from the decoded exec values to the specification values
// ---------------------------------------------------------------------------------------------
impl TypeRef {
    pub open spec fn view(&self) -> TypeRefV {
        match self {
            TypeRef::Array => TypeRefV::Array,
            TypeRef::Map => TypeRefV::Map,
            TypeRef::Text => TypeRefV::Text,
            TypeRef::XmlElement(name) => TypeRefV::XmlElement(name@),
            TypeRef::XmlFragment => TypeRefV::XmlFragment,
            TypeRef::XmlHook => TypeRefV::XmlHook,
            TypeRef::XmlText => TypeRefV::XmlText,
            TypeRef::SubDoc => TypeRefV::SubDoc,
            TypeRef::Undefined => TypeRefV::Undefined,
        }
    }
}

pub open spec fn strs_view(v: Seq<String>) -> Seq<Str> {
    Seq::new(v.len(), |j: int| v[j]@)
}

/// the decoded value IS the specification value.  Doc: the guid; how the options `Any` is mapped to option fields is not
/// modelled (see EXCLUDED) -- the token is consumed (`final.toks()`), `should_load || auto_load` is applied by the arm.
pub open spec fn content_is(c: ItemContent, v: Content) -> bool {
    match c {
        ItemContent::Deleted(n) => v == Content::Deleted(n),
        ItemContent::JSON(s) => v == Content::Json(strs_view(s@)),
        ItemContent::Binary(b) => v == Content::Binary(b@),
        ItemContent::String(s) => v == Content::String(s@),
        ItemContent::Embed(a) => v == Content::Embed(a),
        ItemContent::Format(k, a) => v == Content::Format(k@, *a),
        ItemContent::Type(b) => v == Content::Type(b.type_ref.view()) && b.item is None && b.name is None,
        ItemContent::Any(a) => v == Content::Any(a@),
        ItemContent::Doc(p, d) => v is Doc && p is None && d.options().guid@ == v->Doc_0,
    }
}

/// `ItemContent::len(kind)` (real body below)
pub open spec fn ic_len(c: ItemContent, kind: OffsetKind) -> u32 {
    match c {
        ItemContent::Deleted(n) => n,
        ItemContent::String(s) => str_units(s@, kind) as u32,
        ItemContent::Any(v) => v@.len() as u32,
        ItemContent::JSON(v) => v@.len() as u32,
        _ => 1,
    }
}

pub open spec fn ic_countable(c: ItemContent) -> bool {
    !(c is Deleted || c is Format)
}

/// number of separately allocated elements of a decoded content (the SIZE clause counts these against the input)
pub open spec fn content_elems(c: ItemContent) -> int {
    match c {
        ItemContent::Any(v) => v@.len() as int,
        ItemContent::JSON(v) => v@.len() as int,
        _ => 0,
    }
}

pub open spec fn parent_is(p: TypePtr, v: Option<Parent>) -> bool {
    match p {
        TypePtr::Unknown => v is None,
        TypePtr::Named(n) => v == Some(Parent::Named(n@)),
        TypePtr::ID(id) => v == Some(Parent::ID(id)),
        TypePtr::Branch(_) => false,
    }
}

pub open spec fn opt_str_is(s: Option<ArcStr>, v: Option<Str>) -> bool {
    match s {
        Some(x) => v == Some(x@),
        None => v is None,
    }
}

/// the item `decode_block` builds for `id` from the decoded fields `d`
pub open spec fn item_is(it: Item, id: ID, d: Decoded) -> bool {
    &&& it.id == id
    &&& it.len == content_count(d.content)
    &&& it.len >= 1
    &&& it.left is None
    &&& it.right is None
    &&& it.redone is None
    &&& it.origin == d.origin
    &&& it.right_origin == d.right_origin
    &&& parent_is(it.parent, d.parent)
    &&& opt_str_is(it.parent_sub, d.parent_sub)
    &&& content_is(it.content, d.content)
    &&& it.info.0 == (if ic_countable(it.content) { ITEM_FLAG_COUNTABLE } else { 0u16 })
}

/// `content_is` determines the element count
pub proof fn lemma_content_count(c: ItemContent, v: Content)
    requires
        content_is(c, v),
        content_elems(c) <= u32::MAX,
    ensures
        ic_len(c, OffsetKind::Utf16) as int == content_count(v),
{
    match c {
        ItemContent::JSON(s) => { assert(strs_view(s@).len() == s@.len()); },
        _ => {},
    }
}

// ---------------------------------------------------------------------------------------------
// the decoder (see DECODER MODEL in the header comment)
// ---------------------------------------------------------------------------------------------
/// PAIRING LAW, value results: if the unread tokens start with the token `d` stands for, the read returns its payload and
/// consumes exactly that token
pub open spec fn paired<T>(d: Option<(T, Seq<Tok>)>, res: Result<T, Error>, t1: Seq<Tok>) -> bool {
    d is Some ==> res is Ok && res->Ok_0 == d->Some_0.0 && t1 == d->Some_0.1
}

/// bytes of the main stream consumed between two reader states
pub open spec fn consumed(s0: Seq<u8>, s1: Seq<u8>) -> int {
    s0.len() - s1.len()
}

pub trait Decoder: Read {
    /// the decoder implements version 1 of the update format (everything is read from the one byte stream `rest()`)
    spec fn v1() -> bool;

    /// the unread tokens (ghost; see DECODER MODEL)
    spec fn toks(&self) -> Seq<Tok>;

    /// v1: `self.cursor.read_u8()` (unit upd_dec); v2: `self.info_decoder.read_u8()` (RLE column)
    fn read_info(&mut self) -> (res: Result<u8, Error>)
        requires
            old(self).wf(),
        ensures
            final(self).wf(),
            suffix_of(old(self).rest(), final(self).rest()),
            Self::v1() && res is Ok ==> final(self).rest().len() < old(self).rest().len(),
            paired(rd_info(old(self).toks()), res, final(self).toks()),
    ;

    /// v1: `read_id`: client var-int (range-checked by ClientID::decode) + clock var-int; v2: client column + left clock column
    fn read_left_id(&mut self) -> (res: Result<ID, Error>)
        requires
            old(self).wf(),
        ensures
            final(self).wf(),
            suffix_of(old(self).rest(), final(self).rest()),
            Self::v1() && res is Ok ==> final(self).rest().len() < old(self).rest().len(),
            paired(rd_left(old(self).toks()), res, final(self).toks()),
    ;

    /// v1: `read_id`; v2: client column + RIGHT clock column (hence a token of its own)
    fn read_right_id(&mut self) -> (res: Result<ID, Error>)
        requires
            old(self).wf(),
        ensures
            final(self).wf(),
            suffix_of(old(self).rest(), final(self).rest()),
            Self::v1() && res is Ok ==> final(self).rest().len() < old(self).rest().len(),
            paired(rd_right(old(self).toks()), res, final(self).toks()),
    ;

    /// v1: `let info: u32 = self.cursor.read_var()?; Ok(info == 1)`; v2: parent info column (RLE)
    fn read_parent_info(&mut self) -> (res: Result<bool, Error>)
        requires
            old(self).wf(),
        ensures
            final(self).wf(),
            suffix_of(old(self).rest(), final(self).rest()),
            Self::v1() && res is Ok ==> final(self).rest().len() < old(self).rest().len(),
            paired(rd_parent_info(old(self).toks()), res, final(self).toks()),
    ;

    /// v1: `self.cursor.read_u8()`; v2: `self.type_ref_decoder.read_u64()? as u8` (column; O-CC-3)
    fn read_type_ref(&mut self) -> (res: Result<u8, Error>)
        requires
            old(self).wf(),
        ensures
            final(self).wf(),
            suffix_of(old(self).rest(), final(self).rest()),
            Self::v1() && res is Ok ==> final(self).rest().len() < old(self).rest().len(),
            paired(rd_type_ref(old(self).toks()), res, final(self).toks()),
    ;

    /// v1: a u32 var-int of the stream (unit upd_dec); v2: `self.len_decoder.read_u64()? as u32` (column; O-CC-3)
    fn read_len(&mut self) -> (res: Result<u32, Error>)
        requires
            old(self).wf(),
        ensures
            final(self).wf(),
            suffix_of(old(self).rest(), final(self).rest()),
            Self::v1() && res is Ok ==> final(self).rest().len() < old(self).rest().len(),
            paired(rd_len(old(self).toks()), res, final(self).toks()),
    ;

    /// v1: `Any::decode(self)`; v2: `Any::decode(&mut self.cursor)`: the contract proved for Any::decode in unit dec_comp
    /// (PROGRESS for every decoder: the tag byte)
    fn read_any(&mut self) -> (res: Result<Any, Error>)
        requires
            old(self).wf(),
        ensures
            final(self).wf(),
            suffix_of(old(self).rest(), final(self).rest()),
            res is Ok ==> final(self).rest().len() < old(self).rest().len(),
            paired(rd_any(old(self).toks()), res, final(self).toks()),
    ;

    /// v1: `let src = self.read_string()?; Any::from_json(src)` (length prefix: >= 1 byte); v2: `Any::decode(&mut self.cursor)`
    fn read_json(&mut self) -> (res: Result<Any, Error>)
        requires
            old(self).wf(),
        ensures
            final(self).wf(),
            suffix_of(old(self).rest(), final(self).rest()),
            res is Ok ==> final(self).rest().len() < old(self).rest().len(),
            paired(rd_json(old(self).toks()), res, final(self).toks()),
    ;

    /// v1: `self.read_string()?.into()`; v2: key clock column + key table / string column
    fn read_key(&mut self) -> (res: Result<ArcStr, Error>)
        requires
            old(self).wf(),
        ensures
            final(self).wf(),
            suffix_of(old(self).rest(), final(self).rest()),
            Self::v1() && res is Ok ==> final(self).rest().len() < old(self).rest().len(),
            rd_key(old(self).toks()) is Some ==> res is Ok && res->Ok_0@ == rd_key(old(self).toks())->Some_0.0 && final(self).toks() == rd_key(old(self).toks())->Some_0.1,
    ;

    /// real: `lib0::Read::read_string` (v1: the default body `read_buf` + checked `from_utf8`, proved in unit dec_comp: length
    /// prefix >= 1 byte; v2 OVERRIDES it: `self.string_decoder.read_str()`, a separate column -- O-CC-2)
    fn read_string(&mut self) -> (res: Result<&str, Error>)
        requires
            old(self).wf(),
        ensures
            final(self).wf(),
            suffix_of(old(self).rest(), final(self).rest()),
            Self::v1() && res is Ok ==> final(self).rest().len() < old(self).rest().len(),
            rd_string(old(self).toks()) is Some ==> res is Ok && res->Ok_0@ == rd_string(old(self).toks())->Some_0.0 && final(self).toks() == rd_string(old(self).toks())->Some_0.1,
    ;

    /// real: `lib0::Read::read_buf` (default body, never overridden: the contract PROVED in units/lib0_common/base.rs, quoted --
    /// the payload is a slice of the consumed input, for every decoder)
    fn read_buf(&mut self) -> (res: Result<&[u8], Error>)
        requires
            old(self).wf(),
        ensures
            final(self).wf(),
            match dec_buf(old(self).rest()) {
                Some((b, k)) => res is Ok && res->Ok_0@ == b && k <= old(self).rest().len() && final(self).rest() == old(self).rest().skip(k as int),
                None => res is Err && suffix_of(old(self).rest(), final(self).rest()),
            },
            rd_buf(old(self).toks()) is Some ==> res is Ok && res->Ok_0@ == rd_buf(old(self).toks())->Some_0.0 && final(self).toks() == rd_buf(old(self).toks())->Some_0.1,
    ;
}


pub open spec fn known_type_ref(k: u8) -> bool {
    k <= 6 || k == 9 || k == 15
}

/// (V) of TypeRef::decode
pub open spec fn typeref_ok(t0: Seq<Tok>, res: Result<TypeRef, Error>, t1: Seq<Tok>) -> bool {
    parse_type_ref(t0) is Some ==> res is Ok && res->Ok_0.view() == parse_type_ref(t0)->Some_0.0 && t1 == parse_type_ref(t0)->Some_0.1
}


/// every consumption fact the straight-line arms need, once: `suffix_of` is transitive and bounds the length
pub proof fn lemma_suffix_all()
    ensures
        forall|a: Seq<u8>, b: Seq<u8>| #[trigger] suffix_of(a, b) ==> b.len() <= a.len(),
        forall|a: Seq<u8>, b: Seq<u8>, c: Seq<u8>| #![trigger suffix_of(a, b), suffix_of(b, c)] suffix_of(a, b) && suffix_of(b, c) ==> suffix_of(a, c),
        forall|a: Seq<u8>| #[trigger] suffix_of(a, a),
{
    assert forall|a: Seq<u8>, b: Seq<u8>| #[trigger] suffix_of(a, b) implies b.len() <= a.len() by {
        lemma_suffix_len(a, b);
    }
    assert forall|a: Seq<u8>, b: Seq<u8>, c: Seq<u8>| #![trigger suffix_of(a, b), suffix_of(b, c)] suffix_of(a, b) && suffix_of(b, c) implies suffix_of(a, c) by {
        lemma_suffix_trans(a, b);
    }
    assert forall|a: Seq<u8>| #[trigger] suffix_of(a, a) by {
        lemma_suffix_refl(a);
    }
}


/// tag of a decoded content (`ItemContent::get_ref_number`)
pub open spec fn content_ref_of(c: ItemContent) -> u8 {
    match c {
        ItemContent::Deleted(_) => 1,
        ItemContent::JSON(_) => 2,
        ItemContent::Binary(_) => 3,
        ItemContent::String(_) => 4,
        ItemContent::Embed(_) => 5,
        ItemContent::Format(_, _) => 6,
        ItemContent::Type(_) => 7,
        ItemContent::Any(_) => 8,
        ItemContent::Doc(_, _) => 9,
    }
}

pub open spec fn known_content_ref(k: u8) -> bool {
    1 <= k <= 9
}

/// the only error a well-formed content may still produce: `try_reserve` reported an allocation failure (JSON / Any arms)
pub open spec fn out_of_memory<T>(res: Result<T, Error>, info: u8) -> bool {
    res is Err && (info & 0x0f == 2 || info & 0x0f == 8) && exists|n: usize| n <= ALLOC_SLACK && #[trigger] vx_alloc_refused(n)
}

/// (V) of ItemContent::decode: the decoded content is exactly what the arm's wire grammar says
pub open spec fn content_ok(info: u8, t0: Seq<Tok>, res: Result<ItemContent, Error>, t1: Seq<Tok>) -> bool {
    parse_content(info, t0) is Some ==> out_of_memory(res, info)
        || (res is Ok && content_is(res->Ok_0, parse_content(info, t0)->Some_0.0) && t1 == parse_content(info, t0)->Some_0.1)
}

/// (R) of ItemContent::decode: what `ItemContent::encode` writes for `c` (unit header: `content_toks(c)`), followed by anything,
/// is read back as `c`, and the reader stops exactly behind it
pub open spec fn content_round_trip(info: u8, t0: Seq<Tok>, res: Result<ItemContent, Error>, t1: Seq<Tok>) -> bool {
    forall|c: Content, rest: Seq<Tok>| content_wf(c) && info & 0x0f == content_ref(c) && t0 == #[trigger] (content_toks(c) + rest)
        ==> out_of_memory(res, info) || (res is Ok && content_is(res->Ok_0, c) && t1 == rest)
}

/// the JSON arm after `let len = decoder.read_len()?`: IF the content parses, `ta` (the unread tokens) are `n` strings and
/// they ARE the content
pub open spec fn json_link(info: u8, t0: Seq<Tok>, ta: Seq<Tok>, n: nat) -> bool {
    parse_content(info, t0) is Some ==> rd_strings(ta, n) is Some
        && parse_content(info, t0) == Some((Content::Json(rd_strings(ta, n)->Some_0.0), rd_strings(ta, n)->Some_0.1))
}

pub open spec fn any_link(info: u8, t0: Seq<Tok>, ta: Seq<Tok>, n: nat) -> bool {
    parse_content(info, t0) is Some ==> rd_anys(ta, n) is Some
        && parse_content(info, t0) == Some((Content::Any(rd_anys(ta, n)->Some_0.0), rd_anys(ta, n)->Some_0.1))
}

/// (R) ROUND TRIP of ItemContent::decode, for EVERY call that satisfies its contract clause (V)
pub proof fn theorem_content_round_trip(info: u8, t0: Seq<Tok>, res: Result<ItemContent, Error>, t1: Seq<Tok>)
    requires
        content_ok(info, t0, res, t1),
    ensures
        content_round_trip(info, t0, res, t1),
{
    assert forall|c: Content, rest: Seq<Tok>| content_wf(c) && info & 0x0f == content_ref(c) && t0 == #[trigger] (content_toks(c) + rest)
        implies out_of_memory(res, info) || (res is Ok && content_is(res->Ok_0, c) && t1 == rest) by {
        lemma_parse_content(info, c, rest);
    }
}

/// the JSON loop after `i` rounds: `acc` = the strings read so far, `tc` = the unread tokens.  IF the tokens at the start of
/// the loop (`ta`) are `n` strings, then the rest of them is still ahead and `acc` is the front part of the result.
pub open spec fn strs_inv(ta: Seq<Tok>, n: nat, acc: Seq<Str>, tc: Seq<Tok>, i: nat) -> bool {
    rd_strings(ta, n) is Some ==> {
        &&& rd_strings(tc, (n - i) as nat) is Some
        &&& rd_strings(ta, n)->Some_0.0 == acc + rd_strings(tc, (n - i) as nat)->Some_0.0
        &&& rd_strings(ta, n)->Some_0.1 == rd_strings(tc, (n - i) as nat)->Some_0.1
    }
}

pub proof fn lemma_strs_start(ta: Seq<Tok>, n: nat)
    ensures
        strs_inv(ta, n, Seq::empty(), ta, 0),
{
    if rd_strings(ta, n) is Some {
        assert(Seq::<Str>::empty() + rd_strings(ta, n)->Some_0.0 =~= rd_strings(ta, n)->Some_0.0);
    }
}

/// one more string: the pairing law of `read_string` applies (the head token IS a string) and the invariant moves on
pub proof fn lemma_strs_step(ta: Seq<Tok>, n: nat, acc: Seq<Str>, tc: Seq<Tok>, i: nat)
    requires
        strs_inv(ta, n, acc, tc, i),
        i < n,
    ensures
        rd_strings(ta, n) is Some ==> rd_string(tc) is Some && strs_inv(ta, n, acc.push(rd_string(tc)->Some_0.0), rd_string(tc)->Some_0.1, i + 1),
{
    if rd_strings(ta, n) is Some {
        let m = (n - i) as nat;
        assert(rd_strings(tc, m) is Some);
        let (s, t1) = rd_string(tc)->Some_0;
        assert((m - 1) as nat == (n - (i + 1)) as nat);
        let v = rd_strings(t1, (m - 1) as nat)->Some_0.0;
        assert(acc + (seq![s] + v) =~= acc.push(s) + v);
    }
}

pub proof fn lemma_strs_done(ta: Seq<Tok>, n: nat, acc: Seq<Str>, tc: Seq<Tok>)
    requires
        strs_inv(ta, n, acc, tc, n),
    ensures
        rd_strings(ta, n) is Some ==> rd_strings(ta, n) == Some((acc, tc)),
{
    if rd_strings(ta, n) is Some {
        assert((n - n) as nat == 0);
        assert(acc + Seq::<Str>::empty() =~= acc);
    }
}

pub open spec fn anys_inv(ta: Seq<Tok>, n: nat, acc: Seq<Any>, tc: Seq<Tok>, i: nat) -> bool {
    rd_anys(ta, n) is Some ==> {
        &&& rd_anys(tc, (n - i) as nat) is Some
        &&& rd_anys(ta, n)->Some_0.0 == acc + rd_anys(tc, (n - i) as nat)->Some_0.0
        &&& rd_anys(ta, n)->Some_0.1 == rd_anys(tc, (n - i) as nat)->Some_0.1
    }
}

pub proof fn lemma_anys_start(ta: Seq<Tok>, n: nat)
    ensures
        anys_inv(ta, n, Seq::empty(), ta, 0),
{
    if rd_anys(ta, n) is Some {
        assert(Seq::<Any>::empty() + rd_anys(ta, n)->Some_0.0 =~= rd_anys(ta, n)->Some_0.0);
    }
}

pub proof fn lemma_anys_step(ta: Seq<Tok>, n: nat, acc: Seq<Any>, tc: Seq<Tok>, i: nat)
    requires
        anys_inv(ta, n, acc, tc, i),
        i < n,
    ensures
        rd_anys(ta, n) is Some ==> rd_any(tc) is Some && anys_inv(ta, n, acc.push(rd_any(tc)->Some_0.0), rd_any(tc)->Some_0.1, i + 1),
{
    if rd_anys(ta, n) is Some {
        let m = (n - i) as nat;
        assert(rd_anys(tc, m) is Some);
        let (s, t1) = rd_any(tc)->Some_0;
        assert((m - 1) as nat == (n - (i + 1)) as nat);
        let v = rd_anys(t1, (m - 1) as nat)->Some_0.0;
        assert(acc + (seq![s] + v) =~= acc.push(s) + v);
    }
}

pub proof fn lemma_anys_done(ta: Seq<Tok>, n: nat, acc: Seq<Any>, tc: Seq<Tok>)
    requires
        anys_inv(ta, n, acc, tc, n),
    ensures
        rd_anys(ta, n) is Some ==> rd_anys(ta, n) == Some((acc, tc)),
{
    if rd_anys(ta, n) is Some {
        assert((n - n) as nat == 0);
        assert(acc + Seq::<Any>::empty() =~= acc);
    }
}

pub proof fn lemma_strs_view_push(v: Seq<String>, s: String)
    ensures
        strs_view(v.push(s)) == strs_view(v).push(s@),
{
    assert(strs_view(v.push(s)) =~= strs_view(v).push(s@));
}

/// (V) of Options::decode: guid string, then the options value; both consumed.  (How the value's keys become option fields is
/// not modelled: the loop is dropped from the region, see EXCLUDED.)
pub open spec fn options_ok(t0: Seq<Tok>, res: Result<Options, Error>, t1: Seq<Tok>) -> bool {
    rd_string(t0) is Some && rd_any(rd_string(t0)->Some_0.1) is Some ==>
        res is Ok && res->Ok_0.guid@ == rd_string(t0)->Some_0.0 && t1 == rd_any(rd_string(t0)->Some_0.1)->Some_0.1
}


/// an error on well-formed tokens is only possible if the allocator refused a budgeted (<= 1024 elements) reservation
pub open spec fn alloc_refused() -> bool {
    exists|n: usize| n <= ALLOC_SLACK && #[trigger] vx_alloc_refused(n)
}

// ---- what a block is for unit upd_dec (QUOTED from units/upd_dec/unit.rs: BlockView, Block::bv, spec_client, block_of) -------
pub enum Kind { Item, GC, Skip }

pub struct BlockView {
    pub clock: int,
    pub len: int,
    pub kind: Kind,
}

impl Block {
    pub open spec fn bv(&self) -> BlockView {
        match self {
            Block::Item(x) => BlockView { clock: x.id.clock as int, len: x.len as int, kind: Kind::Item },
            Block::GC(r) => BlockView { clock: r.clock as int, len: r.len as int, kind: Kind::GC },
            Block::Skip(r) => BlockView { clock: r.clock as int, len: r.len as int, kind: Kind::Skip },
        }
    }

    pub open spec fn spec_client(&self) -> ClientID {
        match self {
            Block::Item(x) => x.id.client,
            Block::GC(r) => r.client,
            Block::Skip(r) => r.client,
        }
    }
}

/// a block made for `id`: it carries the id it was given and is NOT EMPTY (Item, GC and Skip alike)
pub open spec fn block_of(b: Block, id: ID) -> bool {
    &&& b.spec_client() == id.client
    &&& b.bv().clock == id.clock
    &&& b.bv().len >= 1
}

/// (V) of the item arm: the fields are read under exactly the flag combinations of unit header's grammar (`parse_item`), the
/// content by ItemContent::decode, and `Item::new` yields NO block iff the content is empty
pub open spec fn item_ok(id: ID, info: u8, t0: Seq<Tok>, res: Result<Option<Block>, Error>, t1: Seq<Tok>) -> bool {
    parse_item(info, t0) is Some ==> out_of_memory(res, info) || {
        let d = parse_item(info, t0)->Some_0.0;
        &&& res is Ok
        &&& t1 == parse_item(info, t0)->Some_0.1
        &&& (res->Ok_0 is None) == (content_count(d.content) == 0)
        &&& res->Ok_0 is Some ==> res->Ok_0->Some_0 is Item && item_is(*res->Ok_0->Some_0->Item_0, id, d)
    }
}

/// the token clause of the whole `decode_block`: an Info token that is neither GC (0) nor Skip (10), then an item
pub open spec fn block_ok(id: ID, t0: Seq<Tok>, res: Result<Option<Block>, Error>, t1: Seq<Tok>) -> bool {
    rd_info(t0) is Some && rd_info(t0)->Some_0.0 != 0 && rd_info(t0)->Some_0.0 != 10
        ==> item_ok(id, rd_info(t0)->Some_0.0, rd_info(t0)->Some_0.1, res, t1)
}


/// a successful var-int read consumed at least one byte; a failed one only a prefix (text of units/upd_dec/unit.rs)
pub proof fn lemma_var_progress<T: VarInt>(s0: Seq<u8>)
    ensures
        forall|s1: Seq<u8>, res: Result<T, Error>| #[trigger] read_post(s0, s1, res, T::dec(s0)) ==> suffix_of(s0, s1) && (res is Ok ==> s1.len() < s0.len()),
{
    T::law_dec_bounded(s0);
    lemma_suffix_skip(s0, 0);
    if T::dec(s0) is Some {
        lemma_suffix_skip(s0, T::dec(s0)->Some_0.1);
    }
}

/// consuming a prefix of what is left after consuming a prefix (text of units/dec_comp/env.rs)
pub proof fn lemma_suffix_step(s0: Seq<u8>, s1: Seq<u8>, s2: Seq<u8>)
    requires
        suffix_of(s0, s1),
        suffix_of(s1, s2),
    ensures
        suffix_of(s0, s2),
        s2.len() <= s1.len() <= s0.len(),
{
    lemma_suffix_trans(s0, s1);
    lemma_suffix_len(s0, s1);
    lemma_suffix_len(s1, s2);
}

pub proof fn lemma_suffix_len(s0: Seq<u8>, s1: Seq<u8>)
    requires
        suffix_of(s0, s1),
    ensures
        s1.len() <= s0.len(),
{
    let j = choose|j: nat| j <= s0.len() && s1 == #[trigger] s0.skip(j as int);
    assert(s1.len() == s0.len() - j);
}

pub proof fn lemma_suffix_refl(s0: Seq<u8>)
    ensures
        suffix_of(s0, s0),
{
    lemma_suffix_skip(s0, 0);
}

/// a length-prefixed buffer consumes its length prefix (>= 1 byte) and its payload (text of units/dec_comp/aw.rs)
pub proof fn lemma_dec_buf_bounded(s: Seq<u8>)
    ensures
        match dec_buf(s) {
            Some((b, k)) => 1 <= k <= s.len() && b.len() < k && suffix_of(s, s.skip(k as int)),
            None => true,
        },
{
    lemma_dec_u32_bounded(s);
    if dec_buf(s) is Some {
        lemma_suffix_skip(s, dec_buf(s)->Some_0.1);
    }
}

// ---------------------------------------------------------------------------------------------
// the real functions
// ---------------------------------------------------------------------------------------------
impl ItemFlags {
    /*@extract yrs/src/block.rs | impl ItemFlags | fn new | label=itemflags_new
    @ret r
    @sig
        ensures r.0 == source,
    @*/
}

impl TypeRef {
    // real: `impl Decode for TypeRef` (inherent impl here: same function, static dispatch)
    /*@extract yrs/src/types/mod.rs | impl Decode for TypeRef | fn decode | label=typeref_decode
    @ret res
    @sig
        requires
            old(decoder).wf(),
        ensures
            final(decoder).wf(),
            suffix_of(old(decoder).rest(), final(decoder).rest()),
            D::v1() && res is Ok ==> final(decoder).rest().len() < old(decoder).rest().len(),
            // (V) the value is what the grammar says, and exactly its tokens are consumed
            typeref_ok(old(decoder).toks(), res, final(decoder).toks()),
            // kinds the reader does not know are errors (7 = weak link: cfg(feature = "weak"))
            rd_type_ref(old(decoder).toks()) is Some && !known_type_ref(rd_type_ref(old(decoder).toks())->Some_0.0) ==> res is Err,
    @start
        let ghost s0 = decoder.rest();
        proof { lemma_suffix_refl(s0); }
    @after 1 `stmt:let type_ref`
        proof { lemma_suffix_trans(s0, decoder.rest()); }
    @*/
}

impl ItemContent {
    /*@extract yrs/src/block.rs | impl ItemContent | fn is_countable | label=content_is_countable
    @ret r
    @sig
        ensures r == ic_countable(*self),
    @*/

    /*@extract yrs/src/block.rs | impl ItemContent | fn len | label=content_len
    @ret r
    @sig
        ensures r == ic_len(*self, kind),
    @*/
}

impl Options {
    // real: `impl Decode for Options` -- the WHOLE body as a region so that the in-memory option-parsing loop can be dropped
    /*@extract yrs/src/doc.rs | impl Decode for Options | region decode | arm=fn decode<D: Decoder>(decoder: &mut D) -> Result<Self, Error> | label=options_decode
    @header
        pub fn decode<D: Decoder>(decoder: &mut D) -> (res: Result<Options, Error>)
    @drop `for (k, v) in opts.iter()`
    @sig
        requires
            old(decoder).wf(),
        ensures
            final(decoder).wf(),
            suffix_of(old(decoder).rest(), final(decoder).rest()),
            res is Ok ==> final(decoder).rest().len() < old(decoder).rest().len(),
            options_ok(old(decoder).toks(), res, final(decoder).toks()),
    @start
        proof { lemma_suffix_all(); }
    @*/
}

impl ItemContent {
    /*@extract yrs/src/block.rs | impl ItemContent | fn decode | label=content_decode
    @ret res
    @sig
        requires
            old(decoder).wf(),
        ensures
            final(decoder).wf(),
            suffix_of(old(decoder).rest(), final(decoder).rest()),
            // (T) SIZE: one element per consumed byte (JSON: v1 decoders, see O-CC-2); a buffer is a slice of the consumed input
            res is Ok && (D::v1() || !(res->Ok_0 is JSON)) ==> content_elems(res->Ok_0) <= consumed(old(decoder).rest(), final(decoder).rest()),
            res is Ok && res->Ok_0 is Binary ==> res->Ok_0->Binary_0@.len() < consumed(old(decoder).rest(), final(decoder).rest()),
            // (V)
            content_ok(ref_num, old(decoder).toks(), res, final(decoder).toks()),
            // unknown_ref_is_error
            !known_content_ref(ref_num & 0x0f) ==> res is Err && res->Err_0 is UnexpectedValue
                && final(decoder).rest() == old(decoder).rest() && final(decoder).toks() == old(decoder).toks(),
            // the variant is the one the tag names, whatever the tokens; element counts are the u32 read from the wire
            res is Ok ==> content_ref_of(res->Ok_0) == ref_num & 0x0f,
            res is Ok ==> content_elems(res->Ok_0) <= u32::MAX,
            // (R) = (V) + unit header's `lemma_parse_content`: `theorem_content_round_trip` below
    @start
        let ghost s0 = decoder.rest();
        let ghost t0 = decoder.toks();
        proof {
            lemma_suffix_all();
            lemma_dec_buf_bounded(s0);
        }
    @after 1 `stmt:let len`
        let ghost s1 = decoder.rest();
        let ghost ta = decoder.toks();
        proof {
            lemma_strs_start(ta, len as nat);
            assert(json_link(ref_num, t0, ta, len as nat));
        }
    @loop 1 iter=it
        invariant
            s0 == old(decoder).rest(),
            t0 == old(decoder).toks(),
            ref_num & 0x0f == 2,
            json_link(ref_num, t0, ta, len as nat),
            decoder.wf(),
            suffix_of(s0, s1),
            suffix_of(s1, decoder.rest()),
            buf@.len() == it.index@,
            D::v1() ==> decoder.rest().len() + buf@.len() <= s1.len(),
            it.index@ <= len ==> strs_inv(ta, len as nat, strs_view(buf@), decoder.toks(), it.index@ as nat),
    @loopstart 1
        let ghost b0 = buf@;
        let ghost sa = decoder.rest();
        proof {
            lemma_suffix_all();
            if it.index@ < len {
                lemma_strs_step(ta, len as nat, strs_view(b0), decoder.toks(), it.index@ as nat);
            }
        }
    @loopend 1
        proof {
            lemma_strs_view_push(b0, buf@.last());
            assert(buf@ == b0.push(buf@.last()));
        }
    @afterloop 1
        proof {
            lemma_suffix_all();
            if buf@.len() == len {
                lemma_strs_done(ta, len as nat, strs_view(buf@), decoder.toks());
            }
        }
    @after 2 `stmt:let len`
        let ghost s1 = decoder.rest();
        let ghost ta = decoder.toks();
        proof {
            lemma_anys_start(ta, len as nat);
            assert(any_link(ref_num, t0, ta, len as nat));
        }
    @loop 2
        invariant
            s0 == old(decoder).rest(),
            t0 == old(decoder).toks(),
            ref_num & 0x0f == 8,
            any_link(ref_num, t0, ta, len as nat),
            decoder.wf(),
            suffix_of(s0, s1),
            suffix_of(s1, decoder.rest()),
            i <= len,
            values@.len() == i,
            len <= u32::MAX,
            decoder.rest().len() + values@.len() <= s1.len(),
            i <= len ==> anys_inv(ta, len as nat, values@, decoder.toks(), i as nat),
        decreases len - i,
    @loopstart 2
        let ghost v0 = values@;
        proof {
            lemma_suffix_all();
            if i < len {
                lemma_anys_step(ta, len as nat, v0, decoder.toks(), i as nat);
            }
        }
    @afterloop 2
        proof {
            lemma_suffix_all();
            if values@.len() == len {
                lemma_anys_done(ta, len as nat, values@, decoder.toks());
            }
        }
    @*/
}

// ---- the four block arms of ItemContent::decode, lifted on their own (R18) -----------------------------------------------------

// the JSON arm behind `let len = decoder.read_len()?;` with `len` as a PARAMETER: the count/loop agreement is a clause of its own
/*@extract yrs/src/block.rs | impl ItemContent | region decode | stmt=after:stmt:let len | stmtnth=1 | toend=1 | label=content_decode_json
@header
    fn content_decode_json<D: Decoder>(decoder: &mut D, len: u32) -> (res: Result<ItemContent, Error>)
@sig
    requires
        old(decoder).wf(),
    ensures
        final(decoder).wf(),
        suffix_of(old(decoder).rest(), final(decoder).rest()),
        // json_exactly_len (the clause repaired by 492046c, F40): EXACTLY `len` strings -- not one more, not one fewer
        res is Ok ==> res->Ok_0 is JSON && res->Ok_0->JSON_0@.len() == len,
        // v1: every string took at least its length prefix (O-CC-2: not so for column decoders)
        D::v1() && res is Ok ==> len <= consumed(old(decoder).rest(), final(decoder).rest()),
        // exactly `len` String tokens are consumed, and they are the value
        rd_strings(old(decoder).toks(), len as nat) is Some ==> (res is Err && alloc_refused()) || (res is Ok
            && strs_view(res->Ok_0->JSON_0@) == rd_strings(old(decoder).toks(), len as nat)->Some_0.0
            && final(decoder).toks() == rd_strings(old(decoder).toks(), len as nat)->Some_0.1),
@start
    let ghost s0 = decoder.rest();
    let ghost ta = decoder.toks();
    proof {
        lemma_suffix_all();
        lemma_strs_start(ta, len as nat);
    }
@loop 1 iter=it
    invariant
        s0 == old(decoder).rest(),
        ta == old(decoder).toks(),
        decoder.wf(),
        suffix_of(s0, decoder.rest()),
        buf@.len() == it.index@,
        D::v1() ==> decoder.rest().len() + buf@.len() <= s0.len(),
        it.index@ <= len ==> strs_inv(ta, len as nat, strs_view(buf@), decoder.toks(), it.index@ as nat),
@loopstart 1
    let ghost b0 = buf@;
    proof {
        lemma_suffix_all();
        if it.index@ < len {
            lemma_strs_step(ta, len as nat, strs_view(b0), decoder.toks(), it.index@ as nat);
        }
    }
@loopend 1
    proof {
        lemma_strs_view_push(b0, buf@.last());
        assert(buf@ == b0.push(buf@.last()));
    }
@afterloop 1
    proof {
        if buf@.len() == len {
            lemma_strs_done(ta, len as nat, strs_view(buf@), decoder.toks());
        }
    }
@*/

// the Any arm behind `let len = decoder.read_len()? as usize;`
/*@extract yrs/src/block.rs | impl ItemContent | region decode | stmt=after:stmt:let len | stmtnth=2 | toend=1 | label=content_decode_any
@header
    fn content_decode_any<D: Decoder>(decoder: &mut D, len: usize) -> (res: Result<ItemContent, Error>)
@sig
    requires
        old(decoder).wf(),
    ensures
        final(decoder).wf(),
        suffix_of(old(decoder).rest(), final(decoder).rest()),
        // any_exactly_len
        res is Ok ==> res->Ok_0 is Any && res->Ok_0->Any_0@.len() == len,
        // every value took at least its tag byte, in every decoder
        res is Ok ==> len <= consumed(old(decoder).rest(), final(decoder).rest()),
        rd_anys(old(decoder).toks(), len as nat) is Some ==> (res is Err && alloc_refused()) || (res is Ok
            && res->Ok_0->Any_0@ == rd_anys(old(decoder).toks(), len as nat)->Some_0.0
            && final(decoder).toks() == rd_anys(old(decoder).toks(), len as nat)->Some_0.1),
@start
    let ghost s0 = decoder.rest();
    let ghost ta = decoder.toks();
    proof {
        lemma_suffix_all();
        lemma_anys_start(ta, len as nat);
    }
@loop 1
    invariant
        s0 == old(decoder).rest(),
        ta == old(decoder).toks(),
        decoder.wf(),
        suffix_of(s0, decoder.rest()),
        i <= len,
        values@.len() == i,
        decoder.rest().len() + values@.len() <= s0.len(),
        i <= len ==> anys_inv(ta, len as nat, values@, decoder.toks(), i as nat),
    decreases len - i,
@loopstart 1
    let ghost v0 = values@;
    proof {
        lemma_suffix_all();
        if i < len {
            lemma_anys_step(ta, len as nat, v0, decoder.toks(), i as nat);
        }
    }
@afterloop 1
    proof {
        if values@.len() == len {
            lemma_anys_done(ta, len as nat, values@, decoder.toks());
        }
    }
@*/

/*@extract yrs/src/block.rs | impl ItemContent | region decode | arm=BLOCK_ITEM_TYPE_REF_NUMBER => | label=content_decode_type
@header
    fn content_decode_type<D: Decoder>(decoder: &mut D) -> (res: Result<ItemContent, Error>)
@sig
    requires
        old(decoder).wf(),
    ensures
        final(decoder).wf(),
        suffix_of(old(decoder).rest(), final(decoder).rest()),
        D::v1() && res is Ok ==> final(decoder).rest().len() < old(decoder).rest().len(),
        res is Ok ==> res->Ok_0 is Type,
        parse_type_ref(old(decoder).toks()) is Some ==> res is Ok
            && content_is(res->Ok_0, Content::Type(parse_type_ref(old(decoder).toks())->Some_0.0))
            && final(decoder).toks() == parse_type_ref(old(decoder).toks())->Some_0.1,
@*/

/*@extract yrs/src/block.rs | impl ItemContent | region decode | arm=BLOCK_ITEM_DOC_REF_NUMBER => | label=content_decode_doc
@header
    fn content_decode_doc<D: Decoder>(decoder: &mut D) -> (res: Result<ItemContent, Error>)
@sig
    requires
        old(decoder).wf(),
    ensures
        final(decoder).wf(),
        suffix_of(old(decoder).rest(), final(decoder).rest()),
        res is Ok ==> final(decoder).rest().len() < old(decoder).rest().len(),
        res is Ok ==> res->Ok_0 is Doc && res->Ok_0->Doc_0 is None,
        // guid string, then ONE options value
        rd_string(old(decoder).toks()) is Some && rd_any(rd_string(old(decoder).toks())->Some_0.1) is Some ==> res is Ok
            && res->Ok_0->Doc_1.options().guid@ == rd_string(old(decoder).toks())->Some_0.0
            && final(decoder).toks() == rd_any(rd_string(old(decoder).toks())->Some_0.1)->Some_0.1,
@*/

// ---- Item::new and Update::decode_block ---------------------------------------------------------------------------------------

impl ID {
    /*@extract yrs/src/block.rs | impl ID | fn new | label=ID.new
    @ret r
    @sig
        ensures r.client == client, r.clock == clock,
    @*/
}

impl BlockRange {
    /*@extract yrs/src/block.rs | impl BlockRange | fn new | label=BlockRange.new
    @ret r
    @sig
        ensures r.client == id.client, r.clock == id.clock, r.len == len,
    @*/
}

impl Item {
    // the PREFIX of the real `Item::new`: everything up to and including `let mut item = Box::new(Item { .. });` (the guard
    // `if len == 0 { return None; }` and the construction); the tail that wires the raw back-pointer of a nested type is
    // EXCLUDED (see the header comment)
    /*@extract yrs/src/block.rs | impl Item | region new | stmt=stmt:let info | stmtnth=1 | upto=stmt:let item | tail=Some(item) | label=item_new
    @header
        pub fn new(id: ID, left: Option<ItemPtr>, origin: Option<ID>, right: Option<ItemPtr>, right_origin: Option<ID>, parent: TypePtr, parent_sub: Option<ArcStr>, content: ItemContent) -> (r: Option<Box<Item>>)
    @sig
        ensures
            // none_iff_empty
            (r is None) == (ic_len(content, OffsetKind::Utf16) == 0),
            r is Some ==> {
                let it = *r->Some_0;
                &&& it.id == id
                &&& it.len == ic_len(content, OffsetKind::Utf16)
                &&& it.len >= 1
                &&& it.left == left
                &&& it.right == right
                &&& it.origin == origin
                &&& it.right_origin == right_origin
                &&& it.content == content
                &&& it.parent == parent
                &&& it.parent_sub == parent_sub
                &&& it.redone is None
                &&& it.info.0 == (if ic_countable(content) { ITEM_FLAG_COUNTABLE } else { 0u16 })
            },
    @*/
}

// the `info =>` arm of the real `Update::decode_block`
/*@extract yrs/src/update.rs | impl Update | region decode_block | arm=info => | label=decode_block_item
@header
    fn decode_block_item<D: Decoder>(id: ID, decoder: &mut D, info: u8) -> (res: Result<Option<Block>, Error>)
@sig
    requires
        old(decoder).wf(),
    ensures
        final(decoder).wf(),
        suffix_of(old(decoder).rest(), final(decoder).rest()),
        // (U) the clause unit upd_dec assumes for its bodiless `decode_block`, same text
        res is Ok && res->Ok_0 is Some ==> block_of(res->Ok_0->Some_0, id),
        res is Ok && res->Ok_0 is Some ==> res->Ok_0->Some_0 is Item,
        // (V)
        item_ok(id, info, old(decoder).toks(), res, final(decoder).toks()),
@start
    let ghost s0 = decoder.rest();
    let ghost t0 = decoder.toks();
    proof { lemma_suffix_all(); }
@before 1 `stmt:let item`
    proof {
        if parse_item(info, t0) is Some && content_is(content, parse_item(info, t0)->Some_0.0.content) {
            lemma_content_count(content, parse_item(info, t0)->Some_0.0.content);
        }
    }
@*/

// the WHOLE real `Update::decode_block` against EXACTLY the contract of unit upd_dec's bodiless declaration (first four
// clauses, same text; `Self::v1()` is spelled `D::v1()` in a free function) + the token clause
/*@extract yrs/src/update.rs | impl Update | fn decode_block | label=decode_block
@ret res
@sig
    requires
        old(decoder).wf(),
    ensures
        final(decoder).wf(),
        suffix_of(old(decoder).rest(), final(decoder).rest()),
        D::v1() && res is Ok ==> final(decoder).rest().len() < old(decoder).rest().len(),
        res is Ok && res->Ok_0 is Some ==> block_of(res->Ok_0->Some_0, id),
        block_ok(id, old(decoder).toks(), res, final(decoder).toks()),
@start
    let ghost s0 = decoder.rest();
    let ghost t0 = decoder.toks();
    proof {
        lemma_suffix_all();
    }
@after 1 `stmt:let info`
    proof {
        // the Skip arm reads its length with the generic `Read::read_var::<u32>` (byte level only)
        lemma_var_progress::<u32>(decoder.rest());
    }
@before 1 `stmt:let item`
    proof {
        if parse_item(info, rd_info(t0)->Some_0.1) is Some && content_is(content, parse_item(info, rd_info(t0)->Some_0.1)->Some_0.0.content) {
            lemma_content_count(content, parse_item(info, rd_info(t0)->Some_0.1)->Some_0.0.content);
        }
    }
@*/

// ---------------------------------------------------------------------------------------------
// DecoderV1 (yrs/src/updates/decoder.rs): the REAL bodies of the column reads that only decode_block's item arm uses, verified
// against the BYTE-LEVEL clauses (B) of `Decoder` for a v1 decoder (wf, suffix_of, PROGRESS).  `trait V1Reads` repeats those
// clauses with `v1()` == true; the remaining v1 bodies are proved elsewhere against the same clauses: read_info / read_len
// (unit upd_dec), read_string / read_buf (units dec_comp / lib0), read_any = Any::decode (unit dec_comp); read_key is
// `self.read_string()?.into()`, read_json `Any::from_json(self.read_string()?)` (serde: not ingestible).
// ---------------------------------------------------------------------------------------------
/*@extract yrs/src/updates/decoder.rs | - | struct DecoderV1 | rules=SUB(from=cursor: Cursor<'a>;;to=pub cursor: Cursor<'a>) @*/

impl<'a> Read for DecoderV1<'a> {
    open spec fn rest(&self) -> Seq<u8> {
        self.cursor.rest()
    }

    open spec fn wf(&self) -> bool {
        self.cursor.wf()
    }

    /*@extract yrs/src/updates/decoder.rs | impl<'a> Read for DecoderV1<'a> | fn read_u8 | label=decoder_v1_read_u8 @*/

    /*@extract yrs/src/updates/decoder.rs | impl<'a> Read for DecoderV1<'a> | fn read_exact | label=decoder_v1_read_exact @*/
}

impl<'a> DecoderV1<'a> {
    // two var-ints: the client (range-checked: `ClientID::decode`) and the clock -- at least two bytes
    /*@extract yrs/src/updates/decoder.rs | impl<'a> DecoderV1<'a> | fn read_id | label=decoder_v1_read_id
    @ret res
    @sig
        requires
            old(self).wf(),
        ensures
            final(self).wf(),
            suffix_of(old(self).rest(), final(self).rest()),
            res is Ok ==> final(self).rest().len() + 2 <= old(self).rest().len(),
    @start
        proof {
            lemma_suffix_all();
            lemma_var_progress::<u64>(self.rest());
        }
    @before 1 `stmt:let clock`
        proof { lemma_var_progress::<u32>(self.rest()); }
    @*/
}

pub trait V1Reads: Read {
    fn read_left_id(&mut self) -> (res: Result<ID, Error>)
        requires
            old(self).wf(),
        ensures
            final(self).wf(),
            suffix_of(old(self).rest(), final(self).rest()),
            res is Ok ==> final(self).rest().len() < old(self).rest().len(),
    ;

    fn read_right_id(&mut self) -> (res: Result<ID, Error>)
        requires
            old(self).wf(),
        ensures
            final(self).wf(),
            suffix_of(old(self).rest(), final(self).rest()),
            res is Ok ==> final(self).rest().len() < old(self).rest().len(),
    ;

    fn read_parent_info(&mut self) -> (res: Result<bool, Error>)
        requires
            old(self).wf(),
        ensures
            final(self).wf(),
            suffix_of(old(self).rest(), final(self).rest()),
            res is Ok ==> final(self).rest().len() < old(self).rest().len(),
    ;

    fn read_type_ref(&mut self) -> (res: Result<u8, Error>)
        requires
            old(self).wf(),
        ensures
            final(self).wf(),
            suffix_of(old(self).rest(), final(self).rest()),
            res is Ok ==> final(self).rest().len() < old(self).rest().len(),
    ;
}

impl<'a> V1Reads for DecoderV1<'a> {
    /*@extract yrs/src/updates/decoder.rs | impl<'a> Decoder for DecoderV1<'a> | fn read_left_id | label=decoder_v1_read_left_id @*/

    /*@extract yrs/src/updates/decoder.rs | impl<'a> Decoder for DecoderV1<'a> | fn read_right_id | label=decoder_v1_read_right_id @*/

    /*@extract yrs/src/updates/decoder.rs | impl<'a> Decoder for DecoderV1<'a> | fn read_parent_info | label=decoder_v1_read_parent_info
    @start
        proof { lemma_var_progress::<u32>(self.rest()); }
    @*/

    /*@extract yrs/src/updates/decoder.rs | impl<'a> Decoder for DecoderV1<'a> | fn read_type_ref | label=decoder_v1_read_type_ref
    @start
        proof { lemma_suffix_skip(self.rest(), 0); if self.rest().len() >= 1 { lemma_suffix_skip(self.rest(), 1); } }
    @*/
}

} // verus!
fn main() {}
