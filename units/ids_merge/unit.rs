// unit `ids_merge` — IdRanges<T> (yrs/src/ids.rs, yrs/src/id_set.rs) under contract.  Serves C16.
// Function bodies are pulled from /repo on every run by vx/extract.py; this file holds only the
// abstraction (view / canonical form), the contracts and the proof hints.
#![allow(unused_imports, unused_variables, unused_mut, dead_code, unused_parens, unused_braces)]
use vstd::prelude::*;

verus! {

/*@rules R1 R2(elem=(Range<u32>, T)) R3 R4 R5 R6 R9 R10 @*/

pub mod vx_base {
    use vstd::prelude::*;
    use core::ops::Range;
    use vstd::std_specs::cmp::PartialEqSpec;

/*@include units/ids_common/base.rs @*/
}

pub mod vx_ids {
    use vstd::prelude::*;
    use core::ops::Range;
    use vstd::std_specs::cmp::PartialEqSpec;
    use super::vx_base::*;

    broadcast use vx_clone_axioms;

/*@include units/ids_common/spec.rs @*/

    // ------------------------------------------------------------------------------------------
    // merge: the two-finger sweep.  `fa` / `fb` are the *frontiers* of the two inputs: every clock of
    // `a` below `fa` (of `b` below `fb`) has been emitted into the result, nothing else has.
    // ------------------------------------------------------------------------------------------
    /// one past the largest u32: the frontier of an exhausted input
    pub open spec fn inf() -> int {
        0x1_0000_0000
    }

    pub open spec fn umax(x: u32, y: u32) -> u32 {
        if x >= y { x } else { y }
    }

    pub open spec fn umin(x: u32, y: u32) -> u32 {
        if x <= y { x } else { y }
    }

    /// frontier of an input whose cursor is (entry `i`, clock `cur`)
    pub open spec fn front<T>(s: Seq<Ent<T>>, i: int, cur: int) -> int {
        if i < s.len() { cur } else { inf() }
    }

    /// frontier right after entry `i` has been consumed completely
    pub open spec fn next_front<T>(s: Seq<Ent<T>>, i: int) -> int {
        front(s, i + 1, s[i + 1].0.start as int)
    }

    /// invariant of the sweep
    pub open spec fn minv<T: Merge>(a: Seq<Ent<T>>, b: Seq<Ent<T>>, r: Seq<Ent<T>>, fa: int, fb: int) -> bool {
        &&& canon(r)
        &&& (r.len() > 0 ==> r.last().0.end <= fa && r.last().0.end <= fb)
        &&& forall|c: int| #![trigger covers(r, c)] #![trigger covers(a, c)] #![trigger covers(b, c)]
                covers(r, c) <==> (covers(a, c) && c < fa) || (covers(b, c) && c < fb)
        &&& forall|c: int| covers(r, c) && covers(a, c) && !covers(b, c) ==> (#[trigger] val_at(r, c)).eq_spec(&val_at(a, c))
        &&& forall|c: int| covers(r, c) && !covers(a, c) && covers(b, c) ==> (#[trigger] val_at(r, c)).eq_spec(&val_at(b, c))
        &&& forall|c: int| covers(r, c) && covers(a, c) && covers(b, c) ==> (#[trigger] val_at(r, c)).eq_spec(&val_at(a, c).merge_spec(&val_at(b, c)))
    }

    /// every covered clock is a u32
    pub proof fn lemma_covers_lt_inf<T>(s: Seq<Ent<T>>, c: int)
        requires covers(s, c),
        ensures 0 <= c < inf(),
    {
        let k = idx_of(s, c);
        assert(inr(s[k].0, c));
    }

    /// `other` is empty: nothing to do
    pub proof fn lemma_merge_empty_other<T: Merge>(s: Seq<Ent<T>>, o: Seq<Ent<T>>)
        requires canon(s), o.len() == 0,
        ensures
            forall|c: int| covers(s, c) <==> covers(s, c) || covers(o, c),
            forall|c: int| covers(s, c) && !covers(o, c) ==> #[trigger] val_at(s, c).eq_spec(&val_at(s, c)),
    {
        assert forall|c: int| !covers(o, c) by {
            if covers(o, c) { let k = idx_of(o, c); assert(inr(o[k].0, c)); }
        }
        assert forall|c: int| covers(s, c) implies #[trigger] val_at(s, c).eq_spec(&val_at(s, c)) by {
            let k = idx_of(s, c);
            assert(inr(s[k].0, c));
            assert(s[k].1.wf());
            s[k].1.law_eq_refl();
        }
    }

    /// `self` is empty: the result is a copy of `other`
    pub proof fn lemma_merge_empty_self<T: Merge>(s: Seq<Ent<T>>, o: Seq<Ent<T>>)
        requires canon(o), s.len() == 0,
        ensures
            forall|c: int| covers(o, c) <==> covers(s, c) || covers(o, c),
            forall|c: int| !covers(s, c) && covers(o, c) ==> #[trigger] val_at(o, c).eq_spec(&val_at(o, c)),
            forall|c: int| !covers(s, c),
    {
        lemma_merge_empty_other(o, s);
        assert forall|c: int| !covers(s, c) by {
            if covers(s, c) { let k = idx_of(s, c); assert(inr(s[k].0, c)); }
        }
    }

    /// the sweep starts with an empty result and both cursors at the first entry
    pub proof fn lemma_minv_init<T: Merge>(a: Seq<Ent<T>>, b: Seq<Ent<T>>, r: Seq<Ent<T>>)
        requires sorted(a), sorted(b), nonempty(a), nonempty(b), a.len() > 0, b.len() > 0, r.len() == 0,
        ensures minv(a, b, r, a[0].0.start as int, b[0].0.start as int),
    {
        assert forall|c: int| !covers(r, c) by {
            if covers(r, c) { let k = idx_of(r, c); assert(inr(r[k].0, c)); }
        }
        assert forall|c: int| covers(a, c) implies a[0].0.start <= c by {
            let k = idx_of(a, c);
            assert(inr(a[k].0, c));
            if k > 0 { assert(a[0].0.end <= a[k].0.start); }
        }
        assert forall|c: int| covers(b, c) implies b[0].0.start <= c by {
            let k = idx_of(b, c);
            assert(inr(b[k].0, c));
            if k > 0 { assert(b[0].0.end <= b[k].0.start); }
        }
    }

    /// consuming the rest `[cur, s[i].end)` of entry `i` moves the frontier to the next entry
    pub proof fn lemma_adv_full<T>(s: Seq<Ent<T>>, i: int, cur: int)
        requires
            sorted(s), nonempty(s),
            0 <= i < s.len(),
            s[i].0.start <= cur < s[i].0.end,
        ensures
            s[i].0.end <= next_front(s, i),
            forall|c: int| #![trigger covers(s, c)] (covers(s, c) && c < next_front(s, i)) <==> (covers(s, c) && c < cur) || (cur <= c < s[i].0.end),
            forall|c: int| cur <= c < s[i].0.end ==> covers(s, c) && #[trigger] val_at(s, c) == s[i].1,
    {
        let nf = next_front(s, i);
        if i + 1 < s.len() {
            assert(s[i].0.end <= s[i + 1].0.start);
        }
        assert forall|c: int| #![trigger covers(s, c)] (covers(s, c) && c < nf) <==> (covers(s, c) && c < cur) || (cur <= c < s[i].0.end) by {
            if covers(s, c) && c < nf {
                let k = idx_of(s, c);
                assert(inr(s[k].0, c));
                if k < i {
                    assert(s[k].0.end <= s[i].0.start);
                } else if k > i {
                    assert(s[i + 1].0.start < s[i + 1].0.end);
                    if k > i + 1 { assert(s[i + 1].0.end <= s[k].0.start); }
                    assert(false);
                }
            }
            if cur <= c < s[i].0.end {
                assert(inr(s[i].0, c));
            }
            if covers(s, c) && c < cur {
                lemma_covers_lt_inf(s, c);
            }
        }
        assert forall|c: int| cur <= c < s[i].0.end implies covers(s, c) && #[trigger] val_at(s, c) == s[i].1 by {
            assert(inr(s[i].0, c));
            lemma_idx_unique(s, i, c);
        }
    }

    /// consuming `[cur, new)` of entry `i` (which extends at least to `new`) moves the frontier to `new`
    pub proof fn lemma_adv_part<T>(s: Seq<Ent<T>>, i: int, cur: int, new: int)
        requires
            sorted(s),
            0 <= i < s.len(),
            s[i].0.start <= cur <= new <= s[i].0.end,
        ensures
            forall|c: int| #![trigger covers(s, c)] (covers(s, c) && c < new) <==> (covers(s, c) && c < cur) || (cur <= c < new),
            forall|c: int| cur <= c < new ==> covers(s, c) && #[trigger] val_at(s, c) == s[i].1,
    {
        assert forall|c: int| #![trigger covers(s, c)] (covers(s, c) && c < new) <==> (covers(s, c) && c < cur) || (cur <= c < new) by {
            if cur <= c < new {
                assert(inr(s[i].0, c));
            }
        }
        assert forall|c: int| cur <= c < new implies covers(s, c) && #[trigger] val_at(s, c) == s[i].1 by {
            assert(inr(s[i].0, c));
            lemma_idx_unique(s, i, c);
        }
    }

    /// one emission: `r2` is `r` after `push_coalesced(r, s..e, v)`; the piece `[s, e)` comes from `a`
    /// (`ina`), from `b` (`inb`) or from both, and the frontiers move from `(fa, fb)` to `(fa2, fb2)`
    pub proof fn lemma_step<T: Merge>(a: Seq<Ent<T>>, b: Seq<Ent<T>>, r: Seq<Ent<T>>, r2: Seq<Ent<T>>,
        fa: int, fb: int, fa2: int, fb2: int, s: u32, e: u32, v: T, ina: bool, inb: bool)
        requires
            minv(a, b, r, fa, fb),
            s < e,
            // what push_coalesced promises
            canon(r2),
            forall|c: int| #![trigger covers(r2, c)] covers(r2, c) <==> covers(r, c) || inr(s..e, c),
            forall|c: int| covers(r, c) ==> #[trigger] val_at(r2, c) == val_at(r, c),
            forall|c: int| inr(s..e, c) ==> #[trigger] val_at(r2, c).eq_spec(&v),
            r2.len() > 0 && r2.last().0.end == e,
            // where the piece comes from
            ina || inb,
            e <= fa2, e <= fb2,
            !ina ==> fa2 == fa,
            !inb ==> fb2 == fb,
            ina ==> forall|c: int| #![trigger covers(a, c)] (covers(a, c) && c < fa2) <==> (covers(a, c) && c < fa) || (s <= c < e),
            inb ==> forall|c: int| #![trigger covers(b, c)] (covers(b, c) && c < fb2) <==> (covers(b, c) && c < fb) || (s <= c < e),
            ina && !inb ==> forall|c: int| s <= c < e ==> #[trigger] val_at(a, c) == v,
            !ina && inb ==> forall|c: int| s <= c < e ==> #[trigger] val_at(b, c) == v,
            ina && inb ==> forall|c: int| #![trigger val_at(a, c)] s <= c < e ==> val_at(a, c).merge_spec(&val_at(b, c)) == v,
        ensures
            minv(a, b, r2, fa2, fb2),
    {
        assert forall|c: int| #![trigger covers(r2, c)] #![trigger covers(a, c)] #![trigger covers(b, c)]
            covers(r2, c) <==> (covers(a, c) && c < fa2) || (covers(b, c) && c < fb2) by {
            assert(covers(r2, c) <==> covers(r, c) || inr(s..e, c));
            assert(covers(r, c) <==> (covers(a, c) && c < fa) || (covers(b, c) && c < fb));
        }
        assert forall|c: int| covers(r2, c) implies
            (covers(a, c) && !covers(b, c) ==> (#[trigger] val_at(r2, c)).eq_spec(&val_at(a, c)))
            && (!covers(a, c) && covers(b, c) ==> val_at(r2, c).eq_spec(&val_at(b, c)))
            && (covers(a, c) && covers(b, c) ==> val_at(r2, c).eq_spec(&val_at(a, c).merge_spec(&val_at(b, c)))) by {
            if covers(r, c) {
                assert(val_at(r2, c) == val_at(r, c));
            } else {
                assert(inr(s..e, c));
                assert(val_at(r2, c).eq_spec(&v));
                assert(covers(r, c) <==> (covers(a, c) && c < fa) || (covers(b, c) && c < fb));
                // membership of c in a / b is as declared
                if ina {
                    assert((covers(a, c) && c < fa2) <==> (covers(a, c) && c < fa) || (s <= c < e));
                    assert(covers(a, c));
                } else {
                    assert(!covers(a, c));
                }
                if inb {
                    assert((covers(b, c) && c < fb2) <==> (covers(b, c) && c < fb) || (s <= c < e));
                    assert(covers(b, c));
                } else {
                    assert(!covers(b, c));
                }
                if ina && !inb { assert(val_at(a, c) == v); }
                if !ina && inb { assert(val_at(b, c) == v); }
                if ina && inb { assert(val_at(a, c).merge_spec(&val_at(b, c)) == v); }
            }
        }
    }

    /// both inputs exhausted: the invariant is the contract
    pub proof fn lemma_minv_final<T: Merge>(a: Seq<Ent<T>>, b: Seq<Ent<T>>, r: Seq<Ent<T>>)
        requires minv(a, b, r, inf(), inf()),
        ensures
            canon(r),
            forall|c: int| covers(r, c) <==> covers(a, c) || covers(b, c),
            forall|c: int| covers(a, c) && !covers(b, c) ==> #[trigger] val_at(r, c).eq_spec(&val_at(a, c)),
            forall|c: int| !covers(a, c) && covers(b, c) ==> #[trigger] val_at(r, c).eq_spec(&val_at(b, c)),
            forall|c: int| covers(a, c) && covers(b, c) ==> #[trigger] val_at(r, c).eq_spec(&val_at(a, c).merge_spec(&val_at(b, c))),
    {
        assert forall|c: int| covers(r, c) <==> covers(a, c) || covers(b, c) by {
            if covers(a, c) { lemma_covers_lt_inf(a, c); }
            if covers(b, c) { lemma_covers_lt_inf(b, c); }
        }
        assert forall|c: int| covers(a, c) && !covers(b, c) implies #[trigger] val_at(r, c).eq_spec(&val_at(a, c)) by {
            assert(covers(r, c));
        }
        assert forall|c: int| !covers(a, c) && covers(b, c) implies #[trigger] val_at(r, c).eq_spec(&val_at(b, c)) by {
            assert(covers(r, c));
        }
        assert forall|c: int| covers(a, c) && covers(b, c) implies #[trigger] val_at(r, c).eq_spec(&val_at(a, c).merge_spec(&val_at(b, c))) by {
            assert(covers(r, c));
        }
    }

    impl<T: Merge> IdRanges<T> {
        /*@extract yrs/src/ids.rs | impl<T: Merge> IdRanges<T> | fn merge
        @sig
            requires canon(old(self)@), canon(other@),
            ensures
                canon(final(self)@),
                forall|c: int| covers(final(self)@, c) <==> covers(old(self)@, c) || covers(other@, c),
                forall|c: int| covers(old(self)@, c) && !covers(other@, c) ==> #[trigger] val_at(final(self)@, c).eq_spec(&val_at(old(self)@, c)),
                forall|c: int| !covers(old(self)@, c) && covers(other@, c) ==> #[trigger] val_at(final(self)@, c).eq_spec(&val_at(other@, c)),
                forall|c: int| covers(old(self)@, c) && covers(other@, c) ==> #[trigger] val_at(final(self)@, c).eq_spec(&val_at(old(self)@, c).merge_spec(&val_at(other@, c))),
        @before 1 `stmt:return`
            proof { lemma_merge_empty_other(self@, other@); }
        @before 2 `stmt:return`
            proof {
                assert(self.0@ =~= other.0@);
                lemma_merge_empty_self(old(self)@, other@);
            }
        @before 1 `stmt:let result`
            proof {
                axiom_vec_len_bound(&a);
                axiom_vec_len_bound(b);
            }
        @before 1 `stmt:while`
            proof { lemma_minv_init(a@, b@, result@); }
        @loop 1
            invariant_except_break
                ai < a.len() ==> a@[ai as int].0.start <= a_cur < a@[ai as int].0.end,
                bi < b.len() ==> b@[bi as int].0.start <= b_cur < b@[bi as int].0.end,
                minv(a@, b@, result@, front(a@, ai as int, a_cur as int), front(b@, bi as int, b_cur as int)),
            invariant
                a@ == old(self)@,
                b@ == other@,
                canon(a@),
                canon(b@),
                ai <= a.len(),
                bi <= b.len(),
            ensures
                minv(a@, b@, result@, inf(), inf()),
            decreases a.len() - ai + b.len() - bi,
        @before 1 `stmt:let a_avail`
            let ghost r0 = result@;
            let ghost fa = front(a@, ai as int, a_cur as int);
            let ghost fb = front(b@, bi as int, b_cur as int);
        @after 1 `stmt:call push_coalesced`
            proof {
                lemma_adv_full(a@, ai as int, a_cur as int);
                lemma_step(a@, b@, r0, result@, fa, fb, next_front(a@, ai as int), fb,
                    a_cur, a@[ai as int].0.end, a@[ai as int].1, true, false);
            }
        @loop 2
            invariant
                canon(a@),
                canon(b@),
                ai <= i <= a.len(),
                minv(a@, b@, result@, front(a@, i as int, a@[i as int].0.start as int), inf()),
        @before 2 `stmt:call push_coalesced`
            let ghost r1 = result@;
        @after 2 `stmt:call push_coalesced`
            proof {
                lemma_adv_full(a@, i as int, a@[i as int].0.start as int);
                lemma_step(a@, b@, r1, result@, a@[i as int].0.start as int, inf(), next_front(a@, i as int), inf(),
                    a@[i as int].0.start, a@[i as int].0.end, a@[i as int].1, true, false);
            }
        @after 3 `stmt:call push_coalesced`
            proof {
                lemma_adv_full(b@, bi as int, b_cur as int);
                lemma_step(a@, b@, r0, result@, fa, fb, fa, next_front(b@, bi as int),
                    b_cur, b@[bi as int].0.end, b@[bi as int].1, false, true);
            }
        @loop 3
            invariant
                canon(a@),
                canon(b@),
                bi <= i <= b.len(),
                minv(a@, b@, result@, inf(), front(b@, i as int, b@[i as int].0.start as int)),
        @before 4 `stmt:call push_coalesced`
            let ghost r1 = result@;
        @after 4 `stmt:call push_coalesced`
            proof {
                lemma_adv_full(b@, i as int, b@[i as int].0.start as int);
                lemma_step(a@, b@, r1, result@, inf(), b@[i as int].0.start as int, inf(), next_front(b@, i as int),
                    b@[i as int].0.start, b@[i as int].0.end, b@[i as int].1, false, true);
            }
        @after 5 `stmt:call push_coalesced`
            proof {
                lemma_adv_full(a@, ai as int, a_cur as int);
                lemma_step(a@, b@, r0, result@, fa, fb, next_front(a@, ai as int), fb,
                    a_cur, a_end, a@[ai as int].1, true, false);
            }
        @after 6 `stmt:call push_coalesced`
            proof {
                lemma_adv_full(b@, bi as int, b_cur as int);
                lemma_step(a@, b@, r0, result@, fa, fb, fa, next_front(b@, bi as int),
                    b_cur, b_end, b@[bi as int].1, false, true);
            }
        @after 7 `stmt:call push_coalesced`
            proof {
                lemma_adv_part(a@, ai as int, a_cur as int, b_cur as int);
                lemma_step(a@, b@, r0, result@, fa, fb, b_cur as int, fb,
                    a_cur, b_cur, a@[ai as int].1, true, false);
            }
        @after 8 `stmt:call push_coalesced`
            proof {
                lemma_adv_part(b@, bi as int, b_cur as int, a_cur as int);
                lemma_step(a@, b@, r0, result@, fa, fb, fa, a_cur as int,
                    b_cur, a_cur, b@[bi as int].1, false, true);
            }
        @before 1 `stmt:let overlap_start`
            let ghost r1 = result@;
            let ghost os = umax(a_cur, b_cur);
            let ghost oe = umin(a_end, b_end);
            proof { assert(minv(a@, b@, r1, os as int, os as int)); }
        @after 9 `stmt:call push_coalesced`
            proof {
                let mv = merged;
                assert(overlap_start == os && overlap_end == oe);
                assert(mv == a@[ai as int].1.merge_spec(&b@[bi as int].1));
                let fa2 = if a_end <= b_end { next_front(a@, ai as int) } else { oe as int };
                let fb2 = if b_end <= a_end { next_front(b@, bi as int) } else { oe as int };
                if a_end <= b_end { lemma_adv_full(a@, ai as int, os as int); } else { lemma_adv_part(a@, ai as int, os as int, oe as int); }
                if b_end <= a_end { lemma_adv_full(b@, bi as int, os as int); } else { lemma_adv_part(b@, bi as int, os as int, oe as int); }
                assert forall|c: int| #![trigger val_at(a@, c)] os <= c < oe implies val_at(a@, c).merge_spec(&val_at(b@, c)) == mv by {
                    assert(val_at(a@, c) == a@[ai as int].1);
                    assert(val_at(b@, c) == b@[bi as int].1);
                }
                lemma_step(a@, b@, r1, result@, os as int, os as int, fa2, fb2, os, oe, mv, true, true);
                assert(minv(a@, b@, result@, fa2, fb2));
            }
        @end
            proof { lemma_minv_final(old(self)@, other@, self@); }
        @*/
    }
}

} // verus!
fn main() {}
