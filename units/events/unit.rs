// unit `events` -- the two read-only list walks that compute what an observer of a shared type is told after a
// transaction (yrs/src/types/mod.rs): `event_change_set` (Array / XmlFragment / XmlElement children: the `delta` of
// ArrayEvent / XmlEvent) and `event_keys` (Map entries / XML attributes: the `keys` of MapEvent / XmlEvent).
// Serves C11 (KERNEL ONLY: "the event is an exact edit script").
//
// THE PROPERTY, on views.  An item is seen as `ItemView { id, len, deleted, values }`; the transaction as two predicates
// `added(id)` / `deleted(id)` (+ `before_state`).  Relative to one committed transaction an item
//     was visible BEFORE  iff  !added(id) && (!deleted_flag || deleted(id))       (`vis_before`)
//         [not created by this txn, and either still alive or tombstoned BY this txn; one deleted earlier was not
//          visible, one added and deleted in the same txn never was]
//     is  visible AFTER   iff  !deleted_flag                                      (`vis_after`)
//   * event_change_set:  `before(list)` / `after(list)` = concatenation of `values` over the items visible before / after.
//       CONTRACT  apply(delta, before(list)) == after(list)   and the script fits (never reads past the old content);
//                 `added` / `deleted` id sets == ids of items (visible after && added) / (visible before && !visible after),
//                 i.e. (!flag && added(id)) / (flag && deleted(id) && !added(id)), membership reading: `lemma_id_sets`;
//                 canonical form: no two neighbouring entries of the same kind, no empty entry, no Retain at the end.
//       `apply` is the cursor semantics of a change list (Retain(n) copies n old elements, Removed(n) skips n -- the event
//       carries only the COUNT of removed elements --, Added(vs) emits vs, implicit trailing retain); `lemma_apply_nil` /
//       `lemma_apply_cons` prove its head-first reading.
//       Proof device (not part of the contract): a run-length builder (`feed` / `finish` over committed entries + one
//       pending entry); `lemma_ecs_step` / `lemma_ecs_finish` show from the PROPERTY's side that feeding the entry an item
//       stands for (`item_op`) keeps "run(script, before(done)) == (|before(done)|, after(done))"; the spliced hints only
//       assert that the code's (delta, last_op) is that builder state.
//   * event_keys (per key):  old value = the value of the RIGHTMOST item of the key's chain (entry included) that already
//       existed before the txn, if that item was visible before (`key_old`); new value = the entry's value if it is visible
//       after (`key_new`).
//       CONTRACT  the map gets  Inserted(new) / Updated(old, new) / Removed(old) / no entry  for
//                 (old, new) = (None, Some) / (Some, Some) / (Some, None) / (None, None),  and no entry when the very same item
//                 is visible before and after (`key_change`).  `lemma_key_change_exact`: applying `key_change` to `key_old`
//                 yields `key_new` and the old value it carries is `key_old`.  `lemma_key_change_literal` restates it in the
//                 transaction's own terms (prev = nearest left neighbour not added by the txn; old exists iff
//                 deleted(prev.id); an entry that is not new: Removed(last) iff deleted(entry.id)).
//
// ------------------------------------------------------------------------------------------------------------------
// LOWERING (rule R15 of DESIGN.md 3.2) AND STAND-IN TYPES (everything not listed is extracted verbatim from /repo)
//   ItemPtr      real: `struct ItemPtr(NonNull<Item>)`, Deref<Target = Item>.  here: `type ItemPtr<'a> = &'a Item<'a>`
//                (read-only lowering: both functions only READ through the pointers).  ASSUMPTION A5: the pointees are alive,
//                not mutated during the call, and following `.right` / `.left` terminates (here: by construction of an
//                inductive value; the loops terminate by structural `decreases current` / `decreases prev`).
//                Spelling: `.as_deref()` on an `Option<ItemPtr>` is the identity (SUB `.as_deref()` -> ``, logged, x5).
//   Item         sliced to `id`, `len`, `left`, `right`, `content`, `info`.  DROPPED: origin, right_origin, parent, redone,
//                parent_sub.  An immutable value cannot be doubly linked: `left` and `right` are two INDEPENDENT chains of this
//                value; event_change_set follows only `.right` (view `list_of`), event_keys only `.left` (view `lefts`), and
//                no function of the unit reads the other link (so for each function the other link is in effect dropped).
//                `Item::{is_deleted, len}` and `ItemFlags::{check, is_deleted}` are the real bodies.
//   ItemContent  ABSTRACTION: `struct ItemContent { values: Vec<Out> }` -- the values the content yields; `get_content()`
//                returns them (`r@ == values`), `get_last()` the last one (real: nine-variant enum whose get_content /
//                get_last build the `Out`s; for the countable, non-String contents of array / map items get_content has
//                `len` elements and get_last is its last element).
//   Out, Str, ClientID   opaque values with equality only (`Arc<str>` is spelled `Str` in the template-written header of
//                the lifted step function; `Out: Default` because `unwrap_or_default` demands the bound).
//   BranchPtr    `&'a Branch<'a>`; Branch sliced to `map`.  DROPPED: start, item, name, block_len, content_len, type_ref,
//                observers, deep_observers, has_formatting.
//   TransactionMut   ABSTRACT: trait `Txn` with uninterpreted `added(id)` / `deleted(id)` / `before_sv()`; `has_added`,
//                `has_deleted`, `before_state` return them (bodiless trait methods; SUB `txn: &TransactionMut` -> `txn: &T`,
//                `fn event_change_set` -> `fn event_change_set<T: Txn>`, logged).  Their relation to the real
//                insert_set / delete_set / before_state (IdSet::contains: C16; StateVector::get: unit sv) is OUTSIDE this unit.
//                `StateVector` is the abstract `SvApi` (`get(&client)`).
//   ChangeSet    extracted; its fields are private, the contract reads them through `added_ids` / `deleted_ids` / `delta_seq`.
//
// HEAP ASSUMPTIONS A5' (stated as `requires`; they are facts about reachable document states, not about the code here):
//   list_wf    (event_change_set) every item visible before or after holds its content: values.len() == len >= 1
//              [items of an Array / XML child list are countable and not String / Format; GC replaces the content of a
//               tombstone only AFTER the observers ran, so an item tombstoned by this very txn still holds its values]
//   span bound (event_change_set) DOMAIN RESTRICTION: the block lengths of the list sum to <= u32::MAX (`removed + item.len()`
//              and `retain + item.len()` are unchecked u32 additions; `Branch::block_len`, a u32, counts a part of that sum)
//   chain_wf   (event_keys) M1 every item left of a key's entry is a tombstone (integrate deletes the left neighbour of a
//              new rightmost entry and deletes a new item that has a right neighbour); M2 `before_state` and the insert set
//              agree on whether the ENTRY is new (`added(id) <==> id.clock >= before_state[id.client]`); M3 the delete set
//              and the entry's flag agree (`deleted(id) ==> flag`, and `added(id) && flag ==> deleted(id)`); M4 items visible
//              before or after hold a value (so `get_last().unwrap()` cannot panic and `unwrap_or_default()` never defaults).
//
// TRUSTED (module vx_trusted, listed by the trust scanner): `axiom_id_key_model`, `axiom_str_key_model` (A4: derived
//   Hash / Eq of `ID` and of the key type agree, i.e. they are lawful HashSet / HashMap keys).  No assume_specification had
//   to be added: vstd specifies Option::{take, unwrap, cloned}, Option::unwrap_or_default (its Some case only -- enough,
//   see M4), Vec::{new, with_capacity, push, append, clone}, HashSet::{new, insert}, HashMap::{get, insert}.
//
// NOT INGESTIBLE / NOT IN THE VERIFIED TEXT
//   * event_keys as a whole: Verus rejects `continue` inside a `for` loop ("for-loops do not yet support continue").  The
//     COMPLETE body of `for opt in keys_changed.iter()` (the statement `if let Some(key) = opt { .. }`) is lifted (R18
//     statement region) into `event_keys_step(txn, target, opt, &mut keys)`; `continue` is spelled `return` there (SUB,
//     logged: leaving the loop body == leaving the step function).  The loop itself (`HashMap::new()`, iteration over the
//     HashSet, returning `keys`) is not verified text; `lemma_event_keys_fold` recombines the steps over ANY enumeration of
//     `keys_changed` (order and repetitions do not matter): the result lists exactly the changed keys that have an entry
//     item and a change, each with `key_change`.
//   * who calls the two functions with which `start` / `keys_changed`, event dispatch, paths, text deltas: not here.
//
// FINDINGS: none -- under A5' the pinned code satisfies both contracts.  Dependencies worth knowing:
//   * event_keys tests the TRANSACTION (has_deleted(entry.id), before_state) where the property speaks of the HEAP (the
//     entry's tombstone flag, the insert set): M2 / M3 bridge that.  It tests `has_deleted(prev.id)` where the property asks
//     "was prev visible before": M1 bridges that; `lemma_without_m1` exhibits the shape that M1 excludes:
//         [prev: !added, flag unset, !deleted(prev.id)] <- [entry: added, flag set, deleted(entry.id)]
//     there the property calls for Removed(last(prev)), the code reports nothing.  Not reachable: a new rightmost entry
//     tombstones its left neighbour at integration (TransactionMut::integrate: `self.delete(left)`).
//   * `unwrap_or_default()` would put `Out::default()` into the event as an "old value" if a prev that was visible before
//     held no value; excluded by M4 (vstd leaves that case unspecified, so the contract is not provable without M4).
#![allow(unused_imports, unused_variables, unused_mut, dead_code, unused_parens, unused_braces, unused_assignments)]
use vstd::prelude::*;
use std::collections::HashMap;
use std::collections::HashSet;

verus! {

/*@rules R10
   SUB(from=.as_deref();;to=)
   SUB(from=txn: &TransactionMut;;to=txn: &T)
@*/

// ---------------------------------------------------------------------------------------------
// opaque stand-ins
// ---------------------------------------------------------------------------------------------
#[derive(PartialEq, Eq, Structural, Clone, Copy, Hash)]
pub struct Str(pub u64);

impl Str {
    /// `Arc<str>::as_ref`
    pub fn as_ref(&self) -> (r: &Str)
        ensures *r == *self,
    {
        self
    }
}

#[derive(PartialEq, Eq, Structural, Clone, Copy, Hash)]
pub struct ClientID(pub u64);

/// `crate::out::Out` (a value handed to the user): opaque, equality only
#[derive(PartialEq, Eq, Structural, Clone, Copy, Default)]
pub struct Out(pub u64);

#[derive(PartialEq, Eq, Structural, Clone, Copy, Hash)]
/*@extract yrs/src/block.rs | - | struct ID @*/

pub mod vx_trusted {
    use vstd::prelude::*;
    use vstd::std_specs::hash::*;
    use super::{ID, Str};

    /// A4: the derived `Hash` and `Eq` of `ID` agree: `ID` is a lawful std HashSet key
    #[verifier::external_body] pub broadcast proof fn axiom_id_key_model()
        ensures
            #[trigger] obeys_key_model::<ID>(),
    {
    }

    /// A4: `Arc<str>` (here `Str`) is a lawful std HashMap key
    #[verifier::external_body] pub broadcast proof fn axiom_str_key_model()
        ensures
            #[trigger] obeys_key_model::<Str>(),
    {
    }
}
use vx_trusted::*;

broadcast use {axiom_id_key_model, axiom_str_key_model};

// ---------------------------------------------------------------------------------------------
// real declarations + the lowered item
// ---------------------------------------------------------------------------------------------
/*@extract yrs/src/block.rs | - | const ITEM_FLAG_DELETED @*/

#[derive(PartialEq, Eq, Structural, Clone, Copy)]
/*@extract yrs/src/block.rs | - | struct ItemFlags @*/

impl ItemFlags {
    pub closed spec fn bits(&self) -> u16 {
        self.0
    }

    /// the tombstone flag
    pub closed spec fn deleted(&self) -> bool {
        self.bits() & ITEM_FLAG_DELETED == ITEM_FLAG_DELETED
    }

    /*@extract yrs/src/block.rs | impl ItemFlags | fn check
    @ret r
    @sig
        ensures r == (self.bits() & value == value),
    @*/

    /*@extract yrs/src/block.rs | impl ItemFlags | fn is_deleted
    @ret r
    @sig
        ensures r == self.deleted(),
    @*/
}

/// ABSTRACTION of `ItemContent`, see the table at the top
pub struct ItemContent {
    pub values: Vec<Out>,
}

impl ItemContent {
    /// `ItemContent::get_content`: all values of the content
    pub fn get_content(&self) -> (r: Vec<Out>)
        ensures r@ == self.values@,
    {
        self.values.clone()
    }

    /// `ItemContent::get_last`: the last value, if there is one
    pub fn get_last(&self) -> (r: Option<Out>)
        ensures r == (if self.values@.len() > 0 { Some(self.values@.last()) } else { None }),
    {
        if self.values.len() > 0 { Some(self.values[self.values.len() - 1]) } else { None }
    }
}

/// sliced + lowered, see the table at the top
pub struct Item<'a> {
    pub id: ID,
    pub len: u32,
    pub left: Option<&'a Item<'a>>,
    pub right: Option<&'a Item<'a>>,
    pub content: ItemContent,
    pub info: ItemFlags,
}

pub type ItemPtr<'a> = &'a Item<'a>;

/// sliced + lowered, see the table at the top
pub struct Branch<'a> {
    pub map: HashMap<Str, ItemPtr<'a>>,
}

pub type BranchPtr<'a> = &'a Branch<'a>;

/// what the property sees of an item
pub struct ItemView {
    pub id: ID,
    pub len: u32,
    pub deleted: bool,
    pub values: Seq<Out>,
}

impl<'a> Item<'a> {
    pub open spec fn view_of(&self) -> ItemView {
        ItemView { id: self.id, len: self.len, deleted: self.info.deleted(), values: self.content.values@ }
    }

    /*@extract yrs/src/block.rs | impl Item | fn is_deleted
    @ret r
    @sig
        ensures r == self.view_of().deleted,
    @*/

    /*@extract yrs/src/block.rs | impl Item | fn len
    @ret r
    @sig
        ensures r == self.view_of().len,
    @*/
}

/// the list from `start` rightwards (A5: the chain is finite -- here by construction of an inductive value)
pub open spec fn list_of(start: Option<&Item>) -> Seq<ItemView>
    decreases start,
{
    match start {
        None => Seq::empty(),
        Some(i) => seq![i.view_of()] + list_of(i.right),
    }
}

/// the chain from `from` leftwards, nearest first
pub open spec fn lefts(from: Option<&Item>) -> Seq<ItemView>
    decreases from,
{
    match from {
        None => Seq::empty(),
        Some(i) => seq![i.view_of()] + lefts(i.left),
    }
}

// ---------------------------------------------------------------------------------------------
// the transaction, abstract
// ---------------------------------------------------------------------------------------------
/// `StateVector` as far as event_keys uses it (`StateVector::get` is verified in unit sv: absent means 0)
pub trait SvApi {
    spec fn clock_of(&self, client: ClientID) -> u32;

    fn get(&self, client_id: &ClientID) -> (r: u32)
        ensures
            r == self.clock_of(*client_id),
    ;
}

/// `TransactionMut` as far as the two functions use it
pub trait Txn {
    type SV: SvApi;

    /// the item starting at `id` was created by this transaction (real: `insert_set.contains(id)`)
    spec fn added(&self, id: ID) -> bool;

    /// the item starting at `id` was tombstoned by this transaction (real: `delete_set.contains(id)`)
    spec fn deleted(&self, id: ID) -> bool;

    /// the state vector at the beginning of the transaction
    spec fn before_sv(&self) -> Self::SV;

    fn has_added(&self, id: &ID) -> (r: bool)
        ensures
            r == self.added(*id),
    ;

    fn has_deleted(&self, id: &ID) -> (r: bool)
        ensures
            r == self.deleted(*id),
    ;

    fn before_state(&self) -> (r: &Self::SV)
        ensures
            *r == self.before_sv(),
    ;
}

// ---------------------------------------------------------------------------------------------
// specification, part 1: sequences (event_change_set)
// ---------------------------------------------------------------------------------------------
pub open spec fn vis_before<T: Txn>(t: &T, v: ItemView) -> bool {
    !t.added(v.id) && (!v.deleted || t.deleted(v.id))
}

pub open spec fn vis_after(v: ItemView) -> bool {
    !v.deleted
}

/// the content the observer saw before the transaction
pub open spec fn before<T: Txn>(t: &T, xs: Seq<ItemView>) -> Seq<Out>
    decreases xs.len(),
{
    if xs.len() == 0 {
        Seq::empty()
    } else {
        before(t, xs.drop_last()) + (if vis_before(t, xs.last()) { xs.last().values } else { Seq::empty() })
    }
}

/// the content readable after the transaction
pub open spec fn after(xs: Seq<ItemView>) -> Seq<Out>
    decreases xs.len(),
{
    if xs.len() == 0 {
        Seq::empty()
    } else {
        after(xs.drop_last()) + (if vis_after(xs.last()) { xs.last().values } else { Seq::empty() })
    }
}

/// ids of the items that became visible
pub open spec fn added_set<T: Txn>(t: &T, xs: Seq<ItemView>) -> Set<ID>
    decreases xs.len(),
{
    if xs.len() == 0 {
        Set::empty()
    } else if vis_after(xs.last()) && t.added(xs.last().id) {
        added_set(t, xs.drop_last()).insert(xs.last().id)
    } else {
        added_set(t, xs.drop_last())
    }
}

/// ids of the items that stopped being visible
pub open spec fn deleted_set<T: Txn>(t: &T, xs: Seq<ItemView>) -> Set<ID>
    decreases xs.len(),
{
    if xs.len() == 0 {
        Set::empty()
    } else if vis_before(t, xs.last()) && !vis_after(xs.last()) {
        deleted_set(t, xs.drop_last()).insert(xs.last().id)
    } else {
        deleted_set(t, xs.drop_last())
    }
}

/// sum of the block lengths
pub open spec fn span(xs: Seq<ItemView>) -> nat
    decreases xs.len(),
{
    if xs.len() == 0 { 0 } else { span(xs.drop_last()) + xs.last().len as nat }
}

/// A5' for one item: a visible item holds its content
pub open spec fn item_wf<T: Txn>(t: &T, v: ItemView) -> bool {
    vis_before(t, v) || vis_after(v) ==> v.values.len() == v.len && v.len >= 1
}

pub open spec fn list_wf<T: Txn>(t: &T, xs: Seq<ItemView>) -> bool {
    forall|i: int| 0 <= i < xs.len() ==> item_wf(t, #[trigger] xs[i])
}

/// ghost view of `Change`
pub enum Op {
    Added(Seq<Out>),
    Removed(nat),
    Retain(nat),
}

/// where a reader of the old content stands and what it has produced so far
pub struct Cursor {
    pub pos: nat,
    pub out: Seq<Out>,
}

/// applying a change list to `src`, one entry after the other
pub open spec fn run(d: Seq<Op>, src: Seq<Out>) -> Cursor
    decreases d.len(),
{
    if d.len() == 0 {
        Cursor { pos: 0, out: Seq::empty() }
    } else {
        let c = run(d.drop_last(), src);
        match d.last() {
            Op::Retain(n) => Cursor { pos: c.pos + n, out: c.out + src.subrange(c.pos as int, (c.pos + n) as int) },
            Op::Removed(n) => Cursor { pos: c.pos + n, out: c.out },
            Op::Added(vs) => Cursor { pos: c.pos, out: c.out + vs },
        }
    }
}

/// the script never reads past the end of the old content
pub open spec fn fits(d: Seq<Op>, src: Seq<Out>) -> bool {
    run(d, src).pos <= src.len()
}

/// the new content: what the entries produce, then the untouched rest (implicit trailing retain)
pub open spec fn apply(d: Seq<Op>, src: Seq<Out>) -> Seq<Out> {
    run(d, src).out + src.skip(run(d, src).pos as int)
}

pub open spec fn kind(o: Op) -> int {
    match o {
        Op::Added(_) => 0,
        Op::Removed(_) => 1,
        Op::Retain(_) => 2,
    }
}

pub open spec fn size(o: Op) -> nat {
    match o {
        Op::Added(vs) => vs.len(),
        Op::Removed(n) => n,
        Op::Retain(n) => n,
    }
}

pub open spec fn alternating(d: Seq<Op>) -> bool {
    forall|i: int, j: int| 0 <= i && j == i + 1 && j < d.len() ==> kind(#[trigger] d[i]) != kind(#[trigger] d[j])
}

pub open spec fn all_nonempty(d: Seq<Op>) -> bool {
    forall|i: int| 0 <= i < d.len() ==> size(#[trigger] d[i]) > 0
}

/// run-length canonical form
pub open spec fn canonical(d: Seq<Op>) -> bool {
    &&& alternating(d)
    &&& all_nonempty(d)
    &&& d.len() > 0 ==> !(d.last() is Retain)
}

pub open spec fn op_of(c: Change) -> Op {
    match c {
        Change::Added(v) => Op::Added(v@),
        Change::Removed(n) => Op::Removed(n as nat),
        Change::Retain(n) => Op::Retain(n as nat),
    }
}

pub open spec fn ops_of(d: Seq<Change>) -> Seq<Op> {
    d.map_values(|c: Change| op_of(c))
}

pub open spec fn pend_of(o: Option<Change>) -> Option<Op> {
    match o {
        None => None,
        Some(c) => Some(op_of(c)),
    }
}

/// a run-length builder: the committed entries and the entry still being grown
pub open spec fn all_ops(cm: Seq<Op>, pend: Option<Op>) -> Seq<Op> {
    match pend {
        None => cm,
        Some(o) => cm.push(o),
    }
}

/// the entry the next item gives rise to (None: the item is invisible before and after)
pub open spec fn item_op<T: Txn>(t: &T, v: ItemView) -> Option<Op> {
    if vis_before(t, v) && vis_after(v) {
        Some(Op::Retain(v.len as nat))
    } else if vis_before(t, v) {
        Some(Op::Removed(v.len as nat))
    } else if vis_after(v) {
        Some(Op::Added(v.values))
    } else {
        None
    }
}

pub open spec fn join(a: Op, b: Op) -> Op {
    match (a, b) {
        (Op::Added(x), Op::Added(y)) => Op::Added(x + y),
        (Op::Removed(x), Op::Removed(y)) => Op::Removed(x + y),
        (Op::Retain(x), Op::Retain(y)) => Op::Retain(x + y),
        _ => b,
    }
}

/// feeding one more entry to the builder
pub open spec fn feed(cm: Seq<Op>, pend: Option<Op>, o: Option<Op>) -> (Seq<Op>, Option<Op>) {
    match o {
        None => (cm, pend),
        Some(b) => match pend {
            None => (cm, Some(b)),
            Some(a) => if kind(a) == kind(b) { (cm, Some(join(a, b))) } else { (cm.push(a), Some(b)) },
        },
    }
}

/// the final flush: a trailing Retain is implicit
pub open spec fn finish(cm: Seq<Op>, pend: Option<Op>) -> Seq<Op> {
    match pend {
        None => cm,
        Some(Op::Retain(_)) => cm,
        Some(o) => cm.push(o),
    }
}

/// what is true of the builder after the items `done`
pub open spec fn ecs_inv<T: Txn>(t: &T, done: Seq<ItemView>, d: Seq<Op>) -> bool {
    &&& run(d, before(t, done)) == Cursor { pos: before(t, done).len(), out: after(done) }
    &&& alternating(d)
    &&& all_nonempty(d)
    &&& d.len() > 0 ==> size(d.last()) <= span(done)
    &&& before(t, done).len() <= span(done)
}

// ---- lemmas about sequences
pub proof fn lemma_push_drop_last<A>(s: Seq<A>, a: A)
    ensures
        s.push(a).drop_last() == s,
        s.push(a).last() == a,
{
    assert(s.push(a).drop_last() =~= s);
}

pub proof fn lemma_views_push<T: Txn>(t: &T, xs: Seq<ItemView>, v: ItemView)
    ensures
        before(t, xs.push(v)) == before(t, xs) + (if vis_before(t, v) { v.values } else { Seq::empty() }),
        after(xs.push(v)) == after(xs) + (if vis_after(v) { v.values } else { Seq::empty() }),
        span(xs.push(v)) == span(xs) + v.len as nat,
        added_set(t, xs.push(v)) == (if vis_after(v) && t.added(v.id) { added_set(t, xs).insert(v.id) } else { added_set(t, xs) }),
        deleted_set(t, xs.push(v)) == (if vis_before(t, v) && !vis_after(v) { deleted_set(t, xs).insert(v.id) } else { deleted_set(t, xs) }),
{
    lemma_push_drop_last(xs, v);
}

pub proof fn lemma_span_cons(v: ItemView, ys: Seq<ItemView>)
    ensures
        span(seq![v] + ys) == v.len as nat + span(ys),
    decreases ys.len(),
{
    if ys.len() == 0 {
        assert(seq![v] + ys =~= Seq::<ItemView>::empty().push(v));
        lemma_push_drop_last(Seq::<ItemView>::empty(), v);
        assert(span(Seq::<ItemView>::empty().push(v)) == span(Seq::<ItemView>::empty()) + v.len as nat);
    } else {
        lemma_span_cons(v, ys.drop_last());
        assert((seq![v] + ys).drop_last() =~= seq![v] + ys.drop_last());
    }
}

/// `run` only looks at the part of the source it has consumed
pub proof fn lemma_run_extend(d: Seq<Op>, src: Seq<Out>, more: Seq<Out>)
    requires
        run(d, src).pos <= src.len(),
    ensures
        run(d, src + more) == run(d, src),
    decreases d.len(),
{
    if d.len() > 0 {
        let c = run(d.drop_last(), src);
        lemma_run_pos_monotone(d, src);
        lemma_run_extend(d.drop_last(), src, more);
        match d.last() {
            Op::Retain(n) => {
                assert((src + more).subrange(c.pos as int, (c.pos + n) as int) =~= src.subrange(c.pos as int, (c.pos + n) as int));
            },
            _ => {},
        }
    }
}

pub proof fn lemma_run_pos_monotone(d: Seq<Op>, src: Seq<Out>)
    ensures
        d.len() > 0 ==> run(d.drop_last(), src).pos <= run(d, src).pos,
{
}

pub proof fn lemma_run_push(d: Seq<Op>, o: Op, src: Seq<Out>)
    ensures
        run(d.push(o), src) == (match o {
            Op::Retain(n) => Cursor { pos: run(d, src).pos + n, out: run(d, src).out + src.subrange(run(d, src).pos as int, (run(d, src).pos + n) as int) },
            Op::Removed(n) => Cursor { pos: run(d, src).pos + n, out: run(d, src).out },
            Op::Added(vs) => Cursor { pos: run(d, src).pos, out: run(d, src).out + vs },
        }),
{
    lemma_push_drop_last(d, o);
}

/// head-first reading of `apply`, 1: the empty script keeps everything
pub proof fn lemma_apply_nil(src: Seq<Out>)
    ensures
        apply(Seq::<Op>::empty(), src) == src,
        fits(Seq::<Op>::empty(), src),
{
    assert(apply(Seq::<Op>::empty(), src) =~= src);
}

/// the state of the cursor after a first entry `o` followed by the script `d`
pub proof fn lemma_run_cons(o: Op, d: Seq<Op>, src: Seq<Out>)
    requires
        size(o) <= src.len() || o is Added,
    ensures
        ({
            let n: nat = if o is Added { 0 } else { size(o) };
            let head: Seq<Out> = match o { Op::Added(vs) => vs, Op::Removed(_) => Seq::empty(), Op::Retain(k) => src.take(k as int) };
            &&& run(seq![o] + d, src).pos == n + run(d, src.skip(n as int)).pos
            &&& fits(d, src.skip(n as int)) ==> run(seq![o] + d, src).out == head + run(d, src.skip(n as int)).out
            &&& fits(d, src.skip(n as int)) <==> fits(seq![o] + d, src)
        }),
    decreases d.len(),
{
    let n: nat = if o is Added { 0 } else { size(o) };
    let rest = src.skip(n as int);
    if d.len() == 0 {
        assert(seq![o] + d =~= Seq::<Op>::empty().push(o));
        lemma_run_push(Seq::<Op>::empty(), o, src);
        match o {
            Op::Retain(k) => {
                assert(Seq::<Out>::empty() + src.subrange(0, k as int) =~= src.take(k as int) + Seq::<Out>::empty());
            },
            Op::Added(vs) => {
                assert(Seq::<Out>::empty() + vs =~= vs + Seq::<Out>::empty());
            },
            Op::Removed(_) => {
                assert(Seq::<Out>::empty() =~= Seq::<Out>::empty() + Seq::<Out>::empty());
            },
        }
    } else {
        let dl = d.drop_last();
        let l = d.last();
        lemma_run_cons(o, dl, src);
        assert(seq![o] + d =~= (seq![o] + dl).push(l));
        assert(d =~= dl.push(l));
        lemma_run_push(seq![o] + dl, l, src);
        lemma_run_push(dl, l, rest);
        lemma_run_pos_monotone(d, rest);
        if fits(d, rest) {
            let head: Seq<Out> = match o { Op::Added(vs) => vs, Op::Removed(_) => Seq::empty(), Op::Retain(k) => src.take(k as int) };
            let c = run(dl, rest);
            match l {
                Op::Retain(k) => {
                    assert(src.subrange((n + c.pos) as int, (n + c.pos + k) as int) =~= rest.subrange(c.pos as int, (c.pos + k) as int));
                    assert((head + c.out) + rest.subrange(c.pos as int, (c.pos + k) as int) =~= head + (c.out + rest.subrange(c.pos as int, (c.pos + k) as int)));
                },
                Op::Added(vs) => {
                    assert((head + c.out) + vs =~= head + (c.out + vs));
                },
                Op::Removed(_) => {},
            }
        }
    }
}

/// head-first reading of `apply`, 2: Retain(n) copies n elements, Removed(n) skips n, Added(vs) emits vs
pub proof fn lemma_apply_cons(o: Op, d: Seq<Op>, src: Seq<Out>)
    requires
        fits(seq![o] + d, src),
        size(o) <= src.len() || o is Added,
    ensures
        apply(seq![o] + d, src) == (match o {
            Op::Retain(n) => src.take(n as int) + apply(d, src.skip(n as int)),
            Op::Removed(n) => apply(d, src.skip(n as int)),
            Op::Added(vs) => vs + apply(d, src),
        }),
{
    lemma_run_cons(o, d, src);
    let n: nat = if o is Added { 0 } else { size(o) };
    let rest = src.skip(n as int);
    let c = run(d, rest);
    assert(src.skip((n + c.pos) as int) =~= rest.skip(c.pos as int));
    match o {
        Op::Retain(k) => {
            assert((src.take(k as int) + c.out) + rest.skip(c.pos as int) =~= src.take(k as int) + (c.out + rest.skip(c.pos as int)));
        },
        Op::Removed(_) => {
            assert((Seq::<Out>::empty() + c.out) + rest.skip(c.pos as int) =~= c.out + rest.skip(c.pos as int));
        },
        Op::Added(vs) => {
            assert(rest =~= src);
            assert((vs + c.out) + rest.skip(c.pos as int) =~= vs + (c.out + rest.skip(c.pos as int)));
        },
    }
}

// ---- the builder keeps `ecs_inv`
pub proof fn lemma_ecs_init<T: Txn>(t: &T)
    ensures
        ecs_inv(t, Seq::<ItemView>::empty(), all_ops(Seq::<Op>::empty(), None)),
        added_set(t, Seq::<ItemView>::empty()) == Set::<ID>::empty(),
        deleted_set(t, Seq::<ItemView>::empty()) == Set::<ID>::empty(),
{
}

/// THE STEP, from the property's side: one more item `v`; the builder is fed the entry that `v` stands for
pub proof fn lemma_ecs_step<T: Txn>(t: &T, done: Seq<ItemView>, v: ItemView, cm: Seq<Op>, pend: Option<Op>)
    requires
        ecs_inv(t, done, all_ops(cm, pend)),
        pend is None ==> cm.len() == 0,
        item_wf(t, v),
    ensures
        ({
            let f = feed(cm, pend, item_op(t, v));
            &&& ecs_inv(t, done.push(v), all_ops(f.0, f.1))
            &&& f.1 is None ==> f.0.len() == 0
        }),
{
    let d = all_ops(cm, pend);
    let src = before(t, done);
    let f = feed(cm, pend, item_op(t, v));
    let d2 = all_ops(f.0, f.1);
    let src2 = before(t, done.push(v));
    lemma_views_push(t, done, v);
    let more: Seq<Out> = if vis_before(t, v) { v.values } else { Seq::empty() };
    lemma_run_extend(d, src, more);
    match item_op(t, v) {
        None => {
            assert(src2 =~= src);
            assert(after(done.push(v)) =~= after(done));
        },
        Some(b) => {
            // the committed prefix and its cursor
            let pre: Seq<Op> = match pend { Some(a) => if kind(a) == kind(b) { cm } else { cm.push(a) }, None => cm };
            let last: Op = match pend { Some(a) => if kind(a) == kind(b) { join(a, b) } else { b }, None => b };
            assert(d2 == pre.push(last));
            lemma_run_push(pre, last, src2);
            lemma_push_drop_last(pre, last);
            if pend is Some && kind(pend.unwrap()) == kind(b) {
                let a = pend.unwrap();
                assert(d == cm.push(a));
                lemma_run_push(cm, a, src2);
                lemma_push_drop_last(cm, a);
                let c = run(cm, src2);
                match (a, b) {
                    (Op::Retain(x), Op::Retain(y)) => {
                        assert(src2.subrange(c.pos as int, (c.pos + x + y) as int) =~= src2.subrange(c.pos as int, (c.pos + x) as int) + v.values);
                        assert(c.out + (src2.subrange(c.pos as int, (c.pos + x) as int) + v.values) =~= (c.out + src2.subrange(c.pos as int, (c.pos + x) as int)) + v.values);
                    },
                    (Op::Added(x), Op::Added(y)) => {
                        assert(c.out + (x + y) =~= (c.out + x) + y);
                        assert(src2 =~= src);
                    },
                    (Op::Removed(x), Op::Removed(y)) => {
                        assert(after(done.push(v)) =~= after(done));
                    },
                    _ => {},
                }
                assert forall|i: int, j: int| 0 <= i && j == i + 1 && j < d2.len() implies kind(#[trigger] d2[i]) != kind(#[trigger] d2[j]) by {
                    assert(kind(d[i]) != kind(d[j]));
                    assert(d2[i] == d[i] || i == d2.len() - 1);
                }
                assert forall|i: int| 0 <= i < d2.len() implies size(#[trigger] d2[i]) > 0 by {
                    if i < d2.len() - 1 {
                        assert(d2[i] == d[i]);
                    } else {
                        assert(size(d[i]) > 0);
                    }
                }
            } else {
                assert(pre == d);
                let c = run(d, src2);
                match b {
                    Op::Retain(y) => {
                        assert(src2.subrange(c.pos as int, (c.pos + y) as int) =~= v.values);
                    },
                    Op::Added(y) => {
                        assert(src2 =~= src);
                    },
                    Op::Removed(y) => {
                        assert(after(done.push(v)) =~= after(done));
                    },
                }
                assert forall|i: int, j: int| 0 <= i && j == i + 1 && j < d2.len() implies kind(#[trigger] d2[i]) != kind(#[trigger] d2[j]) by {
                    if j < d.len() {
                        assert(kind(d[i]) != kind(d[j]));
                    } else {
                        // the new last entry follows the old pending one, of a different kind
                        lemma_push_drop_last(cm, pend.unwrap());
                        assert(d[i] == pend.unwrap());
                    }
                }
                assert forall|i: int| 0 <= i < d2.len() implies size(#[trigger] d2[i]) > 0 by {
                    if i < d.len() {
                        assert(size(d[i]) > 0);
                    }
                }
            }
        },
    }
}

/// THE END: after the last item the flushed script is the exact, canonical edit script
pub proof fn lemma_ecs_finish<T: Txn>(t: &T, xs: Seq<ItemView>, cm: Seq<Op>, pend: Option<Op>)
    requires
        ecs_inv(t, xs, all_ops(cm, pend)),
        pend is None ==> cm.len() == 0,
    ensures
        fits(finish(cm, pend), before(t, xs)),
        apply(finish(cm, pend), before(t, xs)) == after(xs),
        canonical(finish(cm, pend)),
{
    let d = all_ops(cm, pend);
    let src = before(t, xs);
    let r = finish(cm, pend);
    match pend {
        Some(Op::Retain(n)) => {
            lemma_run_push(cm, Op::Retain(n), src);
            lemma_push_drop_last(cm, Op::Retain(n));
            let c = run(cm, src);
            assert(src.subrange(c.pos as int, (c.pos + n) as int) =~= src.skip(c.pos as int));
            assert forall|i: int, j: int| 0 <= i && j == i + 1 && j < r.len() implies kind(#[trigger] r[i]) != kind(#[trigger] r[j]) by {
                assert(kind(d[i]) != kind(d[j]));
            }
            assert forall|i: int| 0 <= i < r.len() implies size(#[trigger] r[i]) > 0 by {
                assert(size(d[i]) > 0);
            }
            if r.len() > 0 {
                let i = r.len() - 1;
                assert(kind(d[i]) != kind(d[i + 1]));
            }
        },
        _ => {
            assert(r == d);
            if pend is Some {
                lemma_push_drop_last(cm, pend.unwrap());
            }
            assert(src.skip(src.len() as int) =~= Seq::<Out>::empty());
            assert(after(xs) + Seq::<Out>::empty() =~= after(xs));
        },
    }
}

/// membership reading of the two id sets
pub proof fn lemma_id_sets<T: Txn>(t: &T, xs: Seq<ItemView>, id: ID)
    ensures
        added_set(t, xs).contains(id) <==> exists|i: int| 0 <= i < xs.len() && (#[trigger] xs[i]).id == id && vis_after(xs[i]) && t.added(id),
        deleted_set(t, xs).contains(id) <==> exists|i: int| 0 <= i < xs.len() && (#[trigger] xs[i]).id == id && vis_before(t, xs[i]) && !vis_after(xs[i]),
    decreases xs.len(),
{
    if xs.len() > 0 {
        let p = xs.drop_last();
        lemma_id_sets(t, p, id);
        let n = xs.len() - 1;
        if added_set(t, p).contains(id) {
            let i = choose|i: int| 0 <= i < p.len() && (#[trigger] p[i]).id == id && vis_after(p[i]) && t.added(id);
            assert(xs[i] == p[i]);
        }
        if deleted_set(t, p).contains(id) {
            let i = choose|i: int| 0 <= i < p.len() && (#[trigger] p[i]).id == id && vis_before(t, p[i]) && !vis_after(p[i]);
            assert(xs[i] == p[i]);
        }
        if exists|i: int| 0 <= i < xs.len() && (#[trigger] xs[i]).id == id && vis_after(xs[i]) && t.added(id) {
            let i = choose|i: int| 0 <= i < xs.len() && (#[trigger] xs[i]).id == id && vis_after(xs[i]) && t.added(id);
            if i < n {
                assert(p[i] == xs[i]);
            }
        }
        if exists|i: int| 0 <= i < xs.len() && (#[trigger] xs[i]).id == id && vis_before(t, xs[i]) && !vis_after(xs[i]) {
            let i = choose|i: int| 0 <= i < xs.len() && (#[trigger] xs[i]).id == id && vis_before(t, xs[i]) && !vis_after(xs[i]);
            if i < n {
                assert(p[i] == xs[i]);
            }
        }
        assert(xs[n] == xs.last());
    }
}

// ---------------------------------------------------------------------------------------------
// specification, part 2: one key of a map (event_keys)
// ---------------------------------------------------------------------------------------------
/// the nearest item of `ls` that already existed before the transaction
pub open spec fn prev_of<T: Txn>(t: &T, ls: Seq<ItemView>) -> Option<ItemView>
    decreases ls.len(),
{
    if ls.len() == 0 {
        None
    } else if !t.added(ls[0].id) {
        Some(ls[0])
    } else {
        prev_of(t, ls.skip(1))
    }
}

/// the key's chain, entry first
pub open spec fn chain(e: &Item) -> Seq<ItemView> {
    seq![e.view_of()] + lefts(e.left)
}

/// what the observer saw under the key before the transaction: the value of the rightmost item that already existed,
/// if it was visible
pub open spec fn key_old<T: Txn>(t: &T, e: &Item) -> Option<Out> {
    match prev_of(t, chain(e)) {
        Some(p) => if vis_before(t, p) { Some(p.values.last()) } else { None },
        None => None,
    }
}

/// what is readable under the key after the transaction
pub open spec fn key_new(e: &Item) -> Option<Out> {
    if vis_after(e.view_of()) { Some(e.view_of().values.last()) } else { None }
}

/// the same item is visible before and after: nothing happened to the key
pub open spec fn key_unchanged<T: Txn>(t: &T, e: &Item) -> bool {
    !t.added(e.id) && vis_after(e.view_of())
}

/// THE PROPERTY for one key whose entry item is `e`
pub open spec fn key_change<T: Txn>(t: &T, e: &Item) -> Option<EntryChange> {
    if key_unchanged(t, e) {
        None
    } else {
        match (key_old(t, e), key_new(e)) {
            (None, Some(n)) => Some(EntryChange::Inserted(n)),
            (Some(o), Some(n)) => Some(EntryChange::Updated(o, n)),
            (Some(o), None) => Some(EntryChange::Removed(o)),
            (None, None) => None,
        }
    }
}

/// applying a key's reported change to the value seen before
pub open spec fn apply_key(old: Option<Out>, c: Option<EntryChange>) -> Option<Out> {
    match c {
        None => old,
        Some(EntryChange::Inserted(n)) => Some(n),
        Some(EntryChange::Updated(_, n)) => Some(n),
        Some(EntryChange::Removed(_)) => None,
    }
}

/// the old value a change claims
pub open spec fn claimed_old(c: EntryChange) -> Option<Out> {
    match c {
        EntryChange::Inserted(_) => None,
        EntryChange::Updated(o, _) => Some(o),
        EntryChange::Removed(o) => Some(o),
    }
}

/// `key_change` IS the exact edit of the key: applied to the value seen before it yields the value readable after, the
/// old value it carries is the value seen before, and "no entry" means the value did not change
pub proof fn lemma_key_change_exact<T: Txn>(t: &T, e: &Item)
    ensures
        apply_key(key_old(t, e), key_change(t, e)) == key_new(e),
        key_change(t, e) is Some ==> claimed_old(key_change(t, e).unwrap()) == key_old(t, e),
        key_change(t, e) is None ==> key_old(t, e) == key_new(e),
{
    assert(chain(e)[0] == e.view_of());
}

/// the entry item was created by this transaction, as `event_keys` decides it
pub open spec fn is_new<T: Txn>(t: &T, id: ID) -> bool {
    id.clock >= t.before_sv().clock_of(id.client)
}

/// A5' for a key's chain (M1..M4 of the header)
pub open spec fn chain_wf<T: Txn>(t: &T, e: &Item) -> bool {
    // M1: everything left of the entry is a tombstone
    &&& forall|i: int| 0 <= i < lefts(e.left).len() ==> (#[trigger] lefts(e.left)[i]).deleted
    // M2: before_state and the insert set agree on the entry
    &&& t.added(e.id) <==> is_new(t, e.id)
    // M3: the delete set and the entry's flag agree
    &&& t.deleted(e.id) ==> e.view_of().deleted
    &&& t.added(e.id) && e.view_of().deleted ==> t.deleted(e.id)
    // M4: visible items hold a value
    &&& forall|i: int| 0 <= i < chain(e).len() && (vis_before(t, #[trigger] chain(e)[i]) || vis_after(chain(e)[i])) ==> chain(e)[i].values.len() > 0
}

/// the result of `prev_of` is one of the items and is not new
pub proof fn lemma_prev_member<T: Txn>(t: &T, ls: Seq<ItemView>)
    ensures
        prev_of(t, ls) is Some ==> exists|i: int| 0 <= i < ls.len() && #[trigger] ls[i] == prev_of(t, ls).unwrap() && !t.added(ls[i].id),
    decreases ls.len(),
{
    if ls.len() > 0 && t.added(ls[0].id) {
        lemma_prev_member(t, ls.skip(1));
        if prev_of(t, ls) is Some {
            let i = choose|i: int| 0 <= i < ls.skip(1).len() && #[trigger] ls.skip(1)[i] == prev_of(t, ls.skip(1)).unwrap() && !t.added(ls.skip(1)[i].id);
            assert(ls[i + 1] == ls.skip(1)[i]);
        }
    } else if ls.len() > 0 {
        assert(ls[0] == prev_of(t, ls).unwrap());
    }
}

/// one step of the walk to the left
pub proof fn lemma_prev_unfold<T: Txn>(t: &T, p: &Item)
    ensures
        prev_of(t, lefts(Some(p))) == (if !t.added(p.id) { Some(p.view_of()) } else { prev_of(t, lefts(p.left)) }),
        prev_of(t, lefts(None)) == None::<ItemView>,
{
    let ls = lefts(Some(p));
    assert(ls == seq![p.view_of()] + lefts(p.left));
    assert(ls[0] == p.view_of());
    assert(ls.skip(1) =~= lefts(p.left));
}

/// the property in the transaction's own terms (under A5'): with `prev` = the nearest left neighbour not added by the txn,
/// the old value exists iff `prev` exists and was tombstoned BY this txn; a new entry is gone iff the txn deleted it; an
/// entry that is not new is reported only when the txn deleted it
pub proof fn lemma_key_change_literal<T: Txn>(t: &T, e: &Item)
    requires
        chain_wf(t, e),
    ensures
        ({
            let p = prev_of(t, lefts(e.left));
            let old = p is Some && t.deleted(p.unwrap().id);
            &&& key_change(t, e) == (if is_new(t, e.id) {
                    if t.deleted(e.id) {
                        if old { Some(EntryChange::Removed(p.unwrap().values.last())) } else { None }
                    } else {
                        if old { Some(EntryChange::Updated(p.unwrap().values.last(), e.view_of().values.last())) } else { Some(EntryChange::Inserted(e.view_of().values.last())) }
                    }
                } else {
                    if t.deleted(e.id) { Some(EntryChange::Removed(e.view_of().values.last())) } else { None }
                })
            // the values the code unwraps exist
            &&& old ==> p.unwrap().values.len() > 0
            &&& is_new(t, e.id) && !t.deleted(e.id) ==> e.view_of().values.len() > 0
            &&& !is_new(t, e.id) && t.deleted(e.id) ==> e.view_of().values.len() > 0
        }),
{
    let ev = e.view_of();
    let c = chain(e);
    let ls = lefts(e.left);
    assert(c[0] == ev);
    assert(c.skip(1) =~= ls);
    let p = prev_of(t, ls);
    lemma_prev_member(t, ls);
    if p is Some {
        let i = choose|i: int| 0 <= i < ls.len() && #[trigger] ls[i] == p.unwrap() && !t.added(ls[i].id);
        assert(ls[i].deleted);
        assert(c[i + 1] == ls[i]);
        if t.deleted(p.unwrap().id) {
            assert(vis_before(t, c[i + 1]));
        }
    }
    if vis_before(t, ev) || vis_after(ev) {
        assert(vis_before(t, c[0]) || vis_after(c[0]));
    }
}

/// why M1 is needed: if the left neighbour were still alive (M1 violated), the property would call for `Removed(old)`
/// while the txn-level reading (what the code computes) reports nothing
pub proof fn lemma_without_m1<T: Txn>(t: &T, e: &Item, p: &Item)
    requires
        e.left == Some(p),
        t.added(e.id) && e.view_of().deleted && t.deleted(e.id),
        !t.added(p.id) && !p.view_of().deleted && !t.deleted(p.id),
    ensures
        key_change(t, e) == Some(EntryChange::Removed(p.view_of().values.last())),
        prev_of(t, lefts(e.left)) == Some(p.view_of()) && !t.deleted(p.id),
{
    let c = chain(e);
    assert(c[0] == e.view_of());
    assert(c.skip(1) =~= lefts(e.left));
    lemma_prev_unfold(t, p);
}

/// one round of the loop of `event_keys`
pub open spec fn key_step<'a, T: Txn>(t: &T, m: Map<Str, ItemPtr<'a>>, opt: Option<Str>, keys: Map<Str, EntryChange>) -> Map<Str, EntryChange> {
    match opt {
        None => keys,
        Some(k) => if m.contains_key(k) {
            match key_change(t, m[k]) {
                Some(c) => keys.insert(k, c),
                None => keys,
            }
        } else {
            keys
        },
    }
}

/// the rounds over an enumeration `s` of `keys_changed`, starting from the empty map
pub open spec fn fold_keys<'a, T: Txn>(t: &T, m: Map<Str, ItemPtr<'a>>, s: Seq<Option<Str>>) -> Map<Str, EntryChange>
    decreases s.len(),
{
    if s.len() == 0 {
        Map::empty()
    } else {
        key_step(t, m, s.last(), fold_keys(t, m, s.drop_last()))
    }
}

/// the map built by the rounds: exactly the changed keys that have an entry item and a change, each with its change
pub proof fn lemma_event_keys_fold<'a, T: Txn>(t: &T, m: Map<Str, ItemPtr<'a>>, s: Seq<Option<Str>>)
    ensures
        forall|k: Str| #[trigger] fold_keys(t, m, s).contains_key(k) <==> s.contains(Some(k)) && m.contains_key(k) && key_change(t, m[k]) is Some,
        forall|k: Str| #[trigger] fold_keys(t, m, s).contains_key(k) ==> fold_keys(t, m, s)[k] == key_change(t, m[k]).unwrap(),
    decreases s.len(),
{
    let f = fold_keys(t, m, s);
    assert forall|k: Str| (#[trigger] f.contains_key(k) <==> s.contains(Some(k)) && m.contains_key(k) && key_change(t, m[k]) is Some)
        && (f.contains_key(k) ==> f[k] == key_change(t, m[k]).unwrap()) by {
        if s.len() > 0 {
            let p = s.drop_last();
            let g = fold_keys(t, m, p);
            lemma_event_keys_fold(t, m, p);
            assert(f == key_step(t, m, s.last(), g));
            assert(g.contains_key(k) <==> p.contains(Some(k)) && m.contains_key(k) && key_change(t, m[k]) is Some);
            assert(g.contains_key(k) ==> g[k] == key_change(t, m[k]).unwrap());
            if s.contains(Some(k)) {
                let i = choose|i: int| 0 <= i < s.len() && s[i] == Some(k);
                if i < p.len() {
                    assert(p[i] == Some(k));
                } else {
                    assert(s.last() == Some(k));
                }
            }
            if p.contains(Some(k)) {
                let i = choose|i: int| 0 <= i < p.len() && p[i] == Some(k);
                assert(s[i] == Some(k));
            }
            if s.last() == Some(k) {
                assert(s[s.len() - 1] == Some(k));
            }
        } else {
            if s.contains(Some(k)) {
                let i = choose|i: int| 0 <= i < s.len() && s[i] == Some(k);
            }
        }
    }
}

// ---------------------------------------------------------------------------------------------
// the real code, part 1
// ---------------------------------------------------------------------------------------------
/*@extract yrs/src/types/mod.rs | - | enum Change @*/

/*@extract yrs/src/types/mod.rs | - | enum EntryChange @*/

/*@extract yrs/src/types/mod.rs | - | struct ChangeSet @*/

impl<D> ChangeSet<D> {
    pub closed spec fn added_ids(&self) -> Set<ID> {
        self.added@
    }

    pub closed spec fn deleted_ids(&self) -> Set<ID> {
        self.deleted@
    }

    pub closed spec fn delta_seq(&self) -> Seq<D> {
        self.delta@
    }

    /*@extract yrs/src/types/mod.rs | impl<D> ChangeSet<D> | fn new
    @ret r
    @sig
        ensures r.added_ids() == added@, r.deleted_ids() == deleted@, r.delta_seq() == delta@,
    @*/
}

/*@extract yrs/src/types/mod.rs | - | fn event_change_set | rules=SUB(from=fn event_change_set;;to=fn event_change_set<T: Txn>)
@ret r
@sig
    requires
        // A5' (heap): visible items hold their content
        list_wf(txn, list_of(start)),
        // DOMAIN RESTRICTION: the unchecked u32 additions `removed + item.len()` / `retain + item.len()`
        span(list_of(start)) <= u32::MAX,
    ensures
        // C11: the reported change list is an exact edit script from the content seen before to the content readable after
        fits(ops_of(r.delta_seq()), before(txn, list_of(start))),
        apply(ops_of(r.delta_seq()), before(txn, list_of(start))) == after(list_of(start)),
        // the id sets are exactly the items that became visible / stopped being visible
        r.added_ids() == added_set(txn, list_of(start)),
        r.deleted_ids() == deleted_set(txn, list_of(start)),
        // run-length canonical: neighbours differ in kind, no empty entry, no trailing Retain
        canonical(ops_of(r.delta_seq())),
@before 1 `stmt:loop`
    let ghost mut vx_done = Seq::<ItemView>::empty();
    proof {
        lemma_ecs_init(txn);
        assert(ops_of(delta@) =~= Seq::<Op>::empty());
        assert(vx_done + list_of(current) =~= list_of(start));
    }
@loop 1
    invariant
        list_of(start) == vx_done + list_of(current),
        span(vx_done) + span(list_of(current)) == span(list_of(start)),
        span(list_of(start)) <= u32::MAX,
        list_wf(txn, list_of(start)),
        ecs_inv(txn, vx_done, all_ops(ops_of(delta@), pend_of(last_op))),
        last_op is None ==> delta@.len() == 0,
        added@ == added_set(txn, vx_done),
        deleted@ == deleted_set(txn, vx_done),
    ensures
        current is None,
    decreases current,
@before 1 `stmt:if ^ item.is_deleted()`
    let ghost vx_d0 = delta@;
    let ghost vx_p0 = last_op;
    proof {
        let v = item.view_of();
        let rest = list_of(item.right);
        assert(list_of(current) == seq![v] + rest);
        lemma_span_cons(v, rest);
        assert(list_of(start)[vx_done.len() as int] == v);
        assert(item_wf(txn, v));
        lemma_ecs_step(txn, vx_done, v, ops_of(vx_d0), pend_of(vx_p0));
        lemma_views_push(txn, vx_done, v);
        // pushing a pending entry commits its view
        assert forall|c: Change| #[trigger] ops_of(vx_d0.push(c)) == ops_of(vx_d0).push(op_of(c)) by {
            assert(ops_of(vx_d0.push(c)) =~= ops_of(vx_d0).push(op_of(c)));
        }
    }
@after 1 `stmt:if ^ item.is_deleted()`
    proof {
        let v = item.view_of();
        let f = feed(ops_of(vx_d0), pend_of(vx_p0), item_op(txn, v));
        // the code's builder state is the specified one
        assert(ops_of(delta@) == f.0);
        assert(pend_of(last_op) == f.1);
        assert(vx_done.push(v) + list_of(item.right) =~= vx_done + list_of(current));
        vx_done = vx_done.push(v);
    }
@after 1 `stmt:loop`
    let ghost vx_d1 = delta@;
    let ghost vx_p1 = last_op;
    proof {
        assert(vx_done + list_of(current) =~= vx_done);
        lemma_ecs_finish(txn, vx_done, ops_of(vx_d1), pend_of(vx_p1));
        assert forall|c: Change| #[trigger] ops_of(vx_d1.push(c)) == ops_of(vx_d1).push(op_of(c)) by {
            assert(ops_of(vx_d1.push(c)) =~= ops_of(vx_d1).push(op_of(c)));
        }
    }
@after 1 `stmt:match`
    proof {
        assert(ops_of(delta@) == finish(ops_of(vx_d1), pend_of(vx_p1)));
    }
@*/

// ---------------------------------------------------------------------------------------------
// the real code, part 2: the complete body of `for opt in keys_changed.iter()` of event_keys
// ---------------------------------------------------------------------------------------------
/*@extract yrs/src/types/mod.rs | - | region event_keys | stmt=stmt:if | stmtnth=1 | label=event_keys_step | rules=SUB(from=continue;;to=return)
@header
    pub fn event_keys_step<'a, T: Txn>(txn: &T, target: BranchPtr<'a>, opt: &Option<Str>, keys: &mut HashMap<Str, EntryChange>)
@sig
    requires
        // A5' (heap + transaction coherence) for the chain of the key, if it has one
        opt is Some && target.map@.contains_key(opt.unwrap()) ==> chain_wf(txn, target.map@[opt.unwrap()]),
    ensures
        // C11: the key's entry of the event is the exact change of the key's value
        final(keys)@ == key_step(txn, target.map@, *opt, old(keys)@),
@before 3 `stmt:if`
    proof {
        lemma_key_change_literal(txn, item);
    }
@loop 1
    invariant
        prev_of(txn, lefts(item.left)) == prev_of(txn, lefts(prev)),
    ensures
        prev_of(txn, lefts(item.left)) == (match prev { None => None::<ItemView>, Some(q) => Some(q.view_of()) }),
    decreases prev,
@before 4 `stmt:if`
    proof {
        lemma_prev_unfold(txn, p);
    }
@*/

} // verus!
fn main() {}
