// unit `events` -- skeleton
#![allow(unused_imports, unused_variables, unused_mut, dead_code, unused_parens, unused_braces, unused_assignments)]
use vstd::prelude::*;
use std::collections::HashMap;
use std::collections::HashSet;

verus! {

/*@rules R10
   SUB(from=Arc<str>;;to=Str)
   SUB(from=.as_deref();;to=)
   SUB(from=txn: &TransactionMut;;to=txn: &T)
@*/

#[derive(PartialEq, Eq, Structural, Clone, Copy, Hash)]
pub struct Str(pub u64);

#[derive(PartialEq, Eq, Structural, Clone, Copy, Hash)]
pub struct ClientID(pub u64);

#[derive(PartialEq, Eq, Structural, Clone, Copy)]
pub struct Out(pub u64);

#[derive(PartialEq, Eq, Structural, Clone, Copy, Hash)]
/*@extract yrs/src/block.rs | - | struct ID @*/

/*@extract yrs/src/block.rs | - | const ITEM_FLAG_DELETED @*/

#[derive(PartialEq, Eq, Structural, Clone, Copy)]
/*@extract yrs/src/block.rs | - | struct ItemFlags @*/

impl ItemFlags {
    pub closed spec fn bits(&self) -> u16 { self.0 }
    pub closed spec fn deleted(&self) -> bool { self.bits() & ITEM_FLAG_DELETED == ITEM_FLAG_DELETED }
    /*@extract yrs/src/block.rs | impl ItemFlags | fn check
    @ret r
    @sig
        ensures r == (self.bits() & value == value),
    @*/

    /*@extract yrs/src/block.rs | impl ItemFlags | fn is_deleted
    @ret r
    @sig
        ensures r == self.deleted(),
    @*/
}

pub struct ItemContent {
    pub values: Vec<Out>,
}

impl ItemContent {
    pub fn get_content(&self) -> (r: Vec<Out>)
        ensures r@ == self.values@,
    {
        self.values.clone()
    }
}

pub struct Item<'a> {
    pub id: ID,
    pub len: u32,
    pub left: Option<&'a Item<'a>>,
    pub right: Option<&'a Item<'a>>,
    pub content: ItemContent,
    pub info: ItemFlags,
}

pub type ItemPtr<'a> = &'a Item<'a>;

impl<'a> Item<'a> {
    /*@extract yrs/src/block.rs | impl Item | fn is_deleted
    @ret r
    @sig
        ensures r == self.info.deleted(),
    @*/

    /*@extract yrs/src/block.rs | impl Item | fn len
    @ret r
    @sig
        ensures r == self.len,
    @*/
}

pub trait Txn {
    spec fn added(&self, id: ID) -> bool;
    spec fn deleted(&self, id: ID) -> bool;

    fn has_added(&self, id: &ID) -> (r: bool)
        ensures r == self.added(*id);

    fn has_deleted(&self, id: &ID) -> (r: bool)
        ensures r == self.deleted(*id);
}

/*@extract yrs/src/types/mod.rs | - | enum Change @*/

/*@extract yrs/src/types/mod.rs | - | enum EntryChange @*/

/*@extract yrs/src/types/mod.rs | - | struct ChangeSet @*/

impl<D> ChangeSet<D> {
    pub closed spec fn added_ids(&self) -> Set<ID> { self.added@ }
    pub closed spec fn deleted_ids(&self) -> Set<ID> { self.deleted@ }
    pub closed spec fn delta_seq(&self) -> Seq<D> { self.delta@ }
    /*@extract yrs/src/types/mod.rs | impl<D> ChangeSet<D> | fn new
    @ret r
    @sig
        ensures r.added_ids() == added@, r.deleted_ids() == deleted@, r.delta_seq() == delta@,
    @*/
}

/*@extract yrs/src/types/mod.rs | - | fn event_change_set | rules=SUB(from=fn event_change_set;;to=fn event_change_set<T: Txn>)
@ret r
@*/

} // verus!
fn main() {}
