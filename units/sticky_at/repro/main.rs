// Reproducer for unit `sticky_at` (creation side of sticky indexes, C14): FINDING T1 + the boundary behaviour the unit states.
// Build: throw-away cargo project with `yrs = { path = "/repo/yrs" }`; `CARGO_NET_OFFLINE=true cargo run --offline`.
use yrs::{Array, Assoc, Doc, IndexedSequence, OffsetKind, Options, Text, Transact};

fn show<S: IndexedSequence>(what: &str, seq: &S, txn: &impl yrs::ReadTxn, len: u32) {
    println!("{what} (len {len})");
    for assoc in [Assoc::After, Assoc::Before] {
        for i in 0..=len + 2 {
            let s = seq.sticky_index(txn, i, assoc);
            let r = match &s {
                None => "None".to_string(),
                Some(s) => format!(
                    "Some({}) -> get_offset.index = {:?}",
                    s,
                    s.get_offset(txn).map(|o| o.index)
                ),
            };
            let mark = match (&s, assoc) {
                (Some(_), _) if i > len => "   <-- T1: index beyond the length, Some",
                (Some(s), _) if s.get_offset(txn).map(|o| o.index) != Some(i) => "   <-- round trip broken",
                (None, Assoc::After) if i == len => "   (T2: the end with After is refused)",
                _ => "",
            };
            println!("  sticky_index({i}, {assoc:?}) = {r}{mark}");
        }
    }
}

fn main() {
    let mut o = Options::default();
    o.offset_kind = OffsetKind::Utf16;
    o.client_id = yrs::block::ClientID::new(1);
    let doc = Doc::with_options(o);
    let txt = doc.get_or_insert_text("t");
    let arr = doc.get_or_insert_array("a");
    let empty = doc.get_or_insert_text("e");
    let mut txn = doc.transact_mut();
    txt.insert(&mut txn, 0, "ab\u{1F600}c"); // 5 UTF-16 units
    txt.remove_range(&mut txn, 4, 1); // "ab\u{1F600}" + a trailing tombstone
    arr.insert_range(&mut txn, 0, [1, 2, 3]);
    show("text \"ab\\u{1F600}\" + trailing tombstone", &txt, &txn, txt.len(&txn));
    show("array [1, 2, 3]", &arr, &txn, arr.len(&txn));
    show("empty text", &empty, &txn, empty.len(&txn));
}
