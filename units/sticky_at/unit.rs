// unit `sticky_at` -- the CREATION side of sticky indexes (yrs/src/sticky_index.rs: `StickyIndex::at(txn, branch, index, assoc)`
// -- what `IndexedSequence::sticky_index` of a text, array or XML child list calls --, `StickyIndex::new`, `IndexScope::from_branch`;
// yrs/src/branch.rs `Branch::{id, content_len}`; yrs/src/block.rs `Item::{id, last_id, len, content_len, is_deleted,
// is_countable}`, `ID::new`, `ItemFlags`; yrs/src/block_iter.rs `BlockIter::{new, try_forward, finished, next_item, rel,
// can_forward}` -- REAL bodies).  Serves C14 (KERNEL ONLY, creation; the resolver `get_offset` is unit `sticky`): "A sticky index
// created at a position of a text, array or XML child list keeps designating the same gap next to the same element ...: it resolves
// to the position directly before that element (Assoc::After) or directly after it (Assoc::Before) ... Indexes at the start/end
// of an empty collection stay at the start/end".
//
// THE VIEW: the vocabulary of unit `seqread` (chain, vis, view, locate, the cursor abstraction ahead / pos / wf of a BlockIter), with
//   ONE change: an ELEMENT is an INDEX UNIT named by its id -- elems(p) = the ids p.id.clock + o, o < p.len, of the clock units of
//   the block -- so V(branch) = the ids of the visible units in list order and "the id of V[i]" is V[i] itself.
//   ASSUMPTION A-LEN (`item_ok(p, kind)`): for a visible item `content.len(kind) == len >= 1`: the index units ARE the clock units.
//   True for EVERY item of a UTF-16 document (`Item::new`: len = content.len(Utf16)), astral characters included (2 units); in a
//   Bytes document only for non-string content and ASCII strings (`id.clock += walker.rel()` adds a BYTE offset to a clock:
//   the creation-side sibling of known finding K3; not claimed).  A-CLK (`clk_ok`): len >= 1, id.clock + len <= u32::MAX.
//   WHY THE BlockIter METHODS ARE PROVED AGAIN instead of being stubbed against `seqread`: there an element is what `read` yields
//   (one per CHAR of a string), which excludes texts with astral characters from A-LEN; the proofs do not depend on what an
//   element is, so they are repeated verbatim over the unit view (same contracts; `cursor_ok` says in addition that a cursor
//   at the end stands on the LAST item of the chain, which `at` reads through `next_item().last_id()`).
//
// CONTRACT of `StickyIndex::at(index = i, assoc)` (c = chain(branch.start), V = view(c), cl = the cached `branch.content_len`;
//   requires A-LEN, A-CLK, the branch is a nested or a root type (`Branch::id` is `unreachable!` otherwise)):
//   for EVERY value of cl
//     After:            Some(Relative(V[i]), After) iff i < |V| and i < cl -- the anchor is the element AT the index (the gap directly
//                       before it); None otherwise.  OBSERVATION T2: i == |V| -> None: the END of a collection -- of an EMPTY one
//                       too: at(0, After) == None -- cannot be designated with After (no fallback to the branch scope, which the
//                       resolver would map to the end; `StickyIndex::from_type` is the only way to create it).
//     Before, i == 0:   Some(branch scope, Before): the START of the collection (also of an empty one).
//     Before, 0 < i <= |V| (i - 1 < cl):   Some(Relative(V[i - 1]), Before) -- the anchor is the element BEFORE the gap; for i == |V|
//                       that is the last element, whatever invisible items follow it (the walk stops ON the item holding
//                       V[i - 1]; the `finished()` branch is NOT taken).
//   with cl == |V| (`counters_ok`)
//     THE PROPERTY      r == sticky_of(at_anchor(c, i, assoc)): the cases above, and None for every i beyond them (After: i >= |V|;
//                       Before: i > |V| -- "Returns None if index is beyond the length of current sequence").  PROVED for every
//                       input but
//     FINDING T1 (OPEN; obligation sticky_at::sticky_at::post, clause `counters_ok(branch) && finding_t1_before_one_past_the_end(..)
//                       ==> r == sticky_of(branch, at_anchor(..), assoc)`): Assoc::Before, i == |V| + 1 (ONE PAST the length).  `index -= 1`
//                       precedes the range check, so `try_forward(|V|)` succeeds, the walk is `finished()`, and the Before arm of
//                       that branch -- reachable ONLY for this out-of-range index -- returns Some(Relative(last_id of the LAST
//                       ITEM of the list)) (visible or not: a trailing tombstone or format item becomes the anchor), resp.
//                       Some(branch scope) for an empty collection (proved: clause `t1_input(..) ==> r is None || r == sticky_of(..
//                       t1_anchor(c))`).  Such an index resolves to |V|, not to |V| + 1.  Reproduced through the public API
//                       (units/sticky_at/repro/main.rs, UTF-16 document, client 1): text "ab\u{1F600}" + trailing tombstone (len 4):
//                       sticky_index(5, Before) == Some(<<1#4>) (the tombstone), get_offset -> 4; array [1,2,3]: sticky_index(4,
//                       Before) == Some(<<1#7>) -> 3; empty text: sticky_index(1, Before) == Some(branch scope) -> 0; sticky_index(len
//                       + 2, Before) == None.  REPAIR (units/sticky_at/repair.diff, not applied; the unit passes completely on
//                       a scratch tree with it): the `finished()` branch returns None for both associations.
//     Before, i > |V| + 1:  None.
// THE ROUND TRIP `theorem_round_trip` (pure; UNCHANGED list, A-LEN, counters_ok) with the resolver proved in unit `sticky`, whose clause
//   is quoted at `resolve`: sticky_index_of ensures r == sticky_offset_spec == visible units LEFT of the anchor block + (visible
//   anchor: After -> right.start, Before -> right.start + 1; else 0); nested / root scope: After -> content_len, Before -> 0.
//   Restated on the chain under A-LINK (the `left` links mirror the `right` links) and A-FIND (the store finds the slice
//   (c[k], start = o) for the id of unit o of item k: ids are unique, no redone item): for EVERY index the property accepts
//   (After: i < |V|; Before: i <= |V|)  resolve(at_anchor(c, i, assoc)) == i  -- get_offset(at(i, assoc)).index == i --, the
//   creation accepts exactly these, and (T1) resolve(t1_anchor(c), Before) == |V|.
// ------------------------------------------------------------------------------------------------------------------
// LOWERING AND STAND-IN TYPES (everything not listed is extracted verbatim from /repo on every run)
//   ItemPtr / BranchPtr   `&'static Item` / `&'static Branch` (read-only lowering R15; A5: pointees alive and not mutated).
//                `.as_deref()` -> `` (SUB, logged).
//   Item         sliced to `id`, `len`, `right`, `info`, `content`.   Branch  sliced to `start`, `item`, `name`, `content_len`.
//   ItemContent  ABSTRACTION: its two lengths (`len(kind)` stand-in body).   ClientID, Str (`Arc<str>`): opaque, equality only;
//                `Clone` of ID / Str returns an equal value (derived Clone / Arc::clone).
//   ID, Assoc, IndexScope, StickyIndex (field `scope` made pub: SUB), BranchID, OffsetKind, ItemFlags, BlockIter (fields pub): real.
//   ReadTxn      `store().offset_kind` (`kind_spec`).
// TRUSTED: nothing of its own.  `vx_unreachable` (vx/prelude.rs, R9) is used by `Branch::id`.  No assume / admit / external_body.
// ------------------------------------------------------------------------------------------------------------------
#![allow(unused_imports, unused_variables, unused_mut, dead_code, unused_parens, unused_braces, unused_assignments)]
use vstd::prelude::*;

verus! {

/*@rules R9 R10
   SUB(from=Arc<str>;;to=Str)
   SUB(from=.as_deref();;to=)
@*/

pub mod vx_base {
    use vstd::prelude::*;
    use core::ops::Range;
/*@include vx/prelude.rs @*/
}
use vx_base::vx_unreachable;

// ---------------------------------------------------------------------------------------------
// stand-ins and real declarations
// ---------------------------------------------------------------------------------------------
/// `Arc<str>` (the name of a root type): opaque, equality only
#[derive(PartialEq, Eq, Structural, Copy)]
pub struct Str(pub u64);

impl Clone for Str {
    /// `Arc::clone`: the same string
    fn clone(&self) -> (r: Self)
        ensures r == *self,
    {
        *self
    }
}

/// opaque, equality only
#[derive(PartialEq, Eq, Structural, Clone, Copy)]
pub struct ClientID(pub u64);

#[derive(Copy, PartialEq, Eq, Structural)]
/*@extract yrs/src/block.rs | - | struct ID @*/

impl Clone for ID {
    /// derived `Clone`
    fn clone(&self) -> (r: Self)
        ensures r == *self,
    {
        *self
    }
}

impl ID {
    /*@extract yrs/src/block.rs | impl ID | fn new | label=id_new
    @ret r
    @sig
        ensures r == (ID { client, clock }),
    @*/
}

#[derive(Copy, Clone, PartialEq, Eq, Structural)]
/*@extract yrs/src/sticky_index.rs | - | enum Assoc @*/

/*@extract yrs/src/sticky_index.rs | - | enum IndexScope @*/

/*@extract yrs/src/sticky_index.rs | - | struct StickyIndex | rules=SUB(from=scope: IndexScope;;to=pub scope: IndexScope) @*/

/*@extract yrs/src/branch.rs | - | enum BranchID @*/

#[derive(Copy, Clone, PartialEq, Eq, Structural)]
/*@extract yrs/src/doc.rs | - | enum OffsetKind @*/

/*@extract yrs/src/block.rs | - | const ITEM_FLAG_DELETED @*/
/*@extract yrs/src/block.rs | - | const ITEM_FLAG_COUNTABLE @*/

#[derive(Copy, Clone, PartialEq, Eq, Structural)]
/*@extract yrs/src/block.rs | - | struct ItemFlags | rules=SUB(from=ItemFlags(u16);;to=ItemFlags(pub u16)) @*/

impl ItemFlags {
    pub open spec fn deleted_spec(&self) -> bool {
        self.0 & 0b0000_0100 == 0b0000_0100
    }

    pub open spec fn countable_spec(&self) -> bool {
        self.0 & 0b0000_0010 == 0b0000_0010
    }

    /*@extract yrs/src/block.rs | impl ItemFlags | fn check | label=flags_check
    @ret r
    @sig
        ensures r == (self.0 & value == value),
    @*/

    /*@extract yrs/src/block.rs | impl ItemFlags | fn is_deleted | label=flags_is_deleted
    @ret r
    @sig
        ensures r == self.deleted_spec(),
    @*/

    /*@extract yrs/src/block.rs | impl ItemFlags | fn is_countable | label=flags_is_countable
    @ret r
    @sig
        ensures r == self.countable_spec(),
    @*/
}

/// ABSTRACTION of `ItemContent`: its two lengths (`ItemContent::len(kind)`: the number of INDEX units of the content; the same
/// number for both kinds unless the content is a string)
pub struct ItemContent {
    pub vx_len_bytes: u32,
    pub vx_len_utf16: u32,
}

impl ItemContent {
    pub open spec fn len_spec(&self, kind: OffsetKind) -> u32 {
        match kind {
            OffsetKind::Bytes => self.vx_len_bytes,
            OffsetKind::Utf16 => self.vx_len_utf16,
        }
    }

    /// STAND-IN body of `ItemContent::len`
    pub fn len(&self, kind: OffsetKind) -> (r: u32)
        ensures r == self.len_spec(kind),
    {
        match kind {
            OffsetKind::Bytes => self.vx_len_bytes,
            OffsetKind::Utf16 => self.vx_len_utf16,
        }
    }
}

/// sliced + lowered, see the table at the top
pub struct Item {
    pub id: ID,
    pub len: u32,
    pub right: Option<&'static Item>,
    pub info: ItemFlags,
    pub content: ItemContent,
}

pub type ItemPtr = &'static Item;

/// sliced + lowered, see the table at the top
pub struct Branch {
    pub start: Option<ItemPtr>,
    pub item: Option<ItemPtr>,
    pub name: Option<Str>,
    pub content_len: u32,
}

pub type BranchPtr = &'static Branch;

/// a VISIBLE item: not a tombstone and of a countable content kind (what indexes count)
pub open spec fn vis(p: &Item) -> bool {
    !p.info.deleted_spec() && p.info.countable_spec()
}

impl Item {
    /*@extract yrs/src/block.rs | impl Item | fn is_deleted | label=item_is_deleted
    @ret r
    @sig
        ensures r == self.info.deleted_spec(),
    @*/

    /*@extract yrs/src/block.rs | impl Item | fn is_countable | label=item_is_countable
    @ret r
    @sig
        ensures r == self.info.countable_spec(),
    @*/

    /*@extract yrs/src/block.rs | impl Item | fn len | label=item_len
    @ret r
    @sig
        ensures r == self.len,
    @*/

    /*@extract yrs/src/block.rs | impl Item | fn content_len | label=item_content_len
    @ret r
    @sig
        ensures r == self.content.len_spec(kind),
    @*/

    /*@extract yrs/src/block.rs | impl Item | fn id | label=item_id
    @ret r
    @sig
        ensures *r == self.id,
    @*/

    /*@extract yrs/src/block.rs | impl Item | fn last_id | label=item_last_id
    @ret r
    @sig
        requires
            // A-CLK (`self.id.clock + self.len() - 1` is unchecked u32 arithmetic)
            clk_ok(self),
        ensures
            // the id of the LAST clock unit of the block
            r == unit_id(self, self.len - 1),
    @*/
}

// ---------------------------------------------------------------------------------------------
// specification, part 1 (the vocabulary of unit `seqread`, with ONE change: an element is an INDEX UNIT, named by its id)
// ---------------------------------------------------------------------------------------------
/// the id of the clock unit at offset `o` of the block `p`
pub open spec fn unit_id(p: &Item, o: int) -> ID {
    ID { client: p.id.client, clock: (p.id.clock + o) as u32 }
}

/// A-CLK: an integrated block has at least one unit and its clock range fits u32 (the client's next clock is a u32)
pub open spec fn clk_ok(p: &Item) -> bool {
    1 <= p.len && p.id.clock + p.len <= u32::MAX
}

pub open spec fn chain_clk_ok(c: Seq<ItemPtr>) -> bool {
    forall|i: int| 0 <= i < c.len() ==> clk_ok(#[trigger] c[i])
}

/// THE ELEMENTS of an item: its clock units, each named by its id
pub open spec fn elems(p: &Item) -> Seq<ID> {
    Seq::new(p.len as nat, |o: int| unit_id(p, o))
}

/// ITEM WELL-FORMEDNESS (A-LEN): for a visible item the INDEX units are the CLOCK units -- `content.len(kind)` == `len` -- and
/// there is at least one (true for every item of a UTF-16 document: `Item::new` sets len = content.len(Utf16) >= 1; in a Bytes
/// document only for non-string content and ASCII strings: known finding K3)
pub open spec fn item_ok(p: &Item, kind: OffsetKind) -> bool {
    vis(p) ==> p.len as int == elems(p).len() && p.content.len_spec(kind) as int == elems(p).len() && elems(p).len() >= 1
}

// ---------------------------------------------------------------------------------------------
// specification, part 1: the chain and THE VIEW
// ---------------------------------------------------------------------------------------------
/// the items reachable through `.right`, nearest first (A5: the chain is finite -- an immutable value of this type IS one)
pub open spec fn chain(n: Option<ItemPtr>) -> Seq<ItemPtr>
    decreases n,
{
    match n {
        None => Seq::empty(),
        Some(p) => seq![p] + chain(p.right),
    }
}

/// the elements an item contributes to the sequence: all of them if it is visible, none otherwise
pub open spec fn velems(p: &Item) -> Seq<ID> {
    if vis(p) { elems(p) } else { Seq::empty() }
}

/// THE VIEW  V(c): the concatenation, over the items of the chain that are not deleted and countable, of their elements
pub open spec fn view(c: Seq<ItemPtr>) -> Seq<ID>
    decreases c.len(),
{
    if c.len() == 0 { Seq::empty() } else { velems(c[0]) + view(c.skip(1)) }
}

/// V of a branch
pub open spec fn bview(b: &Branch) -> Seq<ID> {
    view(chain(b.start))
}

pub open spec fn items_ok(c: Seq<ItemPtr>, kind: OffsetKind) -> bool {
    forall|i: int| 0 <= i < c.len() ==> item_ok(#[trigger] c[i], kind)
}

/// shift a location by `k` items
pub open spec fn lift(k: int, w: Option<(int, int)>) -> Option<(int, int)> {
    match w {
        Some((j, r)) => Some((k + j, r)),
        None => None,
    }
}

/// WHERE V[i] LIVES: (index of the item in the chain, offset of the element in that item); None if there is no V[i]
pub open spec fn locate(c: Seq<ItemPtr>, i: int) -> Option<(int, int)>
    decreases c.len(),
{
    if c.len() == 0 {
        None
    } else if vis(c[0]) && i < elems(c[0]).len() {
        Some((0, i))
    } else {
        lift(1, locate(c.skip(1), i - velems(c[0]).len()))
    }
}

pub proof fn lemma_items_ok_skip(c: Seq<ItemPtr>, kind: OffsetKind, n: int)
    requires
        items_ok(c, kind),
        0 <= n <= c.len(),
    ensures
        items_ok(c.skip(n), kind),
{
    let t = c.skip(n);
    assert forall|i: int| 0 <= i < t.len() implies item_ok(#[trigger] t[i], kind) by {
        assert(t[i] == c[i + n]);
    }
}

/// `locate` characterized: for 0 <= i, None exactly when i >= |V|; otherwise a VISIBLE item k and an offset o inside it with
/// V[i] == elems(c[k])[o]
pub proof fn lemma_locate(c: Seq<ItemPtr>, i: int)
    requires
        0 <= i,
    ensures
        locate(c, i) is None <==> i >= view(c).len(),
        match locate(c, i) {
            Some((k, o)) => 0 <= k < c.len() && vis(c[k]) && 0 <= o < elems(c[k]).len() && view(c)[i] == elems(c[k])[o],
            None => true,
        },
    decreases c.len(),
{
    if c.len() > 0 {
        if vis(c[0]) && i < elems(c[0]).len() {
        } else {
            let t = c.skip(1);
            let m = i - velems(c[0]).len();
            lemma_locate(t, m);
            match locate(t, m) {
                Some((k, o)) => {
                    assert(t[k] == c[k + 1]);
                },
                None => {},
            }
        }
    }
}

/// `cur` is what is left of the chain `c0` (a suffix of it)
pub open spec fn walk_inv(c0: Seq<ItemPtr>, cur: Seq<ItemPtr>) -> bool {
    cur.len() <= c0.len() && cur =~= c0.skip(c0.len() - cur.len())
}

// ---------------------------------------------------------------------------------------------
// specification, part 2: the cursor of a `BlockIter` (as in unit `seqread`; `cursor_ok` says in addition that a cursor at the
// end stands on the LAST item of the chain)
// ---------------------------------------------------------------------------------------------
pub struct Store {
    pub offset_kind: OffsetKind,
}

/// `ReadTxn` as far as the walk uses it: `txn.store().offset_kind`
pub trait ReadTxn: Sized {
    spec fn kind_spec(&self) -> OffsetKind;

    fn store(&self) -> (r: &Store)
        ensures
            r.offset_kind == self.kind_spec(),
    ;
}

/*@extract yrs/src/block_iter.rs | - | struct BlockIter | rules=SUB(from=branch: BranchPtr,;;to=pub branch: BranchPtr,) SUB(from=index: u32,;;to=pub index: u32,) SUB(from=rel: u32,;;to=pub rel: u32,) SUB(from=next_item: Option<ItemPtr>,;;to=pub next_item: Option<ItemPtr>,) SUB(from=reached_end: bool,;;to=pub reached_end: bool,) @*/

pub open spec fn min(a: int, b: int) -> int {
    if a <= b { a } else { b }
}

/// THE ELEMENTS AHEAD of the cursor (next_item, rel, reached_end): nothing once the end has been reached, otherwise the elements
/// of the chain that begins with `next_item`, without the first `rel` of them
pub open spec fn ahead_of(ni: Option<ItemPtr>, rel: int, re: bool) -> Seq<ID> {
    if re { Seq::empty() } else { view(chain(ni)).skip(rel) }
}

/// a cursor is in order: the items from it on are well-formed; a cursor without an item is at the end; a cursor at the end
/// stands on the LAST item; `rel` is 0 or an offset INSIDE the visible item the cursor stands on
pub open spec fn cursor_ok(ni: Option<ItemPtr>, rel: int, re: bool, kind: OffsetKind) -> bool {
    &&& items_ok(chain(ni), kind)
    &&& ni is None ==> re
    &&& re ==> rel == 0
    &&& re && ni is Some ==> ni.unwrap().right is None
    &&& !re ==> (rel == 0 || (vis(ni.unwrap()) && 0 < rel < elems(ni.unwrap()).len()))
}

impl BlockIter {
    pub open spec fn ahead(&self) -> Seq<ID> {
        ahead_of(self.next_item, self.rel as int, self.reached_end)
    }

    /// REPRESENTATION INVARIANT of a `BlockIter` over `self.branch`
    pub open spec fn wf(&self, kind: OffsetKind) -> bool {
        &&& self.cwf(kind)
        &&& self.index <= bview(self.branch).len()
        &&& bview(self.branch).skip(self.index as int) =~= self.ahead()
    }

    /// the CURSOR part of the invariant
    pub open spec fn cwf(&self, kind: OffsetKind) -> bool {
        &&& cursor_ok(self.next_item, self.rel as int, self.reached_end, kind)
        &&& walk_inv(chain(self.branch.start), chain(self.next_item))
        &&& self.rel <= self.index
    }

    /// pos(cursor): the number of elements of V that are NOT ahead of it
    pub open spec fn pos(&self) -> int {
        bview(self.branch).len() - self.ahead().len()
    }
}

// ---- sequence facts, proved once in a small context (the big lemmas below CALL them instead of asserting them inline)
pub proof fn lemma_skip_skip<A>(s: Seq<A>, a: int, b: int)
    requires
        0 <= a,
        0 <= b,
        a + b <= s.len(),
    ensures
        s.skip(a).skip(b) == s.skip(a + b),
{
    assert(s.skip(a).skip(b) =~= s.skip(a + b));
}

pub proof fn lemma_add_skip<A>(x: Seq<A>, y: Seq<A>, k: int)
    requires
        0 <= k <= x.len(),
    ensures
        (x + y).skip(k) == x.skip(k) + y,
        (x + y).skip(x.len() as int) == y,
        (x + y).len() == x.len() + y.len(),
{
    assert((x + y).skip(k) =~= x.skip(k) + y);
    assert((x + y).skip(x.len() as int) =~= y);
}

pub proof fn lemma_skip_all<A>(s: Seq<A>)
    ensures
        s.skip(s.len() as int) == Seq::<A>::empty(),
        s.skip(0) == s,
{
    assert(s.skip(s.len() as int) =~= Seq::<A>::empty());
    assert(s.skip(0) =~= s);
}

/// the sequence part of `lemma_fwd_finish`: b0 = the elements from the beginning of the item under the cursor, a0 = those ahead of
/// the cursor (rel0 further), vv = V, p0 the position; after the walk `fin` is ahead
pub proof fn lemma_fwd_seq<A>(b0: Seq<A>, a0: Seq<A>, vv: Seq<A>, fin: Seq<A>, p0: int, rel0: int, n0: int, len: int)
    requires
        0 <= rel0 <= b0.len(),
        0 <= n0,
        a0 == b0.skip(rel0),
        fin == b0.skip(min(n0 + rel0, b0.len() as int)),
        len == n0 + rel0 - min(n0 + rel0, b0.len() as int),
    ensures
        ({
            let m = min(n0, a0.len() as int);
            &&& 0 <= m <= a0.len()
            &&& n0 - len == m
            &&& fin == a0.skip(m)
            &&& fin.len() == a0.len() - m
            &&& 0 <= p0 <= vv.len() && vv.skip(p0) == a0 ==> p0 + m <= vv.len() && vv.skip(p0 + m) == a0.skip(m) && p0 + m == min(p0 + n0, vv.len() as int)
        }),
{
    let mm = min(n0 + rel0, b0.len() as int);
    let m = min(n0, a0.len() as int);
    assert(a0.len() == b0.len() - rel0);
    assert(m == mm - rel0);
    lemma_skip_skip(b0, rel0, m);
    if 0 <= p0 <= vv.len() && vv.skip(p0) == a0 {
        assert(a0.len() == vv.len() - p0);
        lemma_skip_skip(vv, p0, m);
    }
}

/// V of the chain that begins with `p`: the elements `p` contributes, then the rest
pub proof fn lemma_view_step(p: ItemPtr)
    ensures
        chain(Some(p)) =~= seq![p] + chain(p.right),
        view(chain(Some(p))) =~= velems(p) + view(chain(p.right)),
        chain(Some(p)).len() == 1 + chain(p.right).len(),
        chain(Some(p))[0] == p,
{
    let c = chain(Some(p));
    assert(c =~= seq![p] + chain(p.right));
    assert(c.skip(1) =~= chain(p.right));
}

/// the suffix of a suffix
pub proof fn lemma_walk_step(c0: Seq<ItemPtr>, p: ItemPtr, kind: OffsetKind)
    requires
        walk_inv(c0, chain(Some(p))),
    ensures
        walk_inv(c0, chain(p.right)),
        items_ok(chain(Some(p)), kind) ==> items_ok(chain(p.right), kind) && item_ok(p, kind),
{
    lemma_view_step(p);
    let k = c0.len() - chain(Some(p)).len();
    assert(c0.skip(k).skip(1) =~= c0.skip(k + 1));
    assert(chain(Some(p)).skip(1) =~= chain(p.right));
    if items_ok(chain(Some(p)), kind) {
        lemma_items_ok_skip(chain(Some(p)), kind, 1);
        assert(item_ok(chain(Some(p))[0], kind));
    }
}

pub proof fn lemma_view_len(c: Seq<ItemPtr>)
    ensures
        view(c).len() >= 0,
    decreases c.len(),
{
}

/// pos(cursor) == index
pub proof fn lemma_pos(it: &BlockIter, kind: OffsetKind)
    requires
        it.wf(kind),
    ensures
        it.pos() == it.index,
        it.ahead().len() == bview(it.branch).len() - it.index,
{
}

// ---- one step of the walk of `try_forward`, as a relation on (item, len, rel, reached_end); B0 = V of the chain the walk began
// on, N = the number of elements to pass
/// at the loop head
pub open spec fn fwd_inv(b0: Seq<ID>, n: int, item: Option<ItemPtr>, len: int, rel: int, re: bool, kind: OffsetKind) -> bool {
    &&& rel == 0
    &&& 0 <= len <= n
    &&& item is Some
    &&& items_ok(chain(item), kind)
    &&& !re ==> n - len <= b0.len() && view(chain(item)) =~= b0.skip(n - len)
    &&& re ==> n - len == b0.len()
    &&& re ==> item.unwrap().right is None
}

/// when the loop is left
pub open spec fn fwd_done(b0: Seq<ID>, n: int, item: Option<ItemPtr>, len: int, rel: int, re: bool, kind: OffsetKind) -> bool {
    &&& item is Some
    &&& cursor_ok(item, rel, re, kind)
    &&& len == n - min(n, b0.len() as int)
    &&& ahead_of(item, rel, re) =~= b0.skip(min(n, b0.len() as int))
    &&& rel <= n
    // the cursor is NORMALISED: it stands at the end or on a visible item (at an offset inside it)
    &&& !re ==> vis(item.unwrap()) && rel < elems(item.unwrap()).len()
}

/// V split at item k
pub proof fn lemma_view_split(c: Seq<ItemPtr>, k: int)
    requires
        0 <= k <= c.len(),
    ensures
        view(c) =~= view(c.take(k)) + view(c.skip(k)),
    decreases k,
{
    if k == 0 {
        assert(c.take(0) =~= Seq::<ItemPtr>::empty());
        assert(c.skip(0) =~= c);
    } else {
        let t = c.skip(1);
        lemma_view_split(t, k - 1);
        assert(c.take(k).skip(1) =~= t.take(k - 1));
        assert(t.skip(k - 1) =~= c.skip(k));
        assert(c.take(k)[0] == c[0]);
    }
}

/// the element at offset o of the visible item k is V[(number of elements in front of item k) + o], and `locate` finds it there
pub proof fn lemma_locate_at(c: Seq<ItemPtr>, k: int, o: int)
    requires
        0 <= k < c.len(),
        vis(c[k]),
        0 <= o < elems(c[k]).len(),
    ensures
        locate(c, view(c.take(k)).len() + o) == Some((k, o)),
    decreases k,
{
    if k == 0 {
        assert(c.take(0) =~= Seq::<ItemPtr>::empty());
    } else {
        let t = c.skip(1);
        assert(c.take(k).skip(1) =~= t.take(k - 1));
        assert(c.take(k)[0] == c[0]);
        assert(t[k - 1] == c[k]);
        lemma_locate_at(t, k - 1, o);
        lemma_view_len(t.take(k - 1));
    }
}

/// INDEX -> ITEM POSITION (first mechanism of C03).  A well-formed `BlockIter` at a position `index` < |V| whose cursor is
/// NORMALISED (what `try_forward` leaves: at the end or on a visible item, `rel` inside it) stands ON the item and AT the offset
/// where `locate` -- i.e. `Branch::get_at(index)` -- finds V[index]: both walks map an index to the same (item, offset)
pub proof fn theorem_index_to_position(it: &BlockIter, kind: OffsetKind)
    requires
        it.wf(kind),
        it.index < bview(it.branch).len(),
        !it.reached_end ==> it.next_item is Some && vis(it.next_item.unwrap()) && it.rel < elems(it.next_item.unwrap()).len(),
    ensures
        !it.reached_end,
        ({
            let c0 = chain(it.branch.start);
            let k = c0.len() - chain(it.next_item).len();
            0 <= k < c0.len() && c0[k] == it.next_item.unwrap() && locate(c0, it.index as int) == Some((k, it.rel as int))
                && bview(it.branch)[it.index as int] == elems(it.next_item.unwrap())[it.rel as int]
        }),
{
    hide(locate);
    hide(view);
    let c0 = chain(it.branch.start);
    let p = it.next_item.unwrap();
    let k = c0.len() - chain(it.next_item).len();
    assert(bview(it.branch).skip(it.index as int).len() > 0);
    lemma_view_step(p);
    assert(c0.skip(k)[0] == c0[k]);
    lemma_view_split(c0, k);
    lemma_view_len(chain(p.right));
    lemma_view_len(c0.take(k));
    lemma_locate_at(c0, k, it.rel as int);
    lemma_locate(c0, it.index as int);
    let w = view(chain(it.next_item));
    assert(w =~= elems(p) + view(chain(p.right)));
    assert(bview(it.branch).skip(it.index as int)[0] == w.skip(it.rel as int)[0]);
}

/// the index units `try_forward` sees in an item
pub open spec fn clen(p: &Item, kind: OffsetKind) -> int {
    p.content.len_spec(kind) as int
}

/// one turn of the loop of `try_forward` on the item `i`, `len` elements still to pass
pub proof fn lemma_fwd_step(b0: Seq<ID>, n: int, c0: Seq<ItemPtr>, i: ItemPtr, len: int, kind: OffsetKind)
    requires
        fwd_inv(b0, n, Some(i), len, 0, false, kind),
        walk_inv(c0, chain(Some(i))),
        // the loop condition
        len > 0 || !vis(i),
    ensures
        item_ok(i, kind),
        walk_inv(c0, chain(i.right)),
        cursor_measure(i.right, false) == cursor_measure(Some(i), false) - 2,
        // the target lies inside this item: stop on it
        vis(i) && len > 0 && clen(i, kind) > len ==> fwd_done(b0, n, Some(i), 0, len, false, kind),
        // otherwise it is passed
        !(vis(i) && len > 0 && clen(i, kind) > len) ==> ({
            let u = if vis(i) && len > 0 { clen(i, kind) } else { 0 };
            &&& 0 <= u <= len
            &&& i.right is Some ==> fwd_inv(b0, n, i.right, len - u, 0, false, kind)
            &&& i.right is None ==> fwd_inv(b0, n, Some(i), len - u, 0, true, kind)
        }),
{
    lemma_view_step(i);
    lemma_walk_step(c0, i, kind);
    lemma_view_len(chain(i.right));
    let w = view(chain(Some(i)));
    let rest = view(chain(i.right));
    assert(w == velems(i) + rest);
    assert(w == b0.skip(n - len));
    if vis(i) && len > 0 && clen(i, kind) > len {
        lemma_skip_skip(b0, n - len, len);
    } else {
        let u = if vis(i) && len > 0 { clen(i, kind) } else { 0 };
        assert(u == velems(i).len());
        lemma_skip_skip(b0, n - len, u);
        lemma_add_skip(velems(i), rest, u);
        if i.right is None {
            assert(rest =~= Seq::<ID>::empty());
        }
    }
}

/// the loop of `try_forward` has been left (`fwd_done`): what that means for the `BlockIter` that started at `o`
pub proof fn lemma_fwd_finish(o: &BlockIter, n0: int, item: Option<ItemPtr>, len: int, rel: int, re: bool, kind: OffsetKind)
    requires
        o.cwf(kind),
        o.next_item is Some,
        0 <= n0,
        fwd_done(ahead_of(o.next_item, 0, o.reached_end), n0 + o.rel, item, len, rel, re, kind),
    ensures
        ({
            let a0 = o.ahead();
            let m = min(n0, a0.len() as int);
            &&& 0 <= m
            &&& 0 <= len
            &&& o.index + n0 - len == o.index + m
            &&& ahead_of(item, rel, re) =~= a0.skip(m)
            &&& rel <= o.index + m
            &&& rel <= n0 + o.rel
            &&& cursor_ok(item, rel, re, kind)
            &&& item is Some
            &&& !re ==> vis(item.unwrap()) && rel < elems(item.unwrap()).len()
            &&& n0 >= a0.len() ==> re
            &&& o.wf(kind) ==> o.index + m <= bview(o.branch).len() && bview(o.branch).skip(o.index + m) =~= a0.skip(m)
                && o.index + m == min(o.index + n0, bview(o.branch).len() as int)
        }),
{
    let b0 = ahead_of(o.next_item, 0, o.reached_end);
    let a0 = o.ahead();
    let rel0 = o.rel as int;
    let vv = bview(o.branch);
    let p0 = o.index as int;
    let fin = ahead_of(item, rel, re);
    lemma_view_len(chain(o.next_item));
    if !o.reached_end {
        lemma_view_step(o.next_item.unwrap());
        lemma_view_len(chain(o.next_item.unwrap().right));
        lemma_add_skip(elems(o.next_item.unwrap()), view(chain(o.next_item.unwrap().right)), 0);
        assert(b0 == view(chain(o.next_item)));
        assert(0 <= rel0 <= b0.len());
    } else {
        lemma_skip_all(b0);
    }
    assert(a0 == b0.skip(rel0));
    lemma_fwd_seq(b0, a0, vv, fin, p0, rel0, n0, len);
    if !re {
        lemma_view_step(item.unwrap());
        lemma_view_len(chain(item.unwrap().right));
        lemma_add_skip(elems(item.unwrap()), view(chain(item.unwrap().right)), rel);
        assert(fin.len() > 0);
    }
}

/// termination measure of a cursor: twice the number of items from it on, plus one while the end has not been reached
pub open spec fn cursor_measure(ni: Option<ItemPtr>, re: bool) -> int {
    2 * chain(ni).len() + (if re { 0int } else { 1int })
}

// ---------------------------------------------------------------------------------------------
// the real code, part 1: the five `BlockIter` methods `StickyIndex::at` calls (+ `can_forward`), REAL bodies, proved here once
// more over the unit view
// ---------------------------------------------------------------------------------------------
impl Branch {
    /*@extract yrs/src/branch.rs | impl Branch | fn content_len | label=branch_content_len
    @ret r
    @sig
        ensures r == self.content_len,
    @*/

    /*@extract yrs/src/branch.rs | impl Branch | fn id | label=branch_id
    @ret r
    @sig
        requires
            // a branch is a nested type or a root type (`unreachable!("Could not get ID for branch")` otherwise)
            self.item is Some || self.name is Some,
        ensures
            r == branch_id_spec(self),
    @*/
}

impl BlockIter {
    /*@extract yrs/src/block_iter.rs | impl BlockIter | fn new | label=block_iter_new
    @ret r
    @sig
        ensures
            r.branch == branch && r.index == 0 && r.rel == 0 && r.next_item == branch.start && r.reached_end == (branch.start is None),
            // position 0: everything is ahead
            r.ahead() == bview(branch),
            forall|kind: OffsetKind| items_ok(chain(branch.start), kind) ==> #[trigger] r.wf(kind),
    @start
        proof {
            assert(chain(branch.start).skip(0) =~= chain(branch.start));
            assert(bview(branch).skip(0) =~= bview(branch));
            if branch.start is None {
                assert(bview(branch) =~= Seq::<ID>::empty());
            }
        }
    @*/

    /*@extract yrs/src/block_iter.rs | impl BlockIter | fn rel | label=block_iter_rel
    @ret r
    @sig
        ensures r == self.rel,
    @*/

    /*@extract yrs/src/block_iter.rs | impl BlockIter | fn finished | label=block_iter_finished
    @ret r
    @sig
        ensures
            r == (self.reached_end || self.index == self.branch.content_len),
            // with the cached counter right: finished <==> the cursor stands at |V| (nothing is ahead)
            forall|kind: OffsetKind| #[trigger] self.wf(kind) && self.branch.content_len == bview(self.branch).len() ==> r == (self.pos() == bview(self.branch).len()),
    @*/

    /*@extract yrs/src/block_iter.rs | impl BlockIter | fn next_item | label=block_iter_next_item
    @ret r
    @sig
        ensures r == self.next_item,
    @*/

    /*@extract yrs/src/block_iter.rs | impl BlockIter | fn can_forward | label=block_iter_can_forward
    @ret r
    @sig
        ensures
            // not at the end, and: something is left to pass, or the cursor stands on an INVISIBLE item (tombstone / not countable)
            r == (!self.reached_end && (len > 0 || (ptr is Some && !vis(ptr.unwrap())))),
    @*/

    /*@extract yrs/src/block_iter.rs | impl BlockIter | fn try_forward | label=block_iter_try_forward
    @ret r
    @sig
        requires
            old(self).cwf(txn.kind_spec()),
            // DOMAIN RESTRICTION: `self.index + len` is an unchecked u32 addition
            old(self).index + len <= u32::MAX,
        ensures
            final(self).branch == old(self).branch,
            // WHEN it answers true: the degenerate call (nothing to pass on an empty list), or the target does not exceed the CACHED
            // counter `branch.content_len`
            r == ((len == 0 && old(self).next_item is None) || (old(self).index + len <= old(self).branch.content_len && old(self).next_item is Some)),
            !r ==> *final(self) == *old(self),
            // true: `len` elements are passed -- all that are left if there are fewer --, `index` moves with the cursor ...
            r ==> final(self).cwf(txn.kind_spec())
                && final(self).ahead() =~= old(self).ahead().skip(min(len as int, old(self).ahead().len() as int))
                && final(self).index == old(self).index + min(len as int, old(self).ahead().len() as int),
            // ... i.e. from position p the cursor stands at position min(p + len, |V|)
            r && old(self).wf(txn.kind_spec()) ==> final(self).wf(txn.kind_spec())
                && final(self).index == min(old(self).index + len, bview(old(self).branch).len() as int),
            // ... NORMALISED: at the end (`reached_end`) or ON the visible item that holds the next element, `rel` being the offset
            // of that element in it
            r && old(self).next_item is Some ==> final(self).next_item is Some && final(self).rel <= len + old(self).rel,
            r && old(self).next_item is Some && !final(self).reached_end ==> vis(final(self).next_item.unwrap())
                && final(self).rel < elems(final(self).next_item.unwrap()).len(),
            // forward to EXACTLY the end is allowed and sets `reached_end`
            r && old(self).next_item is Some && len >= old(self).ahead().len() ==> final(self).reached_end,
            // progress measure for the caller (`slice`)
            r ==> cursor_measure(final(self).next_item, final(self).reached_end) <= cursor_measure(old(self).next_item, old(self).reached_end),
            r && !old(self).reached_end && old(self).next_item is Some && !vis(old(self).next_item.unwrap())
                ==> cursor_measure(final(self).next_item, final(self).reached_end) < cursor_measure(old(self).next_item, old(self).reached_end),
    @start
        let ghost kind = txn.kind_spec();
        let ghost n0 = len as int;
        let ghost c0 = chain(self.branch.start);
        let ghost vv = bview(self.branch);
        let ghost ni0 = self.next_item;
        let ghost re0 = self.reached_end;
        let ghost rel0 = self.rel as int;
        let ghost p0 = self.index as int;
        let ghost a0 = self.ahead();
        let ghost b0 = ahead_of(self.next_item, 0, self.reached_end);
        let ghost m0 = cursor_measure(self.next_item, self.reached_end);
    @before 1 `stmt:while`
        let ghost nn = len as int;
        proof {
            assert(nn == n0 + rel0);
            assert(b0.skip(0) =~= b0);
        }
    @loop 1
        invariant_except_break
            fwd_inv(b0, nn, item, len as int, self.rel as int, self.reached_end, kind),
            cursor_measure(item, self.reached_end) < m0 || (item == ni0 && self.reached_end == re0),
        invariant
            self.branch == old(self).branch,
            self.index == p0 + n0,
            walk_inv(c0, chain(item)),
            cursor_measure(item, self.reached_end) <= m0,
            re0 ==> self.reached_end,
            encoding == kind,
            m0 == cursor_measure(ni0, re0),
            re0 || ni0 is Some,
        ensures
            fwd_done(b0, nn, item, len as int, self.rel as int, self.reached_end, kind),
            cursor_measure(item, self.reached_end) < m0 || re0 || vis(ni0.unwrap()),
        decreases
            cursor_measure(item, self.reached_end),
    @loopstart 1
        proof {
            lemma_fwd_step(b0, nn, c0, item.unwrap(), len as int, kind);
        }
    @afterloop 1
        proof {
            lemma_fwd_finish(old(self), n0, item, len as int, self.rel as int, self.reached_end, kind);
        }
    @*/
}

// ---------------------------------------------------------------------------------------------
// specification, part 3: what `StickyIndex::at` returns
// ---------------------------------------------------------------------------------------------
/// `Branch::id()`
pub open spec fn branch_id_spec(b: &Branch) -> BranchID {
    match b.item {
        Some(p) => BranchID::Nested(p.id),
        None => BranchID::Root(b.name.unwrap()),
    }
}

/// `IndexScope::from_branch(branch)`: the scope that names the collection itself
pub open spec fn branch_scope(b: &Branch) -> IndexScope {
    match b.item {
        Some(p) => IndexScope::Nested(p.id),
        None => IndexScope::Root(b.name.unwrap()),
    }
}

/// the cached counter `content_len` is the number of index units (what integration maintains; the one thing the creation
/// cannot decide)
pub open spec fn counters_ok(b: &Branch) -> bool {
    b.content_len == bview(b).len()
}

/// WHAT A STICKY INDEX IS ANCHORED AT: the collection itself, or the unit at offset `o` of item `k` of the chain
pub enum Anchor {
    Branch,
    Unit(int, int),
}

pub open spec fn unit_anchor(w: Option<(int, int)>) -> Option<Anchor> {
    match w {
        Some((k, o)) => Some(Anchor::Unit(k, o)),
        None => None,
    }
}

/// THE PROPERTY (C14, creation): the anchor of the sticky index for the gap at position `i` (V = the visible index units):
///   Assoc::After  -- the element AT the index (the gap is directly BEFORE it): V[i]; there is none for i >= |V|: None;
///   Assoc::Before -- the element BEFORE the gap: V[i - 1]; for i == 0 there is none: the START of the collection (branch scope);
///                    None beyond the end (i > |V|: "Returns None if index is beyond the length of current sequence").
pub open spec fn at_anchor(c: Seq<ItemPtr>, i: int, assoc: Assoc) -> Option<Anchor> {
    if assoc == Assoc::After {
        unit_anchor(locate(c, i))
    } else if i == 0 {
        Some(Anchor::Branch)
    } else {
        unit_anchor(locate(c, i - 1))
    }
}

/// the sticky index for an anchor
pub open spec fn sticky_of(b: &Branch, a: Option<Anchor>, assoc: Assoc) -> Option<StickyIndex> {
    match a {
        None => None,
        Some(Anchor::Branch) => Some(StickyIndex { scope: branch_scope(b), assoc }),
        Some(Anchor::Unit(k, o)) => Some(StickyIndex { scope: IndexScope::Relative(unit_id(chain(b.start)[k], o)), assoc }),
    }
}

/// FINDING T1, input class: Assoc::Before and the index ONE PAST the length
pub open spec fn finding_t1_before_one_past_the_end(b: &Branch, i: int, assoc: Assoc) -> bool {
    assoc == Assoc::Before && i == bview(b).len() + 1
}

/// the same input class under another name (used by the clause that says what the code DOES there, so that the name
/// `finding_t1_before_one_past_the_end` occurs in the open PROPERTY clause only)
pub open spec fn t1_input(b: &Branch, i: int, assoc: Assoc) -> bool {
    finding_t1_before_one_past_the_end(b, i, assoc)
}

/// FINDING T1, what the code returns there instead of None: an index anchored at the LAST CLOCK UNIT OF THE LAST ITEM of the list
/// -- visible or not --, resp. at the (empty) collection itself
pub open spec fn t1_anchor(c: Seq<ItemPtr>) -> Option<Anchor> {
    if c.len() == 0 { Some(Anchor::Branch) } else { Some(Anchor::Unit(c.len() - 1, c.last().len - 1)) }
}

/// the id of V[i] is the id of the unit `locate` finds
pub proof fn lemma_unit_of(c: Seq<ItemPtr>, i: int)
    requires
        0 <= i < view(c).len(),
    ensures
        locate(c, i) is Some,
        ({
            let (k, o) = locate(c, i).unwrap();
            0 <= k < c.len() && vis(c[k]) && 0 <= o < c[k].len && view(c)[i] == unit_id(c[k], o)
        }),
{
    lemma_locate(c, i);
}

/// `locate(c, i) == (k, o)`: exactly i units are in front of unit o of item k
pub proof fn lemma_locate_sum(c: Seq<ItemPtr>, i: int)
    requires
        0 <= i,
    ensures
        match locate(c, i) {
            Some((k, o)) => 0 <= k < c.len() && view(c.take(k)).len() + o == i,
            None => true,
        },
    decreases c.len(),
{
    if c.len() > 0 {
        if vis(c[0]) && i < elems(c[0]).len() {
            assert(c.take(0) =~= Seq::<ItemPtr>::empty());
        } else {
            let t = c.skip(1);
            let m = i - velems(c[0]).len();
            lemma_locate_sum(t, m);
            match locate(t, m) {
                Some((k, o)) => {
                    assert(c.take(k + 1).skip(1) =~= t.take(k));
                    assert(c.take(k + 1)[0] == c[0]);
                },
                None => {},
            }
        }
    }
}

// ---------------------------------------------------------------------------------------------
// the real code, part 2: yrs/src/sticky_index.rs
// ---------------------------------------------------------------------------------------------
impl IndexScope {
    /*@extract yrs/src/sticky_index.rs | impl IndexScope | fn from_branch | label=scope_from_branch
    @ret r
    @sig
        requires
            branch.item is Some || branch.name is Some,
        ensures
            r == branch_scope(branch),
    @*/
}

impl StickyIndex {
    /*@extract yrs/src/sticky_index.rs | impl StickyIndex | fn new | label=sticky_new
    @ret r
    @sig
        ensures r == (StickyIndex { scope, assoc }),
    @*/

    /*@extract yrs/src/sticky_index.rs | impl StickyIndex | fn at | label=sticky_at
    @ret r
    @sig
        requires
            // A-LEN (index units are clock units: every UTF-16 document), A-CLK, the branch is a nested or a root type
            items_ok(chain(branch.start), txn.kind_spec()),
            chain_clk_ok(chain(branch.start)),
            branch.item is Some || branch.name is Some,
        ensures
            // ---- for EVERY value of the cached counter cl = branch.content_len
            // Assoc::After: anchored at V[index], the element AT the index -- iff there is one (and index lies below cl); so None
            // for index == |V|: the END of a collection (of an EMPTY one too) cannot be designated with After (OBSERVATION T2)
            assoc == Assoc::After ==> r == (if index < bview(branch).len() && index < branch.content_len {
                Some(StickyIndex { scope: IndexScope::Relative(bview(branch)[index as int]), assoc })
            } else {
                None
            }),
            // Assoc::Before, index 0: the START of the collection (branch scope)
            assoc == Assoc::Before && index == 0 ==> r == Some(StickyIndex { scope: branch_scope(branch), assoc }),
            // Assoc::Before, 0 < index <= |V| (and index - 1 below cl): anchored at V[index - 1], the element BEFORE the gap
            assoc == Assoc::Before && 0 < index <= bview(branch).len() && index - 1 < branch.content_len
                ==> r == Some(StickyIndex { scope: IndexScope::Relative(bview(branch)[index - 1]), assoc }),
            // ---- with the cached counter right
            // THE PROPERTY on every index but the one of FINDING T1: the anchor of `at_anchor`
            counters_ok(branch) && !finding_t1_before_one_past_the_end(branch, index as int, assoc) ==> r == sticky_of(branch, at_anchor(chain(branch.start), index as int, assoc), assoc),
            // FINDING T1 (OPEN): Assoc::Before, index == |V| + 1.  THE PROPERTY: an index beyond the length -> None (`at_anchor`) ...
            counters_ok(branch) && finding_t1_before_one_past_the_end(branch, index as int, assoc) ==> r == sticky_of(branch, at_anchor(chain(branch.start), index as int, assoc), assoc),
            // ... what the code returns there on the pinned tree (PROVED; `r is None ||` keeps the clause true for a repaired tree):
            // Some(index anchored at the last clock unit of the LAST ITEM of the list -- visible or not --, resp. at the empty collection)
            counters_ok(branch) && t1_input(branch, index as int, assoc) ==> r is None || r == sticky_of(branch, t1_anchor(chain(branch.start)), assoc),
            // beyond that: None
            counters_ok(branch) && assoc == Assoc::Before && index > bview(branch).len() + 1 ==> r is None,
    @start
        let ghost kind = txn.kind_spec();
        let ghost c0 = chain(branch.start);
        let ghost vv = bview(branch);
        let ghost i0 = index as int;
        proof {
            lemma_view_len(c0);
            if assoc == Assoc::After {
                lemma_locate(c0, i0);
                if i0 < vv.len() {
                    lemma_unit_of(c0, i0);
                }
            } else if i0 > 0 {
                lemma_locate(c0, i0 - 1);
                if i0 - 1 < vv.len() {
                    lemma_unit_of(c0, i0 - 1);
                }
            }
        }
    @after 1 `stmt:let walker`
        proof {
            assert(walker.wf(kind));
            assert(vv.skip(0) =~= vv);
        }
    @before 1 `stmt:if ~ walker.finished()`
        proof {
            // the walk answered true: the cursor stands at min(index, |V|), normalised
            lemma_pos(&walker, kind);
            if !walker.reached_end {
                theorem_index_to_position(&walker, kind);
            }
            if walker.next_item is Some {
                let p = walker.next_item.unwrap();
                let k = c0.len() - chain(walker.next_item).len();
                lemma_view_step(p);
                assert(c0.skip(k)[0] == c0[k]);
                assert(clk_ok(c0[k]));
                if walker.reached_end {
                    assert(chain(p.right) =~= Seq::<ItemPtr>::empty());
                    assert(k == c0.len() - 1);
                    assert(c0.last() == p);
                }
            } else {
                assert(c0 =~= Seq::<ItemPtr>::empty());
            }
        }
    @*/
}

/// THE RESOLVER, as proved in unit `sticky` (quoted): `sticky_index_of(right, assoc, encoding, index)` ensures
///     r == sticky_offset_spec(*right, assoc, encoding)
///       == visible_len(lefts(right.ptr.left, kind)) + anchor_part(view_of(right.ptr, kind), right.start, assoc),
///     anchor_part(anchor, start, assoc) == if visible(anchor) { if assoc == Assoc::After { start } else { start + 1 } } else { 0 }
/// ("all visible units LEFT of the anchor block + for a visible anchor: After -> right.start = the gap directly BEFORE the anchored
/// unit, Before -> right.start + 1 = the gap directly AFTER it; deleted anchor: the gap where it used to be"), and the type-scoped
/// arms `sticky_index_of_nested` / `_root` ensure  r == if assoc == Assoc::After { ptr.content_len } else { 0 }.
/// RESTATED ON THE CHAIN for the anchor (item k, offset o): the items LEFT of c[k] are c[0 .. k) (A-LINK: the `left` links mirror
/// the `right` links), their visible units are view(c.take(k)) (A-LEN), and `right` = the slice (c[k], start = o) that the store
/// finds for the id unit_id(c[k], o) (A-FIND: ids are unique in the store; no redone item)
pub open spec fn resolve(b: &Branch, a: Anchor, assoc: Assoc) -> int {
    match a {
        Anchor::Branch => if assoc == Assoc::After { b.content_len as int } else { 0 },
        Anchor::Unit(k, o) => {
            let c = chain(b.start);
            view(c.take(k)).len() + (if vis(c[k]) { if assoc == Assoc::After { o } else { o + 1 } } else { 0 })
        },
    }
}

/// THE ROUND TRIP on an UNCHANGED list (UTF-16 documents: A-LEN; cached counter right): a freshly created sticky index resolves to
/// the position it was created at -- for EVERY index the property accepts (After: i < |V|; Before: i <= |V|); and FINDING T1:
/// the index |V| + 1 that the code ALSO accepts with Before resolves to |V|, not to itself
pub proof fn theorem_round_trip(b: &Branch, kind: OffsetKind, i: int, assoc: Assoc)
    requires
        items_ok(chain(b.start), kind),
        counters_ok(b),
        0 <= i,
    ensures
        // the creation accepts exactly the positions that have an anchor ...
        at_anchor(chain(b.start), i, assoc) is Some <==> (if assoc == Assoc::After { i < bview(b).len() } else { i <= bview(b).len() }),
        // ... and get_offset(at(i, assoc)).index == i
        at_anchor(chain(b.start), i, assoc) is Some ==> resolve(b, at_anchor(chain(b.start), i, assoc).unwrap(), assoc) == i,
        // FINDING T1: at(|V| + 1, Before) is Some and resolves to |V|
        resolve(b, t1_anchor(chain(b.start)).unwrap(), Assoc::Before) == bview(b).len(),
{
    let c = chain(b.start);
    lemma_view_len(c);
    if assoc == Assoc::After {
        lemma_locate(c, i);
        lemma_locate_sum(c, i);
    } else if i > 0 {
        lemma_locate(c, i - 1);
        lemma_locate_sum(c, i - 1);
    }
    if c.len() > 0 {
        let k = c.len() - 1;
        lemma_view_split(c, k);
        assert(c.skip(k) =~= seq![c[k]]);
        assert(view(seq![c[k]]) =~= velems(c[k])) by {
            assert(seq![c[k]].skip(1) =~= Seq::<ItemPtr>::empty());
            assert(view(Seq::<ItemPtr>::empty()) =~= Seq::<ID>::empty());
        }
        assert(item_ok(c[k], kind));
    } else {
        assert(view(c) =~= Seq::<ID>::empty());
    }
}


} // verus!
fn main() {}
