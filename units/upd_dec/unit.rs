// unit `upd_dec` -- `<Update as Decode>::decode` (yrs/src/update.rs), WHOLE real body.  Serves C10 (arbitrary bytes => value or
// error, time / memory proportional to the input, no panic / overflow / unbounded allocation) and supplies the representation
// invariant that unit `upd` (C08) ASSUMES about decoded updates (`upd_ok` and `upd_wf`, both unconditionally).
//
// WHAT IS PROVED about `Update::decode::<D>(decoder)` for EVERY decoder D (abstract `Decoder`, see DECODER MODEL):
//   (a) TOTAL      returns Ok / Err on every input: no arithmetic overflow (`clock.checked_add(block.len())`), no panic, both
//                  loops terminate (range loops), never rewinds and never reads beyond the input (`suffix_of`), PROGRESS: Ok ==>
//                  at least one byte consumed.  Every outer iteration consumes >= 2 bytes of `rest()` (>= 3 for v1), every
//                  inner iteration of a v1 decoder >= 1 byte (the info byte, see `decode_block`).
//   (b) BUDGET     the two capacity requests (`clients.try_reserve(..)`, `blocks.try_reserve(..)`) go through
//                  `vx_budget(decoder).for_map(&clients).try_reserve(..)` / `.for_deque(..)` (SUB, logged) whose precondition is
//                  dec_comp's `alloc_budget_ok`:
//                  n <= unread input bytes + 1024 (the code asks for `.min(1024)`: a constant).  Everything else grows by one
//                  block per inner iteration / one map entry per outer iteration.
//   (c) SHAPE      there is a listing `ss` of the client SECTIONS in wire order (`SecView { client, start, blocks }`: the client
//                  and clock header of the section and the blocks it contributed) with `sections_of(ss, result.blocks.clients@)`:
//                    * every section is a RUN (`run_ok`): all its blocks carry the section's client, block i starts at
//                      start + (sum of the lengths of the blocks before it), clock + len <= u32::MAX, EVERY block has len >= 1
//                      (Item: `Item::new`; Skip / GC: the `if len == 0 { return Ok(None); }` guards of decode_block);
//                    * the list of client c is `latest(ss, c)`: the run of c's LAST section -- a repeated client section
//                      REPLACES the earlier one (`Entry::Occupied(e) => { let blocks = e.into_mut(); blocks.clear(); blocks }`,
//                      the Yjs behaviour; lifted step `upd_decode_claim`: every section starts from an EMPTY list);
//                    * a client is a key of the map iff its LAST section contributed at least one block (`retain`: NO EMPTY
//                      LIST; note that a later section without blocks erases an earlier one with blocks).
//                  Hence UNCONDITIONALLY (ensures of `decode`, lemma_sections_exact): `upd_wf(result)` = unit upd's representation
//                  invariant, quoted below (`upd_ok` + per client CONTIGUOUS: every list is ONE run, starting at its section's
//                  clock header), `no_empty_list`, `keys_match` (every block under its own client), `all_len_pos`, and
//                  `sections_exact`: every list IS `ss[j].blocks` for a section j of that client.
//                  HISTORY: before the repair of /repo (O-UD-1, O-UD-2 of this unit, found with cargo) repeated sections were
//                  APPENDED (`[2, 1,1,0, 0,5, 1,1,9, 0,3, 0]` -> client 1: [GC 0..5, GC 9..12], re-encoded as GC 0..5, GC 5..8) and
//                  GC / Skip blocks of length 0 were kept (`[1, 1,1,0, 0,0, 0]` re-encoded to [0, 0]): decode(encode(u)) != u for
//                  such decoded values, and `upd_wf` only held under a one-section-per-client hypothesis.
//   (d) SIZE       2 * |ss| < bytes consumed (sections / map entries: every decoder);  for a v1 decoder additionally
//                  |ss| + (total number of blocks) < bytes consumed: the VALUE is linear in the input.
//   (e) STEP       the body of the inner loop is ALSO lifted on its own (`upd_decode_step`, R18) against `step_ok`: nothing, or
//                  exactly one block made for the current id appended at the BACK with the clock advanced by its length inside
//                  u32 -- so an edit of the clock arithmetic / the push fails a contract clause of real code.
//
// FINDING F-UD-1 (OPEN; obligation `upd_dec::upd_decode_v2_size::post`, clause `finding_ud1_column_decoder::<D>() ==> ..`):
//   for the v2 decoder clause (d) is FALSE.  `decode_block` starts with `decoder.read_info()?`; DecoderV1::read_info is
//   `self.cursor.read_u8()` (one byte, verified below), but DecoderV2::read_info is `self.info_decoder.read_u8()`, an RLE column
//   (`RleDecoder`: a value followed by a repeat count, and "read the current value forever" when the column ends after the
//   value), and a GC block's `read_len` is `len_decoder.read_u64()` (`UIntOptRleDecoder`: value + repeat count up to 2^32+1).  A
//   run of GC blocks therefore costs NO input bytes at all, in any column, and `blocks_len` (u32) is only limited by the count.
//   27 bytes:  00 00 01 01 00 00 01 00 01 00 00 00 06 40 fd ff ff ff 0f 01 ff ff ff ff 0f 00 00   (Update::decode_v2)
//     flag 00 | keyClock "" | client [01] | leftClock "" | rightClock "" | info [00] | string [00] | parentInfo "" | typeRef "" |
//     len [40 fd ff ff ff 0f] (= -0 repeated 2^32-1 times) | rest: 1 section, blocks_len 2^32-1, clock 0 | delete set 00
//   asks for 2^32-1 GC blocks of length 0: ~103 GB; with `ulimit -v 3000000` the process dies with "memory allocation of
//   3221225472 bytes failed" (SIGABRT, exit 134).  The 25-byte variant with blocks_len = 200 000 000 returns Ok after 6.2 s
//   with a peak RSS of 4.7 GB; 50 000 000 -> 1.0 s, 1.17 GB.  (len column [41 ..] = GC blocks of length 1 behaves the same until
//   the clock reaches 2^32.)  C10: "time and memory proportional to the input size ... never ... allocates memory unrelated
//   to the input length".  Neither `.min(1024)` (it only bounds the up-front reservation) nor `checked_add` prevents it.
//   The clause is kept, not weakened: it is proved for v1 (`upd_decode`) and is the one failing obligation of this unit.
//
// DECODER MODEL (as in unit dec_comp: ghost `rest()` = unread bytes of the main stream, `wf()`, `suffix_of`, progress)
//   trait ColumnReads: Read   `v1()`, `read_client`, `read_info`, `read_len` with an ABSTRACT contract: never rewinds / reads
//                             beyond the input; for a v1 decoder a successful read consumes >= 1 byte of `rest()`; for any other
//                             decoder NOTHING is promised about consumption (v2 reads these from separate RLE columns).
//                             The real bodies of DecoderV1::{read_client, read_info, read_len} are verified against it.
//   `decode_block(id, decoder)`  = `Update::decode_block` (update.rs): external_body STUB of the function PROVED in unit content_codec
//                             (whole real body, all three arms); its contract text (wf, suffix_of, v1 progress, `block_of` with
//                             len >= 1, + a token clause `block_ok` this unit does not use) is cross-checked by the extractor, the
//                             body is dropped.  The call `Self::decode_block(id, decoder)` is spelled `decode_block(id, decoder)`
//                             (SUB, logged).  The Skip and GC arms are ALSO lifted here (R18: `decode_block_skip`,
//                             `decode_block_gc`, incl. the `if len == 0` guards) and verified against the same clauses.
//   `read_var` is the real `lib0::Read::read_var` (units/lib0_common/*, proved equal to the spec decoders there).
//
// STAND-IN TYPES (everything else is extracted verbatim from /repo on every run)
//   ClientID     `ClientID(pub u64)` holding the yjs value, as in unit dec_comp; `ClientID::decode` is the REAL body.
//   Item         sliced to `id`, `len` (+ one opaque field), as in unit upd.  Block, BlockRange, ID, BlockSet, Update: extracted;
//                BlockSet without the hasher parameter (SUB).  `VecDeque<Block>` is the REAL std type (vstd specifies new /
//                push_back / push_front / len; `is_empty` gets an assume_specification here).
//   IdSet        opaque; `<IdSet as Decode>::decode` is an external_body STUB whose contract text is the @sig of unit dec_comp
//                (cross-checked by the extractor, body dropped).  Its vocabulary (`@`, ranges_ordered, enc_ok, wf_map, dec_idset,
//                idset_of) is declared UNINTERPRETED here, without axioms: this unit only uses the trait-level contract of `Decode`
//                (wf, suffix_of, progress), which dec_comp proves for IdSet too.  Likewise `Tok`, `toks()`, `block_ok` of unit
//                content_codec's contract of `decode_block` (uninterpreted / opaque; unused).
//   Error        sliced stand-in of units/lib0_common/base.rs; `impl From<TryReserveErrorStandIn> for Error` is written out
//                (real: thiserror `#[from]` on `NotEnoughMemory`) and verified.
//
// TRUSTED (std calls Verus cannot ingest, each with its std-documented contract at the declaration; module vx_trusted)
//   axiom_client_id_key_model         A4 (as in units sv / upd / dec_comp): derived Hash / Eq of ClientID agree.
//   VxMapApi::vx_entry                std `HashMap::entry(k)`: the slot-lens model of units ids_lift / awareness (the entry of key k
//                                     is a mutable optional SLOT of the map; Entry / OccupiedEntry / VacantEntry are stand-in types,
//                                     `VacantEntry::insert` and `OccupiedEntry::into_mut` are VERIFIED against the slot).  The real
//                                     `match` with both arms is kept; `blocks.clients.entry` is spelled `blocks.clients.vx_entry` (SUB).
//   VxMapApi::vx_retain               std `HashMap::retain(f)` (same contract as unit ids_lift's BTreeMap::retain); the closure
//                                     stays the real one (`|_, blocks| !blocks.is_empty()`, annotated @closure).
//   VxBudget::try_reserve             std `HashMap::try_reserve` / `VecDeque::try_reserve`: only the capacity changes (the stand-in
//                                     does not even borrow the collection mutably), Ok or Err; PRECONDITION alloc_budget_ok (the
//                                     obligation, not an assumption).  `clients.try_reserve(X)` is spelled
//                                     `vx_budget(decoder).for_map(&clients).try_reserve(X)` (SUB; X stays the real argument).
//   assume_specification VecDeque::is_empty   "Returns true if the deque contains no elements."
//   `HashMap::with_hasher(BuildHasherDefault::default())` is spelled `HashMap::new()` (SUB; the hasher is not modelled, unit sv).
//   STUBS of functions proved elsewhere (contract text cross-checked, nothing assumed beyond it): IdSet::decode (unit dec_comp),
//   Update::decode_block (unit content_codec).  + what units/lib0_common/base.rs trusts.
//
// REWRITES (all logged): R9, R10; SUB: the hasher type parameter, `crate::encoding::read::Error` -> Error, the constructor and
//   call spellings listed above.
//
// NOT IN THIS UNIT: the body of `decode_block` (unit content_codec), the public wrappers `decode_v1` / `decode_v2`
//   (DecoderV1::from / DecoderV2::new: units dec_comp / lib0_v2), what `Update::integrate` does with a decoded value.
#![feature(allocator_api)]
#![allow(unused_imports, unused_variables, unused_mut, dead_code, unused_parens, unused_braces, unused_assignments)]
use vstd::prelude::*;
use vstd::slice::*;
use std::convert::TryInto;
use core::ops::Range;
use std::collections::HashMap;
use std::collections::VecDeque;

verus! {

/*@rules R9 R10
   SUB(from=HashMap<ClientID, VecDeque<Block>, BuildHasherDefault<ClientHasher>>;;to=HashMap<ClientID, VecDeque<Block>>)
   SUB(from=crate::encoding::read::Error;;to=Error)
   SUB(from=HashMap::with_hasher(BuildHasherDefault::default());;to=HashMap::new())
   SUB(from=clients.try_reserve;;to=vx_budget(decoder).for_map(&clients).try_reserve)
   SUB(from=blocks.try_reserve;;to=vx_budget(decoder).for_deque(&*blocks).try_reserve)
   SUB(from=blocks.clients.entry;;to=blocks.clients.vx_entry)
   SUB(from=Self::decode_block(id, decoder);;to=decode_block(id, decoder))
   SUB(from=.retain;;to=.vx_retain)
@*/

/*@include units/lib0_common/base.rs @*/

/*@include units/lib0_common/spec.rs @*/

/*@include units/lib0_common/varint.rs @*/

// ---------------------------------------------------------------------------------------------
// ClientID (stand-in, text of units/dec_comp/env.rs) and ID
// ---------------------------------------------------------------------------------------------
#[derive(PartialEq, Eq, PartialOrd, Ord, Structural, Clone, Copy, Hash)]
pub struct ClientID(pub u64);

/// `value & ClientID::MASK == 0`, i.e. the value fits into 53 bits
pub open spec fn client_id_53bit(value: u64) -> bool {
    value < 0x20_0000_0000_0000
}

pub proof fn lemma_client_id_mask(value: u64)
    ensures
        client_id_53bit(value) <==> value & (u64::MAX << 53) == 0,
{
    assert(value < 0x20_0000_0000_0000 <==> value & (u64::MAX << 53) == 0) by(bit_vector);
}

impl ClientID {
    /*@extract yrs/src/block.rs | impl ClientID | const MASK @*/

    // the REAL body: checks the range of a value read from untrusted input
    /*@extract yrs/src/block.rs | impl ClientID | fn decode | label=client_id_decode
    @ret r
    @sig
        ensures
            match r {
                Ok(c) => client_id_53bit(value) && c == ClientID(value),
                Err(_) => !client_id_53bit(value),
            },
    @before 1 `stmt:if`
        proof { lemma_client_id_mask(value); }
    @*/

    /// STAND-IN for `ClientID::new`; precondition = the `debug_assert!(value & Self::MASK == 0)` of the real body (R9)
    pub fn new(value: u64) -> (r: ClientID)
        requires
            client_id_53bit(value),
        ensures
            r.0 == value,
    {
        ClientID(value)
    }
}

pub mod vx_trusted {
    use vstd::prelude::*;
    use vstd::std_specs::hash::*;
    use std::collections::HashMap;
    use std::collections::VecDeque;
    use super::ClientID;
    use super::Read;
    use super::Error;
    use super::TryReserveErrorStandIn;

    /// A4: the derived `Hash` and `Eq` of ClientID agree, i.e. ClientID is a lawful std::collections::HashMap key
    /// (stated as an `external_body` proof fn rather than `axiom fn` so that the framework's trust scanner lists it)
    #[verifier::external_body] pub broadcast proof fn axiom_client_id_key_model()
        ensures
            #[trigger] obeys_key_model::<ClientID>(),
    {
    }

    // ---- std::collections::hash_map::{Entry, OccupiedEntry, VacantEntry} (A2, R17 stand-in; the model of units ids_lift /
    // awareness).  The entry for key `k` is a mutable optional SLOT of the map.  The only trusted function is `vx_entry`
    // (std: "Gets the given key's corresponding entry in the map for in-place manipulation"); `VacantEntry::insert` ("Sets the
    // value of the entry with the VacantEntry's key, and returns a mutable reference to it") is VERIFIED against the slot model.
    pub struct OccupiedEntry<'a, V> { pub slot: &'a mut Option<V> }

    pub struct VacantEntry<'a, V> { pub slot: &'a mut Option<V> }

    pub enum Entry<'a, V> {
        Occupied(OccupiedEntry<'a, V>),
        Vacant(VacantEntry<'a, V>),
    }

    /// the map after the borrow of key `k`'s slot ends with content `s`
    pub open spec fn slot_map<V>(m: Map<ClientID, V>, k: ClientID, s: Option<V>) -> Map<ClientID, V> {
        match s {
            Some(v) => m.insert(k, v),
            None => if m.contains_key(k) { m.remove(k) } else { m },
        }
    }

    pub open spec fn entry_of<V>(e: Entry<'_, V>, m: Map<ClientID, V>, k: ClientID) -> bool {
        if m.contains_key(k) {
            e is Occupied && *e->Occupied_0.slot == Some(m[k])
        } else {
            e is Vacant && *e->Vacant_0.slot == None::<V>
        }
    }

    #[verifier::prophetic]
    pub open spec fn entry_final<V>(e: Entry<'_, V>) -> Option<V> {
        match e {
            Entry::Occupied(o) => *final(o.slot),
            Entry::Vacant(v) => *final(v.slot),
        }
    }

    impl<'a, V> OccupiedEntry<'a, V> {
        /// std: "Converts the OccupiedEntry into a mutable reference to the value in the entry" (verified against the slot model)
        pub fn into_mut(self) -> (r: &'a mut V)
            requires old(self.slot).is_some(),
            ensures
                *r == old(self.slot).unwrap(),
                *final(self.slot) == Some(*final(r)),
        {
            self.slot.as_mut().unwrap()
        }
    }

    impl<'a, V> VacantEntry<'a, V> {
        pub fn insert(self, v: V) -> (r: &'a mut V)
            ensures
                *r == v,
                *final(self.slot) == Some(*final(r)),
        {
            *self.slot = Some(v);
            self.slot.as_mut().unwrap()
        }
    }

    pub trait VxMapApi<V> {
        spec fn vx_view(&self) -> Map<ClientID, V>;

        /// A2 (trusted): std `HashMap::entry`
        fn vx_entry<'a>(&'a mut self, k: ClientID) -> (r: Entry<'a, V>)
            ensures
                entry_of(r, old(self).vx_view(), k),
                final(self).vx_view() == slot_map(old(self).vx_view(), k, entry_final(r)),
        ;

        /// A2: std `HashMap::retain`: "Retains only the elements specified by the predicate. In other words, remove all
        /// pairs (k, v) for which f(&k, &mut v) returns false."  Every stored pair is visited once.  (Same contract as
        /// unit ids_lift's BTreeMap::retain.)
        fn vx_retain<F: FnMut(&ClientID, &mut V) -> bool>(&mut self, f: F)
            requires
                forall|k: &ClientID, v: &mut V| old(self).vx_view().contains_key(*k) && *v == old(self).vx_view()[*k] ==> call_requires(f, (k, v)),
            ensures
                forall|k: ClientID| #[trigger] final(self).vx_view().contains_key(k) ==> old(self).vx_view().contains_key(k)
                    && exists|v: &mut V| *v == old(self).vx_view()[k] && *final(v) == final(self).vx_view()[k] && #[trigger] call_ensures(f, (&k, v), true),
                forall|k: ClientID| #[trigger] old(self).vx_view().contains_key(k) && !final(self).vx_view().contains_key(k) ==>
                    exists|v: &mut V| *v == old(self).vx_view()[k] && #[trigger] call_ensures(f, (&k, v), false);
    }

    impl<V> VxMapApi<V> for HashMap<ClientID, V> {
        open spec fn vx_view(&self) -> Map<ClientID, V> { self@ }

        #[verifier::external_body]
        fn vx_entry<'a>(&'a mut self, k: ClientID) -> (r: Entry<'a, V>)
        {
            unimplemented!()
        }

        #[verifier::external_body]
        fn vx_retain<F: FnMut(&ClientID, &mut V) -> bool>(&mut self, f: F)
        {
            self.retain(f)
        }
    }

    /// std: "Returns true if the deque contains no elements."
    pub assume_specification<T, A: std::alloc::Allocator> [std::collections::VecDeque::<T, A>::is_empty] (q: &std::collections::VecDeque<T, A>) -> (r: bool)
        ensures
            r == (q@.len() == 0),
    ;

    // -----------------------------------------------------------------------------------------
    // ALLOCATION BUDGET (text of units/dec_comp/env.rs): every capacity request of the decoder is routed (SUB rules, logged)
    // through `vx_budget(decoder).<request>(.., X)` whose precondition is   X <= (number of unread input bytes) + ALLOC_SLACK.
    // -----------------------------------------------------------------------------------------
    /// a constant-size pre-allocation is always fine
    pub const ALLOC_SLACK: usize = 1024;

    pub open spec fn alloc_budget_ok(n: usize, remaining: nat) -> bool {
        n <= remaining + ALLOC_SLACK
    }

    pub struct VxBudget {
        pub remaining: Ghost<nat>,
    }

    pub fn vx_budget<R: Read>(r: &R) -> (b: VxBudget)
        ensures
            b.remaining@ == r.rest().len(),
    {
        VxBudget { remaining: Ghost(r.rest().len()) }
    }

    impl VxBudget {
        /// names the collection the request is for (verified identity; the collection is only borrowed)
        pub fn for_map<K, V>(self, m: &HashMap<K, V>) -> (r: VxBudget)
            ensures r == self,
        {
            self
        }

        pub fn for_deque<T>(self, q: &VecDeque<T>) -> (r: VxBudget)
            ensures r == self,
        {
            self
        }

        /// A2: std `HashMap::try_reserve(additional)` / `VecDeque::try_reserve(additional)`: "Tries to reserve capacity for at
        /// least additional more elements to be inserted ... If the capacity overflows, or the allocator reports a failure,
        /// then an error is returned."  Only the CAPACITY changes, the contents do not: the collection is therefore not even
        /// borrowed mutably by the stand-in; the result is unspecified (Ok or Err).  PRECONDITION: the request is within the
        /// budget -- that is the obligation of the caller, not an assumption.
        #[verifier::external_body]
        pub fn try_reserve(self, n: usize) -> (r: Result<(), TryReserveErrorStandIn>)
            requires
                alloc_budget_ok(n, self.remaining@),
        {
            unimplemented!()
        }
    }
}
use vx_trusted::*;

broadcast use axiom_client_id_key_model;

/// real: `NotEnoughMemory(#[from] TryReserveError)` (thiserror generates exactly this impl); what `?` calls on the result of
/// `try_reserve`
impl vstd::std_specs::convert::FromSpecImpl<TryReserveErrorStandIn> for Error {
    open spec fn obeys_from_spec() -> bool {
        true
    }

    open spec fn from_spec(e: TryReserveErrorStandIn) -> Error {
        Error::NotEnoughMemory(e)
    }
}

impl From<TryReserveErrorStandIn> for Error {
    fn from(e: TryReserveErrorStandIn) -> (r: Error) {
        Error::NotEnoughMemory(e)
    }
}

#[derive(Copy, Clone, PartialEq, Eq, Structural)]
/*@extract yrs/src/block.rs | - | struct ID @*/

#[derive(Copy, Clone, PartialEq, Eq, Structural)]
/*@extract yrs/src/block.rs | - | struct BlockRange @*/

/// opaque: everything of an Item except `id` and `len` (as in unit upd)
pub struct ItemRest(pub u64);

/// sliced (as in unit upd)
pub struct Item {
    pub id: ID,
    pub len: u32,
    pub vx_rest: ItemRest,
}

/*@extract yrs/src/block.rs | - | enum Block @*/

/*@extract yrs/src/update.rs | - | struct BlockSet @*/

/// opaque: only produced by `IdSet::decode` and stored in the Update
pub struct IdSet(pub u64);

/*@extract yrs/src/update.rs | - | struct Update @*/

impl ID {
    /*@extract yrs/src/block.rs | impl ID | fn new | label=ID.new
    @ret r
    @sig
        ensures r.client == client, r.clock == clock,
    @*/
}

impl BlockRange {
    /*@extract yrs/src/block.rs | impl BlockRange | fn new | label=BlockRange.new
    @ret r
    @sig
        ensures r.client == id.client, r.clock == id.clock, r.len == len,
    @*/
}

impl Item {
    /*@extract yrs/src/block.rs | impl Item | fn len | label=Item.len
    @ret r
    @sig
        ensures r == self.len,
    @*/
}

// ---------------------------------------------------------------------------------------------
// views (the vocabulary of unit upd: BlockView, views, end_of, list_ok, list_contiguous, upd_ok, upd_wf are QUOTED from
// units/upd/unit.rs; the per-client list is the real VecDeque here, a Vec there -- both are `Seq<Block>` through `@`)
// ---------------------------------------------------------------------------------------------
pub enum Kind { Item, GC, Skip }

pub struct BlockView {
    pub clock: int,
    pub len: int,
    pub kind: Kind,
}

impl Block {
    pub open spec fn bv(&self) -> BlockView {
        match self {
            Block::Item(x) => BlockView { clock: x.id.clock as int, len: x.len as int, kind: Kind::Item },
            Block::GC(r) => BlockView { clock: r.clock as int, len: r.len as int, kind: Kind::GC },
            Block::Skip(r) => BlockView { clock: r.clock as int, len: r.len as int, kind: Kind::Skip },
        }
    }

    pub open spec fn spec_client(&self) -> ClientID {
        match self {
            Block::Item(x) => x.id.client,
            Block::GC(r) => r.client,
            Block::Skip(r) => r.client,
        }
    }

    /*@extract yrs/src/block.rs | impl Block | fn len | label=Block.len
    @ret r
    @sig
        ensures r == self.bv().len,
    @*/
}

pub open spec fn views(bs: Seq<Block>) -> Seq<BlockView> {
    Seq::new(bs.len(), |i: int| bs[i].bv())
}

pub open spec fn end_of(b: BlockView) -> int {
    b.clock + b.len
}

/// (unit upd) no clock arithmetic overflows; an Item is not empty
pub open spec fn list_ok(s: Seq<BlockView>) -> bool {
    forall|i: int| 0 <= i < s.len() ==> 0 <= (#[trigger] s[i]).clock && 0 <= s[i].len && end_of(s[i]) <= u32::MAX && (s[i].kind is Item ==> s[i].len >= 1)
}

/// (unit upd) every block starts where its predecessor ends (gaps are explicit Skip blocks)
pub open spec fn list_contiguous(s: Seq<BlockView>) -> bool {
    forall|i: int, j: int| 0 <= i && j == i + 1 && j < s.len() ==> end_of(#[trigger] s[i]) == (#[trigger] s[j]).clock
}

/// (unit upd: REQUIRED by state_vector / state_vector_lower / encode_diff)
pub open spec fn upd_ok(u: Map<ClientID, VecDeque<Block>>) -> bool {
    forall|c: ClientID| #[trigger] u.contains_key(c) ==> list_ok(views(u[c]@))
}

/// (unit upd: the hypothesis of its meaning lemmas)
pub open spec fn upd_wf(u: Map<ClientID, VecDeque<Block>>) -> bool {
    forall|c: ClientID| #[trigger] u.contains_key(c) ==> list_ok(views(u[c]@)) && list_contiguous(views(u[c]@))
}

/// `retain(|_, blocks| !blocks.is_empty())`: no client maps to an empty block list
pub open spec fn no_empty_list(u: Map<ClientID, VecDeque<Block>>) -> bool {
    forall|c: ClientID| #[trigger] u.contains_key(c) ==> u[c]@.len() > 0
}

/// every block covers at least one clock (Item: `Item::new`; GC / Skip: the `if len == 0 { return Ok(None); }` guards)
pub open spec fn all_len_pos(u: Map<ClientID, VecDeque<Block>>) -> bool {
    forall|c: ClientID, i: int| #![trigger u[c]@[i]] u.contains_key(c) && 0 <= i < u[c]@.len() ==> u[c]@[i].bv().len >= 1
}

/// every block is stored under its own client
pub open spec fn keys_match(u: Map<ClientID, VecDeque<Block>>) -> bool {
    forall|c: ClientID, i: int| #![trigger u[c]@[i]] u.contains_key(c) && 0 <= i < u[c]@.len() ==> u[c]@[i].spec_client() == c
}

// ---------------------------------------------------------------------------------------------
// sections: what one `(blocks_len, client, clock, block*)` group of the wire format contributes
// ---------------------------------------------------------------------------------------------
pub struct SecView {
    pub client: ClientID,
    /// the clock header of the section
    pub start: int,
    /// the blocks the section contributed (empty content yields no block: there may be fewer than `blocks_len`, even none)
    pub blocks: Seq<Block>,
}

/// sum of the lengths of the first `n` blocks
pub open spec fn len_sum(bs: Seq<Block>, n: int) -> int
    decreases n,
{
    if n <= 0 { 0 } else { len_sum(bs, n - 1) + bs[n - 1].bv().len }
}

/// a RUN: the blocks of one section.  Block i starts at the section's clock header plus the lengths of the blocks before it
/// (the reader's running clock: `clock = clock.checked_add(block.len())`), carries the section's client, does not overflow
/// the u32 clock space, and is not empty (len >= 1).
pub open spec fn run_ok(client: ClientID, start: int, bs: Seq<Block>) -> bool {
    forall|i: int| 0 <= i < bs.len() ==> {
        &&& (#[trigger] bs[i]).spec_client() == client
        &&& bs[i].bv().clock == start + len_sum(bs, i)
        &&& bs[i].bv().clock + bs[i].bv().len <= u32::MAX
        &&& bs[i].bv().len >= 1
    }
}

/// the run of the LAST of the first `n` sections that names client `c` (empty if there is none): a repeated section REPLACES
/// the earlier one (`Entry::Occupied(e) => { let blocks = e.into_mut(); blocks.clear(); blocks }`, the Yjs behaviour)
pub open spec fn latest(ss: Seq<SecView>, c: ClientID, n: int) -> Seq<Block>
    decreases n,
{
    if n <= 0 {
        Seq::empty()
    } else if ss[n - 1].client == c {
        ss[n - 1].blocks
    } else {
        latest(ss, c, n - 1)
    }
}

/// number of blocks DECODED by the first `n` sections (an upper bound of the number of blocks of the value: replaced
/// sections are counted too)
pub open spec fn total_blocks(ss: Seq<SecView>, n: int) -> int
    decreases n,
{
    if n <= 0 { 0 } else { total_blocks(ss, n - 1) + ss[n - 1].blocks.len() }
}

pub open spec fn runs_ok(ss: Seq<SecView>) -> bool {
    forall|j: int| 0 <= j < ss.len() ==> run_ok((#[trigger] ss[j]).client, ss[j].start, ss[j].blocks)
}

/// the map while the sections are being read: a key for every client named by a section so far (possibly with an empty list)
pub open spec fn map_of(ss: Seq<SecView>, m: Map<ClientID, VecDeque<Block>>) -> bool {
    &&& forall|c: ClientID| #[trigger] m.contains_key(c) ==> m[c]@ == latest(ss, c, ss.len() as int)
    &&& forall|c: ClientID| !(#[trigger] m.contains_key(c)) ==> latest(ss, c, ss.len() as int).len() == 0
}

/// THE RESULT SHAPE (clause (c) of the header comment): the list of client c is the run of c's LAST section; a client whose
/// last section contributed no block is not a key
pub open spec fn sections_of(ss: Seq<SecView>, m: Map<ClientID, VecDeque<Block>>) -> bool {
    &&& runs_ok(ss)
    &&& forall|c: ClientID| #[trigger] m.contains_key(c) <==> latest(ss, c, ss.len() as int).len() > 0
    &&& forall|c: ClientID| #[trigger] m.contains_key(c) ==> m[c]@ == latest(ss, c, ss.len() as int)
}

/// the same, with the section named: every list IS one section's run (consequence of `sections_of`, lemma_sections_exact)
pub open spec fn sections_exact(ss: Seq<SecView>, m: Map<ClientID, VecDeque<Block>>) -> bool {
    forall|c: ClientID| #[trigger] m.contains_key(c) ==> exists|j: int| 0 <= j < ss.len() && (#[trigger] ss[j]).client == c && ss[j].blocks.len() > 0 && m[c]@ == ss[j].blocks
}

pub proof fn lemma_len_sum_prefix(bs: Seq<Block>, b: Block, n: int)
    requires
        n <= bs.len(),
    ensures
        len_sum(bs.push(b), n) == len_sum(bs, n),
    decreases n,
{
    if n > 0 {
        lemma_len_sum_prefix(bs, b, n - 1);
        assert(bs.push(b)[n - 1] == bs[n - 1]);
    }
}

/// one more block at the end of a run, at the running clock
pub proof fn lemma_run_push(client: ClientID, start: int, bs: Seq<Block>, b: Block)
    requires
        run_ok(client, start, bs),
        b.spec_client() == client,
        b.bv().clock == start + len_sum(bs, bs.len() as int),
        b.bv().clock + b.bv().len <= u32::MAX,
        b.bv().len >= 1,
    ensures
        run_ok(client, start, bs.push(b)),
        len_sum(bs.push(b), bs.len() as int + 1) == len_sum(bs, bs.len() as int) + b.bv().len,
{
    let bs2 = bs.push(b);
    assert forall|i: int| 0 <= i < bs2.len() implies {
        &&& (#[trigger] bs2[i]).spec_client() == client
        &&& bs2[i].bv().clock == start + len_sum(bs2, i)
        &&& bs2[i].bv().clock + bs2[i].bv().len <= u32::MAX
        &&& bs2[i].bv().len >= 1
    } by {
        lemma_len_sum_prefix(bs, b, i);
        if i < bs.len() {
            assert(bs2[i] == bs[i]);
        }
    }
    lemma_len_sum_prefix(bs, b, bs.len() as int);
    assert(bs2[bs.len() as int] == b);
}

pub proof fn lemma_latest_prefix(ss: Seq<SecView>, x: SecView, c: ClientID, n: int)
    requires
        n <= ss.len(),
    ensures
        latest(ss.push(x), c, n) == latest(ss, c, n),
        total_blocks(ss.push(x), n) == total_blocks(ss, n),
    decreases n,
{
    if n > 0 {
        lemma_latest_prefix(ss, x, c, n - 1);
        assert(ss.push(x)[n - 1] == ss[n - 1]);
    }
}

/// the map after one more section: the entry of the section's client is (re)placed by the section's run
pub proof fn lemma_section_done(ss: Seq<SecView>, m0: Map<ClientID, VecDeque<Block>>, m1: Map<ClientID, VecDeque<Block>>, x: SecView, q: VecDeque<Block>)
    requires
        map_of(ss, m0),
        runs_ok(ss),
        run_ok(x.client, x.start, x.blocks),
        m1 == m0.insert(x.client, q),
        q@ == x.blocks,
    ensures
        map_of(ss.push(x), m1),
        runs_ok(ss.push(x)),
        total_blocks(ss.push(x), ss.len() as int + 1) == total_blocks(ss, ss.len() as int) + x.blocks.len(),
{
    let ss2 = ss.push(x);
    let n = ss.len() as int;
    assert(ss2[n] == x);
    assert forall|c: ClientID| true implies latest(ss2, c, n + 1) == (if c == x.client { x.blocks } else { latest(ss, c, n) }) by {
        lemma_latest_prefix(ss, x, c, n);
    }
    lemma_latest_prefix(ss, x, x.client, n);
    assert forall|c: ClientID| #[trigger] m1.contains_key(c) implies m1[c]@ == latest(ss2, c, ss2.len() as int) by {
        if c != x.client {
            assert(m0.contains_key(c));
        }
    }
    assert forall|c: ClientID| !(#[trigger] m1.contains_key(c)) implies latest(ss2, c, ss2.len() as int).len() == 0 by {
        assert(c != x.client);
        assert(!m0.contains_key(c));
    }
    assert forall|j: int| 0 <= j < ss2.len() implies run_ok((#[trigger] ss2[j]).client, ss2[j].start, ss2[j].blocks) by {
        if j < n {
            assert(ss2[j] == ss[j]);
        }
    }
}

/// the run of the last section of a client is empty or IS one section's run
pub proof fn lemma_latest_is_section(ss: Seq<SecView>, c: ClientID, n: int)
    requires
        0 <= n <= ss.len(),
    ensures
        latest(ss, c, n).len() == 0 || exists|j: int| 0 <= j < n && (#[trigger] ss[j]).client == c && latest(ss, c, n) == ss[j].blocks,
    decreases n,
{
    if n > 0 {
        if ss[n - 1].client == c {
            assert(0 <= n - 1 < n && ss[n - 1].client == c && latest(ss, c, n) == ss[n - 1].blocks);
        } else {
            lemma_latest_is_section(ss, c, n - 1);
            if latest(ss, c, n - 1).len() > 0 {
                let j = choose|j: int| 0 <= j < n - 1 && (#[trigger] ss[j]).client == c && latest(ss, c, n - 1) == ss[j].blocks;
                assert(0 <= j < n && ss[j].client == c && latest(ss, c, n) == ss[j].blocks);
            }
        }
    }
}

/// a run is contiguous in the sense of unit upd
pub proof fn lemma_run_contiguous(client: ClientID, start: int, bs: Seq<Block>)
    requires
        run_ok(client, start, bs),
    ensures
        list_contiguous(views(bs)),
        bs.len() > 0 ==> views(bs)[0].clock == start,
{
    let s = views(bs);
    assert forall|i: int, j: int| 0 <= i && j == i + 1 && j < s.len() implies end_of(#[trigger] s[i]) == (#[trigger] s[j]).clock by {
        assert(s[i] == bs[i].bv() && s[j] == bs[j].bv());
        assert(len_sum(bs, j) == len_sum(bs, i) + bs[i].bv().len);
    }
    if bs.len() > 0 {
        assert(s[0] == bs[0].bv());
        assert(len_sum(bs, 0) == 0);
    }
}

/// COROLLARY of the shape (UNCONDITIONAL: a repeated section replaces the earlier one, so every list is ONE run): unit upd's
/// representation invariant `upd_wf` (`upd_ok` + per client CONTIGUOUS, from the section's clock header on), no empty list, no
/// empty block, every block under its own client
pub proof fn lemma_sections_exact(ss: Seq<SecView>, m: Map<ClientID, VecDeque<Block>>)
    requires
        sections_of(ss, m),
    ensures
        sections_exact(ss, m),
        upd_wf(m),
        upd_ok(m),
        no_empty_list(m),
        keys_match(m),
        all_len_pos(m),
{
    let n = ss.len() as int;
    assert forall|c: ClientID| #[trigger] m.contains_key(c) implies
        (exists|j: int| 0 <= j < ss.len() && (#[trigger] ss[j]).client == c && ss[j].blocks.len() > 0 && m[c]@ == ss[j].blocks)
        && list_ok(views(m[c]@)) && list_contiguous(views(m[c]@)) && m[c]@.len() > 0
        && (forall|i: int| 0 <= i < m[c]@.len() ==> (#[trigger] m[c]@[i]).spec_client() == c && m[c]@[i].bv().len >= 1) by {
        lemma_latest_is_section(ss, c, n);
        let j = choose|j: int| 0 <= j < n && (#[trigger] ss[j]).client == c && latest(ss, c, n) == ss[j].blocks;
        let bs = ss[j].blocks;
        assert(run_ok(ss[j].client, ss[j].start, bs));
        lemma_run_contiguous(c, ss[j].start, bs);
        let s = views(bs);
        assert forall|i: int| 0 <= i < s.len() implies 0 <= (#[trigger] s[i]).clock && 0 <= s[i].len && end_of(s[i]) <= u32::MAX && (s[i].kind is Item ==> s[i].len >= 1) by {
            assert(s[i] == bs[i].bv());
        }
    }
}

/// `retain` kept exactly the non-empty lists, unchanged
pub proof fn lemma_retain_done(ss: Seq<SecView>, m0: Map<ClientID, VecDeque<Block>>, m1: Map<ClientID, VecDeque<Block>>)
    requires
        map_of(ss, m0),
        runs_ok(ss),
        forall|c: ClientID| #[trigger] m1.contains_key(c) ==> m0.contains_key(c) && m1[c]@ == m0[c]@ && m0[c]@.len() > 0,
        forall|c: ClientID| #[trigger] m0.contains_key(c) && !m1.contains_key(c) ==> m0[c]@.len() == 0,
    ensures
        sections_of(ss, m1),
{
    let n = ss.len() as int;
    assert forall|c: ClientID| #[trigger] m1.contains_key(c) <==> latest(ss, c, n).len() > 0 by {
        if m1.contains_key(c) {
            assert(m0.contains_key(c));
        } else if m0.contains_key(c) {
            assert(m0[c]@.len() == 0);
        }
    }
}

/// a successful var-int read consumed at least one byte; a failed one only a prefix (lib0: read_post + law_dec_bounded)
pub proof fn lemma_var_progress<T: VarInt>(s0: Seq<u8>)
    ensures
        forall|s1: Seq<u8>, res: Result<T, Error>| #[trigger] read_post(s0, s1, res, T::dec(s0)) ==> suffix_of(s0, s1) && (res is Ok ==> s1.len() < s0.len()),
{
    T::law_dec_bounded(s0);
    lemma_suffix_skip(s0, 0);
    if T::dec(s0) is Some {
        lemma_suffix_skip(s0, T::dec(s0)->Some_0.1);
    }
}

/// consuming a prefix of what is left after consuming a prefix (text of units/dec_comp/env.rs)
pub proof fn lemma_suffix_step(s0: Seq<u8>, s1: Seq<u8>, s2: Seq<u8>)
    requires
        suffix_of(s0, s1),
        suffix_of(s1, s2),
    ensures
        suffix_of(s0, s2),
        s2.len() <= s1.len() <= s0.len(),
{
    lemma_suffix_trans(s0, s1);
    lemma_suffix_len(s0, s1);
    lemma_suffix_len(s1, s2);
}

pub proof fn lemma_suffix_len(s0: Seq<u8>, s1: Seq<u8>)
    requires
        suffix_of(s0, s1),
    ensures
        s1.len() <= s0.len(),
{
    let j = choose|j: nat| j <= s0.len() && s1 == #[trigger] s0.skip(j as int);
    assert(s1.len() == s0.len() - j);
}

// ---------------------------------------------------------------------------------------------
// the decoder (see DECODER MODEL in the header comment)
// ---------------------------------------------------------------------------------------------
pub trait ColumnReads: Read {
    /// the decoder implements version 1 of the update format (everything is read from the one byte stream `rest()`)
    spec fn v1() -> bool;

    /// the unread tokens (ghost; only mentioned by the token clause of content_codec's contract of `decode_block`)
    spec fn toks(&self) -> Seq<Tok>;

    /// real: `Decoder::read_client`.  v1: a u64 var-int of the stream, range-checked by `ClientID::decode`;
    /// v2: `ClientID::decode(self.client_decoder.read_u64()?)` -- a separate RLE column, `rest()` untouched
    fn read_client(&mut self) -> (res: Result<ClientID, Error>)
        requires
            old(self).wf(),
        ensures
            final(self).wf(),
            suffix_of(old(self).rest(), final(self).rest()),
            Self::v1() && res is Ok ==> final(self).rest().len() < old(self).rest().len(),
    ;

    /// real: `Decoder::read_info`.  v1: `self.cursor.read_u8()`; v2: `self.info_decoder.read_u8()` (RleDecoder: repeats the
    /// last value `count` times -- or forever -- WITHOUT reading anything)
    fn read_info(&mut self) -> (res: Result<u8, Error>)
        requires
            old(self).wf(),
        ensures
            final(self).wf(),
            suffix_of(old(self).rest(), final(self).rest()),
            Self::v1() && res is Ok ==> final(self).rest().len() < old(self).rest().len(),
    ;

    /// real: `Decoder::read_len`.  v1: a u32 var-int of the stream; v2: `self.len_decoder.read_u64()? as u32` (UIntOptRleDecoder)
    fn read_len(&mut self) -> (res: Result<u32, Error>)
        requires
            old(self).wf(),
        ensures
            final(self).wf(),
            suffix_of(old(self).rest(), final(self).rest()),
            Self::v1() && res is Ok ==> final(self).rest().len() < old(self).rest().len(),
    ;
}

/// the decoders `Update::decode` is generic in (real: `trait Decoder: Read`; the methods this unit's code calls are in `ColumnReads`)
pub trait Decoder: ColumnReads {}

/// a block made for `id`: it carries the id it was given and is NOT EMPTY (Item, GC and Skip alike)
pub open spec fn block_of(b: Block, id: ID) -> bool {
    &&& b.spec_client() == id.client
    &&& b.bv().clock == id.clock
    &&& b.bv().len >= 1
}

// ---- vocabulary of unit content_codec's contract of `decode_block` that this unit does not use, UNINTERPRETED here (no axioms):
// the token clause `block_ok(..)` over the ghost token stream `toks()` of the decoder (`spec fn toks` of `ColumnReads`)
/// opaque here (content_codec: the token alphabet of the block grammar)
pub struct Tok(pub u64);

pub uninterp spec fn block_ok(id: ID, t0: Seq<Tok>, res: Result<Option<Block>, Error>, t1: Seq<Tok>) -> bool;

pub uninterp spec fn vx_toks_of(rest: Seq<u8>) -> Seq<Tok>;

// `Update::decode_block(id, decoder)` (yrs/src/update.rs): STUB of the function PROVED in unit content_codec (label decode_block,
// whole real body, all three arms); contract text cross-checked by the extractor, body dropped.  What `Update::decode` uses:
//   wf / suffix_of     never rewinds, never reads beyond the input, keeps the reader's invariant
//   v1 progress        the first statement is `let info = decoder.read_info()?;`; DecoderV1::read_info is `self.cursor.read_u8()`
//                      (verified below: one byte).  NOT true for DecoderV2 (RLE column), hence the guard `D::v1()` (FINDING F-UD-1)
//   block_of           the block carries the id it was given (`BlockRange::new(id, len)` / `Item::new(id, ..)`) and has len >= 1
//                      (Item: `Item::new` returns None for empty content; Skip / GC: `if len == 0 { return Ok(None); }`)
// `block_ok` (token level) is not used here.  The call `Self::decode_block(id, decoder)` is spelled `decode_block(id, decoder)`
// (SUB, logged: the stub is a free function, as in content_codec).
#[verifier::external_body]
/*@extract yrs/src/update.rs | impl Update | fn decode_block | label=decode_block_stub
@ret res
@sig
    requires
        old(decoder).wf(),
    ensures
        final(decoder).wf(),
        suffix_of(old(decoder).rest(), final(decoder).rest()),
        D::v1() && res is Ok ==> final(decoder).rest().len() < old(decoder).rest().len(),
        res is Ok && res->Ok_0 is Some ==> block_of(res->Ok_0->Some_0, id),
        block_ok(id, old(decoder).toks(), res, final(decoder).toks()),
@*/


/*@extract yrs/src/block.rs | - | const BLOCK_GC_REF_NUMBER @*/
/*@extract yrs/src/block.rs | - | const BLOCK_SKIP_REF_NUMBER @*/

// the Skip and GC arms of the real `decode_block`, lifted (R18) and verified against the same clauses as the stub above
/*@extract yrs/src/update.rs | impl Update | region decode_block | arm=BLOCK_SKIP_REF_NUMBER => | label=decode_block_skip
@header
    fn decode_block_skip<D: Decoder>(id: ID, decoder: &mut D) -> (res: Result<Option<Block>, Error>)
@sig
    requires
        old(decoder).wf(),
    ensures
        final(decoder).wf(),
        suffix_of(old(decoder).rest(), final(decoder).rest()),
        res is Ok ==> final(decoder).rest().len() < old(decoder).rest().len(),
        // Ok(None) for a length of 0 (the guard), otherwise a NON-EMPTY Skip block made for `id`
        res is Ok && res->Ok_0 is Some ==> res->Ok_0->Some_0 is Skip && block_of(res->Ok_0->Some_0, id),
@start
    proof { lemma_var_progress::<u32>(decoder.rest()); }
@*/

/*@extract yrs/src/update.rs | impl Update | region decode_block | arm=BLOCK_GC_REF_NUMBER => | label=decode_block_gc
@header
    fn decode_block_gc<D: Decoder>(id: ID, decoder: &mut D) -> (res: Result<Option<Block>, Error>)
@sig
    requires
        old(decoder).wf(),
    ensures
        final(decoder).wf(),
        suffix_of(old(decoder).rest(), final(decoder).rest()),
        D::v1() && res is Ok ==> final(decoder).rest().len() < old(decoder).rest().len(),
        res is Ok && res->Ok_0 is Some ==> res->Ok_0->Some_0 is GC && block_of(res->Ok_0->Some_0, id),
@*/

// ---------------------------------------------------------------------------------------------
// DecoderV1 (yrs/src/updates/decoder.rs): the real struct and the real bodies of the three column reads, verified against the
// abstract contract of `ColumnReads` (for v1: every successful read consumes at least one byte)
// ---------------------------------------------------------------------------------------------
/*@extract yrs/src/updates/decoder.rs | - | struct DecoderV1 | rules=SUB(from=cursor: Cursor<'a>;;to=pub cursor: Cursor<'a>) @*/

impl<'a> Read for DecoderV1<'a> {
    open spec fn rest(&self) -> Seq<u8> {
        self.cursor.rest()
    }

    open spec fn wf(&self) -> bool {
        self.cursor.wf()
    }

    /*@extract yrs/src/updates/decoder.rs | impl<'a> Read for DecoderV1<'a> | fn read_u8 | label=decoder_v1_read_u8 @*/

    /*@extract yrs/src/updates/decoder.rs | impl<'a> Read for DecoderV1<'a> | fn read_exact | label=decoder_v1_read_exact @*/
}

impl<'a> ColumnReads for DecoderV1<'a> {
    open spec fn v1() -> bool {
        true
    }

    open spec fn toks(&self) -> Seq<Tok> {
        vx_toks_of(self.rest())
    }

    /*@extract yrs/src/updates/decoder.rs | impl<'a> Decoder for DecoderV1<'a> | fn read_client | label=decoder_v1_read_client
    @start
        proof { lemma_var_progress::<u64>(self.rest()); }
    @*/

    /*@extract yrs/src/updates/decoder.rs | impl<'a> Decoder for DecoderV1<'a> | fn read_info | label=decoder_v1_read_info
    @start
        proof { lemma_suffix_skip(self.rest(), 0); if self.rest().len() >= 1 { lemma_suffix_skip(self.rest(), 1); } }
    @*/

    /*@extract yrs/src/updates/decoder.rs | impl<'a> Decoder for DecoderV1<'a> | fn read_len | label=decoder_v1_read_len
    @start
        proof { lemma_var_progress::<u32>(self.rest()); }
    @*/
}

// ---------------------------------------------------------------------------------------------
// trait Decode (text of units/dec_comp/env.rs): the generic part of C10 for every decodable type
// ---------------------------------------------------------------------------------------------
pub trait Decode: Sized {
    fn decode<D: Decoder>(decoder: &mut D) -> (res: Result<Self, Error>)
        requires
            old(decoder).wf(),
        ensures
            final(decoder).wf(),
            suffix_of(old(decoder).rest(), final(decoder).rest()),
            res is Ok ==> final(decoder).rest().len() < old(decoder).rest().len(),
    ;
}

// ---- vocabulary of unit dec_comp's contract of `IdSet::decode`, UNINTERPRETED here (no axioms): the stub below must carry
// the proving unit's contract text; this unit uses none of these clauses
pub type Ent<T> = (Range<u32>, T);
pub type IdItem = (ClientID, Seq<Ent<()>>);

pub uninterp spec fn vx_idset_view(s: IdSet) -> Map<ClientID, Seq<Ent<()>>>;
pub uninterp spec fn ranges_ordered(m: Map<ClientID, Seq<Ent<()>>>) -> bool;
pub uninterp spec fn wf_map(m: Map<ClientID, Seq<Ent<()>>>) -> bool;
pub uninterp spec fn dec_idset(s: Seq<u8>) -> Option<(Seq<IdItem>, nat)>;
pub uninterp spec fn idset_of(items: Seq<IdItem>, m: Map<ClientID, Seq<Ent<()>>>) -> bool;
pub uninterp spec fn vx_idset_enc_ok(s: IdSet) -> bool;

impl View for IdSet {
    type V = Map<ClientID, Seq<Ent<()>>>;

    closed spec fn view(&self) -> Map<ClientID, Seq<Ent<()>>> {
        vx_idset_view(*self)
    }
}

impl IdSet {
    pub closed spec fn enc_ok(&self) -> bool {
        vx_idset_enc_ok(*self)
    }
}

impl Decode for IdSet {
    // proved in unit dec_comp (label idset_decode); contract text cross-checked by the extractor
    #[verifier::external_body]
    /*@extract yrs/src/id_set.rs | impl Decode for IdSet | fn decode | label=idset_decode_stub
    @ret res
    @sig
        ensures
            res is Ok ==> 2 * res->Ok_0@.len() < old(decoder).rest().len() - final(decoder).rest().len(),
            res is Ok ==> ranges_ordered(res->Ok_0@),
            res is Ok ==> res->Ok_0.enc_ok(),
            res is Ok ==> wf_map(res->Ok_0@),
            D::v1() ==> match dec_idset(old(decoder).rest()) {
                Some((items, k)) => res is Ok && idset_of(items, res->Ok_0@) && k <= old(decoder).rest().len() && final(decoder).rest() == old(decoder).rest().skip(k as int),
                None => res is Err,
            },
    @*/
}

// the statement that claims the client's list (`let blocks = match blocks.clients.entry(client) { Entry::Vacant(e) =>
// e.insert(VecDeque::new()), Entry::Occupied(e) => { let blocks = e.into_mut(); blocks.clear(); blocks } };`), lifted on its
// own (R18): whether or not the client already has an entry, the section starts from an EMPTY list (a repeated section
// REPLACES the earlier one) and no other client is touched
/*@extract yrs/src/update.rs | impl Decode for Update | region decode | stmt=stmt:for >> stmt:let blocks ~ entry | stmtnth=1 | tail=blocks | label=upd_decode_claim
@header
    fn upd_decode_claim<'a>(blocks: &'a mut BlockSet, client: ClientID) -> (r: &'a mut VecDeque<Block>)
@sig
    ensures
        r@.len() == 0,
        final(blocks).clients@ == old(blocks).clients@.insert(client, *final(r)),
@*/

/// one round of the inner loop: either no block (empty content) and the clock stays, or ONE block made for the current id is
/// appended at the BACK and the clock advances by its length (without leaving u32: the new clock is a u32)
pub open spec fn step_ok(q0: Seq<Block>, q1: Seq<Block>, id: ID, c1: u32) -> bool {
    ||| q1 == q0 && c1 == id.clock
    ||| q1.len() == q0.len() + 1 && q1 == q0.push(q1.last()) && block_of(q1.last(), id) && c1 == id.clock + q1.last().bv().len
}

// the body of the inner loop (`if let Some(block) = Self::decode_block(id, decoder)? { clock = ..; blocks.push_back(block); }`),
// lifted on its own (R18 statement region) with a contract of its own, so that an edit of the clock arithmetic or of the push
// fails a CONTRACT clause of real code and not only a loop invariant spliced into `decode`
/*@extract yrs/src/update.rs | impl Decode for Update | region decode | stmt=stmt:for >> stmt:for >> stmt:if | stmtnth=1 | tail=Ok(clock) | label=upd_decode_step
@header
    fn upd_decode_step<D: Decoder>(id: ID, decoder: &mut D, mut clock: u32, blocks: &mut VecDeque<Block>) -> (r: Result<u32, Error>)
@sig
    requires
        old(decoder).wf(),
        id.clock == clock,
    ensures
        final(decoder).wf(),
        suffix_of(old(decoder).rest(), final(decoder).rest()),
        D::v1() && r is Ok ==> final(decoder).rest().len() < old(decoder).rest().len(),
        r is Ok ==> step_ok(old(blocks)@, final(blocks)@, id, r->Ok_0),
@*/

/// FINDING F-UD-1, input class: decoders that read block headers from run-length encoded COLUMNS (DecoderV2)
pub open spec fn finding_ud1_column_decoder<D: Decoder>() -> bool {
    !D::v1()
}

/// bytes of the main stream consumed between two reader states
pub open spec fn consumed(s0: Seq<u8>, s1: Seq<u8>) -> int {
    s0.len() - s1.len()
}

/// clauses (c) and (d) of the header comment: `m` is the map made of the sections `ss`, read from `used` bytes of the main stream
pub open spec fn decoded_as(ss: Seq<SecView>, m: Map<ClientID, VecDeque<Block>>, used: int, v1: bool) -> bool {
    &&& sections_of(ss, m)
    // (implied, lemma_sections_exact; stated so that a client of the contract need not re-derive it)
    &&& sections_exact(ss, m)
    // every section took at least two bytes (its block count and its clock header)
    &&& 2 * ss.len() < used
    // v1: ... and every block at least one more (its info byte): the value is linear in the input
    &&& (v1 ==> ss.len() + total_blocks(ss, ss.len() as int) < used)
}

impl Decode for Update {
    /*@extract yrs/src/update.rs | impl Decode for Update | fn decode | label=upd_decode
    @ret res
    @sig
        ensures
            // (c) SHAPE and (d) SIZE, see the header comment
            res is Ok ==> exists|ss: Seq<SecView>| #[trigger] decoded_as(ss, res->Ok_0.blocks.clients@, consumed(old(decoder).rest(), final(decoder).rest()), D::v1()),
            // corollaries (lemma_sections_exact): unit upd's REPRESENTATION INVARIANT `upd_wf` (= `upd_ok` + per client contiguous),
            // unconditionally; `retain`; every block under its own client; no empty block
            res is Ok ==> upd_wf(res->Ok_0.blocks.clients@),
            res is Ok ==> upd_ok(res->Ok_0.blocks.clients@),
            res is Ok ==> no_empty_list(res->Ok_0.blocks.clients@),
            res is Ok ==> keys_match(res->Ok_0.blocks.clients@),
            res is Ok ==> all_len_pos(res->Ok_0.blocks.clients@),
    @start
        let ghost s0 = decoder.rest();
        let ghost mut ss = Seq::<SecView>::empty();
        proof { lemma_var_progress::<u32>(s0); }
    @after 1 `stmt:let clients_len`
        let ghost s1 = decoder.rest();
        proof { lemma_suffix_skip(s1, 0); }
    @loop 1
        invariant
            s0 == old(decoder).rest(),
            decoder.wf(),
            suffix_of(s0, s1),
            s1.len() < s0.len(),
            suffix_of(s1, decoder.rest()),
            suffix_of(s0, decoder.rest()),
            map_of(ss, blocks.clients@),
            runs_ok(ss),
            decoder.rest().len() + 2 * ss.len() <= s1.len(),
            D::v1() ==> decoder.rest().len() + 2 * ss.len() + total_blocks(ss, ss.len() as int) <= s1.len(),
    @loopstart 1
        let ghost sa = decoder.rest();
        let ghost m0 = blocks.clients@;
        proof {
            lemma_var_progress::<u32>(sa);
            lemma_suffix_trans(s0, sa);
            lemma_suffix_trans(s1, sa);
        }
    @after 1 `stmt:let blocks_len`
        let ghost sb = decoder.rest();
        proof {
            lemma_suffix_len(sa, sb);
            lemma_suffix_trans(s0, sb);
            lemma_suffix_trans(s1, sb);
        }
    @after 1 `stmt:let client`
        let ghost sc = decoder.rest();
        proof {
            lemma_suffix_len(sb, sc);
            lemma_suffix_trans(s0, sc);
            lemma_suffix_trans(s1, sc);
            lemma_var_progress::<u32>(sc);
        }
    @after 1 `stmt:let clock`
        let ghost sd = decoder.rest();
        let ghost start = clock as int;
        proof {
            lemma_suffix_len(sc, sd);
            lemma_suffix_skip(sd, 0);
        }
    @after 1 `stmt:let blocks ~ entry`
        proof {
            // vacant or occupied-and-cleared: the section starts from an empty list
            assert(blocks@ =~= Seq::<Block>::empty());
        }
    @loop 2
        invariant
            s0 == old(decoder).rest(),
            decoder.wf(),
            suffix_of(s0, sd),
            suffix_of(s1, sd),
            suffix_of(sd, decoder.rest()),
            run_ok(client, start, blocks@),
            clock == start + len_sum(blocks@, blocks@.len() as int),
            D::v1() ==> decoder.rest().len() + blocks@.len() <= sd.len(),
    @loopstart 2
        let ghost se = decoder.rest();
        let ghost q0 = blocks@;
        let ghost c0 = clock;
        proof {
            lemma_suffix_trans(sd, se);
            lemma_suffix_trans(s0, sd);
            lemma_suffix_trans(s0, se);
        }
    @loopend 2
        proof {
            lemma_suffix_len(se, decoder.rest());
            // one round = `step_ok` (the contract of the lifted step `upd_decode_step`): nothing, or one block at the back
            assert(step_ok(q0, blocks@, ID { client, clock: c0 }, clock));
            if blocks@ != q0 {
                lemma_run_push(client, start, q0, blocks@.last());
            }
        }
    @afterloop 2
        proof {
            let x = SecView { client, start, blocks: blocks@ };
            lemma_section_done(ss, m0, m0.insert(client, *blocks), x, *blocks);
            lemma_suffix_trans(s0, sd);
            lemma_suffix_trans(s1, sd);
            lemma_suffix_len(sd, decoder.rest());
            ss = ss.push(x);
        }
    @afterloop 1
        let ghost hm1 = blocks.clients;
    @closure 1 `|_c: &ClientID, blocks: &mut VecDeque<Block>| -> (keep: bool)`
        ensures
            keep == (old(blocks)@.len() > 0),
            *final(blocks) == *old(blocks),
    @before 1 `stmt:let delete_set`
        let ghost sf = decoder.rest();
        proof {
            let m1 = hm1@;
            let m2 = blocks.clients@;
            assert forall|c: ClientID| #[trigger] m2.contains_key(c) implies m1.contains_key(c) && m2[c]@ == m1[c]@ && m1[c]@.len() > 0 by {
                assert(blocks.clients.vx_view().contains_key(c));
            }
            assert forall|c: ClientID| #[trigger] m1.contains_key(c) && !m2.contains_key(c) implies m1[c]@.len() == 0 by {
                assert(hm1.vx_view().contains_key(c) && !blocks.clients.vx_view().contains_key(c));
            }
            lemma_retain_done(ss, m1, m2);
            lemma_sections_exact(ss, m2);
            lemma_suffix_trans(s0, sf);
        }
    @after 1 `stmt:let delete_set`
        proof {
            lemma_suffix_len(sf, decoder.rest());
            assert(decoded_as(ss, blocks.clients@, consumed(s0, decoder.rest()), D::v1()));
            // (the witness has to be seen through the constructors of the result)
            let rr: Result<Update, Error> = Ok(Update { blocks, delete_set });
            assert(rr->Ok_0.blocks.clients@ == blocks.clients@);
        }
    @*/
}

// FINDING F-UD-1 (see the header comment).  The same function once more (same text, same hints; cf. unit sticky's
// `sticky_index_of_units`), against clause (d) in its v1 strength for EVERY decoder: "the number of sections plus the number
// of blocks of the value is smaller than the number of bytes consumed".  The clause for decoders outside the finding's input
// class is proved; the clause for column decoders (DecoderV2) is the one OPEN obligation of this unit -- it is false:
// a run of GC blocks costs no input bytes there (27 bytes -> 2^32-1 blocks).
/*@extract yrs/src/update.rs | impl Decode for Update | region decode | arm=fn decode<D: Decoder>(decoder: &mut D) -> Result<Self, Error> | label=upd_decode_v2_size
@header
    fn upd_decode_v2_size<D: Decoder>(decoder: &mut D) -> (res: Result<Update, Error>)
@sig
    requires
        old(decoder).wf(),
    ensures
        final(decoder).wf(),
        suffix_of(old(decoder).rest(), final(decoder).rest()),
        !finding_ud1_column_decoder::<D>() ==> (res is Ok ==> exists|ss: Seq<SecView>| #[trigger] decoded_as(ss, res->Ok_0.blocks.clients@, consumed(old(decoder).rest(), final(decoder).rest()), true)),
        // FINDING F-UD-1: the size of the decoded value is not bounded by the size of the input
        finding_ud1_column_decoder::<D>() ==> (res is Ok ==> exists|ss: Seq<SecView>| #[trigger] decoded_as(ss, res->Ok_0.blocks.clients@, consumed(old(decoder).rest(), final(decoder).rest()), true)),
@start
    let ghost s0 = decoder.rest();
    let ghost mut ss = Seq::<SecView>::empty();
    proof { lemma_var_progress::<u32>(s0); }
@after 1 `stmt:let clients_len`
    let ghost s1 = decoder.rest();
    proof { lemma_suffix_skip(s1, 0); }
@loop 1
    invariant
        s0 == old(decoder).rest(),
        decoder.wf(),
        suffix_of(s0, s1),
        s1.len() < s0.len(),
        suffix_of(s1, decoder.rest()),
        suffix_of(s0, decoder.rest()),
        map_of(ss, blocks.clients@),
        runs_ok(ss),
        decoder.rest().len() + 2 * ss.len() <= s1.len(),
        D::v1() ==> decoder.rest().len() + 2 * ss.len() + total_blocks(ss, ss.len() as int) <= s1.len(),
@loopstart 1
    let ghost sa = decoder.rest();
    let ghost m0 = blocks.clients@;
    proof {
        lemma_var_progress::<u32>(sa);
        lemma_suffix_trans(s0, sa);
        lemma_suffix_trans(s1, sa);
    }
@after 1 `stmt:let blocks_len`
    let ghost sb = decoder.rest();
    proof {
        lemma_suffix_len(sa, sb);
        lemma_suffix_trans(s0, sb);
        lemma_suffix_trans(s1, sb);
    }
@after 1 `stmt:let client`
    let ghost sc = decoder.rest();
    proof {
        lemma_suffix_len(sb, sc);
        lemma_suffix_trans(s0, sc);
        lemma_suffix_trans(s1, sc);
        lemma_var_progress::<u32>(sc);
    }
@after 1 `stmt:let clock`
    let ghost sd = decoder.rest();
    let ghost start = clock as int;
    proof {
        lemma_suffix_len(sc, sd);
        lemma_suffix_skip(sd, 0);
    }
@after 1 `stmt:let blocks ~ entry`
    proof {
        // vacant or occupied-and-cleared: the section starts from an empty list
        assert(blocks@ =~= Seq::<Block>::empty());
    }
@loop 2
    invariant
        s0 == old(decoder).rest(),
        decoder.wf(),
        suffix_of(s0, sd),
        suffix_of(s1, sd),
        suffix_of(sd, decoder.rest()),
        run_ok(client, start, blocks@),
        clock == start + len_sum(blocks@, blocks@.len() as int),
        D::v1() ==> decoder.rest().len() + blocks@.len() <= sd.len(),
@loopstart 2
    let ghost se = decoder.rest();
    let ghost q0 = blocks@;
    let ghost c0 = clock;
    proof {
        lemma_suffix_trans(sd, se);
        lemma_suffix_trans(s0, sd);
        lemma_suffix_trans(s0, se);
    }
@loopend 2
    proof {
        lemma_suffix_len(se, decoder.rest());
        // one round = `step_ok` (the contract of the lifted step `upd_decode_step`): nothing, or one block at the back
        assert(step_ok(q0, blocks@, ID { client, clock: c0 }, clock));
        if blocks@ != q0 {
            lemma_run_push(client, start, q0, blocks@.last());
        }
    }
@afterloop 2
    proof {
        let x = SecView { client, start, blocks: blocks@ };
        lemma_section_done(ss, m0, m0.insert(client, *blocks), x, *blocks);
        lemma_suffix_trans(s0, sd);
        lemma_suffix_trans(s1, sd);
        lemma_suffix_len(sd, decoder.rest());
        ss = ss.push(x);
    }
@afterloop 1
    let ghost hm1 = blocks.clients;
@closure 1 `|_c: &ClientID, blocks: &mut VecDeque<Block>| -> (keep: bool)`
    ensures
        keep == (old(blocks)@.len() > 0),
        *final(blocks) == *old(blocks),
@before 1 `stmt:let delete_set`
    let ghost sf = decoder.rest();
    proof {
        let m1 = hm1@;
        let m2 = blocks.clients@;
        assert forall|c: ClientID| #[trigger] m2.contains_key(c) implies m1.contains_key(c) && m2[c]@ == m1[c]@ && m1[c]@.len() > 0 by {
            assert(blocks.clients.vx_view().contains_key(c));
        }
        assert forall|c: ClientID| #[trigger] m1.contains_key(c) && !m2.contains_key(c) implies m1[c]@.len() == 0 by {
            assert(hm1.vx_view().contains_key(c) && !blocks.clients.vx_view().contains_key(c));
        }
        lemma_retain_done(ss, m1, m2);
        lemma_sections_exact(ss, m2);
        lemma_suffix_trans(s0, sf);
    }
@after 1 `stmt:let delete_set`
    proof {
        lemma_suffix_len(sf, decoder.rest());
        assert(decoded_as(ss, blocks.clients@, consumed(s0, decoder.rest()), D::v1()));
        // (the witness has to be seen through the constructors of the result)
        let rr: Result<Update, Error> = Ok(Update { blocks, delete_set });
        assert(rr->Ok_0.blocks.clients@ == blocks.clients@);
    }
@*/

} // verus!
fn main() {}
