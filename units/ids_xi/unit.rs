// unit `ids_xi` — IdRanges<T> (yrs/src/ids.rs, yrs/src/id_set.rs) under contract.  Serves C16.
// Function bodies are pulled from /repo on every run by vx/extract.py; this file holds only the
// abstraction (view / canonical form), the contracts and the proof hints.
#![allow(unused_imports, unused_variables, unused_mut, dead_code, unused_parens, unused_braces)]
use vstd::prelude::*;

verus! {

/*@rules R1 R2(elem=(Range<u32>, T)) R3 R4 R5 R6 R9 R10 @*/

pub mod vx_base {
    use vstd::prelude::*;
    use core::ops::Range;
    use vstd::std_specs::cmp::PartialEqSpec;

/*@include units/ids_common/base.rs @*/
}

pub mod vx_ids {
    use vstd::prelude::*;
    use core::ops::Range;
    use vstd::std_specs::cmp::PartialEqSpec;
    use super::vx_base::*;

    broadcast use vx_clone_axioms;

/*@include units/ids_common/spec.rs @*/

    // ------------------------------------------------------------------------------------------
    // proof vocabulary shared by exclude / intersect
    // ------------------------------------------------------------------------------------------
    /// the clock position up to which entries `0..k` of `s` reach (0 for k == 0)
    pub open spec fn pos<T>(s: Seq<Ent<T>>, k: int) -> int {
        if k <= 0 { 0 } else { s[k - 1].0.end as int }
    }

    pub open spec fn min2(a: int, b: int) -> int {
        if a < b { a } else { b }
    }

    /// `r` is the finished part of `s \ o` below clock position `p`
    pub open spec fn excl_inv<T, U>(r: Seq<Ent<T>>, s: Seq<Ent<T>>, o: Seq<Ent<U>>, p: int) -> bool {
        &&& forall|c: int| #[trigger] covers(r, c) ==> c < p && covers(s, c) && !covers(o, c)
        &&& forall|c: int| c < p && #[trigger] covers(s, c) && !covers(o, c) ==> covers(r, c)
        &&& forall|c: int| #[trigger] covers(r, c) ==> val_at(r, c) == val_at(s, c)
    }

    /// `r` is the finished part of `s ∩ o` below clock position `p`
    pub open spec fn isect_inv<T: Merge>(r: Seq<Ent<T>>, s: Seq<Ent<T>>, o: Seq<Ent<T>>, p: int) -> bool {
        &&& forall|c: int| #[trigger] covers(r, c) ==> c < p && covers(s, c) && covers(o, c)
        &&& forall|c: int| c < p && #[trigger] covers(s, c) && covers(o, c) ==> covers(r, c)
        &&& forall|c: int| #[trigger] covers(r, c) ==> val_at(r, c).eq_spec(&val_at(s, c).merge_spec(&val_at(o, c)))
    }

    /// a clock below entry `k` that is covered at all is covered by an earlier entry
    pub proof fn lemma_gap<T>(s: Seq<Ent<T>>, k: int, c: int)
        requires
            ranges_ok(s),
            0 <= k < s.len(),
            covers(s, c),
            c < s[k].0.start,
        ensures
            k > 0,
            c < pos(s, k),
    {
        let m = idx_of(s, c);
        assert(0 <= m < s.len() && inr(s[m].0, c));
        if m > k {
            assert(s[k].0.end <= s[m].0.start);
            assert(s[k].0.start < s[k].0.end);
        }
        if m < k - 1 {
            assert(s[m].0.end <= s[k - 1].0.start);
            assert(s[k - 1].0.start < s[k - 1].0.end);
        }
    }

    /// every covered clock lies below the end of the last entry
    pub proof fn lemma_above<T>(s: Seq<Ent<T>>, c: int)
        requires
            ranges_ok(s),
            covers(s, c),
        ensures
            s.len() > 0,
            c < pos(s, s.len() as int),
    {
        let m = idx_of(s, c);
        let n = s.len() - 1;
        assert(0 <= m < s.len() && inr(s[m].0, c));
        if m < n {
            assert(s[m].0.end <= s[n].0.start);
            assert(s[n].0.start < s[n].0.end);
        }
    }

    /// a clock between the entries `0..j` and the entry `j` is not covered
    pub proof fn lemma_not_covered<U>(o: Seq<Ent<U>>, j: int, c: int)
        requires
            ranges_ok(o),
            0 <= j <= o.len(),
            forall|m: int| 0 <= m < j ==> (#[trigger] o[m]).0.end <= c,
            j < o.len() ==> c < o[j].0.start,
        ensures
            !covers(o, c),
    {
        if covers(o, c) {
            let m = idx_of(o, c);
            assert(0 <= m < o.len() && inr(o[m].0, c));
            if m < j {
                assert(o[m].0.end <= c);
            } else if m > j {
                assert(o[j].0.end <= o[m].0.start);
                assert(o[j].0.start < o[j].0.end);
            }
        }
    }

    /// pushing an entry keeps the canonical form
    pub proof fn lemma_push_canon<T: Merge>(r: Seq<Ent<T>>, e: Ent<T>)
        requires
            canon(r),
            e.0.start < e.0.end,
            e.1.wf(),
            r.len() > 0 ==> r.last().0.end <= e.0.start && (r.last().0.end == e.0.start ==> !r.last().1.eq_spec(&e.1)),
        ensures
            canon(r.push(e)),
    {
        let r2 = r.push(e);
        let n = r.len() as int;
        lemma_push(r, e);
        assert forall|i: int| 0 <= i < r2.len() implies (#[trigger] r2[i]).0.start < r2[i].0.end by {
            if i < n { assert(r2[i] == r[i]); }
        }
        assert forall|i: int| 0 <= i < r2.len() implies (#[trigger] r2[i]).1.wf() by {
            if i < n { assert(r2[i] == r[i]); }
        }
        assert forall|i: int, j: int| 0 <= i && j == i + 1 && j < r2.len() && (#[trigger] r2[i]).0.end == (#[trigger] r2[j]).0.start implies !r2[i].1.eq_spec(&r2[j].1) by {
            assert(r2[i] == r[i]);
            if j < n {
                assert(r2[j] == r[j]);
            } else {
                assert(r2[j] == e);
                assert(r[i] == r.last());
            }
        }
    }

    /// exclude: a surviving piece `[p, q)` of entry `k` is appended
    pub proof fn lemma_excl_piece<T: Merge, U>(r: Seq<Ent<T>>, s: Seq<Ent<T>>, o: Seq<Ent<U>>, k: int, j: int, p: u32, q: u32, v: T)
        requires
            canon(s),
            ranges_ok(o),
            canon(r),
            0 <= k < s.len(),
            s[k].0.start <= p < q <= s[k].0.end,
            v == s[k].1,
            0 <= j <= o.len(),
            forall|m: int| 0 <= m < j ==> (#[trigger] o[m]).0.end <= p,
            j < o.len() ==> q <= o[j].0.start,
            r.len() > 0 ==> r.last().0.end <= p && (r.last().0.end == p ==> !r.last().1.eq_spec(&v)),
            excl_inv(r, s, o, p as int),
        ensures
            canon(r.push((p..q, v))),
            excl_inv(r.push((p..q, v)), s, o, q as int),
    {
        let e: Ent<T> = (p..q, v);
        let r2 = r.push(e);
        assert(s[k].1.wf());
        lemma_push_canon(r, e);
        lemma_push(r, e);
        assert forall|c: int| #[trigger] covers(r2, c) implies c < q && covers(s, c) && !covers(o, c) by {
            if inr(e.0, c) {
                assert(inr(s[k].0, c));
                lemma_not_covered(o, j, c);
            } else {
                assert(covers(r, c));
            }
        }
        assert forall|c: int| c < q && #[trigger] covers(s, c) && !covers(o, c) implies covers(r2, c) by {
            if c < p {
                assert(covers(r, c));
            } else {
                assert(inr(e.0, c));
            }
        }
        assert forall|c: int| #[trigger] covers(r2, c) implies val_at(r2, c) == val_at(s, c) by {
            if inr(e.0, c) {
                assert(inr(s[k].0, c));
                lemma_idx_unique(s, k, c);
                assert(val_at(r2, c) == e.1);
            } else {
                assert(covers(r, c));
                assert(val_at(r2, c) == val_at(r, c));
            }
        }
    }

    /// intersect: the overlap `[lo, hi)` of entry `k` of `s` and entry `j` of `o` is appended
    pub proof fn lemma_isect_push<T: Merge>(r: Seq<Ent<T>>, s: Seq<Ent<T>>, o: Seq<Ent<T>>, k: int, j: int, lo: u32, hi: u32, v: T)
        requires
            canon(s),
            canon(o),
            canon(r),
            0 <= k < s.len(),
            0 <= j < o.len(),
            s[k].0.start <= lo,
            o[j].0.start <= lo,
            lo < hi,
            hi <= s[k].0.end,
            hi <= o[j].0.end,
            v.wf(),
            v == s[k].1.merge_spec(&o[j].1),
            r.len() > 0 ==> r.last().0.end <= lo && (r.last().0.end == lo ==> !r.last().1.eq_spec(&v)),
            isect_inv(r, s, o, lo as int),
        ensures
            canon(r.push((lo..hi, v))),
            isect_inv(r.push((lo..hi, v)), s, o, hi as int),
    {
        let e: Ent<T> = (lo..hi, v);
        let r2 = r.push(e);
        lemma_push_canon(r, e);
        lemma_push(r, e);
        v.law_eq_refl();
        assert forall|c: int| #[trigger] covers(r2, c) implies c < hi && covers(s, c) && covers(o, c) by {
            if inr(e.0, c) {
                assert(inr(s[k].0, c));
                assert(inr(o[j].0, c));
            } else {
                assert(covers(r, c));
            }
        }
        assert forall|c: int| c < hi && #[trigger] covers(s, c) && covers(o, c) implies covers(r2, c) by {
            if c < lo {
                assert(covers(r, c));
            } else {
                assert(inr(e.0, c));
            }
        }
        assert forall|c: int| #[trigger] covers(r2, c) implies val_at(r2, c).eq_spec(&val_at(s, c).merge_spec(&val_at(o, c))) by {
            if inr(e.0, c) {
                assert(inr(s[k].0, c));
                assert(inr(o[j].0, c));
                lemma_idx_unique(s, k, c);
                lemma_idx_unique(o, j, c);
                assert(val_at(r2, c) == e.1);
            } else {
                assert(covers(r, c));
                assert(val_at(r2, c) == val_at(r, c));
            }
        }
    }

    /// intersect: the overlap `[lo, hi)` is glued to the last entry (adjacent, `==` value)
    pub proof fn lemma_isect_extend<T: Merge>(r: Seq<Ent<T>>, s: Seq<Ent<T>>, o: Seq<Ent<T>>, k: int, j: int, lo: u32, hi: u32, v: T, r2: Seq<Ent<T>>)
        requires
            canon(s),
            canon(o),
            canon(r),
            0 <= k < s.len(),
            0 <= j < o.len(),
            s[k].0.start <= lo,
            o[j].0.start <= lo,
            lo < hi,
            hi <= s[k].0.end,
            hi <= o[j].0.end,
            v == s[k].1.merge_spec(&o[j].1),
            r.len() > 0,
            r.last().0.end == lo,
            r.last().1.eq_spec(&v),
            r2 == r.update(r.len() - 1, (r.last().0.start..hi, r.last().1)),
            isect_inv(r, s, o, lo as int),
        ensures
            canon(r2),
            isect_inv(r2, s, o, hi as int),
    {
        let n = r.len() - 1;
        let l = r[n];
        lemma_extend_last(r, hi, r2);
        assert(l.0.start < l.0.end);
        assert forall|i: int| 0 <= i < r2.len() implies (#[trigger] r2[i]).0.start < r2[i].0.end by {
            if i < n { assert(r2[i] == r[i]); }
        }
        assert forall|i: int| 0 <= i < r2.len() implies (#[trigger] r2[i]).1.wf() by {
            assert(r2[i].1 == r[i].1);
        }
        assert forall|i: int, j: int| 0 <= i && j == i + 1 && j < r2.len() && (#[trigger] r2[i]).0.end == (#[trigger] r2[j]).0.start implies !r2[i].1.eq_spec(&r2[j].1) by {
            assert(r2[i] == r[i]);
            assert(r2[j].1 == r[j].1 && r2[j].0.start == r[j].0.start);
        }
        assert forall|c: int| #[trigger] covers(r2, c) implies c < hi && covers(s, c) && covers(o, c) by {
            if lo <= c {
                assert(inr(s[k].0, c));
                assert(inr(o[j].0, c));
            } else {
                if !covers(r, c) { assert(inr(l.0, c)); assert(inr(r[n].0, c)); }
                assert(covers(r, c));
            }
        }
        assert forall|c: int| c < hi && #[trigger] covers(s, c) && covers(o, c) implies covers(r2, c) by {
            if c < lo {
                assert(covers(r, c));
            } else {
                assert(inr(l.0.start..hi, c));
            }
        }
        assert forall|c: int| #[trigger] covers(r2, c) implies val_at(r2, c).eq_spec(&val_at(s, c).merge_spec(&val_at(o, c))) by {
            if lo <= c {
                assert(inr(l.0.start..hi, c));
                assert(inr(s[k].0, c));
                assert(inr(o[j].0, c));
                lemma_idx_unique(s, k, c);
                lemma_idx_unique(o, j, c);
                assert(val_at(r2, c) == l.1);
            } else {
                if !covers(r, c) { assert(inr(l.0, c)); assert(inr(r[n].0, c)); }
                assert(covers(r, c));
                assert(val_at(r2, c) == val_at(r, c));
            }
        }
    }

    impl<T: Merge> IdRanges<T> {
        /*@extract yrs/src/ids.rs | impl<T: Merge> IdRanges<T> | fn exclude
        @sig
            requires canon(old(self)@), ranges_ok(other@),
            ensures
                canon(final(self)@),
                forall|c: int| covers(final(self)@, c) <==> covers(old(self)@, c) && !covers(other@, c),
                forall|c: int| covers(final(self)@, c) ==> val_at(final(self)@, c) == val_at(old(self)@, c),
        @start
            let ghost s = self@;
            let ghost o = other@;
        @loop 1
            invariant
                self@ == s,
                other@ == o,
                canon(s),
                ranges_ok(o),
                vx_i <= s.len(),
                i <= o.len(),
                canon(result@),
                excl_inv(result@, s, o, pos(s, vx_i as int)),
                forall|m: int| 0 <= m < i ==> (#[trigger] o[m]).0.end <= pos(s, vx_i as int),
                result@.len() > 0 ==> vx_i > 0 && result@.last().0.end <= s[vx_i - 1].0.end
                    && (result@.last().0.end == s[vx_i - 1].0.end ==> result@.last().1 == s[vx_i - 1].1),
            decreases self.0.len() - vx_i,
        @before 1 `stmt:let start`
            let ghost k: int = vx_i - 1;
            proof {
                assert(*range == s[k].0 && *value == s[k].1);
                assert(s[k].0.start < s[k].0.end);
                assert(s[k].1.wf());
                if k > 0 {
                    assert(s[k - 1].0.end <= s[k].0.start);
                    assert(coalesced(s));
                    assert(s[k - 1].0.end == s[k].0.start ==> !s[k - 1].1.eq_spec(&s[k].1));
                }
                assert(pos(s, k) <= s[k].0.start);
                assert forall|c: int| pos(s, k) <= c < s[k].0.start implies !covers(s, c) by {
                    if covers(s, c) { lemma_gap(s, k, c); }
                }
                assert(excl_inv(result@, s, o, s[k].0.start as int));
            }
        @loop 2
            invariant
                other@ == o,
                i <= o.len(),
                forall|m: int| 0 <= m < i ==> (#[trigger] o[m]).0.end <= start,
            decreases other.len() - i,
        @loop 3
            invariant
                other@ == o,
                canon(s),
                ranges_ok(o),
                0 <= k < s.len(),
                *range == s[k].0,
                *value == s[k].1,
                end == range.end,
                range.start < range.end,
                range.start <= start,
                j <= o.len(),
                canon(result@),
                excl_inv(result@, s, o, min2(start as int, end as int)),
                forall|m: int| 0 <= m < j ==> (#[trigger] o[m]).0.end <= min2(start as int, end as int),
                result@.len() > 0 ==> result@.last().0.end <= min2(start as int, end as int)
                    && (result@.last().0.end == start ==> !result@.last().1.eq_spec(value))
                    && (result@.last().0.end > range.start ==> result@.last().1 == *value),
            ensures
                start >= end || j >= o.len() || o[j as int].0.start >= end,
            decreases other.len() - j,
        @before 3 `stmt:if`
            let ghost r0 = result@;
            let ghost p0 = start;
            proof {
                assert(*other_range == o[j as int].0);
                assert(o[j as int].0.start < o[j as int].0.end);
            }
        @after 1 `stmt:call push`
            proof {
                assert(result@ == r0.push((start..other_range.start, *value)));
                lemma_excl_piece(r0, s, o, k, j as int, start, other_range.start, *value);
            }
        @after 1 `stmt:assign start`
            proof {
                let q = if other_range.start > p0 { other_range.start as int } else { p0 as int };
                let p1 = min2(start as int, end as int);
                assert(excl_inv(result@, s, o, q));
                assert(q <= p1);
                assert forall|c: int| q <= c < p1 implies covers(o, c) by {
                    assert(inr(o[j as int].0, c));
                }
                assert(excl_inv(result@, s, o, p1));
            }
        @before 5 `stmt:if`
            let ghost r1 = result@;
        @after 2 `stmt:call push`
            proof {
                assert(result@ == r1.push((start..end, *value)));
                lemma_excl_piece(r1, s, o, k, j as int, start, end, *value);
            }
        @after 2 `stmt:assign i`
            proof {
                assert(pos(s, vx_i as int) == end);
            }
        @end
            proof {
                assert forall|c: int| covers(s, c) implies c < pos(s, s.len() as int) by {
                    lemma_above(s, c);
                }
            }
        @*/

        /*@extract yrs/src/ids.rs | impl<T: Merge> IdRanges<T> | fn intersect
        @sig
            requires canon(old(self)@), canon(other@),
            ensures
                canon(final(self)@),
                forall|c: int| covers(final(self)@, c) <==> covers(old(self)@, c) && covers(other@, c),
                forall|c: int| covers(final(self)@, c) ==> #[trigger] val_at(final(self)@, c).eq_spec(&val_at(old(self)@, c).merge_spec(&val_at(other@, c))),
        @start
            let ghost s = self@;
            let ghost o = other@;
            proof { T::law_obeys_eq(); }
        @loop 1
            invariant
                self@ == s,
                other@ == o,
                canon(s),
                canon(o),
                T::obeys_eq_spec(),
                vx_i <= s.len(),
                i <= o.len(),
                canon(result@),
                isect_inv(result@, s, o, pos(s, vx_i as int)),
                forall|m: int| 0 <= m < i ==> (#[trigger] o[m]).0.end <= pos(s, vx_i as int),
                result@.len() > 0 ==> result@.last().0.end <= pos(s, vx_i as int),
            decreases self.0.len() - vx_i,
        @after 1 `stmt:assign vx_i`
            let ghost k: int = vx_i - 1;
            proof {
                assert(*range == s[k].0 && *value == s[k].1);
                assert(s[k].0.start < s[k].0.end);
                assert(s[k].1.wf());
                if k > 0 {
                    assert(s[k - 1].0.end <= s[k].0.start);
                }
                assert(pos(s, k) <= s[k].0.start);
                assert forall|c: int| pos(s, k) <= c < s[k].0.start implies !covers(s, c) by {
                    if covers(s, c) { lemma_gap(s, k, c); }
                }
                assert(isect_inv(result@, s, o, s[k].0.start as int));
            }
        @loop 2
            invariant
                other@ == o,
                i <= o.len(),
                forall|m: int| 0 <= m < i ==> (#[trigger] o[m]).0.end <= range.start,
            decreases other.len() - i,
        @after 1 `stmt:let j`
            let ghost mut p: int = range.start as int;
        @loop 3
            invariant_except_break
                p > range.start && j < o.len() ==> p <= o[j as int].0.start,
            invariant
                other@ == o,
                canon(s),
                canon(o),
                T::obeys_eq_spec(),
                0 <= k < s.len(),
                *range == s[k].0,
                *value == s[k].1,
                range.start < range.end,
                range.start <= p <= range.end,
                j <= o.len(),
                canon(result@),
                isect_inv(result@, s, o, p),
                forall|m: int| 0 <= m < j ==> (#[trigger] o[m]).0.end <= p,
                result@.len() > 0 ==> result@.last().0.end <= p,
            ensures
                j >= o.len() || o[j as int].0.start >= range.end || p == range.end,
            decreases other.len() - j,
        @before 1 `stmt:let lo`
            proof {
                assert(*other_range == o[j as int].0 && *other_value == o[j as int].1);
                assert(o[j as int].0.start < o[j as int].0.end);
                assert(o[j as int].1.wf());
                if j + 1 < o.len() {
                    assert(o[j as int].0.end <= o[j + 1].0.start);
                }
            }
        @before 3 `stmt:if`
            let ghost r0 = result@;
            proof {
                if lo < hi {
                    assert(p <= lo);
                    assert forall|c: int| p <= c < lo implies !covers(o, c) by {
                        lemma_not_covered(o, j as int, c);
                    }
                    assert(isect_inv(r0, s, o, lo as int));
                }
            }
        @after 1 `stmt:assign last`
            proof {
                let n = r0.len() - 1;
                assert(result@ =~= r0.update(n, (r0[n].0.start..hi, r0[n].1)));
                lemma_isect_extend(r0, s, o, k, j as int, lo, hi, merged, result@);
                p = hi as int;
            }
        @after 1 `stmt:call push`
            proof {
                assert(result@ == r0.push((lo..hi, merged)));
                lemma_isect_push(r0, s, o, k, j as int, lo, hi, merged);
                p = hi as int;
            }
        @after 2 `stmt:call push`
            proof {
                assert(result@ == r0.push((lo..hi, merged)));
                lemma_isect_push(r0, s, o, k, j as int, lo, hi, merged);
                p = hi as int;
            }
        @after 2 `stmt:assign i`
            proof {
                assert forall|c: int| p <= c < range.end implies !covers(o, c) by {
                    lemma_not_covered(o, j as int, c);
                }
                assert(isect_inv(result@, s, o, range.end as int));
                assert(pos(s, vx_i as int) == range.end);
            }
        @end
            proof {
                assert forall|c: int| covers(s, c) implies c < pos(s, s.len() as int) by {
                    lemma_above(s, c);
                }
            }
        @*/
    }
}

} // verus!
fn main() {}
