// unit `undo_capture` -- the CAPTURE side of the undo manager (yrs/src/undo.rs).  Serves C12 (capture mechanism only).
//   UndoManager::should_skip                 whole function
//   UndoManager::handle_after_transaction    every statement, lifted as CONSECUTIVE statement regions (R18) S1-S5 | S6-S12 | S13-S15 | S16-S20
//   StackItem::{new, with_meta}, Event::{undo, redo}, <UndoStack as Deref / DerefMut>, TransactionMut::{doc, origin}   whole functions
//
// C12: "With an undo manager tracking a set of types and origins, undoing the last k captured steps restores the tracked types to the
// content they had before those steps ... (one undo or redo call reverts one step ...)"; mechanism named by the property: "capture
// after each transaction, grouping by timeout -- UndoManager::handle_after_transaction".  What is decided here is WHAT A STEP IS:
// which transactions are captured, onto which stack, and which of them are grouped into one step.  NOT decided: that undo / redo of a
// step restores the content (UndoManager::undo / redo and the block layer are pointer code).
//
// UNDER CONTRACT (for ALL inputs unless a `requires` is named)
//   UndoManager.should_skip   r == skip_spec: the DECISION TABLE
//                               skip  <=>  (a custom filter is set and rejects the transaction)
//                                      ||  no tracked type is among txn.changed_parent_types            (scope_hit)
//                                      ||  !(match txn.origin { Some(o) => tracked_origins.contains(o), None => tracked_origins.len() == 1 })
//   capture_begin   S1-S5    skipped => NOTHING changes; else last_change' = (undoing ? 0 : last_change), redo stack' = (neither undoing
//                            nor redoing) ? redo stack FILTERED to the items of OTHER documents (this document's items dropped, the
//                            others kept in order) : unchanged; undo stack, scope, options, flags, observers, txn untouched.
//   capture_redo_retain      the body of the retain_mut closure of S5: keep == (item.doc != target), item unchanged.
//   capture_select  S8       the change goes to the redo stack iff undoing (the returned &mut is that field; the other is untouched).
//   capture_extend  S10      for EVERY clock reading (no precondition):
//                            extend == !undoing && !redoing && same_doc && last_change > 0
//                                      && (if now >= last_change { now - last_change } else { 0 }) < capture_timeout_millis
//                            (a clock that runs backwards counts as "no time elapsed"; no arithmetic obligation is left open).
//   capture_core    S6-S12   REQUIRES only the representation invariant of the id sets (wf_map, unit ids_lift).
//                            extend as above with same_doc == (receiving stack non-empty && top.doc == target);
//                            extend  => top item: insertions' = old U txn.insert_set, deletions' = old U txn.delete_set (point sets; wf kept:
//                                       the PROVED contract of IdSet::merge_with, stub cross-checked against unit ids_lift), doc and meta
//                                       unchanged, nothing below changes;
//                            !extend => a new item (txn.doc.guid, txn.delete_set, txn.insert_set, M::default()) is pushed, everything below
//                                       unchanged;  the OTHER stack is untouched;
//                            last_change' = (!undoing && !redoing) ? now : last_change;  the receiving stack is non-empty afterwards.
//   capture_keep    S13-S15  "make sure that deleted structs are not gc'd": terminates, touches nothing of the modelled state (see EXCLUDED).
//   capture_notify  S16-S20  REQUIRES the stack non-empty (capture_core ensures it).  EXACTLY ONE observer -- observer_added if !extend,
//                            observer_updated if extend -- is triggered, ONCE, iff it has subscribers; the event carries the top item's meta,
//                            txn.origin, txn.changed_parent_types, kind Redo iff undoing; the top item's meta afterwards is what the event
//                            carries after the callbacks (unchanged without subscribers); nothing else on the stack changes.
//   lemma_capture_composed   the four region contracts (as relations begin_post / core_post / notify_post, which are ALSO clauses of the
//                            regions' @sig) compose to `captured`: the end-to-end step incl.
//                            last_change' == (if !undoing && !redoing { now } else if undoing { 0 } else { last_change }).
//                            NOT machine-checked: that the regions are consecutive and exhaustive (visible: their line ranges in the
//                            evidence), and that `stack` of S16-S20 is the field S8 selected (same `let` binding in the source).
//   lemma_capture_is_model / lemma_grouped_step_is_union / lemma_timeout_starts_new_step / lemma_backwards_clock_extends
//                            CONSEQUENCE for C12: on point sets, a run t1..tn of captured non-undo transactions of ONE document, t1
//                            starting a new step and each later one captured within the timeout of its predecessor (clock readings > 0;
//                            a reading below the predecessor's counts as no time elapsed), leaves exactly ONE new item whose insertions /
//                            deletions are EXACTLY the unions of the ti's insert / delete sets; a transaction arriving when the timeout has
//                            elapsed starts a new step; one arriving with a clock that ran backwards joins the step on top (timeout > 0).
//
// FINDING F-UC1 -- REPAIRED in /repo (`now.saturating_sub(inner.last_change)`); kept here as history, reproducer kept as a record.
//   Before the repair the line read `&& now - inner.last_change < ..`: an unchecked u64 subtraction of two readings of a USER-SUPPLIED
//   clock (pub field `Options::timestamp: Arc<dyn Clock>`; the default `SystemClock` is SystemTime::now(), documented "non-monotonic").
//   It is the LAST operand of the `&&` chain, so it was evaluated iff !undoing && !redoing && same_doc && last_change > 0; its weakest
//   precondition (then now >= last_change) was established by nothing, and this unit kept the arithmetic obligation of a precondition-
//   free lifting of S10 as its one failing obligation (undo_capture::capture_extend_total::overflow).  Concrete: readings 1000 then 999
//   for two consecutive tracked transactions of one document (capture_timeout_millis = 500): overflow checks on (debug): panic "attempt
//   to subtract with overflow" at undo.rs:270:16 inside TransactionMut::commit / Drop; overflow checks off (release): wrapped to
//   2^64 - 1, extend = false (with capture_timeout_millis = u64::MAX and readings 1000 then 998: grouped).  Reproducer through the
//   public API, with the outputs observed on the unrepaired tree: units/undo_capture/repro/main.rs.  The canaries
//   saturating_sub_to_minus / saturating_sub_to_wrapping re-introduce the two behaviours and must be killed.
// OBSERVATION F-UC2 (decision table x handle_destroy; NOT an obligation of this unit; reproducer repro/multi_doc_destroy_main.rs):
//   a manager tracking two documents has ONE entry (its own origin) in tracked_origins; handle_destroy of EITHER document removes it.
//   From then on should_skip is true for every transaction of the surviving document (origin None: len() == 0, not 1; the manager's own
//   undo / redo transactions: origin no longer contained): later edits are not captured and an undo pushes nothing onto the redo stack
//   (observed: undo stack 1 item instead of 2; after undo, redo stack 0 items).
// OBSERVATION: 0 is the "no previous change" sentinel of last_change: with a clock that reads 0 nothing is ever grouped.
//
// STAND-INS / WHAT IS ASSUMED (trusted items are marked T)
//   Inner<M>        reduced to scope, options, the two stacks, undoing, redoing, last_change, observer_added, observer_updated (DROPPED:
//                   docs, observer_popped, observer_cleared).  In S16-S20 `stack` and `inner` are separate parameters (the statements
//                   after S8 never mention inner.undo_stack / inner.redo_stack: they would not compile against the header otherwise).
//   Options         reduced to capture_timeout_millis, tracked_origins (the real std HashSet, vstd's specification; T: axiom_origin_key_model),
//                   capture_transaction.  `inner.options.timestamp.now()` is the parameter `clock_now` of capture_core (SUB): the clock is
//                   read exactly once per call, its reading is an arbitrary u64.
//   TransactionMut  reduced to doc (guid), origin, changed_parent_types, insert_set, delete_set; `doc()` / `origin()` are the real bodies.
//   Uuid (= Arc<str>), Origin, BranchPtr, ClientID   opaque values with equality (R13); Doc::guid() returns the field (stand-in).
//   Scope           `HashSet<BranchPtr>` as a ghost set; the two iterator-adapter expressions over it are replaced (SUB, the from= text
//                   holds the real closure) by T `ScopeIter::vx_any_in` (== scope_hit: some tracked type is among the changed ones) and
//                   T `ScopeIter::vx_any_parent_of` (pointer code `BranchPtr::is_parent_of`: abstract, no contract).
//   CaptureTransactionFn   the user's filter: T `vx_call` returns the uninterpreted `filter_accepts(f, txn)` (SUB of `capture_transaction(txn)`).
//   Observer<M>     as in unit updlog: the number of callbacks and a ghost log of the `trigger` calls; `has_subscribers` stand-in for
//                   `!self.callbacks.is_empty()`; T `vx_trigger(txn, &mut event)` (SUB; from= holds the real closure `|fun| fun(txn, &mut
//                   event)`) logs (event before, event after) once; the callbacks may rewrite the event arbitrarily.  NOTE: the real
//                   `trigger` first drops callbacks whose Subscription was dropped, `has_subscribers` counts them: "triggered" is one
//                   `trigger` call, not "some callback ran".
//   Vec::retain_mut T `VxVecApi::vx_retain_mut(Ghost(p), f)`: std's documented contract for closures that decide by a predicate `p` of the
//                   element and leave it unchanged (both PRECONDITIONS on the closure's contract); the SUB inserts
//                   `Ghost(other_doc(target))` in front of the real closure, which is verified against it.
//   std::mem::take  T assume_specification (returns the old value, leaves a default).   Clone for IdSet: T (A3, derived; `r@ == self@`).
//   Meta            `pub trait Meta: Default {}` + blanket impl (the non-`sync` variant), written out.
//   IdSet           the real struct over the shared ids_common vocabulary; IdSet::merge_with is a STUB of unit ids_lift's proved
//                   contract (text cross-checked; body dropped).
// EXCLUDED (pointer code), AND HOW IT IS PINNED: the two `while let Some(slice) = deleted.next(txn) { .. item.keep(flag) .. }` loops (S5's
//   closure: keep(false) over the dropped redo item's deletions; S13-S15: keep(true) over txn.delete_set) stay in the verified text AS
//   THEY ARE, over abstract callees (T, no contract: IdSet::blocks, Blocks::next -- only "the iterator is finite" --, BlockSlice::as_item,
//   ItemPtr::keep, vx_any_parent_of).  Verified: they terminate and touch nothing of the modelled state.  NOT decided: WHICH items get /
//   lose the keep flag (an edit of a flag or of the iterated set is not detected).
#![allow(unused_imports, unused_variables, unused_mut, dead_code, unused_parens, unused_braces, unused_assignments)]
use vstd::prelude::*;
use std::collections::HashMap;
use std::collections::HashSet;
use std::collections::BTreeMap;
use std::ops::{Deref, DerefMut};
use core::ops::Range;
use vstd::std_specs::cmp::PartialEqSpec;
use vstd::std_specs::btree::*;
use vstd::std_specs::hash::*;

verus! {

/*@rules R1 R2(elem=(Range<u32>, T)) R3 R4 R5 R6 R9 R10
   SUB(from=.any(|parent| txn.changed_parent_types.contains(parent));;to=.vx_any_in(&txn.changed_parent_types))
   SUB(from=.any(|b| b.is_parent_of(Some(item)));;to=.vx_any_parent_of(Some(item)))
   SUB(from=!capture_transaction(txn);;to=!capture_transaction.vx_call(txn))
   SUB(from=.trigger(|fun| fun(txn, &mut event));;to=.vx_trigger(txn, &mut event))
   SUB(from=.retain_mut;;to=.vx_retain_mut)
   SUB(from=|stack_item| {;;to=Ghost(other_doc::<M>(target)), |stack_item| {)
   SUB(from=inner.options.timestamp.now();;to=clock_now)
@*/

#[derive(PartialEq, Eq, PartialOrd, Ord, Structural, Clone, Copy, Hash)]
pub struct ClientID(pub u64);

/// `Origin` (transaction.rs: a SmallVec of bytes with derived Eq / Hash): an opaque value with equality, used as a hash-set key
#[derive(PartialEq, Eq, Structural, Copy, Hash)]
pub struct Origin(pub u64);

/// `#[derive(Clone)]`, written out
impl Clone for Origin {
    fn clone(&self) -> (r: Self)
        ensures r == *self,
    {
        Origin(self.0)
    }
}

pub mod vx_trusted {
    use vstd::prelude::*;
    use vstd::std_specs::hash::*;
    use super::ClientID;
    use super::Origin;

    /// A4: the derived `Hash` and `Eq` of ClientID agree, i.e. ClientID is a lawful std map key
    #[verifier::external_body] pub broadcast proof fn axiom_client_id_key_model()
        ensures
            #[trigger] obeys_key_model::<ClientID>(),
    {
    }

    /// A4: the derived `Hash` and `Eq` of Origin agree, i.e. Origin is a lawful std::collections::HashSet key
    #[verifier::external_body] pub broadcast proof fn axiom_origin_key_model()
        ensures
            #[trigger] obeys_key_model::<Origin>(),
    {
    }
}
use vx_trusted::*;

pub mod vx_base {
    use vstd::prelude::*;
    use core::ops::Range;
    use vstd::std_specs::cmp::PartialEqSpec;

/*@include units/ids_common/base.rs @*/
}
use vx_base::*;

broadcast use {axiom_client_id_key_model, axiom_origin_key_model, vx_clone_axioms};

/*@include units/ids_common/spec.rs @*/

/*@extract yrs/src/ids.rs | - | struct IdMapInner @*/

/*@extract yrs/src/id_set.rs | - | type IdRange @*/

/*@extract yrs/src/id_set.rs | - | struct IdSet @*/

impl<T: Merge> IdMapInner<T> {
    pub closed spec fn view(&self) -> Map<ClientID, Seq<Ent<T>>> {
        lift(self.0@)
    }
}

impl IdSet {
    pub open spec fn view(&self) -> Map<ClientID, Seq<Ent<()>>> {
        self.0@
    }
}

// ---- vocabulary copied from unit ids_lift (the stub contract of IdSet::merge_with must be textually that of unit ids_lift)
/// per-client entry sequences
pub open spec fn lift<T>(m: Map<ClientID, IdRanges<T>>) -> Map<ClientID, Seq<Ent<T>>> {
    m.map_values(|r: IdRanges<T>| r@)
}

/// the point (client, clock) is a member
pub open spec fn has_pt<T>(m: Map<ClientID, Seq<Ent<T>>>, client: ClientID, clock: int) -> bool {
    m.contains_key(client) && covers(m[client], clock)
}

/// every per-client entry is canonical
pub open spec fn canon_all<T: Merge>(m: Map<ClientID, Seq<Ent<T>>>) -> bool {
    forall|c: ClientID| #[trigger] m.contains_key(c) ==> canon(m[c])
}

/// "empty IdRanges entries are never stored in the map"
pub open spec fn no_empty_entry<T>(m: Map<ClientID, Seq<Ent<T>>>) -> bool {
    forall|c: ClientID| #[trigger] m.contains_key(c) ==> m[c].len() > 0
}

/// representation invariant of an IdSet (unit ids_lift)
pub open spec fn wf_map<T: Merge>(m: Map<ClientID, Seq<Ent<T>>>) -> bool {
    canon_all(m) && no_empty_entry(m)
}

/// `r` is the union of `a` and `b` for one client (the postcondition of IdRanges::merge)
pub open spec fn seq_merged<T: Merge>(a: Seq<Ent<T>>, b: Seq<Ent<T>>, r: Seq<Ent<T>>) -> bool {
    &&& canon(r)
    &&& forall|k: int| #![trigger covers(r, k)] #![trigger covers(a, k)] #![trigger covers(b, k)] covers(r, k) <==> covers(a, k) || covers(b, k)
    &&& forall|k: int| covers(a, k) && !covers(b, k) ==> #[trigger] val_at(r, k).eq_spec(&val_at(a, k))
    &&& forall|k: int| !covers(a, k) && covers(b, k) ==> #[trigger] val_at(r, k).eq_spec(&val_at(b, k))
    &&& forall|k: int| covers(a, k) && covers(b, k) ==> #[trigger] val_at(r, k).eq_spec(&val_at(a, k).merge_spec(&val_at(b, k)))
}

/// client `c` of `r` is the union of client `c` of `a` and of `b`
pub open spec fn client_merged<T: Merge>(a: Map<ClientID, Seq<Ent<T>>>, b: Map<ClientID, Seq<Ent<T>>>, r: Map<ClientID, Seq<Ent<T>>>, c: ClientID) -> bool {
    if !b.contains_key(c) {
        r.contains_key(c) == a.contains_key(c) && (a.contains_key(c) ==> r[c] == a[c])
    } else if !a.contains_key(c) {
        r.contains_key(c) && r[c] == b[c]
    } else {
        r.contains_key(c) && seq_merged(a[c], b[c], r[c])
    }
}

impl IdSet {
    // proved in unit ids_lift
    #[verifier::external_body]
    /*@extract yrs/src/id_set.rs | impl IdSet | fn merge_with | label=IdSet.merge_with
    @sig
        requires wf_map(old(self)@), wf_map(other@),
        ensures
            wf_map(final(self)@),
            forall|c: ClientID| #[trigger] client_merged(old(self)@, other@, final(self)@, c),
            forall|c: ClientID, k: int| #![trigger has_pt(final(self)@, c, k)] #![trigger has_pt(old(self)@, c, k)] #![trigger has_pt(other@, c, k)]
                has_pt(final(self)@, c, k) <==> has_pt(old(self)@, c, k) || has_pt(other@, c, k),
    @*/
}

/// A3: `#[derive(Clone)]` of IdSet (field-wise; unit ids_lift verifies the written-out Clone of IdMapInner / IdRanges: `r@ == self@`)
impl Clone for IdSet {
    #[verifier::external_body]
    fn clone(&self) -> (r: Self)
        ensures r@ == self@,
    {
        unimplemented!()
    }
}

// ---------------------------------------------------------------------------------------------
// stand-ins of the document layer
// ---------------------------------------------------------------------------------------------
/// R13: `Uuid = Arc<str>` (lib.rs): an opaque value with equality
#[derive(PartialEq, Eq, Structural, Clone, Copy)]
pub struct Uuid(pub u64);

/// `BranchPtr`: a pointer compared by address: an opaque value with equality
#[derive(PartialEq, Eq, Structural, Copy)]
pub struct BranchPtr(pub u64);

/// `#[derive(Clone)]`, written out
impl Clone for BranchPtr {
    fn clone(&self) -> (r: Self)
        ensures r == *self,
    {
        BranchPtr(self.0)
    }
}

/// `Doc`, reduced to its guid.  `guid()` is a stand-in (real: `self.store.options().guid.clone()`)
pub struct Doc {
    pub guid: Uuid,
}

impl Doc {
    pub fn guid(&self) -> (r: Uuid)
        ensures r == self.guid,
    {
        self.guid
    }
}

/// `TransactionMut`, reduced to the fields the capture step reads
pub struct TransactionMut {
    pub doc: Doc,
    pub origin: Option<Origin>,
    pub changed_parent_types: Vec<BranchPtr>,
    pub insert_set: IdSet,
    pub delete_set: IdSet,
}

impl TransactionMut {
    /*@extract yrs/src/transaction.rs | impl<'doc> TransactionMut<'doc> | fn doc | label=TransactionMut.doc
    @ret r
    @sig
        ensures r == &self.doc,
    @*/

    /*@extract yrs/src/transaction.rs | impl<'doc> TransactionMut<'doc> | fn origin | label=TransactionMut.origin
    @ret r
    @sig
        ensures r == (match self.origin { Some(o) => Some(&o), None => None::<&Origin> }),
    @*/
}

/// `Inner::scope: HashSet<BranchPtr>`: the tracked types, as a ghost set.  Only reached through iterator adapters with closures
/// (`scope.iter().any(..)`), which are replaced (SUB) by the two stand-in methods of `ScopeIter`.
pub struct Scope {
    pub types: Ghost<Set<BranchPtr>>,
}

pub struct ScopeIter<'a> {
    pub scope: &'a Scope,
}

/// a tracked type is among the types the transaction changed
pub open spec fn scope_hit(scope: Set<BranchPtr>, changed: Seq<BranchPtr>) -> bool {
    exists|b: BranchPtr| scope.contains(b) && #[trigger] changed.contains(b)
}

/// pointer to an Item (pointer code: opaque)
#[derive(Clone, Copy)]
pub struct ItemPtr(pub u64);

impl Scope {
    pub fn iter(&self) -> (r: ScopeIter<'_>)
        ensures r.scope == self,
    {
        ScopeIter { scope: self }
    }
}

impl<'a> ScopeIter<'a> {
    /// `.any(|parent| txn.changed_parent_types.contains(parent))` (std Iterator::any + Vec::contains over pointer equality)
    #[verifier::external_body]
    pub fn vx_any_in(self, changed: &Vec<BranchPtr>) -> (r: bool)
        ensures r == scope_hit(self.scope.types@, changed@),
    {
        unimplemented!()
    }

    /// `.any(|b| b.is_parent_of(Some(item)))`: pointer code (walks the parent chain of the item): abstract, no contract
    #[verifier::external_body]
    pub fn vx_any_parent_of(self, item: Option<ItemPtr>) -> (r: bool)
    {
        unimplemented!()
    }
}

/// `CaptureTransactionFn = Arc<dyn Fn(&TransactionMut) -> bool + ..>`: the user's filter, an uninterpreted predicate
pub struct CaptureTransactionFn(pub u64);

pub uninterp spec fn filter_accepts(f: CaptureTransactionFn, txn: TransactionMut) -> bool;

impl CaptureTransactionFn {
    #[verifier::external_body]
    pub fn vx_call(&self, txn: &TransactionMut) -> (r: bool)
        ensures r == filter_accepts(*self, *txn),
    {
        unimplemented!()
    }
}

// ---------------------------------------------------------------------------------------------
// the undo manager's state
// ---------------------------------------------------------------------------------------------
/*@extract yrs/src/undo.rs | - | struct StackItem | rules=SUB(from=doc: Uuid;;to=pub doc: Uuid) SUB(from=deletions: IdSet;;to=pub deletions: IdSet) SUB(from=insertions: IdSet;;to=pub insertions: IdSet) @*/

/*@extract yrs/src/undo.rs | - | struct UndoStack | rules=SUB(from=(Vec<StackItem<M>>);;to=(pub Vec<StackItem<M>>)) @*/

/*@extract yrs/src/undo.rs | - | enum EventKind @*/

/*@extract yrs/src/undo.rs | - | struct Event | rules=SUB(from=meta: M;;to=pub meta: M) SUB(from=origin: Option<Origin>;;to=pub origin: Option<Origin>) SUB(from=kind: EventKind;;to=pub kind: EventKind) SUB(from=changed_parent_types: Vec<BranchPtr>;;to=pub changed_parent_types: Vec<BranchPtr>) @*/

/// `Options<M>`, reduced (DROPPED: timestamp -- its reading is the parameter `clock_now` of the lifted statements --,
/// init_undo_stack, init_redo_stack)
pub struct Options {
    pub capture_timeout_millis: u64,
    pub tracked_origins: HashSet<Origin>,
    pub capture_transaction: Option<CaptureTransactionFn>,
}

/// one `trigger` of an undo observer: the event as handed to the callbacks and as they left it
pub struct Fired<M> {
    pub before: Event<M>,
    pub after: Event<M>,
}

/// stand-in for `Observer<UndoFn<M>>` (as in unit updlog): the number of callbacks and a ghost log of the `trigger` calls
pub struct Observer<M> {
    pub callbacks: usize,
    pub fired: Ghost<Seq<Fired<M>>>,
}

impl<M> Observer<M> {
    /// real: `!self.callbacks.is_empty()`
    pub fn has_subscribers(&self) -> (r: bool)
        ensures r == (self.callbacks != 0),
    {
        self.callbacks != 0
    }

    /// `trigger(|fun| fun(txn, &mut event))`: every registered callback is called once with the transaction and the event, which
    /// it may change (abstract)
    #[verifier::external_body]
    pub fn vx_trigger(&mut self, txn: &TransactionMut, event: &mut Event<M>)
        ensures
            final(self).fired@ == old(self).fired@.push(Fired { before: *old(event), after: *final(event) }),
    {
        unimplemented!()
    }
}

/// `Inner<M>` (DROPPED: docs, observer_popped, observer_cleared)
pub struct Inner<M> {
    pub scope: Scope,
    pub options: Options,
    pub undo_stack: UndoStack<M>,
    pub redo_stack: UndoStack<M>,
    pub undoing: bool,
    pub redoing: bool,
    pub last_change: u64,
    pub observer_added: Observer<M>,
    pub observer_updated: Observer<M>,
}

/// stand-in for `pub trait Meta: Default {}` + its blanket impl (the `sync` variant adds Send + Sync)
pub trait Meta: Default {}

impl<M: Default> Meta for M {}

pub struct UndoManager<M> {
    pub vx_m: core::marker::PhantomData<M>,
}

impl<M> Deref for UndoStack<M> {
    type Target = Vec<StackItem<M>>;

    /*@extract yrs/src/undo.rs | impl<M> Deref for UndoStack<M> | fn deref | label=UndoStack.deref
    @ret r
    @sig
        ensures r == &self.0,
    @*/
}

impl<M> DerefMut for UndoStack<M> {
    /*@extract yrs/src/undo.rs | impl<M> DerefMut for UndoStack<M> | fn deref_mut | label=UndoStack.deref_mut
    @ret r
    @sig
        ensures *r == old(self).0, final(self).0 == *final(r),
    @*/
}

/// `m` is a value `M::default()` returned
pub open spec fn is_default<M: Default>(m: M) -> bool {
    call_ensures(<M as Default>::default, (), m)
}

impl<M> StackItem<M> {
    /*@extract yrs/src/undo.rs | impl<M> StackItem<M> | fn with_meta | label=StackItem.with_meta
    @ret r
    @sig
        ensures r.doc == doc, r.deletions == deletions, r.insertions == insertions, r.meta == meta,
    @*/
}

impl<M: Default> StackItem<M> {
    /*@extract yrs/src/undo.rs | impl<M: Default> StackItem<M> | fn new | label=StackItem.new
    @ret r
    @sig
        ensures r.doc == doc_id, r.deletions == deletions, r.insertions == insertions, is_default(r.meta),
    @*/
}

impl<M> Event<M> {
    /*@extract yrs/src/undo.rs | impl<M> Event<M> | fn undo | label=Event.undo
    @ret r
    @sig
        ensures r.meta == meta, r.origin == origin, r.changed_parent_types == changed_parent_types, r.kind == EventKind::Undo,
    @*/

    /*@extract yrs/src/undo.rs | impl<M> Event<M> | fn redo | label=Event.redo
    @ret r
    @sig
        ensures r.meta == meta, r.origin == origin, r.changed_parent_types == changed_parent_types, r.kind == EventKind::Redo,
    @*/
}

/// the decision table of `should_skip`
pub open spec fn skip_spec(filter: Option<CaptureTransactionFn>, scope: Set<BranchPtr>, origins: Set<Origin>, txn: TransactionMut) -> bool {
    ||| (filter is Some && !filter_accepts(filter->Some_0, txn))
    ||| !scope_hit(scope, txn.changed_parent_types@)
    ||| !(match txn.origin {
            Some(o) => origins.contains(o),
            None => origins.len() == 1,
        })
}

pub open spec fn skips<M>(inner: Inner<M>, txn: TransactionMut) -> bool {
    skip_spec(inner.options.capture_transaction, inner.scope.types@, inner.options.tracked_origins@, txn)
}

// ---------------------------------------------------------------------------------------------
// the capture step: vocabulary
// ---------------------------------------------------------------------------------------------
pub open spec fn item_wf<M>(it: StackItem<M>) -> bool {
    wf_map(it.deletions@) && wf_map(it.insertions@)
}

/// representation invariant of a stack: every item's id sets are well-formed (unit ids_lift)
pub open spec fn stack_wf<M>(s: Seq<StackItem<M>>) -> bool {
    forall|i: int| 0 <= i < s.len() ==> item_wf(#[trigger] s[i])
}

/// the stack that receives the change: the redo stack iff undoing
pub open spec fn sel<M>(inner: Inner<M>, undoing: bool) -> Seq<StackItem<M>> {
    if undoing { inner.redo_stack.0@ } else { inner.undo_stack.0@ }
}

/// "does the current change and the last one belong to the same doc?"
pub open spec fn same_doc_spec<M>(s: Seq<StackItem<M>>, target: Uuid) -> bool {
    s.len() > 0 && s.last().doc == target
}

/// the time elapsed since the last captured change, for EVERY clock reading: a clock that runs backwards counts as "no time elapsed"
pub open spec fn elapsed(last_change: u64, now: u64) -> int {
    if now >= last_change { now - last_change } else { 0 }
}

/// the grouping decision
pub open spec fn extend_spec(undoing: bool, redoing: bool, same_doc: bool, last_change: u64, now: u64, timeout: u64) -> bool {
    !undoing && !redoing && same_doc && last_change > 0 && elapsed(last_change, now) < timeout
}

/// the point set of `r` is the union of those of `a` and `b`, representation invariant kept
pub open spec fn is_union(a: Map<ClientID, Seq<Ent<()>>>, b: Map<ClientID, Seq<Ent<()>>>, r: Map<ClientID, Seq<Ent<()>>>) -> bool {
    &&& wf_map(r)
    &&& forall|c: ClientID, k: int| #![trigger has_pt(r, c, k)] has_pt(r, c, k) <==> has_pt(a, c, k) || has_pt(b, c, k)
}

/// the top item absorbed the transaction; nothing else on the stack changed
pub open spec fn extended<M>(s0: Seq<StackItem<M>>, s1: Seq<StackItem<M>>, txn: TransactionMut) -> bool {
    &&& s0.len() > 0
    &&& s1.len() == s0.len()
    &&& forall|i: int| 0 <= i < s0.len() - 1 ==> #[trigger] s1[i] == s0[i]
    &&& s1.last().doc == s0.last().doc
    &&& s1.last().meta == s0.last().meta
    &&& is_union(s0.last().insertions@, txn.insert_set@, s1.last().insertions@)
    &&& is_union(s0.last().deletions@, txn.delete_set@, s1.last().deletions@)
}

/// a new item (doc, delete set, insert set, default meta) was pushed; everything below is unchanged
pub open spec fn pushed<M: Default>(s0: Seq<StackItem<M>>, s1: Seq<StackItem<M>>, txn: TransactionMut) -> bool {
    &&& s1.len() == s0.len() + 1
    &&& forall|i: int| 0 <= i < s0.len() ==> #[trigger] s1[i] == s0[i]
    &&& s1.last().doc == txn.doc.guid
    &&& s1.last().deletions@ == txn.delete_set@
    &&& s1.last().insertions@ == txn.insert_set@
    &&& is_default(s1.last().meta)
}


/// the event handed to the observers: the top item's meta, the transaction's origin and changed types, Redo iff undoing
pub open spec fn event_for<M>(e: Event<M>, meta: M, txn: TransactionMut, undoing: bool) -> bool {
    &&& e.meta == meta
    &&& e.origin == txn.origin
    &&& e.changed_parent_types@ == txn.changed_parent_types@
    &&& e.kind == (if undoing { EventKind::Redo } else { EventKind::Undo })
}

pub open spec fn chosen_observer<M>(i: Inner<M>, extend: bool) -> Observer<M> {
    if extend { i.observer_updated } else { i.observer_added }
}

/// exactly one observer -- `observer_added` if !extend, `observer_updated` if extend -- is triggered, once, iff it has subscribers; the
/// top item's meta afterwards is what the event carries after the callbacks; nothing else on the stack changes
pub open spec fn notified<M>(s0: Seq<StackItem<M>>, s1: Seq<StackItem<M>>, i0: Inner<M>, i1: Inner<M>, txn: TransactionMut, undoing: bool, extend: bool) -> bool {
    let o0 = if extend { i0.observer_updated } else { i0.observer_added };
    let o1 = if extend { i1.observer_updated } else { i1.observer_added };
    &&& s1.len() == s0.len()
    &&& forall|i: int| 0 <= i < s0.len() - 1 ==> #[trigger] s1[i] == s0[i]
    &&& s1.last().doc == s0.last().doc
    &&& s1.last().deletions == s0.last().deletions
    &&& s1.last().insertions == s0.last().insertions
    // the other observer is untouched
    &&& (if extend { i1.observer_added == i0.observer_added } else { i1.observer_updated == i0.observer_updated })
    &&& if o0.callbacks != 0 {
            &&& o1.fired@ == o0.fired@.push(o1.fired@.last())
            &&& event_for(o1.fired@.last().before, s0.last().meta, txn, undoing)
            &&& s1.last().meta == o1.fired@.last().after.meta
        } else {
            &&& o1 == o0
            &&& s1.last().meta == s0.last().meta
        }
}

/// the items of other documents
pub open spec fn other_doc<M>(target: Uuid) -> spec_fn(StackItem<M>) -> bool {
    |it: StackItem<M>| it.doc != target
}

/// everything of `Inner` the capture step must not touch
pub open spec fn same_config<M>(a: Inner<M>, b: Inner<M>) -> bool {
    &&& a.scope == b.scope
    &&& a.options == b.options
    &&& a.undoing == b.undoing
    &&& a.redoing == b.redoing
}

pub open spec fn same_observers<M>(a: Inner<M>, b: Inner<M>) -> bool {
    a.observer_added == b.observer_added && a.observer_updated == b.observer_updated
}

// ---------------------------------------------------------------------------------------------
// std / pointer-code stand-ins used by the lifted statements
// ---------------------------------------------------------------------------------------------
/// A2: std `mem::take`: "Replaces dest with the default value of T, returning the previous dest value."
pub assume_specification<T: Default>[ std::mem::take ](dest: &mut T) -> (r: T)
    ensures
        r == *old(dest),
        is_default(*final(dest)),
;

pub trait VxVecApi<T> {
    spec fn vx_view(&self) -> Seq<T>;

    /// A2 (trusted): std `Vec::retain_mut`: "Retains only the elements specified by the predicate, passing a mutable reference to
    /// it.  In other words, remove all elements e such that f(&mut e) returns false.  This method operates in place, visiting each
    /// element exactly once in the original order, and preserves the order of the retained elements."  Stated for closures that
    /// decide by a predicate `p` of the element and leave the element unchanged (both are PRECONDITIONS on the closure's contract).
    fn vx_retain_mut<F: FnMut(&mut T) -> bool>(&mut self, Ghost(p): Ghost<spec_fn(T) -> bool>, f: F)
        requires
            forall|x: &mut T| call_requires(f, (x,)),
            forall|x: &mut T, b: bool| #[trigger] call_ensures(f, (x,), b) ==> b == p(*x) && *final(x) == *x,
        ensures
            final(self).vx_view() == old(self).vx_view().filter(p);
}

impl<T> VxVecApi<T> for Vec<T> {
    open spec fn vx_view(&self) -> Seq<T> { self@ }

    #[verifier::external_body]
    fn vx_retain_mut<F: FnMut(&mut T) -> bool>(&mut self, Ghost(p): Ghost<spec_fn(T) -> bool>, f: F)
    {
        self.retain_mut(f)
    }
}

/// pointer code: `Blocks` (the iterator of `DeleteSet::blocks`), reduced to a termination measure
pub struct Blocks<'a> {
    pub set: &'a IdSet,
    pub vx_left: Ghost<nat>,
}

/// pointer code: a slice of a block
pub struct BlockSlice(pub u64);

impl IdSet {
    /// `<IdSet as DeleteSet>::blocks` (abstract)
    #[verifier::external_body]
    pub fn blocks(&self) -> (r: Blocks<'_>)
    {
        unimplemented!()
    }
}

impl<'a> Blocks<'a> {
    /// `TxnIterator::next` (abstract; the iterator is finite)
    #[verifier::external_body]
    pub fn next(&mut self, txn: &TransactionMut) -> (r: Option<BlockSlice>)
        ensures
            r.is_some() ==> final(self).vx_left@ < old(self).vx_left@,
    {
        unimplemented!()
    }
}

impl BlockSlice {
    /// abstract
    #[verifier::external_body]
    pub fn as_item(&self) -> (r: Option<ItemPtr>)
    {
        unimplemented!()
    }
}

impl ItemPtr {
    /// `ItemPtr::keep`: sets / clears the keep flag of the item and of its ancestors through raw pointers (abstract; the effect is
    /// NOT modelled)
    #[verifier::external_body]
    pub fn keep(&self, keep: bool)
    {
        unimplemented!()
    }
}

impl<M: Meta> UndoManager<M> {
    /*@extract yrs/src/undo.rs | impl<M> UndoManager<M> where M: Meta + 'static, | fn should_skip | label=UndoManager.should_skip
    @ret r
    @sig
        ensures
            r == skips(*inner, *txn),
    @closure 1 `|o: &Origin| -> (b: bool)`
        ensures b == inner.options.tracked_origins@.contains(*o),
    @*/

    // S1-S5: the skip guard, `target` / `undoing` / `redoing`, and `if undoing { last_change = 0 } else if !redoing { clear redo }`
    /*@extract yrs/src/undo.rs | impl<M> UndoManager<M> where M: Meta + 'static, | region handle_after_transaction | stmt=stmt:if | stmtnth=1 | upto=stmt:if ^ undoing | label=capture_begin
    @header
        fn uc_begin(inner: &mut Inner<M>, txn: &mut TransactionMut)
    @sig
        ensures
            // a skipped transaction changes nothing
            skips(*old(inner), *old(txn)) ==> *final(inner) == *old(inner),
            // undoing: "next undo should not be appended to last stack item"
            !skips(*old(inner), *old(txn)) ==> final(inner).last_change == (if old(inner).undoing { 0 } else { old(inner).last_change }),
            // neither undoing nor redoing: every redo item of THIS document is dropped, items of other documents stay, in order
            !skips(*old(inner), *old(txn)) ==> final(inner).redo_stack.0@ == (if !old(inner).undoing && !old(inner).redoing {
                    old(inner).redo_stack.0@.filter(other_doc::<M>(old(txn).doc.guid))
                } else {
                    old(inner).redo_stack.0@
                }),
            final(inner).undo_stack == old(inner).undo_stack,
            same_config(*final(inner), *old(inner)),
            same_observers(*final(inner), *old(inner)),
            *final(txn) == *old(txn),
            // (the clauses above, as the relation lemma_capture_composed takes)
            begin_post(*old(inner), *final(inner), *old(txn)),
    @closure 1 `|stack_item: &mut StackItem<M>| -> (keep: bool)`
        ensures keep == (old(stack_item).doc != target), *final(stack_item) == *old(stack_item),
    @loop 1
        decreases deleted.vx_left@,
    @*/

    // the body of the `retain_mut` closure of S5: the verdict on ONE redo item
    /*@extract yrs/src/undo.rs | impl<M> UndoManager<M> where M: Meta + 'static, | region handle_after_transaction | stmt=stmt:if ^ stack_item.doc | label=capture_redo_retain
    @header
        fn uc_redo_retain(stack_item: &mut StackItem<M>, target: Uuid, scope: &Scope, txn: &mut TransactionMut) -> (keep: bool)
    @sig
        ensures
            // retained iff it belongs to another document
            keep == (old(stack_item).doc != target),
            *final(stack_item) == *old(stack_item),
            *final(txn) == *old(txn),
    @loop 1
        decreases deleted.vx_left@,
    @*/

    // S8: which stack receives the change
    /*@extract yrs/src/undo.rs | impl<M> UndoManager<M> where M: Meta + 'static, | region handle_after_transaction | stmt=stmt:let stack | tail=stack | label=capture_select
    @header
        fn uc_select(inner: &mut Inner<M>, undoing: bool) -> (stack: &mut UndoStack<M>)
    @sig
        ensures
            // the redo stack iff undoing
            stack.0@ == sel(*old(inner), undoing),
            *stack == (if undoing { old(inner).redo_stack } else { old(inner).undo_stack }),
            final(inner).redo_stack == (if undoing { *final(stack) } else { old(inner).redo_stack }),
            final(inner).undo_stack == (if undoing { old(inner).undo_stack } else { *final(stack) }),
            final(inner).last_change == old(inner).last_change,
            same_config(*final(inner), *old(inner)),
            same_observers(*final(inner), *old(inner)),
    @*/

    // S10: the grouping decision, for every clock reading
    /*@extract yrs/src/undo.rs | impl<M> UndoManager<M> where M: Meta + 'static, | region handle_after_transaction | stmt=stmt:let extend | tail=extend | label=capture_extend
    @header
        fn uc_extend(inner: &Inner<M>, undoing: bool, redoing: bool, same_doc: bool, now: u64) -> (extend: bool)
    @sig
        ensures
            extend == extend_spec(undoing, redoing, same_doc, inner.last_change, now, inner.options.capture_timeout_millis),
            extend == (!undoing && !redoing && same_doc && inner.last_change > 0
                && (if now >= inner.last_change { now - inner.last_change } else { 0 }) < inner.options.capture_timeout_millis),
    @*/

    // S6-S12: the capture step proper
    /*@extract yrs/src/undo.rs | impl<M> UndoManager<M> where M: Meta + 'static, | region handle_after_transaction | stmt=stmt:let insertions | until=stmt:let ds | tail=extend | label=capture_core
    @header
        fn uc_core(inner: &mut Inner<M>, txn: &mut TransactionMut, target: Uuid, undoing: bool, redoing: bool, clock_now: u64) -> (extend: bool)
    @sig
        requires
            stack_wf(old(inner).undo_stack.0@),
            stack_wf(old(inner).redo_stack.0@),
            wf_map(old(txn).insert_set@),
            wf_map(old(txn).delete_set@),
        ensures
            extend == extend_spec(undoing, redoing, same_doc_spec(sel(*old(inner), undoing), target), old(inner).last_change, clock_now, old(inner).options.capture_timeout_millis),
            // which stack receives the change: the redo stack iff undoing; the other one is untouched
            undoing ==> final(inner).undo_stack == old(inner).undo_stack,
            !undoing ==> final(inner).redo_stack == old(inner).redo_stack,
            extend ==> extended(sel(*old(inner), undoing), sel(*final(inner), undoing), *old(txn)),
            !extend ==> pushed(sel(*old(inner), undoing), sel(*final(inner), undoing), *old(txn)),
            final(inner).last_change == (if !undoing && !redoing { clock_now } else { old(inner).last_change }),
            stack_wf(final(inner).undo_stack.0@),
            stack_wf(final(inner).redo_stack.0@),
            sel(*final(inner), undoing).len() > 0,
            same_config(*final(inner), *old(inner)),
            same_observers(*final(inner), *old(inner)),
            *final(txn) == *old(txn),
            // (the clauses above, as the relation lemma_capture_composed takes)
            core_post(*old(inner), *final(inner), *old(txn), target, undoing, redoing, clock_now, extend),
    @*/

    // S13-S15: "make sure that deleted structs are not gc'd" (pointer code over abstract callees)
    /*@extract yrs/src/undo.rs | impl<M> UndoManager<M> where M: Meta + 'static, | region handle_after_transaction | stmt=stmt:let ds | upto=stmt:while | uptonth=2 | label=capture_keep
    @header
        fn uc_keep(inner: &mut Inner<M>, txn: &mut TransactionMut)
    @sig
        ensures
            *final(inner) == *old(inner),
            *final(txn) == *old(txn),
    @loop 1
        decreases deleted.vx_left@,
    @*/

    // S16-S20: the notification
    /*@extract yrs/src/undo.rs | impl<M> UndoManager<M> where M: Meta + 'static, | region handle_after_transaction | stmt=after:stmt:while | stmtnth=2 | toend=1 | skip=R4 | label=capture_notify
    @header
        fn uc_notify(stack: &mut UndoStack<M>, inner: &mut Inner<M>, txn: &mut TransactionMut, undoing: bool, extend: bool)
    @sig
        requires
            old(stack).0@.len() > 0,
        ensures
            // which observer: `observer_added` for a new item, `observer_updated` for an extended one; the other one is untouched
            extend ==> final(inner).observer_added == old(inner).observer_added,
            !extend ==> final(inner).observer_updated == old(inner).observer_updated,
            // triggered once iff it has subscribers
            chosen_observer(*final(inner), extend).fired@.len() == chosen_observer(*old(inner), extend).fired@.len()
                + (if chosen_observer(*old(inner), extend).callbacks != 0 { 1int } else { 0int }),
            // the event carries the top item's meta (Redo iff undoing); the top item's meta afterwards is what the event carries then
            chosen_observer(*old(inner), extend).callbacks != 0 ==> event_for(chosen_observer(*final(inner), extend).fired@.last().before, old(stack).0@.last().meta, *old(txn), undoing),
            chosen_observer(*old(inner), extend).callbacks != 0 ==> final(stack).0@.last().meta == chosen_observer(*final(inner), extend).fired@.last().after.meta,
            chosen_observer(*old(inner), extend).callbacks == 0 ==> final(stack).0@.last().meta == old(stack).0@.last().meta,
            // (the clauses above and "nothing else on the stack changes", as the relation lemma_capture_composed takes)
            notified(old(stack).0@, final(stack).0@, *old(inner), *final(inner), *old(txn), undoing, extend),
            final(inner).undo_stack == old(inner).undo_stack,
            final(inner).redo_stack == old(inner).redo_stack,
            final(inner).last_change == old(inner).last_change,
            same_config(*final(inner), *old(inner)),
            *final(txn) == *old(txn),
    @*/
}

// ---------------------------------------------------------------------------------------------
// composition of the lifted statements, and the consequence for C12 ("one step = the union of the grouped transactions")
// ---------------------------------------------------------------------------------------------
/// the postcondition of `capture_begin` (S1-S5) as a relation
pub open spec fn begin_post<M>(i0: Inner<M>, i1: Inner<M>, txn: TransactionMut) -> bool {
    &&& skips(i0, txn) ==> i1 == i0
    &&& !skips(i0, txn) ==> i1.last_change == (if i0.undoing { 0 } else { i0.last_change })
    &&& !skips(i0, txn) ==> i1.redo_stack.0@ == (if !i0.undoing && !i0.redoing { i0.redo_stack.0@.filter(other_doc::<M>(txn.doc.guid)) } else { i0.redo_stack.0@ })
    &&& i1.undo_stack == i0.undo_stack
    &&& same_config(i1, i0)
    &&& same_observers(i1, i0)
}

/// the postcondition of `capture_core` (S6-S12) as a relation
pub open spec fn core_post<M: Default>(i1: Inner<M>, i2: Inner<M>, txn: TransactionMut, target: Uuid, undoing: bool, redoing: bool, now: u64, extend: bool) -> bool {
    &&& extend == extend_spec(undoing, redoing, same_doc_spec(sel(i1, undoing), target), i1.last_change, now, i1.options.capture_timeout_millis)
    &&& undoing ==> i2.undo_stack == i1.undo_stack
    &&& !undoing ==> i2.redo_stack == i1.redo_stack
    &&& extend ==> extended(sel(i1, undoing), sel(i2, undoing), txn)
    &&& !extend ==> pushed(sel(i1, undoing), sel(i2, undoing), txn)
    &&& i2.last_change == (if !undoing && !redoing { now } else { i1.last_change })
    &&& same_config(i2, i1)
    &&& same_observers(i2, i1)
}

/// the postcondition of `capture_notify` (S16-S20) as a relation, with `stack` = the selected stack of `inner`
pub open spec fn notify_post<M>(i2: Inner<M>, i4: Inner<M>, txn: TransactionMut, undoing: bool, extend: bool) -> bool {
    &&& notified(sel(i2, undoing), sel(i4, undoing), i2, i4, txn, undoing, extend)
    &&& undoing ==> i4.undo_stack == i2.undo_stack
    &&& !undoing ==> i4.redo_stack == i2.redo_stack
    &&& i4.last_change == i2.last_change
    &&& same_config(i4, i2)
}

/// there is an intermediate stack `sm` -- `s0` with the transaction absorbed by the top item / pushed as a new item -- from which the
/// notification leads to `s4`
pub open spec fn absorbed_and_notified<M: Default>(s0: Seq<StackItem<M>>, s4: Seq<StackItem<M>>, i0: Inner<M>, i4: Inner<M>, txn: TransactionMut, undoing: bool, extend: bool) -> bool {
    exists|sm: Seq<StackItem<M>>| (if extend { extended(s0, sm, txn) } else { pushed(s0, sm, txn) })
        && #[trigger] notified(sm, s4, i0, i4, txn, undoing, extend)
}

/// THE CAPTURE STEP of a transaction that is not skipped, end to end (`now` = the one reading of the clock)
pub open spec fn captured<M: Default>(i0: Inner<M>, i4: Inner<M>, txn: TransactionMut, now: u64) -> bool {
    let undoing = i0.undoing;
    let redoing = i0.redoing;
    let target = txn.doc.guid;
    // neither undoing nor redoing: every redo item of this document is dropped first
    let redo1 = if !undoing && !redoing { i0.redo_stack.0@.filter(other_doc::<M>(target)) } else { i0.redo_stack.0@ };
    // the receiving stack: the redo stack iff undoing
    let s0 = if undoing { redo1 } else { i0.undo_stack.0@ };
    let extend = extend_spec(undoing, redoing, same_doc_spec(s0, target), if undoing { 0 } else { i0.last_change }, now, i0.options.capture_timeout_millis);
    &&& undoing ==> i4.undo_stack == i0.undo_stack
    &&& !undoing ==> i4.redo_stack.0@ == redo1
    // the top item absorbs the transaction / a new item is pushed; then the observers may rewrite the top item's meta
    &&& absorbed_and_notified(s0, sel(i4, undoing), i0, i4, txn, undoing, extend)
    &&& i4.last_change == (if !undoing && !redoing { now } else if undoing { 0 } else { i0.last_change })
    &&& same_config(i4, i0)
}

/// the lifted statements, run in the order of the source (S1-S5, S6-S12, S13-S15 (no change of the modelled state), S16-S20),
/// give the end-to-end step.  What is NOT machine-checked here: that the regions are consecutive and exhaustive (visible in
/// the evidence: their line ranges), and that `stack` of S16-S20 is the field S8 selected (it is the same `let` binding).
pub proof fn lemma_capture_composed<M: Default>(i0: Inner<M>, i1: Inner<M>, i2: Inner<M>, i4: Inner<M>, txn: TransactionMut, now: u64, extend: bool)
    requires
        !skips(i0, txn),
        begin_post(i0, i1, txn),
        core_post(i1, i2, txn, txn.doc.guid, i0.undoing, i0.redoing, now, extend),
        notify_post(i2, i4, txn, i0.undoing, extend),
    ensures
        captured(i0, i4, txn, now),
{
    let undoing = i0.undoing;
    let redoing = i0.redoing;
    let target = txn.doc.guid;
    let redo1 = if !undoing && !redoing { i0.redo_stack.0@.filter(other_doc::<M>(target)) } else { i0.redo_stack.0@ };
    let s0 = if undoing { redo1 } else { i0.undo_stack.0@ };
    assert(s0 == sel(i1, undoing));
    assert(extend == extend_spec(undoing, redoing, same_doc_spec(s0, target), if undoing { 0 } else { i0.last_change }, now, i0.options.capture_timeout_millis));
    let sm = sel(i2, undoing);
    assert(if extend { extended(s0, sm, txn) } else { pushed(s0, sm, txn) });
    assert(notified(sm, sel(i4, undoing), i0, i4, txn, undoing, extend));
    assert(absorbed_and_notified(s0, sel(i4, undoing), i0, i4, txn, undoing, extend));
    assert(undoing ==> i4.undo_stack == i0.undo_stack);
    assert(!undoing ==> i4.redo_stack.0@ == redo1);
    assert(i4.last_change == (if !undoing && !redoing { now } else if undoing { 0 } else { i0.last_change }));
    assert(same_config(i4, i0));
}

pub type Pt = (ClientID, int);

/// the point set of an IdSet
pub open spec fn pts(m: Map<ClientID, Seq<Ent<()>>>) -> ISet<Pt> {
    ISet::new(|p: Pt| has_pt(m, p.0, p.1))
}

/// an undo step (a stack item without its meta) / the footprint of a transaction: a document and two point sets
pub struct Step {
    pub doc: Uuid,
    pub ins: ISet<Pt>,
    pub del: ISet<Pt>,
}

pub open spec fn step_of_item<M>(it: StackItem<M>) -> Step {
    Step { doc: it.doc, ins: pts(it.insertions@), del: pts(it.deletions@) }
}

pub open spec fn step_of_txn(txn: TransactionMut) -> Step {
    Step { doc: txn.doc.guid, ins: pts(txn.insert_set@), del: pts(txn.delete_set@) }
}

pub open spec fn steps<M>(s: Seq<StackItem<M>>) -> Seq<Step> {
    Seq::new(s.len(), |i: int| step_of_item(s[i]))
}

/// the capture on the receiving stack, on point sets
pub open spec fn capture_model(s: Seq<Step>, extend: bool, t: Step) -> Seq<Step> {
    if extend {
        s.update(s.len() - 1, Step { doc: s.last().doc, ins: s.last().ins + t.ins, del: s.last().del + t.del })
    } else {
        s.push(t)
    }
}

pub open spec fn model_extend(s: Seq<Step>, last_change: u64, t: Step, now: u64, timeout: u64) -> bool {
    extend_spec(false, false, s.len() > 0 && s.last().doc == t.doc, last_change, now, timeout)
}

/// a captured transaction that is neither an undo nor a redo acts on (undo stack as steps, last_change) as the model says
pub proof fn lemma_capture_is_model<M: Default>(i0: Inner<M>, i4: Inner<M>, txn: TransactionMut, now: u64)
    requires
        !i0.undoing,
        !i0.redoing,
        captured(i0, i4, txn, now),
    ensures
        steps(i4.undo_stack.0@) == capture_model(steps(i0.undo_stack.0@),
            model_extend(steps(i0.undo_stack.0@), i0.last_change, step_of_txn(txn), now, i0.options.capture_timeout_millis), step_of_txn(txn)),
        i4.last_change == now,
{
    let s0 = i0.undo_stack.0@;
    let s4 = i4.undo_stack.0@;
    let t = step_of_txn(txn);
    let extend = extend_spec(false, false, same_doc_spec(s0, txn.doc.guid), i0.last_change, now, i0.options.capture_timeout_millis);
    assert(absorbed_and_notified(s0, s4, i0, i4, txn, false, extend));
    let sm = choose|sm: Seq<StackItem<M>>| (if extend { extended(s0, sm, txn) } else { pushed(s0, sm, txn) }) && #[trigger] notified(sm, s4, i0, i4, txn, false, extend);
    if s0.len() > 0 {
        assert(steps(s0).last() == step_of_item(s0.last()));
    }
    assert(model_extend(steps(s0), i0.last_change, t, now, i0.options.capture_timeout_millis) == extend);
    // the observers only touch the meta
    assert(steps(s4) =~= steps(sm)) by {
        assert forall|i: int| 0 <= i < sm.len() implies step_of_item(s4[i]) == step_of_item(sm[i]) by {
            if i < sm.len() - 1 {
                assert(s4[i] == sm[i]);
            }
        }
    }
    if extend {
        let top = Step { doc: steps(s0).last().doc, ins: steps(s0).last().ins + t.ins, del: steps(s0).last().del + t.del };
        assert(pts(sm.last().insertions@) =~= pts(s0.last().insertions@) + pts(txn.insert_set@));
        assert(pts(sm.last().deletions@) =~= pts(s0.last().deletions@) + pts(txn.delete_set@));
        assert(step_of_item(sm.last()) == top);
        assert(steps(sm) =~= steps(s0).update(s0.len() - 1, top)) by {
            assert forall|i: int| 0 <= i < sm.len() - 1 implies steps(sm)[i] == steps(s0)[i] by {
                assert(sm[i] == s0[i]);
            }
        }
    } else {
        assert(step_of_item(sm.last()) == t);
        assert(steps(sm) =~= steps(s0).push(t)) by {
            assert forall|i: int| 0 <= i < s0.len() implies steps(sm)[i] == steps(s0)[i] by {
                assert(sm[i] == s0[i]);
            }
        }
    }
}

/// one captured transaction of the model: its footprint and the clock reading of its capture
pub struct Cap {
    pub t: Step,
    pub now: u64,
}

/// a run of the first `n` captured transactions (neither undo nor redo) of `caps` from (undo stack, last_change)
pub open spec fn run(s: Seq<Step>, last_change: u64, caps: Seq<Cap>, n: int, timeout: u64) -> (Seq<Step>, u64)
    decreases n,
{
    if n <= 0 {
        (s, last_change)
    } else {
        let (s1, lc1) = run(s, last_change, caps, n - 1, timeout);
        let c = caps[n - 1];
        (capture_model(s1, model_extend(s1, lc1, c.t, c.now, timeout), c.t), c.now)
    }
}

pub open spec fn union_ins(caps: Seq<Cap>, n: int) -> ISet<Pt>
    decreases n,
{
    if n <= 0 { ISet::empty() } else { union_ins(caps, n - 1) + caps[n - 1].t.ins }
}

pub open spec fn union_del(caps: Seq<Cap>, n: int) -> ISet<Pt>
    decreases n,
{
    if n <= 0 { ISet::empty() } else { union_del(caps, n - 1) + caps[n - 1].t.del }
}

/// each of the transactions 2..n is captured within the timeout of its predecessor (clock readings > 0; a reading BELOW the
/// predecessor's counts as no time elapsed)
pub open spec fn within_timeout(caps: Seq<Cap>, n: int, timeout: u64) -> bool
    decreases n,
{
    if n <= 1 {
        true
    } else {
        &&& within_timeout(caps, n - 1, timeout)
        &&& caps[n - 2].now > 0
        &&& elapsed(caps[n - 2].now, caps[n - 1].now) < timeout
    }
}

/// C12, capture side: transactions t1..tn of ONE document, the first of which starts a new step (last_change == 0 after
/// `reset()` / an undo, or the timeout has elapsed, or the top item belongs to another document) and each later one captured
/// within the timeout of its predecessor, form exactly ONE step on top of the stack, whose insertions / deletions are exactly
/// the unions of the ti's insert / delete sets
pub proof fn lemma_grouped_step_is_union(s: Seq<Step>, last_change: u64, caps: Seq<Cap>, n: int, timeout: u64, d: Uuid)
    requires
        1 <= n <= caps.len(),
        forall|i: int| 0 <= i < n ==> (#[trigger] caps[i]).t.doc == d,
        !model_extend(s, last_change, caps[0].t, caps[0].now, timeout),
        within_timeout(caps, n, timeout),
    ensures
        run(s, last_change, caps, n, timeout).0 == s.push(Step { doc: d, ins: union_ins(caps, n), del: union_del(caps, n) }),
        run(s, last_change, caps, n, timeout).1 == caps[n - 1].now,
    decreases n,
{
    if n == 1 {
        assert(run(s, last_change, caps, 0, timeout) == (s, last_change));
        assert(union_ins(caps, 0) == ISet::<Pt>::empty());
        assert(union_del(caps, 0) == ISet::<Pt>::empty());
        assert(union_ins(caps, 1) =~= caps[0].t.ins);
        assert(union_del(caps, 1) =~= caps[0].t.del);
        assert(caps[0].t == Step { doc: d, ins: caps[0].t.ins, del: caps[0].t.del });
    } else {
        lemma_grouped_step_is_union(s, last_change, caps, n - 1, timeout, d);
        let (s1, lc1) = run(s, last_change, caps, n - 1, timeout);
        let c = caps[n - 1];
        let top1 = Step { doc: d, ins: union_ins(caps, n - 1), del: union_del(caps, n - 1) };
        assert(s1 == s.push(top1));
        assert(lc1 == caps[n - 2].now);
        assert(s1.len() > 0 && s1.last() == top1);
        assert(c.t.doc == d);
        assert(model_extend(s1, lc1, c.t, c.now, timeout));
        let top = Step { doc: d, ins: union_ins(caps, n), del: union_del(caps, n) };
        assert(top.ins == top1.ins + c.t.ins);
        assert(top.del == top1.del + c.t.del);
        assert(capture_model(s1, true, c.t) =~= s.push(top));
    }
}

/// ... and a transaction that arrives when the timeout has elapsed starts a new step
pub proof fn lemma_timeout_starts_new_step(s: Seq<Step>, last_change: u64, c: Cap, timeout: u64)
    requires
        elapsed(last_change, c.now) >= timeout,
    ensures
        run(s, last_change, seq![c], 1, timeout).0 == s.push(c.t),
{
    assert(seq![c][0] == c);
    assert(run(s, last_change, seq![c], 0, timeout) == (s, last_change));
}

/// ... while a clock that runs BACKWARDS counts as no time elapsed: the transaction joins the step on top (any timeout > 0)
pub proof fn lemma_backwards_clock_extends(s: Seq<Step>, last_change: u64, c: Cap, timeout: u64)
    requires
        s.len() > 0,
        s.last().doc == c.t.doc,
        last_change > 0,
        c.now < last_change,
        timeout > 0,
    ensures
        run(s, last_change, seq![c], 1, timeout).0
            == s.update(s.len() - 1, Step { doc: s.last().doc, ins: s.last().ins + c.t.ins, del: s.last().del + c.t.del }),
{
    assert(seq![c][0] == c);
    assert(run(s, last_change, seq![c], 0, timeout) == (s, last_change));
    assert(model_extend(s, last_change, c.t, c.now, timeout));
}

} // verus!
fn main() {}
