// OBSERVATION of unit undo_capture (should_skip decision table x handle_destroy), multi-document undo manager:
// `expand_scope` inserts the manager's own origin into `tracked_origins` once per document (a set: one entry), `handle_destroy` of
// ANY tracked document removes it.  Afterwards `should_skip` sees `tracked_origins.len() == 0` for a transaction without origin
// (the table wants `== 1`) and does not find the manager's own origin either, so nothing is captured for the documents that are
// still alive.
// Cargo.toml: [dependencies] yrs = { path = "/repo/yrs" } ; run: CARGO_NET_OFFLINE=true cargo run --offline --target-dir /tmp/undo-repro2-target
// OBSERVED (debug build, 2026-09-26):
//   before destroy of d2: undo stack 1 item(s)
//   after destroy of d2, one more edit of d1: undo stack 1 item(s) (2 expected)
//   undo -> true ; d1 text = "b" ; redo stack 0 item(s) (1 expected)
use yrs::undo::Options;
use yrs::{Doc, GetString, Text, Transact, UndoManager};

fn main() {
    let d1 = Doc::new();
    let d2 = Doc::new();
    let t1 = d1.get_or_insert_text("t");
    let t2 = d2.get_or_insert_text("t");
    let mut o: Options<()> = Options::default();
    o.capture_timeout_millis = 0;
    let mut mgr = UndoManager::with_options(o);
    mgr.expand_scope(&d1, &t1);
    mgr.expand_scope(&d2, &t2);
    {
        let mut txn = d1.transact_mut();
        t1.insert(&mut txn, 0, "a");
    }
    println!("before destroy of d2: undo stack {} item(s)", mgr.undo_stack().len());
    d2.destroy(None);
    {
        let mut txn = d1.transact_mut();
        t1.insert(&mut txn, 1, "b");
    }
    println!("after destroy of d2, one more edit of d1: undo stack {} item(s) (2 expected)", mgr.undo_stack().len());
    let undone = mgr.undo_blocking();
    println!("undo -> {} ; d1 text = {:?} ; redo stack {} item(s) (1 expected)", undone, t1.get_string(&d1.transact()), mgr.redo_stack().len());
}
