// RECORD: F-UC1 has been REPAIRED in /repo (`now.saturating_sub(inner.last_change)`); the outputs below were observed on the
// unrepaired tree.  On the repaired tree no case panics and a backward clock step extends the current step (1 item).
// Reproducer for the FINDING of unit undo_capture (property C12, capture mechanism):
// `UndoManager::handle_after_transaction` computes `now - inner.last_change` with an unchecked u64 subtraction, where
// `now = options.timestamp.now()` is a user-supplied clock (default: SystemClock = SystemTime::now(), documented as NON-monotonic).
// If the clock steps backwards between two captured transactions of the same document, the subtraction underflows:
//   debug build  (overflow checks on):  panic "attempt to subtract with overflow" inside the after-transaction callback, i.e. while
//                                       the TransactionMut is being committed (dropped)
//   release build (overflow checks off): wraps to ~2^64, so `extend` is false unless the timeout is huge; with
//                                       capture_timeout_millis = u64::MAX ("always group") and a step back of >= 2 ms it wraps to a
//                                       value < timeout and groups (a step back of exactly 1 ms gives u64::MAX: not grouped)
//
// Cargo.toml: [dependencies] yrs = { path = "/repo/yrs" } ; [profile.release] overflow-checks = false (the default)
// OBSERVED (2026-09-26):
//   debug:   thread 'main' panicked at /repo/yrs/src/undo.rs:270:16: attempt to subtract with overflow   (both backward cases)
//            clock 1000 -> 1001, timeout 500:     undo stack has 1 item(s); after one undo: ""
//   release: clock 1000 -> 999, timeout 500:      no panic; undo stack has 2 item(s); after one undo: "a"
//            clock 1000 -> 998, timeout u64::MAX: no panic; undo stack has 1 item(s); after one undo: ""
//            clock 1000 -> 1001, timeout 500:     undo stack has 1 item(s); after one undo: ""
// run:  CARGO_NET_OFFLINE=true cargo run --offline --target-dir /tmp/undo-repro-target            (debug)
//       CARGO_NET_OFFLINE=true cargo run --offline --release --target-dir /tmp/undo-repro-target  (release)
use std::sync::atomic::{AtomicUsize, Ordering};
use std::sync::Arc;
use yrs::undo::Options;
use yrs::{Doc, GetString, Text, Transact, UndoManager};

fn run(times: &'static [u64], timeout: u64) -> (usize, String) {
    let doc = Doc::new();
    let text = doc.get_or_insert_text("t");
    let idx = Arc::new(AtomicUsize::new(0));
    let i2 = idx.clone();
    let mut o: Options<()> = Options::default();
    o.capture_timeout_millis = timeout;
    // public API: any `Fn() -> u64 + Send + Sync` is a `Clock`
    o.timestamp = Arc::new(move || {
        let k = i2.fetch_add(1, Ordering::SeqCst);
        times[k.min(times.len() - 1)]
    });
    let mut mgr = UndoManager::with_options(o);
    mgr.expand_scope(&doc, &text);
    {
        let mut txn = doc.transact_mut();
        text.insert(&mut txn, 0, "a");
    } // captured at times[0]: new stack item, last_change = times[0]
    {
        let mut txn = doc.transact_mut();
        text.insert(&mut txn, 1, "b");
    } // captured at times[1] < times[0]:  now - last_change underflows
    let n = mgr.undo_stack().len();
    mgr.undo_blocking();
    let s = text.get_string(&doc.transact());
    (n, s)
}

fn main() {
    // clock steps back by 1 ms: last_change = 1000, now = 999
    let r = std::panic::catch_unwind(|| run(&[1000, 999], 500));
    match r {
        Ok((n, s)) => println!("clock 1000 -> 999, timeout 500:      no panic; undo stack has {} item(s); after one undo: {:?}", n, s),
        Err(_) => println!("clock 1000 -> 999, timeout 500:      PANICKED inside the commit of the second transaction"),
    }
    let r = std::panic::catch_unwind(|| run(&[1000, 998], u64::MAX));
    match r {
        Ok((n, s)) => println!("clock 1000 -> 998, timeout u64::MAX: no panic; undo stack has {} item(s); after one undo: {:?}", n, s),
        Err(_) => println!("clock 1000 -> 998, timeout u64::MAX: PANICKED inside the commit of the second transaction"),
    }
    // control: monotone clock within the timeout groups the two transactions into one step
    let (n, s) = run(&[1000, 1001], 500);
    println!("clock 1000 -> 1001, timeout 500:     undo stack has {} item(s); after one undo: {:?}", n, s);
}
