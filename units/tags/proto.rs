// units/tags/proto.rs — SyncMessage / Message framing

/*@extract yrs/src/sync/protocol.rs | - | const MSG_SYNC @*/
/*@extract yrs/src/sync/protocol.rs | - | const MSG_AWARENESS @*/
/*@extract yrs/src/sync/protocol.rs | - | const MSG_AUTH @*/
/*@extract yrs/src/sync/protocol.rs | - | const MSG_QUERY_AWARENESS @*/
/*@extract yrs/src/sync/protocol.rs | - | const PERMISSION_DENIED @*/
/*@extract yrs/src/sync/protocol.rs | - | const PERMISSION_GRANTED @*/
/*@extract yrs/src/sync/protocol.rs | - | const MSG_SYNC_STEP_1 @*/
/*@extract yrs/src/sync/protocol.rs | - | const MSG_SYNC_STEP_2 @*/
/*@extract yrs/src/sync/protocol.rs | - | const MSG_SYNC_UPDATE @*/

/*@extract yrs/src/sync/protocol.rs | - | enum SyncMessage @*/

/*@extract yrs/src/sync/protocol.rs | - | enum Message @*/

// ---- mathematical views of the messages (Vec<u8> / String by their contents)
pub enum SyncV {
    Step1(StateVector),
    Step2(Seq<u8>),
    Update(Seq<u8>),
}

pub enum MsgV {
    Sync(SyncV),
    Auth(Option<Seq<char>>),
    AwarenessQuery,
    Awareness(AwarenessUpdate),
    Custom(u8, Seq<u8>),
}

/// a var-int coded u8 tag (what `write_var(TAG)` emits for a u8 constant and `read_var::<u8>()` reads)
pub open spec fn dec_tag(s: Seq<u8>) -> Option<(u8, nat)> {
    <u8 as VarInt>::dec(s)
}

// ---- SyncMessage: the wire format ...
pub open spec fn enc_sync(m: SyncV) -> Seq<u8> {
    match m {
        SyncV::Step1(sv) => enc_uint(0) + enc_buf(sv_enc(sv)),
        SyncV::Step2(u) => enc_uint(1) + enc_buf(u),
        SyncV::Update(u) => enc_uint(2) + enc_buf(u),
    }
}

/// ... and what `SyncMessage::decode` computes on ANY byte string: None = Err, Some((m, k)) = message m from the first k bytes
pub open spec fn dec_sync(s: Seq<u8>) -> Option<(SyncV, nat)> {
    match dec_tag(s) {
        None => None,
        Some((tag, k)) => {
            match dec_buf(s.skip(k as int)) {
                None => None,
                Some((b, k2)) => {
                    if tag == 0 {
                        match sv_dec(b) {
                            None => None,
                            Some(sv) => Some((SyncV::Step1(sv), k + k2)),
                        }
                    } else if tag == 1 {
                        Some((SyncV::Step2(b), k + k2))
                    } else if tag == 2 {
                        Some((SyncV::Update(b), k + k2))
                    } else {
                        None
                    }
                },
            }
        },
    }
}

impl SyncMessage {
    pub open spec fn v(&self) -> SyncV {
        match self {
            SyncMessage::SyncStep1(sv) => SyncV::Step1(*sv),
            SyncMessage::SyncStep2(u) => SyncV::Step2(u@),
            SyncMessage::Update(u) => SyncV::Update(u@),
        }
    }

    /*@extract yrs/src/sync/protocol.rs | impl Encode for SyncMessage | fn encode | label=sync_encode
    @sig
        ensures final(encoder).out() == old(encoder).out() + enc_sync(self.v()),
    @end
        proof {
            let o = old(encoder).out();
            match self.v() {
                SyncV::Step1(sv) => { assert(o + enc_uint(0) + enc_buf(sv_enc(sv)) =~= o + enc_sync(self.v())); },
                SyncV::Step2(u) => { assert(o + enc_uint(1) + enc_buf(u) =~= o + enc_sync(self.v())); },
                SyncV::Update(u) => { assert(o + enc_uint(2) + enc_buf(u) =~= o + enc_sync(self.v())); },
            }
        }
    @*/

    // TOTAL on every byte string + equality with the spec decoder (which keeps the three tags apart)
    /*@extract yrs/src/sync/protocol.rs | impl Decode for SyncMessage | fn decode | label=sync_decode
    @ret res
    @sig
        requires
            old(decoder).wf(),
        ensures
            final(decoder).wf(),
            match dec_sync(old(decoder).rest()) {
                Some((m, k)) => res is Ok && res->Ok_0.v() == m && k <= old(decoder).rest().len() && final(decoder).rest() == old(decoder).rest().skip(k as int),
                None => res is Err,
            },
            suffix_of(old(decoder).rest(), final(decoder).rest()),
    @start
        let ghost s0 = decoder.rest();
        proof { lemma_suffix_skip(s0, 0); }
    @before 1 `stmt:match`
        proof {
            let k = dec_tag(s0)->Some_0.1;
            lemma_suffix_skip(s0, k);
            lemma_suffix_trans(s0, decoder.rest());
            lemma_skip_skip_all(s0, k);
            if dec_buf(s0.skip(k as int)) is Some { lemma_to_vec_u8(dec_buf(s0.skip(k as int))->Some_0.0); }
        }
    @*/
}

/// C09 for SyncMessage: payloads shorter than 4 GiB (read_buf reads a u32 length)
pub open spec fn sync_dom(m: SyncV) -> bool {
    match m {
        SyncV::Step1(sv) => sv_enc(sv).len() <= u32::MAX,
        SyncV::Step2(u) => u.len() <= u32::MAX,
        SyncV::Update(u) => u.len() <= u32::MAX,
    }
}

pub proof fn lemma_tag_round_trip(t: u8, tail: Seq<u8>)
    ensures
        dec_tag(enc_uint(t as nat) + tail) == Some((t, enc_uint(t as nat).len())),
        (enc_uint(t as nat) + tail).skip(enc_uint(t as nat).len() as int) == tail,
{
    <u8 as VarInt>::law_dec_enc(t, tail);
    assert((enc_uint(t as nat) + tail).skip(enc_uint(t as nat).len() as int) =~= tail);
}

pub proof fn lemma_buf_round_trip(b: Seq<u8>, tail: Seq<u8>)
    requires
        b.len() <= u32::MAX,
    ensures
        dec_buf(enc_buf(b) + tail) == Some((b, enc_buf(b).len())),
        (enc_buf(b) + tail).skip(enc_buf(b).len() as int) == tail,
{
    lemma_dec_enc_buf(b, tail);
    assert((enc_buf(b) + tail).skip(enc_buf(b).len() as int) =~= tail);
}

/// C09: decoding the bytes `encode` appended, followed by ANY tail, returns the message and stops in front of the tail
pub proof fn theorem_sync_round_trip(m: SyncV, tail: Seq<u8>)
    requires
        sync_dom(m),
    ensures
        dec_sync(enc_sync(m) + tail) == Some((m, enc_sync(m).len())),
{
    let (t, b): (u8, Seq<u8>) = match m {
        SyncV::Step1(sv) => (0u8, sv_enc(sv)),
        SyncV::Step2(u) => (1u8, u),
        SyncV::Update(u) => (2u8, u),
    };
    let e = enc_uint(t as nat);
    assert(enc_sync(m) == e + enc_buf(b));
    assert(enc_sync(m) + tail =~= e + (enc_buf(b) + tail));
    lemma_tag_round_trip(t, enc_buf(b) + tail);
    lemma_buf_round_trip(b, tail);
    match m {
        SyncV::Step1(sv) => { law_sv_round_trip(sv); },
        _ => {},
    }
}

// ---- Message: the wire format.  The tag of every message kind is an unsigned var-int (y-protocols `writeVarUint`), which is
// also what the decoder reads.
pub open spec fn enc_msg(m: MsgV) -> Seq<u8> {
    match m {
        MsgV::Sync(s) => enc_uint(0) + enc_sync(s),
        MsgV::Awareness(u) => enc_uint(1) + enc_buf(au_enc(u)),
        MsgV::Auth(Some(reason)) => enc_uint(2) + enc_uint(0) + enc_buf(utf8(reason)),
        MsgV::Auth(None) => enc_uint(2) + enc_uint(1),
        MsgV::AwarenessQuery => enc_uint(3),
        MsgV::Custom(tag, data) => enc_uint(tag as nat) + enc_buf(data),
    }
}

/// what `Message::decode` computes on ANY byte string
pub open spec fn dec_msg(s: Seq<u8>) -> Option<(MsgV, nat)> {
    match dec_tag(s) {
        None => None,
        Some((tag, k)) => {
            let s1 = s.skip(k as int);
            if tag == 0 {
                match dec_sync(s1) {
                    None => None,
                    Some((m, k2)) => Some((MsgV::Sync(m), k + k2)),
                }
            } else if tag == 1 {
                match dec_buf(s1) {
                    None => None,
                    Some((b, k2)) => match au_dec(b) {
                        None => None,
                        Some(u) => Some((MsgV::Awareness(u), k + k2)),
                    },
                }
            } else if tag == 2 {
                match dec_tag(s1) {
                    None => None,
                    Some((p, k2)) => if p == 0 {
                        // `read_string`: a length-prefixed buffer that must be VALID UTF-8 (else Err(UnexpectedValue))
                        match dec_str(s1.skip(k2 as int)) {
                            None => None,
                            Some((r, k3)) => Some((MsgV::Auth(Some(r)), k + k2 + k3)),
                        }
                    } else {
                        Some((MsgV::Auth(None), k + k2))
                    },
                }
            } else if tag == 3 {
                Some((MsgV::AwarenessQuery, k))
            } else {
                match dec_buf(s1) {
                    None => None,
                    Some((b, k2)) => Some((MsgV::Custom(tag, b), k + k2)),
                }
            }
        },
    }
}

/// the input class of the repaired defect (C10): an Auth/PERMISSION_DENIED message whose reason is a well-framed buffer that is
/// NOT valid UTF-8.  (Before 6f5f4d8 `read_string` was `from_utf8_unchecked`: such a payload decoded "successfully".)
pub open spec fn msg_reason_invalid_utf8(s: Seq<u8>) -> bool {
    match dec_tag(s) {
        None => false,
        Some((tag, k)) => tag == 2 && match dec_tag(s.skip(k as int)) {
            None => false,
            Some((p, k2)) => p == 0 && match dec_buf(s.skip(k as int).skip(k2 as int)) {
                None => false,
                Some((b, k3)) => !valid_utf8(b),
            },
        },
    }
}

impl Message {
    pub open spec fn v(&self) -> MsgV {
        match self {
            Message::Sync(m) => MsgV::Sync(m.v()),
            Message::Auth(Some(r)) => MsgV::Auth(Some(r@)),
            Message::Auth(None) => MsgV::Auth(None),
            Message::AwarenessQuery => MsgV::AwarenessQuery,
            Message::Awareness(u) => MsgV::Awareness(*u),
            Message::Custom(tag, data) => MsgV::Custom(*tag, data@),
        }
    }

    // unconditional: whatever the message, exactly its wire format is appended (and nothing already written changes)
    /*@extract yrs/src/sync/protocol.rs | impl Encode for Message | fn encode | label=msg_encode
    @sig
        ensures
            final(encoder).out() == old(encoder).out() + enc_msg(self.v()),
    @end
        proof {
            let o = old(encoder).out();
            match self.v() {
                MsgV::Sync(s) => { assert(o + enc_uint(0) + enc_sync(s) =~= o + enc_msg(self.v())); },
                MsgV::Awareness(u) => { assert(o + enc_uint(1) + enc_buf(au_enc(u)) =~= o + enc_msg(self.v())); },
                MsgV::Auth(Some(r)) => { assert(o + enc_uint(2) + enc_uint(0) + enc_buf(utf8(r)) =~= o + enc_msg(self.v())); },
                MsgV::Auth(None) => { assert(o + enc_uint(2) + enc_uint(1) =~= o + enc_msg(self.v())); },
                MsgV::AwarenessQuery => {},
                MsgV::Custom(tag, data) => { assert(o + enc_uint(tag as nat) + enc_buf(data) =~= o + enc_msg(self.v())); },
            }
        }
    @*/

    // TOTAL on every byte string + equality with the spec decoder
    /*@extract yrs/src/sync/protocol.rs | impl Decode for Message | fn decode | label=msg_decode
    @ret res
    @sig
        requires
            old(decoder).wf(),
        ensures
            final(decoder).wf(),
            match dec_msg(old(decoder).rest()) {
                Some((m, k)) => res is Ok && res->Ok_0.v() == m && k <= old(decoder).rest().len() && final(decoder).rest() == old(decoder).rest().skip(k as int),
                None => res is Err,
            },
            // a reason that is not valid UTF-8 is a decoding ERROR of the documented kind (never a value)
            msg_reason_invalid_utf8(old(decoder).rest()) ==> res is Err && res->Err_0 is UnexpectedValue,
            suffix_of(old(decoder).rest(), final(decoder).rest()),
    @start
        let ghost s0 = decoder.rest();
        proof { lemma_suffix_skip(s0, 0); }
    @before 1 `stmt:match`
        proof {
            let k = dec_tag(s0)->Some_0.1;
            let s1 = s0.skip(k as int);
            lemma_suffix_skip(s0, k);
            lemma_suffix_trans(s0, s1);
            lemma_skip_skip_all(s0, k);
            if dec_buf(s1) is Some { lemma_to_vec_u8(dec_buf(s1)->Some_0.0); }
            if dec_tag(s1) is Some {
                let k2 = dec_tag(s1)->Some_0.1;
                <u8 as VarInt>::law_dec_bounded(s1);
                lemma_suffix_skip(s1, k2);
                lemma_suffix_trans(s1, s1.skip(k2 as int));
                lemma_skip_skip_all(s1, k2);
            }
        }
    @*/
}

// FINDING (fixed in /repo 6df1004; obligation tags::msg_encode_custom::post, C09): `Message::Custom(tag, data)` was WRITTEN with
// `write_u8(*tag)` (a raw byte) but READ with `read_var::<u8>()` (an unsigned var-int); the two agree only for tag < 128.
// Concrete: Message::Custom(128, vec![1, 2, 3]) encoded to [128, 3, 1, 2, 3], which the decoder reads as tag (128 & 127) | 3 << 7
// and fails.  The arm is kept as a separately named obligation (canary `custom_tag_raw_byte` re-introduces the defect).
/*@extract yrs/src/sync/protocol.rs | impl Encode for Message | region encode | arm=Message::Custom(tag, data) => | label=msg_encode_custom
@header
    fn msg_encode_custom<E: Encoder>(tag: &u8, data: &Vec<u8>, encoder: &mut E)
@sig
    ensures
        final(encoder).out() == old(encoder).out() + enc_msg(MsgV::Custom(*tag, data@)),
@end
    proof {
        let o = old(encoder).out();
        assert(o + enc_uint(*tag as nat) + enc_buf(data@) =~= o + enc_msg(MsgV::Custom(*tag, data@)));
    }
@*/

/// DOMAIN of the Message round trip: payloads shorter than 4 GiB; a custom tag must not collide with the built-in kinds
/// 0..=3 (a `Custom(2, ..)` is read back as `Auth`)
pub open spec fn msg_dom(m: MsgV) -> bool {
    match m {
        MsgV::Sync(s) => sync_dom(s),
        MsgV::Awareness(u) => au_enc(u).len() <= u32::MAX,
        MsgV::Auth(Some(r)) => utf8(r).len() <= u32::MAX,
        MsgV::Auth(None) => true,
        MsgV::AwarenessQuery => true,
        MsgV::Custom(tag, data) => tag >= 4 && data.len() <= u32::MAX,
    }
}

pub proof fn lemma_msg_rt_sync(s: SyncV, tail: Seq<u8>)
    requires
        sync_dom(s),
    ensures
        dec_msg(enc_msg(MsgV::Sync(s)) + tail) == Some((MsgV::Sync(s), enc_msg(MsgV::Sync(s)).len())),
{
    let e = enc_uint(0);
    let x = enc_msg(MsgV::Sync(s)) + tail;
    assert(x =~= e + (enc_sync(s) + tail));
    lemma_tag_round_trip(0, enc_sync(s) + tail);
    theorem_sync_round_trip(s, tail);
    assert(dec_tag(x) == Some((0u8, e.len())));
    assert(x.skip(e.len() as int) == enc_sync(s) + tail);
}

pub proof fn lemma_msg_rt_awareness(u: AwarenessUpdate, tail: Seq<u8>)
    requires
        au_enc(u).len() <= u32::MAX,
    ensures
        dec_msg(enc_msg(MsgV::Awareness(u)) + tail) == Some((MsgV::Awareness(u), enc_msg(MsgV::Awareness(u)).len())),
{
    let e = enc_uint(1);
    let x = enc_msg(MsgV::Awareness(u)) + tail;
    assert(x =~= e + (enc_buf(au_enc(u)) + tail));
    lemma_tag_round_trip(1, enc_buf(au_enc(u)) + tail);
    lemma_buf_round_trip(au_enc(u), tail);
    law_au_round_trip(u);
    assert(dec_tag(x) == Some((1u8, e.len())));
    assert(x.skip(e.len() as int) == enc_buf(au_enc(u)) + tail);
}

pub proof fn lemma_msg_rt_auth_denied(r: Seq<char>, tail: Seq<u8>)
    requires
        utf8(r).len() <= u32::MAX,
    ensures
        dec_msg(enc_msg(MsgV::Auth(Some(r))) + tail) == Some((MsgV::Auth(Some(r)), enc_msg(MsgV::Auth(Some(r))).len())),
{
    let e = enc_uint(2);
    let e2 = enc_uint(0);
    let x = enc_msg(MsgV::Auth(Some(r))) + tail;
    let x1 = e2 + (enc_buf(utf8(r)) + tail);
    assert(x =~= e + x1);
    lemma_tag_round_trip(2, x1);
    lemma_tag_round_trip(0, enc_buf(utf8(r)) + tail);
    lemma_buf_round_trip(utf8(r), tail);
    law_utf8_round_trip(r);
    law_utf8_valid(r);
    assert(dec_tag(x) == Some((2u8, e.len())));
    assert(x.skip(e.len() as int) == x1);
    assert(dec_tag(x1) == Some((0u8, e2.len())));
    assert(x1.skip(e2.len() as int) == enc_buf(utf8(r)) + tail);
}

pub proof fn lemma_msg_rt_auth_granted(tail: Seq<u8>)
    ensures
        dec_msg(enc_msg(MsgV::Auth(None)) + tail) == Some((MsgV::Auth(None), enc_msg(MsgV::Auth(None)).len())),
{
    let e = enc_uint(2);
    let e2 = enc_uint(1);
    let x = enc_msg(MsgV::Auth(None)) + tail;
    let x1 = e2 + tail;
    assert(x =~= e + x1);
    lemma_tag_round_trip(2, x1);
    lemma_tag_round_trip(1, tail);
    assert(dec_tag(x) == Some((2u8, e.len())));
    assert(x.skip(e.len() as int) == x1);
    assert(dec_tag(x1) == Some((1u8, e2.len())));
}

pub proof fn lemma_msg_rt_custom(tag: u8, data: Seq<u8>, tail: Seq<u8>)
    requires
        tag >= 4,
        data.len() <= u32::MAX,
    ensures
        dec_msg(enc_msg(MsgV::Custom(tag, data)) + tail) == Some((MsgV::Custom(tag, data), enc_msg(MsgV::Custom(tag, data)).len())),
{
    let e = enc_uint(tag as nat);
    let x = enc_msg(MsgV::Custom(tag, data)) + tail;
    assert(x =~= e + (enc_buf(data) + tail));
    lemma_tag_round_trip(tag, enc_buf(data) + tail);
    lemma_buf_round_trip(data, tail);
    assert(dec_tag(x) == Some((tag, e.len())));
    assert(x.skip(e.len() as int) == enc_buf(data) + tail);
}

/// C09 for Message, over the wire format `enc_msg` (var-int tags): every message of the domain, every tail
pub proof fn theorem_msg_round_trip(m: MsgV, tail: Seq<u8>)
    requires
        msg_dom(m),
    ensures
        dec_msg(enc_msg(m) + tail) == Some((m, enc_msg(m).len())),
{
    match m {
        MsgV::Sync(s) => { lemma_msg_rt_sync(s, tail); },
        MsgV::Awareness(u) => { lemma_msg_rt_awareness(u, tail); },
        MsgV::Auth(Some(r)) => { lemma_msg_rt_auth_denied(r, tail); },
        MsgV::Auth(None) => { lemma_msg_rt_auth_granted(tail); },
        MsgV::AwarenessQuery => { lemma_tag_round_trip(3, tail); },
        MsgV::Custom(tag, data) => { lemma_msg_rt_custom(tag, data, tail); },
    }
}
